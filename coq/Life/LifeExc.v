(* Life/LifeExc.v — property C03 over every run, the second half: the process ends EXCEPTED WITH EXACTLY THE INJECTED EXCEPTION.

   For a fault (h, k, e) in one of the life-cycle hooks of a transition (entering / entered / exit / terminated / close hooks),
   any program, listener scripts with re-entrant control calls, callbacks and any schedule that does not cancel the future
   from outside: at every point between two environment events, if the fault has fired (hook h has been called more than k
   times) the state is EXCEPTED e.

   Built on LifeEsc (which shows that a transition with a legal target fails only by firing the fault and that the second
   transition then goes through).  Added here, as separate passes over the same operations combined with the first by
   conjunction of weakest preconditions:
     EX  (control level, no precondition): inside a transition a control call runs no transition hook and leaves a terminal
         state alone;
     NP  (inside a transition): an operation that returns normally has not fired the fault; one that fails either raises
         the fault's exception or has not fired it;
     the second transition leaves exactly EXCEPTED e1 for the exception e1 it was given;
     HK  (control level): the invariant [handled] is kept. *)
From Coq Require Import List ZArith String Bool Arith Lia.
From RecordUpdate Require Import RecordUpdate.
From Plumpy Require Import Val Mon MonTac PortModel Model Run LifeAgree LifePtr LifeEsc.
Import ListNotations.
Local Open Scope list_scope.
Local Open Scope string_scope.

(* the hooks run by transitions *)
Definition smhook (h : string) : bool :=
  existsb (String.eqb h)
    ["on_run"; "on_wait"; "on_finish"; "on_kill"; "on_except"; "on_running"; "on_waiting"; "on_finished"; "on_excepted";
     "on_killed"; "on_exit_waiting"; "on_exit_running"; "on_terminated"; "on_close"].

Lemma nat_assoc_bump_other h x l : String.eqb h x = false -> nat_assoc h (nat_bump x l) = nat_assoc h l.
Proof.
  intro Hne. induction l as [|[k0 n] l IH]; cbn.
  - rewrite Hne. reflexivity.
  - destruct (String.eqb x k0) eqn:E; cbn.
    + destruct (String.eqb h k0) eqn:E2; [|reflexivity]. apply String.eqb_eq in E. apply String.eqb_eq in E2. subst.
      rewrite String.eqb_refl in Hne. discriminate.
    + destruct (String.eqb h k0); [reflexivity | exact IH].
Qed.

(* ------------------------------------------------------------------ no operation touches the configuration *)
Definition Tr1 (_ : world) : Prop := True.
Definition CFr (w w' : world) : Prop := cfg w' = cfg w.
Lemma CFr_refl w : Tr1 w -> CFr w w. Proof. reflexivity. Qed.
Lemma CFr_trans a b c : CFr a b -> CFr b c -> CFr a c. Proof. unfold CFr. congruence. Qed.
Lemma CFr_pre a b : Tr1 a -> CFr a b -> Tr1 b. Proof. intros; exact I. Qed.
Notation Cat := (Hat Tr1 CFr).
Definition CK {A} (m : LM A) : Prop := forall w, Cat m w.

Ltac cstep :=
  lazymatch goal with
  | |- CK _ => intro
  | |- Hat Tr1 CFr (bind get _) _ => apply Hat_get; cbv beta
  | |- Hat Tr1 CFr (bind _ _) _ => eapply Hat_bind; [exact CFr_trans | exact CFr_pre | | intros ? ? ]
  | |- Hat Tr1 CFr (ret _) _ => apply Hat_ret; exact CFr_refl
  | |- Hat Tr1 CFr (raise _) _ => apply Hat_raise; exact CFr_refl
  | |- Hat Tr1 CFr (attempt _) _ => apply Hat_attempt
  | |- Hat Tr1 CFr (finally _ _) _ => eapply Hat_finally; [exact CFr_trans | exact CFr_pre | | intro ]
  | |- Hat Tr1 CFr (try_catch _ _) _ => eapply Hat_try_catch; [exact CFr_trans | exact CFr_pre | | intros ? ? ]
  | |- Hat Tr1 CFr (when _ _) _ => apply Hat_when; [exact CFr_refl | intro ]
  | |- Hat Tr1 CFr (modify _) _ => apply Hat_modify; reflexivity
  | |- Hat Tr1 CFr (put _) _ => apply Hat_put; reflexivity
  | |- Hat Tr1 CFr (mapM_ _ _) _ => eapply Hat_mapM; [exact CFr_refl | exact CFr_trans | exact CFr_pre | intros ? ? ]
  | |- Hat _ _ (match ?x with _ => _ end) _ => destruct x eqn:?
  | |- Hat _ _ (if ?x then _ else _) _ => destruct x eqn:?
  | |- Hat _ _ (let _ := _ in _) _ => cbv zeta
  end.
Ltac cgo := repeat cstep.

Lemma emit_CK ev : CK (emit ev). Proof. intro w. unfold emit. cgo. Qed.
Lemma schedule_CK r : CK (schedule r). Proof. intro w. unfold schedule. cgo. Qed.
Lemma fresh_CK : CK fresh. Proof. intro w. unfold fresh. cgo. Qed.
Lemma hook_CK name : CK (hook name). Proof. intro w. unfold hook, emit. cgo. Qed.
Lemma sia_CK new : CK (set_interrupt_action new). Proof. intro w. unfold set_interrupt_action, cancel_act, set_act_fut. cgo. Qed.
Lemma sia_from_CK kd c : CK (set_interrupt_action_from kd c).
Proof. intro w. unfold set_interrupt_action_from, set_interrupt_action, cancel_act, set_act_fut. cgo. Qed.

Section CfgReentrant.
  Variable rec_ctl : ctl -> LM cret.
  Hypothesis Hrec : forall c, CK (rec_ctl c).

  Lemma fire_CK name : CK (fire rec_ctl name).
  Proof. intro w. unfold fire, emit. cgo. apply Hrec. Qed.
  Lemma pfut_set_CK f : CK (pfut_set f). Proof. intro w. unfold pfut_set, schedule. cgo. Qed.
  Lemma on_close_CK : CK on_close. Proof. intro w. unfold on_close, emit. cgo; apply hook_CK. Qed.
  Lemma close_CK : CK close. Proof. intro w. unfold close. cgo. apply on_close_CK. Qed.
  Lemma on_entering_CK ns : CK (on_entering ns).
  Proof. intro w. unfold on_entering. cgo; first [apply hook_CK | apply pfut_set_CK]. Qed.
  Lemma on_entered_CK w0 : CK (on_entered rec_ctl w0).
  Proof. intro w. unfold on_entered. cgo; first [apply hook_CK | apply fire_CK]. Qed.
  Lemma exit_current_CK ns : CK (exit_current ns).
  Proof. intro w. unfold exit_current. cgo; first [apply hook_CK | apply schedule_CK]. Qed.
  Lemma enter_next_CK ns : CK (enter_next rec_ctl ns).
  Proof. intro w. unfold enter_next. cgo; first [apply on_entering_CK | apply emit_CK | apply on_entered_CK]. Qed.
  Lemma on_terminated_CK : CK on_terminated.
  Proof. intro w. unfold on_terminated. cgo; first [apply hook_CK | apply schedule_CK | apply close_CK]. Qed.
  Lemma transition_body_CK ns : CK (transition_body rec_ctl ns).
  Proof. intro w. unfold transition_body. cgo; first [apply exit_current_CK | apply enter_next_CK | apply on_terminated_CK]. Qed.
  Lemma transition_to_failing_CK ns : CK (transition_to_failing rec_ctl ns).
  Proof. intro w. unfold transition_to_failing. cgo. apply transition_body_CK. Qed.
  Lemma transition_to_CK ns : CK (transition_to rec_ctl ns).
  Proof. intro w. unfold transition_to. cgo; first [apply transition_body_CK | apply transition_to_failing_CK]. Qed.
End CfgReentrant.

Section Fault.
  Variables (h : string) (k : nat) (e : exn).
  Hypothesis Hsm : smhook h = true.

  Definition flt (w : world) : Prop := cf_fault (cfg w) = Some (h, k, e).
  Definition cnt (w : world) : nat := nat_assoc h (occ w).
  Definition nofire (w w' : world) : Prop := flt w -> k < cnt w' -> k < cnt w.
  Definition handled (w : world) : Prop := flt w -> k < cnt w -> st w = Some (SExcepted e).

  Lemma spent_cnt w : flt w -> (spent w <-> k < cnt w).
  Proof. unfold flt, spent, cnt. intros ->. reflexivity. Qed.

  Ltac sm_cases H :=
    unfold smhook in H; cbn [existsb] in H;
    repeat (apply orb_true_iff in H; destruct H as [H|H]); try discriminate H; apply String.eqb_eq in H; subst.

  Lemma sm_not_listener name : String.eqb h ("L:" ++ name) = false.
  Proof. pose proof Hsm as H. sm_cases H; reflexivity. Qed.

  Lemma sm_not_other x : In x ["on_pausing"; "on_paused"; "on_playing"; "on_output_emitting"; "on_create"] -> String.eqb h x = false.
  Proof.
    intro Hx. pose proof Hsm as H. cbn in Hx. repeat (destruct Hx as [<-|Hx]); try contradiction; sm_cases H; reflexivity.
  Qed.

  (* ---------------------------------------------------------------- EX: control level, inside a transition *)
  Definition EXr (w w' : world) : Prop :=
    transitioning w' = transitioning w /\ cfg w' = cfg w
    /\ (transitioning w = true -> cnt w' = cnt w /\ (is_terminated w = true -> st w' = st w)).

  Lemma EXr_refl w : Tr1 w -> EXr w w.
  Proof. intros _. repeat split; reflexivity. Qed.
  Lemma EXr_trans a b c : EXr a b -> EXr b c -> EXr a c.
  Proof.
    intros (T1 & C1 & H1) (T2 & C2 & H2). split; [congruence|]. split; [congruence|]. intro Ht.
    destruct (H1 Ht) as [N1 S1]. destruct (H2 (eq_trans T1 Ht)) as [N2 S2]. split; [congruence|].
    intro Hterm. rewrite S2; [apply S1; exact Hterm|]. unfold is_terminated in *. rewrite (S1 Hterm). exact Hterm.
  Qed.
  Lemma EXr_pre a b : Tr1 a -> EXr a b -> Tr1 b.
  Proof. intros; exact I. Qed.

  Notation Eat := (Hat Tr1 EXr).
  Definition EK {A} (m : LM A) : Prop := forall w, Eat m w.

  Section CombE.
    Context {A B : Type}.
    Lemma Eat_ret (a : A) w : Eat (ret a) w. Proof. apply Hat_ret. exact EXr_refl. Qed.
    Lemma Eat_raise x w : Eat (raise x : LM A) w. Proof. apply Hat_raise. exact EXr_refl. Qed.
    Lemma Eat_bind (m : LM A) (f : A -> LM B) w : Eat m w -> (forall a, EK (f a)) -> Eat (bind m f) w.
    Proof. intros H1 H2. eapply Hat_bind; [exact EXr_trans | exact EXr_pre | exact H1 | intros a w1; apply H2]. Qed.
    Lemma Eat_get (f : world -> LM A) w : Eat (f w) w -> Eat (bind get f) w. Proof. apply Hat_get. Qed.
    Lemma Eat_attempt (m : LM A) w : Eat m w -> Eat (attempt m) w. Proof. apply Hat_attempt. Qed.
    Lemma Eat_finally (m : LM A) f w : Eat m w -> EK f -> Eat (finally m f) w.
    Proof. intros H1 H2. eapply Hat_finally; [exact EXr_trans | exact EXr_pre | exact H1 | exact H2]. Qed.
  End CombE.
  Lemma Eat_when b (m : LM unit) w : (b = true -> Eat m w) -> Eat (when b m) w.
  Proof. apply Hat_when. exact EXr_refl. Qed.
  Lemma EK_mapM {A} (f : A -> LM unit) l : (forall x, EK (f x)) -> EK (mapM_ f l).
  Proof. intros H w. eapply Hat_mapM; [exact EXr_refl | exact EXr_trans | exact EXr_pre | intros x w1; apply H]. Qed.

  Ltac estep2 :=
    lazymatch goal with
    | |- EK _ => intro
    | |- Hat Tr1 EXr (bind get _) _ => apply Eat_get; cbv beta
    | |- Hat Tr1 EXr (bind _ _) _ => apply Eat_bind; [ | intro ]
    | |- Hat Tr1 EXr (ret _) _ => apply Eat_ret
    | |- Hat Tr1 EXr (raise _) _ => apply Eat_raise
    | |- Hat Tr1 EXr (attempt _) _ => apply Eat_attempt
    | |- Hat Tr1 EXr (finally _ _) _ => apply Eat_finally
    | |- Hat Tr1 EXr (when _ _) _ => apply Eat_when; intro
    | |- Hat _ _ (match ?x with _ => _ end) _ => destruct x eqn:?
    | |- Hat _ _ (if ?x then _ else _) _ => destruct x eqn:?
    | |- Hat _ _ (let _ := _ in _) _ => cbv zeta
    end.

  (* strict frames: configuration, flags and hook counters untouched, a terminal state left alone *)
  Definition neq (w w' : world) : Prop :=
    transitioning w' = transitioning w /\ cfg w' = cfg w /\ occ w' = occ w /\ (is_terminated w = true -> st w' = st w).
  Definition FrN {A} (m : LM A) : Prop :=
    forall w (Q : result A -> world -> Prop), (forall r w', neq w w' -> Q r w') -> wp m Q w.
  Lemma FrN_EK {A} (m : LM A) : FrN m -> EK m.
  Proof.
    intros H w Q _ HQ. apply H. intros r w' (T & C & O & S). apply HQ. split; [exact T|]. split; [exact C|]. intros _.
    split; [unfold cnt; rewrite O; reflexivity | exact S].
  Qed.
  Ltac neq_done :=
    repeat split;
    first [ reflexivity
          | (let Hterm := fresh "Hterm" in
             intro Hterm; exfalso; unfold is_terminated in Hterm;
             repeat match goal with H : st _ = _ |- _ => cbn in H; rewrite H in Hterm end; cbn in Hterm; revert Hterm; discriminate) ].
  Ltac frn_auto := intros w Q HQ; repeat (wp_prim || wp_case); apply HQ; neq_done.

  Lemma emit_FrN ev : FrN (emit ev). Proof. unfold emit. frn_auto. Qed.
  Lemma schedule_FrN r : FrN (schedule r). Proof. unfold schedule. frn_auto. Qed.
  Lemma fresh_FrN : FrN fresh. Proof. unfold fresh. frn_auto. Qed.
  Lemma state_interrupt_FrN iid : FrN (state_interrupt iid). Proof. unfold state_interrupt, schedule. frn_auto. Qed.
  Lemma state_recall_FrN iid : FrN (state_recall iid). Proof. unfold state_recall, fresh. frn_auto. Qed.
  Lemma resume_FrN v : FrN (resume v). Proof. unfold resume, fresh, schedule. frn_auto. Qed.
  Lemma cancel_act_FrN id : FrN (cancel_act id). Proof. unfold cancel_act, set_act_fut. frn_auto. Qed.
  Lemma sia_FrN new : FrN (set_interrupt_action new). Proof. unfold set_interrupt_action, cancel_act, set_act_fut. frn_auto. Qed.
  Lemma sia_from_FrN kd c : FrN (set_interrupt_action_from kd c).
  Proof. unfold set_interrupt_action_from, set_interrupt_action, cancel_act, set_act_fut. frn_auto. Qed.
  Lemma modify_FrN f : (forall w, neq w (f w)) -> FrN (modify f).
  Proof. intros H w Q HQ. wp_prim. apply HQ. apply H. Qed.

  (* a hook other than h *)
  Lemma hook_other_EK name : String.eqb h name = false -> EK (hook name).
  Proof.
    intros Hne w Q _ HQ. unfold hook, emit. repeat (wp_prim || wp_case); apply HQ; (split; [reflexivity|]; split; [reflexivity|]; intros _;
      split; [unfold cnt; cbn; apply nat_assoc_bump_other; exact Hne | reflexivity]).
  Qed.

  Lemma FrN_ret {A} (a : A) : FrN (ret a : LM A). Proof. frn_auto. Qed.

  Section ControlE.
    Variable rec_ctl : ctl -> LM cret.
    Hypothesis Hrec : forall c, EK (rec_ctl c).

    Lemma fire_EK name : EK (fire rec_ctl name).
    Proof.
      intro w. unfold fire. estep2. estep2.
      - intros Q _ HQ. wp_prim. apply HQ. split; [reflexivity|]. split; [reflexivity|]. intros _.
        split; [unfold cnt; cbn; apply nat_assoc_bump_other; apply sm_not_listener | reflexivity].
      - estep2. estep2; [apply FrN_EK; apply emit_FrN|]. estep2. apply EK_mapM. intros ls w2.
        estep2; [|apply Eat_ret]. estep2; [apply Eat_attempt; apply Hrec|]. estep2. apply FrN_EK. apply emit_FrN.
    Qed.

    Ltac eleaf :=
      first [ apply fire_EK
            | apply hook_other_EK; apply sm_not_other; cbn; tauto
            | apply FrN_EK; first [ apply fresh_FrN | apply schedule_FrN | apply state_interrupt_FrN | apply state_recall_FrN
                                  | apply resume_FrN | apply cancel_act_FrN | apply sia_FrN | apply sia_from_FrN | apply emit_FrN
                                  | (apply modify_FrN; intro; repeat split; reflexivity) ] ].
    Ltac eauto2 := repeat first [ estep2 | eleaf ].

    Lemma Hrec_CK c : CK (rec_ctl c).
    Proof. intros w Q _ HQ. apply Hrec; [exact I|]. intros r w' (_ & C & _). apply HQ. exact C. Qed.

    (* a transition requested while another one is under way is refused at once; otherwise the flags are lowered again *)
    Lemma transition_to_EK ns : EK (transition_to rec_ctl ns).
    Proof.
      intros w Q _ HQ.
      eapply wp_use; [apply (wp_conj _ (fun _ w' => cfg w' = cfg w) (fun _ w' => cfg w' = cfg w -> EXr w w')); [apply (transition_to_CK rec_ctl Hrec_CK ns w (fun _ w' => cfg w' = cfg w)); [exact I | auto]|]|].
      2: { intros r w' [C X]. apply HQ. exact (X C). }
      unfold transition_to. do 2 wp_prim. destruct (transitioning w) eqn:Ht.
      - wp_prim. intros _. apply EXr_refl. exact I.
      - destruct ns as [ns|]; [|wp_prim; intros _; apply EXr_refl; exact I].
        eapply wp_use; [apply (finally_post _ _ (fun s => transitioning s = false)); intro; reflexivity|].
        intros r w' T C. split; [congruence|]. split; [exact C|]. intro X. congruence.
    Qed.

    Lemma do_pause_EK msg : EK (do_pause rec_ctl msg None).
    Proof. intro w. unfold do_pause. eauto2. Qed.

    Lemma pause_EK msg : EK (pause rec_ctl msg).
    Proof. intro w. unfold pause. eauto2. apply do_pause_EK. Qed.

    Lemma play_EK : EK (play rec_ctl).
    Proof. intro w. unfold play. eauto2. Qed.

    Lemma kill_EK msg : EK (kill rec_ctl msg).
    Proof. intro w. unfold kill. eauto2; apply transition_to_EK. Qed.

    Lemma fail_EK x : EK (fail rec_ctl x).
    Proof. intro w. unfold fail. eauto2; apply transition_to_EK. Qed.

    Lemma ctl_body_EK c : EK (ctl_body rec_ctl c).
    Proof.
      destruct c; cbn [ctl_body]; [apply pause_EK | apply play_EK | apply kill_EK | apply FrN_EK; apply resume_FrN | apply fail_EK |].
      intro w. apply Eat_raise.
    Qed.
  End ControlE.

  Lemma do_ctl_EK fuel : forall c, EK (do_ctl fuel c).
  Proof.
    induction fuel as [|f IH]; intros c; cbn [do_ctl]; [intro w; apply Eat_raise|]. apply ctl_body_EK. exact IH.
  Qed.

  (* ---------------------------------------------------------------- NP: inside a transition *)
  Definition NPr {A} (r : result A) (w w' : world) : Prop :=
    transitioning w' = true /\ cfg w' = cfg w /\ (is_ok r -> nofire w w')
    /\ (forall e1, r = Err e1 -> (flt w -> e1 = e) \/ nofire w w').

  Definition NPat {A} (m : LM A) (w : world) : Prop :=
    forall Q : result A -> world -> Prop, transitioning w = true -> (forall r w', NPr r w w' -> Q r w') -> wp m Q w.
  Definition NK {A} (m : LM A) : Prop := forall w, NPat m w.

  Lemma nofire_refl w : nofire w w. Proof. intros _ H. exact H. Qed.
  Lemma nofire_trans a b c : cfg b = cfg a -> nofire a b -> nofire b c -> nofire a c.
  Proof. intros C H1 H2 F X. apply H1; [exact F|]. apply H2; [unfold flt in *; rewrite C; exact F | exact X]. Qed.
  Lemma nofire_cnt w w' : cnt w' = cnt w -> nofire w w'.
  Proof. intros E _ H. rewrite <- E. exact H. Qed.

  Lemma NP_ret {A} (a : A) w : NPat (ret a) w.
  Proof. intros Q T HQ. wp_prim. apply HQ. split; [exact T|]. split; [reflexivity|]. split; [intros _; apply nofire_refl | discriminate]. Qed.
  Lemma NP_raise {A} x w : NPat (raise x : LM A) w.
  Proof. intros Q T HQ. wp_prim. apply HQ. split; [exact T|]. split; [reflexivity|]. split; [intros [] | intros e1 _; right; apply nofire_refl]. Qed.
  Lemma NP_bind {A B} (m : LM A) (f : A -> LM B) w : NPat m w -> (forall a, NK (f a)) -> NPat (bind m f) w.
  Proof.
    intros Hm Hf Q T HQ. wp_prim. apply Hm; [exact T|]. intros r w1 (T1 & C1 & O1 & E1). destruct r as [a|x]; cbv beta iota.
    - apply Hf; [exact T1|]. intros r2 w2 (T2 & C2 & O2 & E2). apply HQ. split; [exact T2|]. split; [congruence|]. split.
      + intro H. eapply nofire_trans; [exact C1 | apply O1; exact I | apply O2; exact H].
      + intros e1 H. destruct (E2 e1 H) as [X|X]; [left; intro F; apply X; unfold flt in *; rewrite C1; exact F|].
        right. eapply nofire_trans; [exact C1 | apply O1; exact I | exact X].
    - apply HQ. split; [exact T1|]. split; [exact C1|]. split; [intros [] | intros e1 H; injection H as <-; apply E1; reflexivity].
  Qed.
  Lemma NP_get {A} (f : world -> LM A) w : NPat (f w) w -> NPat (bind get f) w.
  Proof. intros H Q T HQ. do 2 wp_prim. apply H; assumption. Qed.
  Lemma NP_when b (m : LM unit) w : (b = true -> NPat m w) -> NPat (when b m) w.
  Proof. destruct b; intro H; [apply H; reflexivity | apply NP_ret]. Qed.

  (* frames: flags, configuration and counters untouched *)
  Definition teq (w w' : world) : Prop := transitioning w' = transitioning w /\ cfg w' = cfg w /\ occ w' = occ w.
  Definition FrT {A} (m : LM A) : Prop :=
    forall w (Q : result A -> world -> Prop), (forall r w', teq w w' -> Q r w') -> wp m Q w.
  Lemma FrT_NK {A} (m : LM A) : FrT m -> NK m.
  Proof.
    intros H w Q T HQ. apply H. intros r w' (T1 & C1 & O1). apply HQ. split; [congruence|]. split; [exact C1|].
    assert (N : nofire w w') by (apply nofire_cnt; unfold cnt; rewrite O1; reflexivity). split; [intros _; exact N | intros e1 _; right; exact N].
  Qed.
  Ltac frt_auto := intros w Q HQ; repeat (wp_prim || wp_case); apply HQ; repeat split; reflexivity.
  Lemma emit_FrT ev : FrT (emit ev). Proof. unfold emit. frt_auto. Qed.
  Lemma schedule_FrT r : FrT (schedule r). Proof. unfold schedule. frt_auto. Qed.
  Lemma pfut_set_FrT f : FrT (pfut_set f). Proof. unfold pfut_set, schedule. frt_auto. Qed.
  Lemma modify_FrT f : (forall w, teq w (f w)) -> FrT (modify f).
  Proof. intros H w Q HQ. wp_prim. apply HQ. apply H. Qed.

  Lemma hook_NK name : NK (hook name).
  Proof.
    intros w Q T HQ. unfold hook, emit. repeat wp_prim.
    destruct (cf_fault (cfg w)) as [[[h' k'] e']|] eqn:Hf; cbn [cfg set]; rewrite ?Hf.
    - destruct (String.eqb h' name && Nat.eqb k' (nat_assoc name (occ w))) eqn:Hc; wp_prim; apply HQ.
      + split; [exact T|]. split; [reflexivity|]. split; [intros []|]. intros e1 H1. injection H1 as <-. left.
        unfold flt. cbn. rewrite Hf. intro X. injection X as _ _ <-. reflexivity.
      + split; [exact T|]. split; [reflexivity|]. split; [|discriminate]. intros _ F. unfold flt in F. cbn in F. rewrite Hf in F.
        injection F as -> -> ->. unfold cnt. cbn. destruct (String.eqb h name) eqn:Hn.
        * apply String.eqb_eq in Hn. subst name. rewrite nat_assoc_bump_same. cbn in Hc.
          apply Nat.eqb_neq in Hc. lia.
        * rewrite (nat_assoc_bump_other _ _ _ Hn). auto.
    - wp_prim. apply HQ. split; [exact T|]. split; [reflexivity|]. split; [|discriminate]. intros _ F. unfold flt in F. cbn in F. congruence.
  Qed.

  Ltac nstep :=
    lazymatch goal with
    | |- NK _ => intro
    | |- NPat (bind get _) _ => apply NP_get; cbv beta
    | |- NPat (bind _ _) _ => apply NP_bind; [ | intro ]
    | |- NPat (ret _) _ => apply NP_ret
    | |- NPat (raise _) _ => apply NP_raise
    | |- NPat (when _ _) _ => apply NP_when; intro
    | |- NPat (match ?x with _ => _ end) _ => destruct x eqn:?
    | |- NPat (if ?x then _ else _) _ => destruct x eqn:?
    | |- NPat (let _ := _ in _) _ => cbv zeta
    end.

  Lemma put_NP w w' : teq w w' -> NPat (put w') w.
  Proof.
    intros (T1 & C1 & O1) Q T HQ. wp_prim. apply HQ. split; [congruence|]. split; [exact C1|].
    assert (N : nofire w w') by (apply nofire_cnt; unfold cnt; rewrite O1; reflexivity). split; [intros _; exact N | discriminate].
  Qed.

  Section TransitionN.
    Variable rec_ctl : ctl -> LM cret.
    Hypothesis Hrec : forall c, EK (rec_ctl c).

    Lemma mapM_ok {A} (f : A -> LM unit) l : (forall x w, wp (f x) (fun r _ => is_ok r) w) -> forall w, wp (mapM_ f l) (fun r _ => is_ok r) w.
    Proof.
      intro Hf. induction l as [|x l IH]; intro w; cbn [mapM_]; [wp_prim; exact I|].
      wp_prim. eapply wp_use; [apply Hf|]. intros r w1 Hr. destruct r; [|destruct Hr]. apply IH.
    Qed.

    Lemma wp_any {A} (m : LM A) (Q : result A -> world -> Prop) w : (forall r s, Q r s) -> wp m Q w.
    Proof. intro H. unfold wp. apply H. Qed.

    Lemma fire_ok name w : wp (fire rec_ctl name) (fun r _ => is_ok r) w.
    Proof.
      unfold fire, emit. repeat wp_prim. apply mapM_ok. intros ls w1.
      destruct (String.eqb (ls_event ls) name && Nat.eqb (ls_occ ls) (nat_assoc ("L:" ++ name) (occ w))); [|wp_prim; exact I].
      do 2 wp_prim. apply wp_any. intros r s. unfold emit. wp_prim. exact I.
    Qed.

    (* notifying the listeners never fails and, inside a transition, runs no transition hook *)
    Lemma fire_NK name : NK (fire rec_ctl name).
    Proof.
      intros w Q T HQ.
      eapply wp_use; [apply wp_conj; [apply (fire_EK rec_ctl Hrec name w (fun _ w' => EXr w w')); [exact I | auto] | apply fire_ok]|].
      intros r w' [(T1 & C1 & X1) Hr]. destruct (X1 T) as [N1 _]. apply HQ. split; [congruence|]. split; [exact C1|].
      split; [intros _; apply nofire_cnt; exact N1|]. intros e1 He. subst r. destruct Hr.
    Qed.

    Ltac nleaf :=
      first [ apply hook_NK | apply fire_NK
            | apply FrT_NK; first [ apply emit_FrT | apply schedule_FrT | apply pfut_set_FrT
                                  | (apply modify_FrT; intro; repeat split; reflexivity) ]
            | (apply put_NP; repeat split; reflexivity) ].
    Ltac nauto := repeat first [ nstep | nleaf ].

    Lemma on_close_NK : NK on_close.
    Proof.
      intros w Q T HQ. unfold on_close. wp_prim. apply hook_NK; [exact T|]. intros r w1 N1. destruct r as [u|x]; cbv beta iota.
      2: { apply HQ. exact N1. }
      destruct N1 as (T1 & C1 & O1 & _). wp_prim.
      assert (HB : FrT (bind get (fun w => bind (mapM_ (fun c => emit (EvCleanup c)) (cleanups w)) (fun _ => modify (fun w => w <| cleanups := [] |>))))).
      { intros wz Qz Hz. do 3 wp_prim.
        assert (Hm : forall l wy (Qy : result unit -> world -> Prop), (forall r w', teq wy w' -> Qy r w') -> wp (mapM_ (fun c => emit (EvCleanup c)) l) Qy wy).
        { induction l as [|c l IH]; intros wy Qy Hy; cbn [mapM_]; [wp_prim; apply Hy; repeat split; reflexivity|].
          wp_prim. apply emit_FrT. intros r w' E1. destruct r; cbv beta iota; [|apply Hy; exact E1].
          apply IH. intros r2 w2 E2. apply Hy. destruct E1 as (A1 & A2 & A3). destruct E2 as (B1 & B2 & B3). repeat split; congruence. }
        apply Hm. intros r w' E1. destruct r; cbv beta iota; [wp_prim|]; apply Hz; [|exact E1].
        destruct E1 as (A1 & A2 & A3). repeat split; assumption. }
      apply HB. intros r2 w2 (A1 & A2 & A3). wp_prim.
      assert (N : nofire w (w2 <| hooks_alive := false |> <| closed := true |>)).
      { eapply nofire_trans; [exact C1 | apply O1; exact I | apply nofire_cnt; unfold cnt; cbn; rewrite A3; reflexivity]. }
      destruct r2; apply HQ; (split; [cbn; congruence|]; split; [cbn; congruence|]; split; [intros _; exact N | intros e1 _; right; exact N]).
    Qed.

    Lemma close_NK : NK close.
    Proof. intro w. unfold close. nstep. nstep; [nstep | apply on_close_NK]. Qed.

    Lemma on_entering_NK ns : NK (on_entering ns).
    Proof. intro w. unfold on_entering. nauto. Qed.

    Lemma on_entered_NK w0 : NK (on_entered rec_ctl w0).
    Proof. intro w. unfold on_entered. nauto. Qed.

    Lemma exit_current_NK ns : NK (exit_current ns).
    Proof. intro w. unfold exit_current. nauto. Qed.

    Lemma enter_next_NK ns : NK (enter_next rec_ctl ns).
    Proof.
      intro w. unfold enter_next. nstep. nstep; [nstep; [apply on_entering_NK | nstep]|]. nstep. nstep; [nstep|].
      nstep. nstep; [nleaf|]. nstep. nstep; [nleaf|]. nstep. nstep. nstep; [nstep; apply on_entered_NK | nstep; nstep].
    Qed.

    Lemma on_terminated_NK : NK on_terminated.
    Proof. intro w. unfold on_terminated. nstep; [nleaf|]. nstep. nstep. nstep; [nauto | nstep; apply close_NK]. Qed.

    Lemma transition_body_N ns w (Q : result unit -> world -> Prop) :
      transitioning w = false -> (forall r w', NPr r w w' -> Q r w') -> wp (transition_body rec_ctl ns) Q w.
    Proof.
      intros T HQ. unfold transition_body. do 2 wp_prim.
      assert (H : NK (bind get (fun w => bind (when (negb (transition_failing w)) (exit_current ns))
                    (fun _ => bind (enter_next rec_ctl ns) (fun r => bind (match r with
                       | Some s' => bind (exit_current s') (fun _ => bind (enter_next rec_ctl s') (fun _ => ret tt))
                       | None => ret tt end) (fun _ => bind get (fun w' => when (is_terminated w') on_terminated))))))).
      { intro w0. nstep. nstep; [nstep; apply exit_current_NK|]. nstep. nstep; [apply enter_next_NK|]. nstep.
        nstep; [nstep; [nstep; [apply exit_current_NK|]; nstep; nstep; [apply enter_next_NK | nstep; nstep] | nstep]|].
        nstep. nstep. nstep. apply on_terminated_NK. }
      apply H; [reflexivity|]. intros r w' N. apply HQ. exact N.
    Qed.

    (* ---------------------------------------------------------------- a terminal state is left alone by what follows its entry *)
    Definition SSr (w w' : world) : Prop :=
      transitioning w' = transitioning w /\ (transitioning w = true -> is_terminated w = true -> st w' = st w).
    Lemma SSr_refl w : Tr1 w -> SSr w w. Proof. intros _. split; auto. Qed.
    Lemma SSr_trans a b c : SSr a b -> SSr b c -> SSr a c.
    Proof.
      intros [T1 S1] [T2 S2]. split; [congruence|]. intros Ht Hm. rewrite S2; [apply S1; assumption | congruence|].
      unfold is_terminated in *. rewrite (S1 Ht Hm). exact Hm.
    Qed.
    Lemma SSr_pre a b : Tr1 a -> SSr a b -> Tr1 b. Proof. intros; exact I. Qed.
    Definition SK {A} (m : LM A) : Prop := forall w, Hat Tr1 SSr m w.

    Ltac sstep :=
      lazymatch goal with
      | |- SK _ => intro
      | |- Hat Tr1 SSr (bind get _) _ => apply Hat_get; cbv beta
      | |- Hat Tr1 SSr (bind _ _) _ => eapply Hat_bind; [exact SSr_trans | exact SSr_pre | | intros ? ? ]
      | |- Hat Tr1 SSr (ret _) _ => apply Hat_ret; exact SSr_refl
      | |- Hat Tr1 SSr (raise _) _ => apply Hat_raise; exact SSr_refl
      | |- Hat Tr1 SSr (attempt _) _ => apply Hat_attempt
      | |- Hat Tr1 SSr (finally _ _) _ => eapply Hat_finally; [exact SSr_trans | exact SSr_pre | | intro ]
      | |- Hat Tr1 SSr (when _ _) _ => apply Hat_when; [exact SSr_refl | intro ]
      | |- Hat Tr1 SSr (modify _) _ => apply Hat_modify; split; [reflexivity | intros _ _; reflexivity]
      | |- Hat Tr1 SSr (put _) _ => apply Hat_put; split; [reflexivity | intros _ _; reflexivity]
      | |- Hat Tr1 SSr (mapM_ _ _) _ => eapply Hat_mapM; [exact SSr_refl | exact SSr_trans | exact SSr_pre | intros ? ? ]
      | |- Hat _ _ (match ?x with _ => _ end) _ => destruct x eqn:?
      | |- Hat _ _ (if ?x then _ else _) _ => destruct x eqn:?
      | |- Hat _ _ (let _ := _ in _) _ => cbv zeta
      end.
    Ltac sgo := repeat sstep.

    Lemma hook_SK name : SK (hook name). Proof. intro w. unfold hook, emit. sgo. Qed.
    Lemma rec_SK c : SK (rec_ctl c).
    Proof. intros w Q _ HQ. apply Hrec; [exact I|]. intros r w' (T1 & _ & X). apply HQ. split; [exact T1|]. intros Ht Hm. apply (X Ht). exact Hm. Qed.
    Lemma fire_SK name : SK (fire rec_ctl name).
    Proof. intro w. unfold fire, emit. sgo. apply rec_SK. Qed.
    Lemma on_entered_SK w0 : SK (on_entered rec_ctl w0).
    Proof. intro w. unfold on_entered. sgo; first [apply hook_SK | apply fire_SK]. Qed.
    Lemma on_close_SK : SK on_close. Proof. intro w. unfold on_close, emit. sgo; apply hook_SK. Qed.
    Lemma close_SK : SK close. Proof. intro w. unfold close. sgo. apply on_close_SK. Qed.
    Lemma on_terminated_SK : SK on_terminated.
    Proof. intro w. unfold on_terminated, schedule. sgo; first [apply hook_SK | apply close_SK]. Qed.

    Lemma on_entering_excepted_none e1 w : wp (on_entering (SExcepted e1)) (fun r _ => forall s', r <> Ok (Some s')) w.
    Proof. unfold on_entering, hook, emit, pfut_set, schedule. repeat (wp_prim || wp_case); intros s' X; discriminate X. Qed.

    (* the second transition leaves exactly EXCEPTED e1 *)
    Lemma body_excepted_st e1 w :
      transitioning w = false ->
      wp (transition_body rec_ctl (SExcepted e1)) (fun r w' => is_ok r -> st w' = Some (SExcepted e1)) w.
    Proof.
      intros T. unfold transition_body. do 4 wp_prim.
      set (w0 := w <| transitioning := true |>).
      assert (Hex : NPat (when (negb (transition_failing w0)) (exit_current (SExcepted e1))) w0).
      { apply NP_when. intro. apply exit_current_NK. }
      wp_prim. apply Hex; [reflexivity|]. intros r1 w1 (T1 & _). destruct r1 as [u|x]; cbv beta iota; [|intros []].
      wp_prim. unfold enter_next. do 3 wp_prim.
      (* after on_entering *)
      assert (Hrest : forall w1', transitioning w1' = true ->
                wp (bind get (fun wa => bind (put (wa <| st := Some (SExcepted e1) |> <| wintr := None |> <| wrecalled := [] |>))
                     (fun _ => bind (emit (EvEntered (cur_label w1) (label_of (SExcepted e1))))
                     (fun _ => bind get (fun w2 => bind (when (hooks_alive w2) (on_entered rec_ctl w1)) (fun _ => ret None))))))
                   (fun r w' => match r with
                                | Ok r0 => wp (bind (match r0 with
                                                     | Some s' => bind (exit_current s') (fun _ => bind (enter_next rec_ctl s') (fun _ => ret tt))
                                                     | None => ret tt end)
                                                    (fun _ => bind get (fun w' => when (is_terminated w') on_terminated)))
                                              (fun r w' => is_ok r -> st w' = Some (SExcepted e1)) w'
                                | Err _ => is_ok (Err e : result unit) -> st w' = Some (SExcepted e1)
                                end) w1').
      { intros w1' T1'. unfold emit. do 8 wp_prim.
        match goal with |- wp _ _ ?wx => assert (S2 : st wx = Some (SExcepted e1)) by reflexivity;
                                          assert (T2 : transitioning wx = true) by exact T1'; generalize dependent wx end.
        intros w2 S2 T2.
        assert (M2 : is_terminated w2 = true) by (unfold is_terminated; rewrite S2; reflexivity).
        assert (Hoe : Hat Tr1 SSr (when (hooks_alive w2) (on_entered rec_ctl w1)) w2).
        { apply Hat_when; [exact SSr_refl | intro; apply on_entered_SK]. }
        wp_prim. apply Hoe; [exact I|]. intros r3 w3 [T3 S3]. destruct r3; cbv beta iota; [|intros []].
        repeat wp_prim.
        assert (S3' : st w3 = Some (SExcepted e1)) by (rewrite (S3 T2 M2); exact S2).
        assert (M3 : is_terminated w3 = true) by (unfold is_terminated; rewrite S3'; reflexivity).
        rewrite M3. cbn [when]. apply on_terminated_SK; [exact I|]. intros r4 w4 [T4 S4] _. rewrite S4; [exact S3' | congruence | exact M3]. }
      destruct (hooks_alive w1).
      - eapply wp_use; [apply wp_conj; [apply (on_entering_NK (SExcepted e1) w1 (fun _ w' => transitioning w' = true)); [exact T1 | intros r w' N; apply N] |
                                        apply on_entering_excepted_none]|].
        intros r2 w2 [T2 Hn]. destruct r2 as [[s'|]|x]; cbv beta iota.
        + exfalso. apply (Hn s'). reflexivity.
        + apply Hrest. exact T2.
        + intros [].
      - wp_prim. apply Hrest. exact T1.
    Qed.

    Hypothesis HrecX : forall c, XK (rec_ctl c).

    (* a transition with a legal target during which the fault fires ends EXCEPTED e *)
    Lemma transition_to_exc ns w :
      GA w ->
      wp (transition_to rec_ctl (Some ns))
         (fun r w' => to_ok w ns -> flt w -> ~ k < cnt w -> k < cnt w' -> st w' = Some (SExcepted e)) w.
    Proof.
      intros G. unfold transition_to. do 2 wp_prim. destruct (transitioning w) eqn:Htr.
      { wp_prim. intros (X & _). congruence. }
      destruct G as [G0 G4]. pose proof (G4 Htr) as Hfl. do 2 wp_prim.
      (* the first body: three views of it *)
      eapply wp_use.
      { apply (wp_conj _ (fun r w1 => RT (Some (label_of ns)) (w <| transitioning := true |>) w1 /\ (body_ok w ns -> is_err r -> fired w w1))
                         (fun r w1 => NPr r w w1)).
        - apply transition_body_spec; [exact HrecX | exact G0 | exact Htr | congruence|]. intros r w1 R F _. split; assumption.
        - apply transition_body_N; [exact Htr | auto]. }
      intros r1 w1 [[R1 F1] N1]. destruct R1 as (G1 & C1 & Q1 & _ & _ & _ & X1 & Fl1 & _). cbn in C1, X1, Fl1.
      destruct N1 as (_ & _ & O1 & E1).
      destruct r1 as [u|e1]; cbv beta iota.
      - wp_prim. intros Hto F Hn Hs. exfalso. apply Hn. apply (O1 I F). exact Hs.
      - do 4 wp_prim. cbn [transition_failing set]. rewrite Fl1, Hfl. do 2 wp_prim.
        destruct (label_eqb (label_of ns) LCreated) eqn:Hcr.
        { do 2 wp_prim. intros (_ & _ & X). exfalso. apply X. destruct (label_of ns); try discriminate. reflexivity. }
        set (w2 := w1 <| transitioning := false |> <| transition_failing := true |>).
        unfold transition_to_failing. do 2 wp_prim. change (transitioning w2) with false. cbv iota. do 2 wp_prim.
        eapply wp_use.
        { apply (wp_conj _ (fun r w3 => is_err r -> fired w2 w3) (fun r w3 => is_ok r -> st w3 = Some (SExcepted e1))).
          - apply transition_body_spec; [exact HrecX | apply GA0_flags; apply G1 | reflexivity | reflexivity|].
            intros r w3 _ F _ He. apply F; [intro X; discriminate X | exact He].
          - apply body_excepted_st. reflexivity. }
        intros r3 w3 [F3 S3].
        assert (Hfin : to_ok w ns -> flt w -> ~ k < cnt w -> is_ok r3 /\ st w3 = Some (SExcepted e)).
        { intros (_ & Hl & _) F Hn.
          assert (Hfd : fired w w1) by (apply F1; [intros _; exact Hl | exact I]).
          assert (F1' : flt w1) by (unfold flt in *; rewrite C1; exact F).
          assert (Hs1 : k < cnt w1) by (apply (spent_cnt w1 F1'); apply Hfd).
          assert (He1 : e1 = e).
          { destruct (E1 e1 eq_refl) as [X|X]; [apply X; exact F | exfalso; apply Hn; apply (X F); exact Hs1]. }
          assert (Hok : is_ok r3).
          { destruct r3; [exact I|]. exfalso. destruct (F3 I) as [Hns _]. apply Hns. unfold w2, spent. cbn. apply Hfd. }
          split; [exact Hok|]. rewrite <- He1. apply S3. exact Hok. }
        destruct r3 as [u3|e3]; cbv beta iota.
        + do 2 wp_prim. intros Hto F Hn _. destruct (Hfin Hto F Hn) as [_ S]. exact S.
        + do 4 wp_prim. intros Hto F Hn _. destruct (Hfin Hto F Hn) as [[] _].
    Qed.
  End TransitionN.
End Fault.
