(* Life/LifeReturn.v — C02: step_until_terminated() returns.  LifeWake (every suspended stepping task is going to be woken)
   combined with LifeEsc (the stepping task never fails): in every run without faults and without an outside cancellation
   of the process future, once the process has terminated and the loop has nothing left to run, the stepping task has
   returned — unless the model's fuel ran out or the step is still blocked in the program's own await of an environment
   future nobody completed. *)
From Coq Require Import List String Bool Arith.
From Plumpy Require Import Val Mon PortModel Model Run LifeWake.
From Plumpy Require LifeEsc.
Import ListNotations.

Theorem stepping_returns_for_sure c es w :
  cf_fault c = None -> run c es = Some w -> ~ In ECancelFuture es -> is_terminated w = true -> ready w = [] ->
  t0 w = PcDone \/ t0 w = PcFailed EOutOfFuel
  \/ (exists rest r k, t0 w = PcInStep rest r (Some k) /\ find (fun kw => Nat.eqb (fst kw) k) (exts w) = None).
Proof.
  intros Hf Hr Hn Ht Hq. destruct (stepping_returns c es w Hf Hr Ht Hq) as [H|[[e H]|H]].
  - left; exact H.
  - right; left. rewrite H. f_equal. apply (LifeEsc.nothing_escapes c es w e Hr Hn). right; exact H.
  - right; right; exact H.
Qed.
