(* Life/Run.v — the environment of M1: the loop runs one ready callback at a time; control requests,
   cancellation of the process future, late callbacks and completions of environment-owned futures are
   placed between callbacks.  No proofs. *)
From Coq Require Import List ZArith String Bool Arith.
From RecordUpdate Require Import RecordUpdate.
From Plumpy Require Import Val Mon PortModel Model.
Import ListNotations.
Local Open Scope list_scope.
Local Open Scope mon_scope.

Inductive env_event :=
| ETick                            (* run the first ready callback (nothing happens when none is ready) *)
| ECtl (c : ctl)                   (* a direct control call from outside *)
| ECancelFuture                    (* process.future().cancel() *)
| ELate (cb : nat)                 (* process.call_soon(callback cb) from outside *)
| EExtDone (k : nat) (w : wake)    (* an environment-owned future completes *)
| EDrain (n : nat).                (* tick until nothing is ready, at most n times *)

Definition tick : LM unit :=
  w <- get ;;
  match ready w with
  | [] => ret tt
  | r :: rest => put (w <| ready := rest |>) ;;; run_entry r
  end.

Fixpoint drain (n : nat) : LM unit :=
  match n with
  | 0 => ret tt
  | S n' =>
      w <- get ;;
      match ready w with
      | [] => ret tt
      | _ => tick ;;; drain n'
      end
  end.

Definition env_step_m (e : env_event) : LM unit :=
  match e with
  | ETick => tick
  | ECtl c => r <- ctl_observed c ;; emit (EvCtl c r)
  | ECancelFuture =>
      w <- get ;;
      match pfut w with
      | PfPending =>
          if pfut_original w
          then put (w <| pfut := PfCancelled |> <| orig_fut_cancelled := true |>) ;;; schedule RTryKilling
          else put (w <| pfut := PfCancelled |>)
      | _ => ret tt
      end
  | ELate cb => schedule (RCallback cb)
  | EExtDone k wk =>
      w <- get ;;
      match find (fun kw => Nat.eqb (fst kw) k) (exts w) with
      | Some _ => ret tt
      | None =>
          put (w <| exts := exts w ++ [(k, wk)] |>) ;;;
          match t0 w with
          | PcInStep _ _ (Some k') => when (Nat.eqb k k') (schedule (RWakeT0 wk))
          | _ => ret tt
          end
      end
  | EDrain n => drain n
  end.

(* the environment never sees an exception: every entry point catches *)
Definition env_step (w : world) (e : env_event) : world := snd (env_step_m e w).

Definition run_from (w : world) (es : list env_event) : world := fold_left env_step es w.

(* construct the process, create the stepping task, then run the schedule; None: the constructor raised *)
Definition run (c : config) (es : list env_event) : option world :=
  match construct_process c with
  | (Ok _, w) => Some (run_from w es)
  | (Err _, _) => None
  end.
