(* Life/LifeFault4.v — C03, continued: faults in the hooks run by a kill() between steps (from RUNNING and from
   WAITING): kill() returns normally or not at all is not the point — the process ends EXCEPTED with the fault. *)
From Coq Require Import List ZArith String Bool Arith Lia.
From RecordUpdate Require Import RecordUpdate.
From Plumpy Require Import Val Mon MonTac PortModel Model Run LifeSx LifeFault.
Import ListNotations.
Local Open Scope list_scope.
Local Open Scope mon_scope.
Local Open Scope string_scope.

Definition contained_ctl (e : exn) (r : result cret) (w' : world) : Prop :=
  st w' = Some (SExcepted e) /\ pfut w' = PfExn e /\ closed w' = true.

Lemma fault_kill w h e f a k msg :
  In h ["on_exit_running"; "on_kill"; "on_killed"] ->
  faulty w h e -> stepping w = false -> st w = Some (SRunning f a k) ->
  wp (ctl_call (CKill msg)) (contained_ctl e) w.
Proof.
  intros Hh HF Hstp Hst. unfold ctl_call. change (do_ctl reent_fuel (CKill msg)) with (ctl_body (do_ctl 5) (CKill msg)). cbn [ctl_body].
  open_faulty w HF. cbn in Hstp, Hst. subst.
  cbn in Hh. destruct Hh as [<-|[<-|[<-|[]]]]; sxf; unfold contained_ctl; fin.
Qed.
