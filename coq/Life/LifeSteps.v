(* Life/LifeSteps.v — property C13, second half: chains of commands and whole runs (see Life/LifeSx.v for the
   equations, the symbolic executor and the single-iteration lemmas). *)
From Coq Require Import List ZArith String Bool Arith Lia.
From RecordUpdate Require Import RecordUpdate.
From Plumpy Require Import Val Mon MonTac PortModel Model Run LifeSx.
Import ListNotations.
Local Open Scope list_scope.
Local Open Scope mon_scope.

(* ------------------------------------------------------------------ part 3: chains of commands *)
Inductive astate :=
| ACreated
| ARunning (f : string) (a : list val) (k : list (string * val))
| AWaiting (fn : option string) (m : option string) (d : val)
| AFinished (v : val) (ok : bool)
| AExcepted (e : exn)
| AKilled (m : option (option string)).

Definition abs_state (s : pstate) : astate :=
  match s with
  | SCreated => ACreated
  | SRunning f a k => ARunning f a k
  | SWaiting fn m d _ _ => AWaiting fn m d
  | SFinished v ok => AFinished v ok
  | SExcepted e => AExcepted e
  | SKilled m => AKilled m
  end.

Definition step := (string * list val * list (string * val))%type.

(* the state a command denotes, without reference to any world *)
Definition denotes (valid : bool) (r : sret) : astate :=
  match r with
  | RContinue f a k => ARunning f a k
  | RWait f m d => AWaiting f m d
  | RValue v => AFinished v valid
  | RUnsuccessful c => AFinished c false
  | RStop v ok => AFinished v (ok && valid)
  | RKill m => AKilled m
  | RRaise e => AExcepted e
  end.

Lemma next_state_denotes w r : abs_state (next_state_of w r) = denotes (outputs_valid w) r.
Proof. destruct r; reflexivity. Qed.

(* reference interpreter of a program made of commands: the steps that run, in order, with their arguments,
   and where the chain stops *)
Fixpoint ref_chain (fuel : nat) (prog : list (string * script)) (valid : bool)
         (f : string) (a : list val) (k : list (string * val)) : option (list step * astate) :=
  match fuel with
  | 0 => None
  | S n =>
      match alist_get f prog with
      | None => Some ([(f, a, k)], AExcepted EAttribute)
      | Some s =>
          match s_ret s with
          | RContinue g a' k' =>
              match ref_chain n prog valid g a' k' with
              | Some (l, o) => Some ((f, a, k) :: l, o)
              | None => None
              end
          | r => Some ([(f, a, k)], denotes valid r)
          end
      end
  end.

Definition commands_only (prog : list (string * script)) : Prop :=
  forall f s, alist_get f prog = Some s -> s_actions s = [].

Lemma step_events_app a b : step_events (a ++ b) = step_events a ++ step_events b.
Proof. unfold step_events. apply flat_map_app. Qed.

Lemma step_events_cons f a k p tr : step_events (EvStep f a k p :: tr) = (f, a, k) :: step_events tr.
Proof. reflexivity. Qed.

Lemma outputs_valid_eq w w' : outputs w' = outputs w -> ospec w' = ospec w -> outputs_valid w' = outputs_valid w.
Proof. unfold outputs_valid. intros -> ->. reflexivity. Qed.

(* where a chain that stopped in a wait stands: suspended on the waiting future, everything else quiet *)
Definition parked (w0 w : world) (g : option string) (m : option string) (d : val) : Prop :=
  exists wid, st w = Some (SWaiting g m d wid WfPending) /\ t0 w = PcAwaitWaiting wid /\ ready w = ready w0 /\
              quiet w /\ outputs w = outputs w0 /\ ospec w = ospec w0.

(* what a chain leaves behind *)
Definition chain_post (w : world) (steps : list step) (out : astate) (w' : world) : Prop :=
  (exists tr, trace w' = trace w ++ tr /\ step_events tr = steps) /\
  option_map abs_state (st w') = Some out /\
  cfg w' = cfg w /\
  (forall g m d, out = AWaiting g m d -> parked w w' g m d).

Theorem chain_runs fuel : forall w f a k steps out (Q : result unit -> world -> Prop),
  quiet w -> commands_only (cf_prog (cfg w)) -> st w = Some (SRunning f a k) ->
  ref_chain fuel (cf_prog (cfg w)) (outputs_valid w) f a k = Some (steps, out) ->
  (forall w', chain_post w steps out w' -> Q (Ok tt) w') ->
  wp (loop_head (S fuel)) Q w.
Proof.
  induction fuel as [|n IH]; intros w f a k steps out Q Hq Hco Hst Href HQ; [discriminate|].
  cbn [ref_chain] in Href.
  destruct (alist_get f (cf_prog (cfg w))) as [s|] eqn:Hlk.
  2:{ injection Href as <- <-.
      apply (loop_iter_missing (S n) w f a k Q Hq Hst Hlk). intros w1 S1 C1 (tr & T1 & N1).
      apply (loop_iter_terminated n w1 _ Q S1 eq_refl). apply HQ.
      split; [|split; [cbn; rewrite S1; reflexivity | split; [exact C1 | discriminate]]].
      eexists. split; [exact T1|]. rewrite step_events_cons, N1. reflexivity. }
  pose proof (Hco f s Hlk) as Hact. destruct s as [acts r]. cbn in Hact. subst acts. cbn [s_ret] in Href.
  apply (loop_iter_running (S n) w f a k r Q Hq Hst Hlk). intros w1 S1 C1 (tr & T1 & N1) O1 P1 Q1.
  assert (Hterm : terminal (label_of (next_state_of w r)) = true ->
            Some ([(f, a, k)], denotes (outputs_valid w) r) = Some (steps, out) ->
            wp (loop_head (S n)) Q w1).
  { intros Ht Hr. injection Hr as <- <-. apply (loop_iter_terminated n w1 _ Q S1 Ht). apply HQ.
    split; [|split; [cbn; rewrite S1; cbn; rewrite next_state_denotes; reflexivity | split; [exact C1|]]].
    - eexists. split; [exact T1|]. rewrite step_events_cons, N1. reflexivity.
    - intros g m d Hd. destruct r; cbn in Hd; try discriminate; cbn in Ht; discriminate. }
  destruct r; try (apply Hterm; [reflexivity | exact Href]).
  - (* Continue *)
    destruct (ref_chain n (cf_prog (cfg w)) (outputs_valid w) f0 args kwargs) as [[l o]|] eqn:Hrc; [|discriminate].
    injection Href as <- <-.
    destruct (Q1 eq_refl) as [Hq1 Hr1].
    apply (IH w1 f0 args kwargs l o Q Hq1).
    + rewrite C1. exact Hco.
    + exact S1.
    + rewrite C1, (outputs_valid_eq _ _ O1 P1). exact Hrc.
    + intros w' ((tr2 & T2 & N2) & R3 & R4 & R5). apply HQ.
      split; [|split; [exact R3 | split; [rewrite R4; exact C1|]]].
      * exists ((EvStep f a k false :: tr) ++ tr2). split.
        -- rewrite T2, T1, <- app_assoc. reflexivity.
        -- rewrite step_events_app, step_events_cons, N1, N2. reflexivity.
      * intros g m d Hd. destruct (R5 g m d Hd) as (wid & A1 & A2 & A3 & A4 & A5 & A6).
        exists wid. split; [exact A1|]. split; [exact A2|]. split; [congruence|]. split; [exact A4|]. split; congruence.
  - (* Wait *)
    injection Href as <- <-.
    destruct (Q1 eq_refl) as [Hq1 Hr1].
    apply (loop_iter_waits n w1 _ _ _ _ Q Hq1 S1). intros w2 R2 R3 R4 R5 R6 R7 R8 R9. apply HQ.
    split; [|split; [|split]].
    + eexists. split; [rewrite R3; exact T1|]. rewrite step_events_cons, N1. reflexivity.
    + rewrite R2, S1. reflexivity.
    + rewrite R5. exact C1.
    + intros g m0 d0 Hd. injection Hd as <- <- <-. exists (next_id w).
      split; [rewrite R2; exact S1|]. split; [exact R4|]. split; [congruence|]. split; [exact R7|]. split; congruence.
Qed.

(* ------------------------------------------------------------------ whole runs *)
Lemma constructed c :
  cf_fault c = None -> cf_listeners c = [] ->
  exists w, construct_process c = (Ok tt, w) /\ quiet w /\ st w = Some SCreated /\ cfg w = c /\
            ready w = [RWakeT0 WkNone] /\ t0 w = PcNotStarted /\ step_events (trace w) = [] /\
            outputs w = [] /\ ospec w = cf_ospec c.
Proof.
  intros Hf Hl. destruct c as [prog cbs ls fault ospec0]. cbn in Hf, Hl. subst.
  eexists. split; [vm_compute; reflexivity|]. repeat split; reflexivity.
Qed.

(* the first loop callback: the stepping task starts and runs the chain from `run` *)
Lemma first_tick w steps out (Q : result unit -> world -> Prop) :
  quiet w -> st w = Some SCreated -> ready w = [RWakeT0 WkNone] -> t0 w = PcNotStarted ->
  commands_only (cf_prog (cfg w)) ->
  ref_chain 62 (cf_prog (cfg w)) (outputs_valid w) "run" [] [] = Some (steps, out) ->
  (forall w', step_events (trace w') = step_events (trace w) ++ steps ->
              option_map abs_state (st w') = Some out -> cfg w' = cfg w ->
              (forall g m d, out = AWaiting g m d ->
                 exists wid, st w' = Some (SWaiting g m d wid WfPending) /\ t0 w' = PcAwaitWaiting wid /\ ready w' = [] /\
                             quiet w' /\ outputs_valid w' = outputs_valid w) ->
              Q (Ok tt) w') ->
  wp (env_step_m ETick) Q w.
Proof.
  intros Hq Hst Hrd Ht0 Hco Href HQ.
  assert (Hq' := Hq). destruct Hq' as [Q1 Q2 Q3 Q4 Q5 Q6 Q7 Q8 Q9 Q10 Q11 Q12].
  open_world w. cbn in *. subst.
  unfold env_step_m. sx. change chain_fuel with (S 63).
  eapply loop_iter_created; [constructor; reflexivity | reflexivity |].
  intros w1 S1 C1 (tr1 & T1 & N1) O1 P1 Hq1 R1.
  eapply (chain_runs 62 w1 "run" [] [] steps out); [exact Hq1 | rewrite C1; exact Hco | exact S1 | | ].
  - rewrite C1, (outputs_valid_eq _ _ O1 P1). exact Href.
  - intros w2 ((tr2 & T2 & N2) & A2 & C2 & K2). cbv beta iota. wp_prim. apply HQ.
    + rewrite T2, T1, !step_events_app, N1, N2, app_nil_r. reflexivity.
    + exact A2.
    + rewrite C2. exact C1.
    + intros g m d Hd. destruct (K2 g m d Hd) as (wid & B1 & B2 & B3 & B4 & B5 & B6).
      exists wid. split; [exact B1|]. split; [exact B2|]. split; [rewrite B3; exact R1|]. split; [exact B4|].
      rewrite (outputs_valid_eq _ _ B5 B6). apply (outputs_valid_eq _ _ O1 P1).
Qed.

(* resume(v) from outside on a parked process, then the loop callback that wakes the stepping coroutine: the chain
   goes on from the continuation, called with exactly the resume value *)
Lemma resume_tick w g m d wid v steps out (Q : result unit -> world -> Prop) :
  quiet w -> st w = Some (SWaiting (Some g) m d wid WfPending) -> t0 w = PcAwaitWaiting wid -> ready w = [] ->
  commands_only (cf_prog (cfg w)) ->
  ref_chain 63 (cf_prog (cfg w)) (outputs_valid w) g (resume_args v) [] = Some (steps, out) ->
  (forall w', step_events (trace w') = step_events (trace w) ++ steps ->
              option_map abs_state (st w') = Some out -> cfg w' = cfg w ->
              (forall g' m' d', out = AWaiting g' m' d' ->
                 exists wid', st w' = Some (SWaiting g' m' d' wid' WfPending) /\ t0 w' = PcAwaitWaiting wid' /\ ready w' = [] /\
                              quiet w' /\ outputs_valid w' = outputs_valid w) ->
              Q (Ok tt) w') ->
  wp (env_step_m (ECtl (CResume v)) ;;; env_step_m ETick) Q w.
Proof.
  intros Hq Hst Ht0 Hrd Hco Href HQ.
  assert (Hq' := Hq). destruct Hq' as [Q1 Q2 Q3 Q4 Q5 Q6 Q7 Q8 Q9 Q10 Q11 Q12].
  open_world w. cbn in *. subst.
  unfold env_step_m, ctl_observed, ctl_call. cbn [do_ctl reent_fuel ctl_body].
  destruct v as [x|]; repeat (first [rewrite Nat.eqb_refl | sx_step]); change chain_fuel with (S 63).
  all: match goal with
       | |- wp (loop_head (S 63)) _ ?w1 =>
           eapply (chain_runs 63 w1 g _ [] steps out);
             [constructor; reflexivity | exact Hco | reflexivity | exact Href | ]
       end.
  all: intros w2 ((tr2 & T2 & N2) & A2 & C2 & K2); cbv beta iota; wp_prim; apply HQ;
    [ rewrite T2; cbn -[step_events]; rewrite !step_events_app, N2; cbn; rewrite ?app_nil_r; reflexivity
    | exact A2 | exact C2
    | intros g' m' d' Hd; destruct (K2 g' m' d' Hd) as (wid' & B1 & B2 & B3 & B4 & B5 & B6);
      exists wid'; split; [exact B1|]; split; [exact B2|]; split; [exact B3|]; split; [exact B4|];
      apply (outputs_valid_eq _ _ B5 B6) ].
Qed.

(* reference: after the chain from `run`, each resume value continues a chain that stopped in a wait; a schedule
   that resumes a process which is not waiting does not fit (None) *)
Fixpoint ref_resumes (prog : list (string * script)) (valid : bool) (out : astate) (vs : list (option val))
  : option (list step * astate) :=
  match vs with
  | [] => Some ([], out)
  | v :: vs' =>
      match out with
      | AWaiting (Some g) _ _ =>
          match ref_chain 63 prog valid g (resume_args v) [] with
          | Some (l, out') =>
              match ref_resumes prog valid out' vs' with
              | Some (l', o) => Some (l ++ l', o)
              | None => None
              end
          | None => None
          end
      | _ => None
      end
  end.

Definition ref_run (prog : list (string * script)) (valid : bool) (vs : list (option val)) : option (list step * astate) :=
  match ref_chain 62 prog valid "run" [] [] with
  | Some (l, out) =>
      match ref_resumes prog valid out vs with
      | Some (l', o) => Some (l ++ l', o)
      | None => None
      end
  | None => None
  end.

(* the schedule: run until quiescent, then for each value resume and run again *)
Definition resumes_schedule (vs : list (option val)) : list env_event :=
  flat_map (fun v => [ECtl (CResume v); ETick]) vs.

Lemma env_two w e1 e2 :
  env_step (env_step w e1) e2 = snd ((env_step_m e1 ;;; env_step_m e2) w) \/ exists e, fst (env_step_m e1 w) = Err e.
Proof.
  unfold env_step, bind. destruct (env_step_m e1 w) as [[u|e] w1]; cbn; [left; reflexivity | right; eauto].
Qed.

Lemma resumes_run prog valid : forall vs w out steps o,
  cf_prog (cfg w) = prog -> commands_only prog ->
  option_map abs_state (st w) = Some out ->
  (forall g m d, out = AWaiting g m d ->
     exists wid, st w = Some (SWaiting g m d wid WfPending) /\ t0 w = PcAwaitWaiting wid /\ ready w = [] /\ quiet w /\
                 outputs_valid w = valid) ->
  ref_resumes prog valid out vs = Some (steps, o) ->
  step_events (trace (run_from w (resumes_schedule vs))) = step_events (trace w) ++ steps /\
  option_map abs_state (st (run_from w (resumes_schedule vs))) = Some o.
Proof.
  induction vs as [|v vs IH]; intros w out steps o Hp Hco Hst Hpk Href.
  - cbn in Href. injection Href as <- <-. cbn. rewrite app_nil_r. auto.
  - cbn [ref_resumes] in Href. destruct out as [| |[g|] m d| | |]; try discriminate.
    destruct (ref_chain 63 prog valid g (resume_args v) []) as [[l out']|] eqn:Hrc; [|discriminate].
    destruct (ref_resumes prog valid out' vs) as [[l' o']|] eqn:Hrr; [|discriminate].
    injection Href as <- <-.
    destruct (Hpk _ _ _ eq_refl) as (wid & S1 & T1 & R1 & Q1 & V1).
    cbn [resumes_schedule flat_map app]. unfold run_from. cbn [fold_left].
    fold (run_from (env_step (env_step w (ECtl (CResume v))) ETick) (resumes_schedule vs)).
    assert (Hstep : wp (env_step_m (ECtl (CResume v)) ;;; env_step_m ETick)
              (fun r w' => r = Ok tt /\ step_events (trace w') = step_events (trace w) ++ l /\
                           option_map abs_state (st w') = Some out' /\ cfg w' = cfg w /\
                           (forall g' m' d', out' = AWaiting g' m' d' ->
                              exists wid', st w' = Some (SWaiting g' m' d' wid' WfPending) /\ t0 w' = PcAwaitWaiting wid' /\
                                           ready w' = [] /\ quiet w' /\ outputs_valid w' = valid)) w).
    { eapply resume_tick; try eassumption.
      - rewrite Hp. exact Hco.
      - rewrite Hp, V1. exact Hrc.
      - intros w' A1 A2 A3 A4. split; [reflexivity|]. split; [exact A1|]. split; [exact A2|]. split; [exact A3|].
        intros g' m' d' Hd. destruct (A4 g' m' d' Hd) as (wid' & B1 & B2 & B3 & B4 & B5).
        exists wid'. repeat (split; [assumption|]). congruence. }
    apply wp_run in Hstep. destruct Hstep as (E1 & E2 & E3 & E4 & E5).
    assert (Hw : env_step (env_step w (ECtl (CResume v))) ETick = snd ((env_step_m (ECtl (CResume v)) ;;; env_step_m ETick) w)).
    { unfold env_step, bind in *. destruct (env_step_m (ECtl (CResume v)) w) as [[u|e] w1]; [reflexivity|].
      cbn in E1. discriminate. }
    rewrite Hw.
    destruct (IH _ out' l' o' (eq_trans (f_equal cf_prog E4) Hp) Hco E3 E5 Hrr) as [F1 F2].
    unfold run_from, resumes_schedule in F1, F2.
    split; [|exact F2]. rewrite F1, E2, app_assoc. reflexivity.
Qed.

(* C13, whole runs: for every program made of commands, every output specification and every list of resume
   values that fits the program, the steps executed (with their arguments) and the state the process ends in
   are those of the reference interpreter *)
Theorem command_runs c vs steps out :
  cf_fault c = None -> cf_listeners c = [] -> commands_only (cf_prog c) ->
  ref_run (cf_prog c) (valid_port (fun _ _ => false) (cf_ospec c) (VDict [])) vs = Some (steps, out) ->
  exists w, run c (ETick :: resumes_schedule vs) = Some w /\
            step_events (trace w) = steps /\ option_map abs_state (st w) = Some out.
Proof.
  intros Hf Hl Hco Href. unfold ref_run in Href.
  destruct (ref_chain 62 (cf_prog c) _ "run" [] []) as [[l o1]|] eqn:Hrc; [|discriminate].
  destruct (ref_resumes (cf_prog c) _ o1 vs) as [[l' o']|] eqn:Hrr; [|discriminate].
  injection Href as <- <-.
  destruct (constructed c Hf Hl) as (w0 & Hc & Hq & Hst & Hcfg & Hrd & Ht0 & Hse & Hout & Hosp).
  unfold run. rewrite Hc. eexists. split; [reflexivity|].
  unfold run_from. cbn [fold_left]. fold (run_from (env_step w0 ETick) (resumes_schedule vs)).
  assert (Hv0 : outputs_valid w0 = valid_port (fun _ _ => false) (cf_ospec c) (VDict [])).
  { unfold outputs_valid. rewrite Hout, Hosp. reflexivity. }
  assert (Hstep : wp (env_step_m ETick)
            (fun r w' => step_events (trace w') = l /\ option_map abs_state (st w') = Some o1 /\ cfg w' = c /\
                         (forall g m d, o1 = AWaiting g m d ->
                            exists wid, st w' = Some (SWaiting g m d wid WfPending) /\ t0 w' = PcAwaitWaiting wid /\
                                        ready w' = [] /\ quiet w' /\
                                        outputs_valid w' = valid_port (fun _ _ => false) (cf_ospec c) (VDict []))) w0).
  { eapply first_tick; try eassumption.
    - rewrite Hcfg. exact Hco.
    - rewrite Hcfg, Hv0. exact Hrc.
    - intros w' A1 A2 A3 A4. rewrite Hse in A1. split; [exact A1|]. split; [exact A2|]. split; [congruence|].
      intros g m d Hd. destruct (A4 g m d Hd) as (wid & B1 & B2 & B3 & B4 & B5).
      exists wid. repeat (split; [assumption|]). congruence. }
  apply wp_run in Hstep. fold (env_step w0 ETick) in Hstep. destruct Hstep as (E1 & E2 & E3 & E4).
  destruct (resumes_run (cf_prog c) _ vs (env_step w0 ETick) o1 l' o' (f_equal cf_prog E3) Hco E2 E4 Hrr) as [F1 F2].
  unfold resumes_schedule in F1, F2. unfold resumes_schedule.
  split; [|exact F2]. rewrite F1, E1. reflexivity.
Qed.
