(* Life/LifeKillTotal.v — C04: kill() never raises, also when a life-cycle hook does.  For every run with ANY injected fault
   (and no outside cancellation of the future) a kill() requested between two loop callbacks returns a result — True, False or
   the pending action — and never an exception: a hook that raises inside the transition to KILLED is absorbed by
   transition_to (the process then ends EXCEPTED, see LifeExc), it does not reach the caller of kill().
   LifeEsc (a control call that must return does) + the shape of kill()'s results. *)
From Coq Require Import List ZArith String Bool Arith Lia.
From RecordUpdate Require Import RecordUpdate.
From Plumpy Require Import Val Mon MonTac PortModel Model Run LifeAgree LifePtr LifeEsc.
Import ListNotations.
Local Open Scope list_scope.

Definition not_raised (x : cret) : bool := match x with CrRaised _ => false | _ => true end.

Lemma wp_any0 {A} (m : LM A) (Q : result A -> world -> Prop) w : (forall r s, Q r s) -> wp m Q w.
Proof. intro H. unfold wp. apply H. Qed.

Lemma kill_result rec msg w : wp (kill rec msg) (fun r _ => forall x, r = Ok x -> not_raised x = true) w.
Proof.
  unfold kill. do 2 wp_prim.
  assert (Hr : forall c, not_raised c = true -> wp (ret c) (fun r _ => forall x, r = Ok x -> not_raised x = true) w).
  { intros c Hc. wp_prim. intros x H. injection H as <-. exact Hc. }
  assert (Hmain : wp (if is_terminated w then ret (CrBool false) else
                      match killing w with
                      | Some a => ret (CrAction a)
                      | None => if stepping w
                                then bind fresh (fun iid => bind (set_interrupt_action_from (KKill msg) iid) (fun a =>
                                     bind (modify (fun w => w <| killing := Some a |>)) (fun _ => bind (state_interrupt iid) (fun _ => ret (CrAction a)))))
                                else bind (transition_to rec (Some (SKilled (Some msg)))) (fun _ => ret (CrBool true))
                      end) (fun r _ => forall x, r = Ok x -> not_raised x = true) w).
  { destruct (is_terminated w); [apply Hr; reflexivity|]. destruct (killing w); [apply Hr; reflexivity|]. destruct (stepping w).
    - wp_prim. apply wp_any0. intros r1 s1. destruct r1; cbv beta iota; [|intros x H; discriminate H].
      wp_prim. apply wp_any0. intros r2 s2. destruct r2; cbv beta iota; [|intros x H; discriminate H].
      wp_prim. apply wp_any0. intros r3 s3. destruct r3; cbv beta iota; [|intros x H; discriminate H].
      wp_prim. apply wp_any0. intros r4 s4. destruct r4; cbv beta iota; [|intros x H; discriminate H].
      wp_prim. intros x H. injection H as <-. reflexivity.
    - wp_prim. apply wp_any0. intros r1 s1. destruct r1; cbv beta iota; [|intros x H; discriminate H].
      wp_prim. intros x H. injection H as <-. reflexivity. }
  destruct (st w) as [[]|]; try exact Hmain. apply Hr. reflexivity.
Qed.

Theorem kill_never_raises_with_faults c es w msg :
  run c es = Some w -> ~ In ECancelFuture es ->
  exists x tr, trace (env_step w (ECtl (CKill msg))) = tr ++ [EvCtl (CKill msg) x] /\ not_raised x = true.
Proof.
  intros Hr Hn. destruct (run_Top _ _ _ Hr Hn) as [(G & T & _) _]. unfold env_step.
  apply (wp_run (env_step_m (ECtl (CKill msg))) (fun _ w' => exists x tr, trace w' = tr ++ [EvCtl (CKill msg) x] /\ not_raised x = true) w).
  cbn [env_step_m]. wp_prim. unfold ctl_observed. do 2 wp_prim.
  eapply wp_use; [apply (wp_conj _ (fun r _ => is_ok r) (fun r _ => forall x, r = Ok x -> not_raised x = true))|].
  - apply ctl_call_spec; [exact G|]. intros r w' _ H. apply H; [exact T | reflexivity].
  - unfold ctl_call, reent_fuel. cbn [do_ctl ctl_body]. apply kill_result.
  - intros r w1 [Hok Hx]. destruct r as [x|e]; [|destruct Hok]. wp_prim. cbv beta iota. unfold emit. wp_prim.
    exists x, (trace w1). split; [reflexivity | apply Hx; reflexivity].
Qed.

From Plumpy Require LifeBook.
Theorem kill_never_raises_with_faults' c es w msg :
  run c es = Some w -> ~ In ECancelFuture es ->
  exists x tr, trace (env_step w (ECtl (CKill msg))) = tr ++ [EvCtl (CKill msg) x] /\ LifeBook.raised x = false.
Proof.
  intros Hr Hn. destruct (kill_never_raises_with_faults c es w msg Hr Hn) as (x & tr & H1 & H2).
  exists x, tr. split; [exact H1|]. destruct x; try reflexivity. discriminate H2.
Qed.
