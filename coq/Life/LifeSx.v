(* Life/LifeSx.v (first half of the C13 development; the chain theorems are in Life/LifeSteps.v) — proofs for property C13 over the life-cycle model M1: a step's return value alone
   decides what happens next, with exact arguments.

   Part 1: the command mapping (Running._action_command) and the resume forwarding (Waiting.resume /
   Waiting.execute) as equations.
   Part 2: one step of the stepping loop, from any quiet world (no request pending, no listener scripts,
   no injected fault): the step that runs is exactly the one the RUNNING state names, with its arguments,
   and the state entered next is exactly the one the returned command denotes.  The resulting world is
   computed symbolically (the world is a record of variables; all control flow of the model depends on
   the fields fixed by [quiet]).
   Part 3: chains: for every program made of commands only, every fuel and every list of resume values
   the executed steps and the final state are those of a reference interpreter of the commands. *)
From Coq Require Import List ZArith String Bool Arith Lia.
From RecordUpdate Require Import RecordUpdate.
From Plumpy Require Import Val Mon MonTac PortModel Model Run.
Import ListNotations.
Local Open Scope list_scope.
Local Open Scope mon_scope.

(* ------------------------------------------------------------------ part 1: equations *)
Lemma command_continue f a k wid : command_state (RContinue f a k) wid = inr (SRunning f a k).
Proof. reflexivity. Qed.
Lemma command_wait f m d wid : command_state (RWait f m d) wid = inr (SWaiting f m d wid WfPending).
Proof. reflexivity. Qed.
Lemma command_value v wid : command_state (RValue v) wid = inr (SFinished v true).
Proof. reflexivity. Qed.
Lemma command_unsuccessful c wid : command_state (RUnsuccessful c) wid = inr (SFinished c false).
Proof. reflexivity. Qed.
Lemma command_stop v ok wid : command_state (RStop v ok) wid = inr (SFinished v ok).
Proof. reflexivity. Qed.
Lemma command_kill m wid : command_state (RKill m) wid = inr (SKilled m).
Proof. reflexivity. Qed.

(* what the continuation of a wait is called with *)
Definition resume_args (v : option val) : list val := match v with Some x => [x] | None => [] end.
Definition wake_of (v : option val) : wake := match v with Some x => WkVal x | None => WkNull end.

Lemma resume_stores fn m d wid v w :
  st w = Some (SWaiting (Some fn) m d wid WfPending) ->
  fst (resume v w) = Ok CrNone /\
  st (snd (resume v w)) = Some (SWaiting (Some fn) m d wid (WfDone (wake_of v))).
Proof.
  intro H. unfold resume, bind, get. cbn. rewrite H. cbn.
  destruct (t0 w); cbn; try (split; reflexivity).
  destruct (Nat.eqb wid wid0); cbn; split; reflexivity.
Qed.

(* a second resume does not replace the value of the first one *)
Lemma resume_first_wins fn m d wid v v' w :
  st w = Some (SWaiting fn m d wid (WfDone (wake_of v))) ->
  resume v' w = (Ok CrNone, w).
Proof. intro H. unfold resume, bind, get. cbn. rewrite H. destruct v; reflexivity. Qed.

(* a resume that arrives after an interruption which execute() has not yet dealt with is kept in a fresh future *)
Lemma resume_after_interruption fn m d wid i v w :
  st w = Some (SWaiting fn m d wid (WfDone (WkIntr i))) ->
  st (snd (resume v w)) = Some (SWaiting fn m d (next_id w) (WfDone (wake_of v))).
Proof. intro H. unfold resume, bind, get. cbn. rewrite H. reflexivity. Qed.

Lemma waiting_forwards fn aw v w :
  after_waiting (Some fn) aw (wake_of v) w = (Ok (XoNext (Some (SRunning fn (resume_args v) []))), w).
Proof. destruct v; reflexivity. Qed.

(* ------------------------------------------------------------------ part 2: one step from a quiet world *)
(* no request pending, nothing in progress, no listener scripts, no injected fault *)
Record quiet (w : world) : Prop := mk_quiet {
  q_nofault : cf_fault (cfg w) = None;
  q_nolisteners : cf_listeners (cfg w) = [];
  q_transitioning : transitioning w = false;
  q_failing : transition_failing w = false;
  q_alive : hooks_alive w = true;
  q_open : closed w = false;
  q_cleanups : cleanups w = [0];
  q_pfut : pfut w = PfPending;
  q_intr : intr w = None;
  q_pausing : pausing w = None;
  q_killing : killing w = None;
  q_paused : paused w = None
}.

Definition outputs_valid (w : world) : bool := valid_port (fun _ _ => false) (ospec w) (VDict (outputs w)).

(* the state a returned command denotes (on_finish downgrades a successful result when the outputs do not
   conform to the output specification: property C12) *)
Definition next_state_of (w : world) (r : sret) : pstate :=
  match r with
  | RContinue f a k => SRunning f a k
  | RWait f m d => SWaiting f m d (next_id w) WfPending
  | RValue v => SFinished v (outputs_valid w)
  | RUnsuccessful c => SFinished c false
  | RStop v ok => SFinished v (ok && outputs_valid w)
  | RKill m => SKilled m
  | RRaise e => SExcepted e
  end.

Definition step_events (tr : list event) : list (string * list val * list (string * val)) :=
  flat_map (fun e => match e with EvStep f a k _ => [(f, a, k)] | _ => [] end) tr.

Ltac trace_tac := repeat rewrite <- app_assoc; cbn [app]; eexists; split; [reflexivity | reflexivity].

(* close the conjunctions left after a symbolic evaluation *)
Ltac fin :=
  repeat match goal with
         | H : true = false |- _ => discriminate H
         | H : false = true |- _ => discriminate H
         | H : true && _ = _ |- _ => cbn in H
         | H : false && _ = _ |- _ => cbn in H
         | H : negb ?b = true |- _ => apply negb_true_iff in H; rewrite ?H in *
         | H : negb ?b = false |- _ => apply negb_false_iff in H; rewrite ?H in *
         | |- _ /\ _ => split
         | |- exists tr, _ = _ ++ _ /\ _ => trace_tac
         | |- terminal _ = false -> _ => let H := fresh in intro H; cbn in H; try discriminate H
         | |- _ -> _ => intro
         | |- quiet _ => constructor; reflexivity
         | |- _ = _ => reflexivity
         end.

Ltac open_world w :=
  destruct w as [c st0 stp pg kl it ac nid pa pps sta pf pfo ofc cl cln ha tr trf outs osp t rdy ex oc trc wi wr];
  destruct c as [prog cbs ls fault ospec0].

(* ---- symbolic execution of the model on a world given by its fields (wp calculus + computation) ---- *)
Arguments wp : simpl never.

Ltac head_of t := lazymatch t with ?f _ => head_of f | _ => t end.

Ltac sx_step :=
  first
    [ wp_prim
    | progress (cbn -[do_ctl loop_head])
    | lazymatch goal with
      | |- wp (loop_head _) _ _ => fail 1
      | |- wp (match ?x with _ => _ end) _ _ =>
          first [ match goal with H : x = _ |- _ => rewrite H end | destruct x eqn:? ]
      | |- wp (when ?b _) _ _ => apply wp_when_i; intro
      | |- wp ?m _ _ => let h := head_of m in unfold h
      end ].

Ltac sx := repeat sx_step.

(* one iteration of the stepping loop from a RUNNING state whose step function returns r at once: the step that
   runs is the one the state names, with its arguments; the state entered next is the one r denotes; then the
   loop goes on (continuation-passing form) *)
Lemma loop_iter_running n w f a k r (Q : result unit -> world -> Prop) :
  quiet w -> st w = Some (SRunning f a k) -> lookup_script w f = Some (mk_script [] r) ->
  (forall w1,
      st w1 = Some (next_state_of w r) -> cfg w1 = cfg w ->
      (exists tr, trace w1 = trace w ++ EvStep f a k false :: tr /\ step_events tr = []) ->
      outputs w1 = outputs w -> ospec w1 = ospec w ->
      (terminal (label_of (next_state_of w r)) = false -> quiet w1 /\ ready w1 = ready w) ->
      wp (loop_head n) Q w1) ->
  wp (loop_head (S n)) Q w.
Proof.
  intros [Q1 Q2 Q3 Q4 Q5 Q6 Q7 Q8 Q9 Q10 Q11 Q12] Hst Hlk HQ.
  open_world w. unfold lookup_script in Hlk. cbn in *. subst.
  cbn [loop_head]. unfold outputs_valid, next_state_of in HQ. cbn in HQ.
  destruct r as [| | | |v0 ok0| |]; try destruct ok0; sx; (apply HQ; fin).
Qed.

Lemma loop_iter_missing n w f a k (Q : result unit -> world -> Prop) :
  quiet w -> st w = Some (SRunning f a k) -> lookup_script w f = None ->
  (forall w1,
      st w1 = Some (SExcepted EAttribute) -> cfg w1 = cfg w ->
      (exists tr, trace w1 = trace w ++ EvStep f a k false :: tr /\ step_events tr = []) ->
      wp (loop_head n) Q w1) ->
  wp (loop_head (S n)) Q w.
Proof.
  intros [Q1 Q2 Q3 Q4 Q5 Q6 Q7 Q8 Q9 Q10 Q11 Q12] Hst Hlk HQ.
  open_world w. unfold lookup_script in Hlk. cbn in *. subst.
  cbn [loop_head]. sx; (apply HQ; fin).
Qed.

(* a wait whose future holds a wake-up: the continuation becomes the next step, with exactly the resume value *)
Lemma loop_iter_woken n w fn m d wid v (Q : result unit -> world -> Prop) :
  quiet w -> st w = Some (SWaiting (Some fn) m d wid (WfDone (wake_of v))) ->
  (forall w1,
      st w1 = Some (SRunning fn (resume_args v) []) -> cfg w1 = cfg w ->
      (exists tr, trace w1 = trace w ++ tr /\ step_events tr = []) ->
      outputs w1 = outputs w -> ospec w1 = ospec w -> quiet w1 -> ready w1 = ready w ->
      wp (loop_head n) Q w1) ->
  wp (loop_head (S n)) Q w.
Proof.
  intros [Q1 Q2 Q3 Q4 Q5 Q6 Q7 Q8 Q9 Q10 Q11 Q12] Hst HQ.
  open_world w. cbn in *. subst.
  cbn [loop_head]. destruct v; sx; (apply HQ; fin).
Qed.

(* a wait nobody has resumed: the stepping coroutine suspends on the waiting future, nothing else changes *)
Lemma loop_iter_waits n w fn m d wid (Q : result unit -> world -> Prop) :
  quiet w -> st w = Some (SWaiting fn m d wid WfPending) ->
  (forall w1,
      st w1 = st w -> trace w1 = trace w -> t0 w1 = PcAwaitWaiting wid -> cfg w1 = cfg w -> ready w1 = ready w ->
      quiet w1 -> outputs w1 = outputs w -> ospec w1 = ospec w -> Q (Ok tt) w1) ->
  wp (loop_head (S n)) Q w.
Proof.
  intros [Q1 Q2 Q3 Q4 Q5 Q6 Q7 Q8 Q9 Q10 Q11 Q12] Hst HQ.
  open_world w. cbn in *. subst.
  cbn [loop_head]. sx; (apply HQ; fin).
Qed.

(* a terminated process: step_until_terminated returns *)
Lemma loop_iter_terminated n w s (Q : result unit -> world -> Prop) :
  st w = Some s -> terminal (label_of s) = true ->
  Q (Ok tt) (w <| t0 := PcDone |>) -> wp (loop_head (S n)) Q w.
Proof.
  intros Hst Ht HQ. cbn [loop_head]. do 2 wp_prim. unfold is_terminated. rewrite Hst, Ht. cbv iota.
  unfold set_t0. wp_prim. exact HQ.
Qed.

Lemma loop_iter_created n w (Q : result unit -> world -> Prop) :
  quiet w -> st w = Some SCreated ->
  (forall w1,
      st w1 = Some (SRunning "run" [] []) -> cfg w1 = cfg w ->
      (exists tr, trace w1 = trace w ++ tr /\ step_events tr = []) ->
      outputs w1 = outputs w -> ospec w1 = ospec w -> quiet w1 -> ready w1 = ready w ->
      wp (loop_head n) Q w1) ->
  wp (loop_head (S n)) Q w.
Proof.
  intros [Q1 Q2 Q3 Q4 Q5 Q6 Q7 Q8 Q9 Q10 Q11 Q12] Hst HQ.
  open_world w. cbn in *. subst.
  cbn [loop_head]. sx; (apply HQ; fin).
Qed.

