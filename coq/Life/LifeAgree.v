(* Life/LifeAgree.v — property C02 over the life-cycle model M1, for every run (any program, any listener
   scripts with re-entrant control calls, any callbacks, any schedule of environment events; hooks do not raise):

     between any two environment events the reports of the outcome agree:
       FINISHED     <->  the future holds the outputs,           the process is closed, its hooks are released
       EXCEPTED e   <->  the future holds exception e,            closed, hooks released
       KILLED msg   <->  the future holds KilledError(msg text),  closed, hooks released
       live         <->  the future is pending (or was cancelled by its owner), not closed, hooks in place;
     in a terminal state the listeners have received exactly one terminal notification, of the kind of that state, and
     every registered cleanup has run exactly once (after the notification); while the process is live neither has happened.

   The invariant [J] is guarded by the transitioning flag: inside a transition (hooks, listeners) the views are
   updated one after the other.  Operations are specified as Hoare triples over three levels:
     K  control level : keeps J; inside a transition it leaves state label / future / closed / hooks / outputs alone
     T  inside a transition: a frame on those fields
     S  stepping level: runs outside transitions, keeps J and ends outside a transition.
   Proofs are compositional (a bind rule per level) except where the fields really change (entering a state,
   close, cancellation of the future, emitting an output). *)
From Coq Require Import List ZArith String Bool Arith Lia.
From RecordUpdate Require Import RecordUpdate.
From Plumpy Require Import Val Mon MonTac PortModel Model Run.
Import ListNotations.
Local Open Scope list_scope.

Definition nofault (w : world) : Prop := cf_fault (cfg w) = None.

Definition unresolved (pf : pfstate) : Prop := pf = PfPending \/ pf = PfCancelled.

Definition killed_text (msg : option (option string)) : string :=
  match msg with Some (Some t) => t | _ => ""%string end.

(* the marks of a trace: terminal notifications of the listeners and executed cleanups *)
Definition term_note (n : string) : bool :=
  String.eqb n "on_process_finished" || String.eqb n "on_process_excepted" || String.eqb n "on_process_killed".
Definition is_mark (e : event) : bool :=
  match e with EvListener n => term_note n | EvCleanup _ => true | _ => false end.
Definition marks (tr : list event) : list event := filter is_mark tr.
Definition note_of (s : pstate) : string :=
  match s with
  | SFinished _ _ => "on_process_finished" | SExcepted _ => "on_process_excepted" | SKilled _ => "on_process_killed"
  | _ => ""
  end.

Lemma marks_app a b : marks (a ++ b) = marks a ++ marks b.
Proof. apply filter_app. Qed.

Lemma marks_snoc tr e : is_mark e = false -> marks (tr ++ [e]) = marks tr.
Proof. intro H. rewrite marks_app. cbn. rewrite H. apply app_nil_r. Qed.

(* the terminal part of the state: None for a live process *)
Definition tv (s : option pstate) : option pstate :=
  match s with
  | Some (SFinished _ _) => s
  | Some (SExcepted _) => s
  | Some (SKilled _) => s
  | _ => None
  end.

Definition agree_of (t : option pstate) (pf : pfstate) (cl hk : bool) (outs : list (string * val))
           (mk : list event) (cls : list nat) : Prop :=
  match t with
  | Some (SFinished r ok) =>
      pf = PfResult outs /\ cl = true /\ hk = false /\ mk = [EvListener "on_process_finished"; EvCleanup 0] /\ cls = []
  | Some (SExcepted e) =>
      pf = PfExn e /\ cl = true /\ hk = false /\ mk = [EvListener "on_process_excepted"; EvCleanup 0] /\ cls = []
  | Some (SKilled m) =>
      pf = PfExn (EKilled (killed_text m)) /\ cl = true /\ hk = false /\ mk = [EvListener "on_process_killed"; EvCleanup 0] /\ cls = []
  | _ => unresolved pf /\ cl = false /\ hk = true /\ mk = [] /\ cls = [0]
  end.

Definition agree (w : world) : Prop :=
  agree_of (tv (st w)) (pfut w) (closed w) (hooks_alive w) (outputs w) (marks (trace w)) (cleanups w).

Lemma is_terminated_tv w : is_terminated w = match tv (st w) with Some _ => true | None => false end.
Proof. unfold is_terminated. destruct (st w) as [[]|]; reflexivity. Qed.

(* the failure bypass of the exit check is only armed inside a transition *)
Definition FI (w : world) : Prop := transitioning w = false -> transition_failing w = false.

Definition J (w : world) : Prop := nofault w /\ FI w /\ (transitioning w = false -> agree w).

(* what an operation running inside a transition must leave alone *)
Definition core_eq (w w' : world) : Prop :=
  tv (st w') = tv (st w) /\ pfut w' = pfut w /\ closed w' = closed w /\ hooks_alive w' = hooks_alive w
  /\ outputs w' = outputs w /\ marks (trace w') = marks (trace w) /\ cleanups w' = cleanups w.

Lemma core_eq_refl w : core_eq w w.
Proof. repeat split. Qed.

Lemma core_eq_trans a b c : core_eq a b -> core_eq b c -> core_eq a c.
Proof. intros (A1 & A2 & A3 & A4 & A5 & A6 & A7) (B1 & B2 & B3 & B4 & B5 & B6 & B7). repeat split; congruence. Qed.

Lemma agree_core w w' : core_eq w w' -> agree w -> agree w'.
Proof. intros (A1 & A2 & A3 & A4 & A5 & A6 & A7). unfold agree. rewrite A1, A2, A3, A4, A5, A6, A7. auto. Qed.

Lemma core_eq_terminated w w' : core_eq w w' -> is_terminated w' = is_terminated w.
Proof. intros (A1 & _). rewrite !is_terminated_tv, A1. reflexivity. Qed.

(* ------------------------------------------------------------------ Hoare triples in wp form, generic in the level *)
Section Hoare.
  Variable Pre : world -> Prop.
  Variable Rel : world -> world -> Prop.
  Hypothesis Rel_refl : forall w, Pre w -> Rel w w.
  Hypothesis Rel_trans : forall a b c, Rel a b -> Rel b c -> Rel a c.
  Hypothesis Rel_pre : forall a b, Pre a -> Rel a b -> Pre b.

  Definition Hat {A} (m : LM A) (w : world) : Prop :=
    forall Q : result A -> world -> Prop, Pre w -> (forall r w', Rel w w' -> Q r w') -> wp m Q w.

  Lemma Hat_ret {A} (a : A) w : Hat (ret a) w.
  Proof. intros Q HP HQ. wp_prim. apply HQ. apply Rel_refl. exact HP. Qed.

  Lemma Hat_raise {A} e w : Hat (raise e : LM A) w.
  Proof. intros Q HP HQ. wp_prim. apply HQ. apply Rel_refl. exact HP. Qed.

  Lemma Hat_bind {A B} (m : LM A) (f : A -> LM B) w :
    Hat m w -> (forall a w1, Hat (f a) w1) -> Hat (bind m f) w.
  Proof.
    intros Hm Hf Q HP HQ. wp_prim. apply Hm; [exact HP|]. intros r w1 R1. destruct r as [a|e]; cbv beta iota.
    - apply Hf; [eapply Rel_pre; eauto|]. intros r2 w2 R2. apply HQ. eapply Rel_trans; eauto.
    - apply HQ. exact R1.
  Qed.

  Lemma Hat_get {A} (f : world -> LM A) w : Hat (f w) w -> Hat (bind get f) w.
  Proof. intros H Q HP HQ. do 2 wp_prim. apply H; assumption. Qed.

  Lemma Hat_attempt {A} (m : LM A) w : Hat m w -> Hat (attempt m) w.
  Proof. intros H Q HP HQ. wp_prim. apply H; [exact HP|]. intros r w' R. apply HQ. exact R. Qed.

  Lemma Hat_finally {A} (m : LM A) f w : Hat m w -> (forall w1, Hat f w1) -> Hat (finally m f) w.
  Proof.
    intros Hm Hf Q HP HQ. wp_prim. apply Hm; [exact HP|]. intros r w1 R1.
    apply Hf; [eapply Rel_pre; eauto|]. intros r2 w2 R2. destruct r2; apply HQ; eapply Rel_trans; eauto.
  Qed.

  Lemma Hat_try_catch {A} (m : LM A) h w : Hat m w -> (forall e w1, Hat (h e) w1) -> Hat (try_catch m h) w.
  Proof.
    intros Hm Hh Q HP HQ. wp_prim. apply Hm; [exact HP|]. intros r w1 R1. destruct r as [a|e]; cbv beta iota.
    - apply HQ. exact R1.
    - apply Hh; [eapply Rel_pre; eauto|]. intros r2 w2 R2. apply HQ. eapply Rel_trans; eauto.
  Qed.

  Lemma Hat_when b (m : LM unit) w : (b = true -> Hat m w) -> Hat (when b m) w.
  Proof. destruct b; intro H; [apply H; reflexivity | apply Hat_ret]. Qed.

  Lemma Hat_mapM {A} (f : A -> LM unit) l : (forall x w, Hat (f x) w) -> forall w, Hat (mapM_ f l) w.
  Proof.
    intro Hf. induction l as [|x l IH]; intro w; cbn [mapM_]; [apply Hat_ret|].
    apply Hat_bind; [apply Hf | intros _ w1; apply IH].
  Qed.

  Lemma Hat_modify f w : Rel w (f w) -> Hat (modify f) w.
  Proof. intros H Q HP HQ. wp_prim. apply HQ. exact H. Qed.

  Lemma Hat_put w' w : Rel w w' -> Hat (put w') w.
  Proof. intros H Q HP HQ. wp_prim. apply HQ. exact H. Qed.

  (* strengthen the precondition / weaken the relation *)
End Hoare.

(* ------------------------------------------------------------------ the three levels *)
(* K: control level *)
Definition Post (w w' : world) : Prop :=
  J w' /\ transitioning w' = transitioning w
  /\ (transitioning w = true -> core_eq w w' /\ transition_failing w' = transition_failing w).

Lemma Post_refl w : J w -> Post w w.
Proof. intro H. split; [exact H|]. split; [reflexivity|]. intros _. split; [apply core_eq_refl | reflexivity]. Qed.

Lemma Post_trans a b c : Post a b -> Post b c -> Post a c.
Proof.
  intros (_ & T1 & C1) (J2 & T2 & C2). split; [exact J2|]. split; [congruence|]. intro Ht.
  destruct (C1 Ht) as [E1 F1]. destruct (C2 (eq_trans T1 Ht)) as [E2 F2].
  split; [eapply core_eq_trans; eauto | congruence].
Qed.

Lemma Post_pre a b : J a -> Post a b -> J b.
Proof. intros _ (H & _). exact H. Qed.

Notation Kat := (Hat J Post).
Definition K {A} (m : LM A) : Prop := forall w, Kat m w.

(* T: inside a transition *)
Definition TI (w : world) : Prop := nofault w /\ transitioning w = true.

Definition RelT (w w' : world) : Prop :=
  TI w' /\ core_eq w w' /\ transition_failing w' = transition_failing w.

Lemma RelT_refl w : TI w -> RelT w w.
Proof. intro H. split; [exact H|]. split; [apply core_eq_refl | reflexivity]. Qed.

Lemma RelT_trans a b c : RelT a b -> RelT b c -> RelT a c.
Proof. intros (_ & C1 & F1) (T2 & C2 & F2). split; [exact T2|]. split; [eapply core_eq_trans; eauto | congruence]. Qed.

Lemma RelT_pre a b : TI a -> RelT a b -> TI b.
Proof. intros _ (H & _). exact H. Qed.

Notation Tat := (Hat TI RelT).

Lemma TI_J w : TI w -> J w.
Proof. intros [Hn Ht]. split; [exact Hn|]. split; intro H; congruence. Qed.

Lemma Kat_Tat {A} (m : LM A) w : Kat m w -> Tat m w.
Proof.
  intros HK Q HT HQ. apply HK; [apply TI_J; exact HT|]. intros r w' ((Hn & _ & _) & Ht & Hc). destruct HT as [_ HT].
  destruct (Hc HT) as [C F]. apply HQ. split; [split; [exact Hn | congruence]|]. split; assumption.
Qed.

(* Stp: stepping level, outside transitions *)
Definition PreS (w : world) : Prop := J w /\ transitioning w = false.
Definition RelS (w w' : world) : Prop := PreS w'.

Notation Sat := (Hat PreS RelS).
Definition Stp {A} (m : LM A) : Prop := forall w, Sat m w.

Lemma Kat_Sat {A} (m : LM A) w : Kat m w -> Sat m w.
Proof.
  intros HK Q [HJ Ht] HQ. apply HK; [exact HJ|]. intros r w' (J' & T' & _). apply HQ. split; [exact J' | congruence].
Qed.

Lemma K_S {A} (m : LM A) : K m -> Stp m.
Proof. intros H w. apply Kat_Sat. apply H. Qed.

(* the combinators at each level *)
Section Combinators.
  Context {A B : Type}.
  Lemma Kat_ret (a : A) w : Kat (ret a) w. Proof. apply Hat_ret. exact Post_refl. Qed.
  Lemma Kat_raise e w : Kat (raise e : LM A) w. Proof. apply Hat_raise. exact Post_refl. Qed.
  Lemma Kat_bind (m : LM A) (f : A -> LM B) w : Kat m w -> (forall a, K (f a)) -> Kat (bind m f) w.
  Proof. intros H1 H2. eapply Hat_bind; [exact Post_trans | exact Post_pre | exact H1 | intros a w1; apply H2]. Qed.
  Lemma Kat_get (f : world -> LM A) w : Kat (f w) w -> Kat (bind get f) w. Proof. apply Hat_get. Qed.
  Lemma Kat_attempt (m : LM A) w : Kat m w -> Kat (attempt m) w. Proof. apply Hat_attempt. Qed.
  Lemma Kat_finally (m : LM A) f w : Kat m w -> K f -> Kat (finally m f) w.
  Proof. intros H1 H2. eapply Hat_finally; [exact Post_trans | exact Post_pre | exact H1 | exact H2]. Qed.
  Lemma Kat_try_catch (m : LM A) h w : Kat m w -> (forall e, K (h e)) -> Kat (try_catch m h) w.
  Proof. intros H1 H2. eapply Hat_try_catch; [exact Post_trans | exact Post_pre | exact H1 | intros e w1; apply H2]. Qed.

  Lemma Sat_ret (a : A) w : Sat (ret a) w. Proof. apply Hat_ret. intros w0 H; exact H. Qed.
  Lemma Sat_raise e w : Sat (raise e : LM A) w. Proof. apply Hat_raise. intros w0 H; exact H. Qed.
  Lemma Sat_bind (m : LM A) (f : A -> LM B) w : Sat m w -> (forall a, Stp (f a)) -> Sat (bind m f) w.
  Proof.
    intros H1 H2. eapply Hat_bind; [intros a b c _ H; exact H | intros a b _ H; exact H | exact H1 | intros a w1; apply H2].
  Qed.
  Lemma Sat_get (f : world -> LM A) w : Sat (f w) w -> Sat (bind get f) w. Proof. apply Hat_get. Qed.
  Lemma Sat_attempt (m : LM A) w : Sat m w -> Sat (attempt m) w. Proof. apply Hat_attempt. Qed.
  Lemma Sat_finally (m : LM A) f w : Sat m w -> Stp f -> Sat (finally m f) w.
  Proof.
    intros H1 H2. eapply Hat_finally; [intros a b c _ H; exact H | intros a b _ H; exact H | exact H1 | exact H2].
  Qed.

  Lemma Tat_ret (a : A) w : Tat (ret a) w. Proof. apply Hat_ret. exact RelT_refl. Qed.
  Lemma Tat_raise e w : Tat (raise e : LM A) w. Proof. apply Hat_raise. exact RelT_refl. Qed.
  Lemma Tat_bind (m : LM A) (f : A -> LM B) w : Tat m w -> (forall a w1, Tat (f a) w1) -> Tat (bind m f) w.
  Proof. intros H1 H2. eapply Hat_bind; [exact RelT_trans | exact RelT_pre | exact H1 | exact H2]. Qed.
  Lemma Tat_get (f : world -> LM A) w : Tat (f w) w -> Tat (bind get f) w. Proof. apply Hat_get. Qed.
End Combinators.

Lemma Kat_when b (m : LM unit) w : (b = true -> Kat m w) -> Kat (when b m) w.
Proof. apply Hat_when. exact Post_refl. Qed.
Lemma Sat_when b (m : LM unit) w : (b = true -> Sat m w) -> Sat (when b m) w.
Proof. apply Hat_when. intros w0 H; exact H. Qed.
Lemma Tat_when b (m : LM unit) w : (b = true -> Tat m w) -> Tat (when b m) w.
Proof. apply Hat_when. exact RelT_refl. Qed.
Lemma K_mapM {A} (f : A -> LM unit) l : (forall x, K (f x)) -> K (mapM_ f l).
Proof. intros H w. eapply Hat_mapM; [exact Post_refl | exact Post_trans | exact Post_pre | intros x w1; apply H]. Qed.
Lemma Tat_mapM {A} (f : A -> LM unit) l : (forall x w, Tat (f x) w) -> forall w, Tat (mapM_ f l) w.
Proof. intros H w. eapply Hat_mapM; [exact RelT_refl | exact RelT_trans | exact RelT_pre | exact H]. Qed.

(* one compositional step on a goal [Hat _ _ m w] *)
Ltac kstep :=
  lazymatch goal with
  | |- K _ => intro
  | |- Stp _ => intro
  | |- Hat J Post (bind get _) _ => apply Kat_get; cbv beta
  | |- Hat J Post (bind _ _) _ => apply Kat_bind; [ | intro ]
  | |- Hat J Post (ret _) _ => apply Kat_ret
  | |- Hat J Post (raise _) _ => apply Kat_raise
  | |- Hat J Post (attempt _) _ => apply Kat_attempt
  | |- Hat J Post (finally _ _) _ => apply Kat_finally
  | |- Hat J Post (try_catch _ _) _ => apply Kat_try_catch; [ | intro ]
  | |- Hat J Post (when _ _) _ => apply Kat_when; intro
  | |- Hat PreS RelS (bind get _) _ => apply Sat_get; cbv beta
  | |- Hat PreS RelS (bind _ _) _ => apply Sat_bind; [ | intro ]
  | |- Hat PreS RelS (ret _) _ => apply Sat_ret
  | |- Hat PreS RelS (raise _) _ => apply Sat_raise
  | |- Hat PreS RelS (attempt _) _ => apply Sat_attempt
  | |- Hat PreS RelS (finally _ _) _ => apply Sat_finally
  | |- Hat PreS RelS (when _ _) _ => apply Sat_when; intro
  | |- Hat TI RelT (bind get _) _ => apply Tat_get; cbv beta
  | |- Hat TI RelT (bind _ _) _ => apply Tat_bind; [ | intros ? ? ]
  | |- Hat TI RelT (ret _) _ => apply Tat_ret
  | |- Hat TI RelT (raise _) _ => apply Tat_raise
  | |- Hat TI RelT (when _ _) _ => apply Tat_when; intro
  | |- Hat _ _ (match ?x with _ => _ end) _ => destruct x eqn:?
  | |- Hat _ _ (if ?x then _ else _) _ => destruct x eqn:?
  | |- Hat _ _ (let _ := _ in _) _ => cbv zeta
  end.

(* ------------------------------------------------------------------ strict frames *)
(* a pure bookkeeping operation: configuration, the core fields and both transition flags are untouched *)
Definition Fr {A} (m : LM A) : Prop :=
  forall w (Q : result A -> world -> Prop),
    (forall r w', cfg w' = cfg w -> core_eq w w' ->
                  transitioning w' = transitioning w /\ transition_failing w' = transition_failing w -> Q r w') -> wp m Q w.

Lemma Fr_K {A} (m : LM A) : Fr m -> K m.
Proof.
  intros HF w Q (Hn & Hfi & HJ) HQ. apply HF. intros r w' Hc Hcore [Ht Hf]. apply HQ.
  split; [|split; [exact Ht | intros _; split; [exact Hcore | exact Hf]]].
  split; [unfold nofault in *; congruence|]. split.
  - unfold FI in *. rewrite Ht, Hf. exact Hfi.
  - intro Ht'. apply (agree_core w w' Hcore). apply HJ. congruence.
Qed.

Ltac core_done := repeat split; first [ reflexivity | (apply marks_snoc; reflexivity) ].
Ltac fr_done HQ := apply HQ; [reflexivity | core_done | split; reflexivity].

Ltac use L := first [ eapply L | apply wp_bind_i; eapply L ].

Lemma Fr_bind {A B} (m : LM A) (f : A -> LM B) : Fr m -> (forall a, Fr (f a)) -> Fr (bind m f).
Proof.
  intros Hm Hf w Q HQ. wp_prim. apply Hm. intros r w1 C1 E1 T1. destruct r as [a|e]; cbv beta iota.
  - apply Hf. intros r2 w2 C2 E2 [T2 F2]. destruct T1 as [T1 F1]. apply HQ; [congruence | eapply core_eq_trans; eauto | split; congruence].
  - apply HQ; assumption.
Qed.

Lemma Fr_ret {A} (a : A) : Fr (ret a : LM A).
Proof. intros w Q HQ. wp_prim. fr_done HQ. Qed.

Lemma Fr_raise {A} e : Fr (raise e : LM A).
Proof. intros w Q HQ. wp_prim. fr_done HQ. Qed.

Lemma emit_Fr e : is_mark e = false -> Fr (emit e).
Proof.
  intros He w Q HQ. unfold emit. wp_prim. apply HQ; [reflexivity | | split; reflexivity].
  repeat split; try reflexivity. apply marks_snoc. exact He.
Qed.

Lemma schedule_Fr r : Fr (schedule r).
Proof. intros w Q HQ. unfold schedule. wp_prim. fr_done HQ. Qed.

Lemma hook_Fr name : Fr (hook name).
Proof.
  intros w Q HQ. unfold hook, emit. repeat wp_prim.
  wp_case; [destruct p as [[h k] e]; wp_case|]; wp_prim; fr_done HQ.
Qed.

Lemma set_act_fut_Fr id f : Fr (set_act_fut id f).
Proof. intros w Q HQ. unfold set_act_fut. wp_prim. fr_done HQ. Qed.

Lemma cancel_act_Fr id : Fr (cancel_act id).
Proof.
  intros w Q HQ. unfold cancel_act. do 2 wp_prim. wp_case; [wp_case|]; try (wp_prim; fr_done HQ).
  apply set_act_fut_Fr. exact HQ.
Qed.

Lemma set_interrupt_action_Fr new : Fr (set_interrupt_action new).
Proof.
  intros w Q HQ. unfold set_interrupt_action. do 3 wp_prim. wp_case.
  - use cancel_act_Fr. intros r w1 C1 E1 T1. destruct r; cbv beta iota.
    + repeat wp_prim. apply HQ; [exact C1 | exact E1 | exact T1].
    + apply HQ; assumption.
  - do 2 wp_prim. fr_done HQ.
Qed.

Lemma set_interrupt_action_from_Fr k c : Fr (set_interrupt_action_from k c).
Proof.
  intros w Q HQ. unfold set_interrupt_action_from. do 5 wp_prim.
  apply set_interrupt_action_Fr. intros r w1 C1 E1 T1. destruct r; cbv beta iota.
  - wp_prim. apply HQ; [exact C1 | exact E1 | exact T1].
  - apply HQ; assumption.
Qed.

Lemma fresh_Fr : Fr fresh.
Proof. intros w Q HQ. unfold fresh. do 5 wp_prim. fr_done HQ. Qed.

Lemma set_t0_Fr p : Fr (set_t0 p).
Proof. intros w Q HQ. unfold set_t0. wp_prim. fr_done HQ. Qed.

Lemma set_t0'_Fr p : Fr (set_t0' p).
Proof. intros w Q HQ. unfold set_t0'. wp_prim. fr_done HQ. Qed.

(* a change of the payload of a WAITING state keeps the core *)
Lemma core_eq_waiting w w' fn m d wid wf fn' m' d' wid' wf' :
  st w = Some (SWaiting fn m d wid wf) -> st w' = Some (SWaiting fn' m' d' wid' wf') ->
  pfut w' = pfut w -> closed w' = closed w -> hooks_alive w' = hooks_alive w -> outputs w' = outputs w ->
  marks (trace w') = marks (trace w) -> cleanups w' = cleanups w -> core_eq w w'.
Proof. intros H1 H2 A2 A3 A4 A5 A6 A7. unfold core_eq. rewrite H1, H2. repeat split; assumption. Qed.

Lemma state_interrupt_Fr iid : Fr (state_interrupt iid).
Proof.
  intros w Q HQ. unfold state_interrupt. do 2 wp_prim.
  destruct (st w) as [cur|] eqn:Hst; [|wp_prim; fr_done HQ].
  destruct cur; try (wp_prim; fr_done HQ). destruct wf; [|wp_prim; fr_done HQ].
  do 2 wp_prim.
  match goal with |- wp _ _ ?w' => assert (E1 : core_eq w w') by (eapply core_eq_waiting; [exact Hst | reflexivity | reflexivity ..]) end.
  wp_case; try (wp_prim; apply HQ; [reflexivity | exact E1 | split; reflexivity]).
  wp_case; [|apply HQ; [reflexivity | exact E1 | split; reflexivity]].
  apply schedule_Fr. intros r w2 C2 E2 T2. apply HQ; [exact C2 | eapply core_eq_trans; eauto | exact T2].
Qed.

Lemma state_recall_Fr iid : Fr (state_recall iid).
Proof.
  intros w Q HQ. unfold state_recall. do 2 wp_prim. wp_case; [|wp_prim; fr_done HQ].
  wp_case; [|wp_prim; fr_done HQ]. do 2 wp_prim.
  destruct (st w) as [cur|] eqn:Hst; [|wp_prim; fr_done HQ].
  destruct cur; try (wp_prim; fr_done HQ). destruct wf as [|wk0]; [wp_prim; fr_done HQ|].
  destruct wk0; try (wp_prim; fr_done HQ).
  wp_case; [|wp_prim; fr_done HQ].
  unfold fresh. repeat wp_prim. apply HQ; [reflexivity | | split; reflexivity].
  eapply core_eq_waiting; [exact Hst | reflexivity | reflexivity ..].
Qed.

Lemma resume_Fr v : Fr (resume v).
Proof.
  intros w Q HQ. unfold resume. do 2 wp_prim.
  destruct (st w) as [cur|] eqn:Hst; [|wp_prim; fr_done HQ].
  destruct cur; try (wp_prim; fr_done HQ). cbv zeta. destruct wf as [|wk0].
  - do 2 wp_prim.
    match goal with |- wp _ _ ?w' => assert (E1 : core_eq w w') by (eapply core_eq_waiting; [exact Hst | reflexivity | reflexivity ..]) end.
    wp_prim.
    wp_case; try (wp_prim; cbv beta iota; wp_prim; apply HQ; [reflexivity | exact E1 | split; reflexivity]).
    wp_case.
    + apply schedule_Fr. intros r w2 C2 E2 T2. destruct r; cbv beta iota; [wp_prim|];
        (apply HQ; [exact C2 | eapply core_eq_trans; eauto | exact T2]).
    + cbv beta iota. wp_prim. apply HQ; [reflexivity | exact E1 | split; reflexivity].
  - destruct wk0; try (wp_prim; fr_done HQ).
    unfold fresh. repeat wp_prim. apply HQ; [reflexivity | | split; reflexivity].
    eapply core_eq_waiting; [exact Hst | reflexivity | reflexivity ..].
Qed.

(* a modification that touches neither the configuration, the core nor the flags *)
Lemma modify_Fr f :
  (forall w, cfg (f w) = cfg w /\ core_eq w (f w) /\ transitioning (f w) = transitioning w
             /\ transition_failing (f w) = transition_failing w) -> Fr (modify f).
Proof. intros H w Q HQ. wp_prim. destruct (H w) as (A & B & C & D). apply HQ; [exact A | exact B | split; assumption]. Qed.

Ltac fr_modify := apply Fr_K; apply modify_Fr; intro; repeat split; reflexivity.

(* ------------------------------------------------------------------ inside a transition *)
Lemma Fr_Tat {A} (m : LM A) w : Fr m -> Tat m w.
Proof. intro H. apply Kat_Tat. apply Fr_K. exact H. Qed.

(* hooks of a configuration without an injected fault return normally *)
Lemma hook_ok name w (Q : result unit -> world -> Prop) :
  TI w -> (forall w', RelT w w' -> Q (Ok tt) w') -> wp (hook name) Q w.
Proof.
  intros [Hn Ht] HQ. unfold hook, emit. repeat wp_prim. unfold nofault in Hn. rewrite Hn. wp_prim.
  apply HQ. split; [split; [exact Hn | exact Ht]|]. split; [core_done | reflexivity].
Qed.

(* Future.set_result / set_exception *)
Lemma pfut_set_spec f w (Q : result unit -> world -> Prop) :
  (forall r w', cfg w' = cfg w -> transitioning w' = transitioning w -> transition_failing w' = transition_failing w ->
                st w' = st w -> closed w' = closed w -> hooks_alive w' = hooks_alive w -> outputs w' = outputs w ->
                trace w' = trace w -> cleanups w' = cleanups w ->
                match r with Ok _ => pfut w' = f | Err _ => pfut w' = pfut w end -> Q r w') ->
  wp (pfut_set f) Q w.
Proof.
  intros HQ. unfold pfut_set, schedule. repeat (wp_prim || wp_case); apply HQ; reflexivity.
Qed.

(* what entering state ns does to the future *)
Definition pf_entered (ns : pstate) (w w' : world) : Prop :=
  match ns with
  | SFinished _ _ => pfut w' = PfResult (outputs w)
  | SExcepted e => pfut w' = PfExn e
  | SKilled m => pfut w' = PfExn (EKilled (killed_text m))
  | _ => pfut w' = pfut w
  end.

(* the fields other than the future are framed *)
Definition side_eq (w w' : world) : Prop :=
  TI w' /\ transition_failing w' = transition_failing w /\ tv (st w') = tv (st w) /\ closed w' = closed w
  /\ hooks_alive w' = hooks_alive w /\ outputs w' = outputs w /\ marks (trace w') = marks (trace w) /\ cleanups w' = cleanups w.

Lemma side_eq_of_RelT w w' : RelT w w' -> side_eq w w' /\ pfut w' = pfut w.
Proof. intros (T & (A1 & A2 & A3 & A4 & A5 & A6 & A7) & F). repeat split; try assumption; apply T. Qed.

Lemma side_eq_trans a b c : side_eq a b -> side_eq b c -> side_eq a c.
Proof. intros (_ & A1 & A2 & A3 & A4 & A5 & A6 & A7) (T & B1 & B2 & B3 & B4 & B5 & B6 & B7). repeat split; try apply T; congruence. Qed.

(* writing back a world that differs from the current one outside the configuration, the core and the flags *)
Lemma frame_Post w w' :
  J w -> cfg w' = cfg w -> core_eq w w' -> transitioning w' = transitioning w -> transition_failing w' = transition_failing w ->
  Post w w'.
Proof.
  intros (Hn & Hfi & HJ) Hc Hcore Ht Hf.
  split; [|split; [exact Ht | intros _; split; [exact Hcore | exact Hf]]].
  split; [unfold nofault in *; congruence|]. split.
  - unfold FI in *. rewrite Ht, Hf. exact Hfi.
  - intro Ht'. apply (agree_core w w' Hcore). apply HJ. congruence.
Qed.

Lemma put_Kat w w' :
  cfg w' = cfg w -> core_eq w w' -> transitioning w' = transitioning w -> transition_failing w' = transition_failing w ->
  Kat (put w') w.
Proof. intros A B C D Q HJ HQ. wp_prim. apply HQ. apply frame_Post; assumption. Qed.

Ltac put_frame := apply put_Kat; [reflexivity | repeat split; reflexivity | reflexivity | reflexivity].
Ltac kfr := apply Fr_K; first [ (apply emit_Fr; reflexivity) | apply schedule_Fr | apply hook_Fr | apply set_act_fut_Fr | apply cancel_act_Fr
                               | apply set_interrupt_action_Fr | apply set_interrupt_action_from_Fr | apply fresh_Fr | apply set_t0_Fr
                               | apply set_t0'_Fr | apply state_interrupt_Fr | apply state_recall_Fr | apply resume_Fr
                               | apply Fr_ret | apply Fr_raise
                               | (apply modify_Fr; intro; repeat split; reflexivity) ].
Ltac kauto := repeat first [ kstep | put_frame | kfr ].

Lemma pfut_set_side f w1 (Q' : result unit -> world -> Prop) :
  TI w1 ->
  (forall (r : result unit) w2, side_eq w1 w2 ->
      match r with Ok _ => pfut w2 = f | Err _ => pfut w2 = pfut w1 end -> Q' r w2) ->
  wp (pfut_set f) Q' w1.
Proof.
  intros [N1 T1] H. apply pfut_set_spec. intros r w2 A B C D E F G G2 G3 I.
  assert (SE : side_eq w1 w2).
  { split; [split; [unfold nofault in *; congruence | congruence]|]. repeat split; try assumption; [rewrite D | rewrite G2]; reflexivity. }
  apply H; assumption.
Qed.

(* a frame on everything but the marks of the trace, which grow by [ex] *)
Definition RelM (w w' : world) (ex : list event) : Prop :=
  TI w' /\ transition_failing w' = transition_failing w /\ tv (st w') = tv (st w) /\ pfut w' = pfut w /\ closed w' = closed w
  /\ hooks_alive w' = hooks_alive w /\ outputs w' = outputs w /\ marks (trace w') = marks (trace w) ++ ex
  /\ cleanups w' = cleanups w.

Lemma RelM_of_RelT w w' : RelT w w' -> RelM w w' [].
Proof. intros (T & (A1 & A2 & A3 & A4 & A5 & A6 & A7) & F). repeat split; try assumption; try apply T. rewrite app_nil_r. exact A6. Qed.

Lemma RelT_of_RelM w w' : RelM w w' [] -> RelT w w'.
Proof.
  intros (T & F & A1 & A2 & A3 & A4 & A5 & A6 & A7). rewrite app_nil_r in A6.
  split; [exact T|]. split; [repeat split; assumption | exact F].
Qed.

Lemma RelM_RelT a b c ex : RelM a b ex -> RelT b c -> RelM a c ex.
Proof.
  intros (_ & F & A1 & A2 & A3 & A4 & A5 & A6 & A7) (T & (B1 & B2 & B3 & B4 & B5 & B6 & B7) & G).
  repeat split; try apply T; congruence.
Qed.

Lemma RelT_RelM a b c ex : RelT a b -> RelM b c ex -> RelM a c ex.
Proof.
  intros (_ & (B1 & B2 & B3 & B4 & B5 & B6 & B7) & G) (T & F & A1 & A2 & A3 & A4 & A5 & A6 & A7).
  repeat split; try apply T; congruence.
Qed.

Section Reentrant.
  Variable rec_ctl : ctl -> LM cret.
  Hypothesis Hrec : forall c, K (rec_ctl c).

  (* EventHelper.fire_event at control level (not a terminal notification) *)
  Lemma fire_K name : term_note name = false -> K (fire rec_ctl name).
  Proof.
    intros Hn w. unfold fire. kstep. kstep; [put_frame|]. intro w1. kstep; [apply Fr_K; apply emit_Fr; exact Hn|].
    intro w2. apply K_mapM. intros ls wx. kauto. apply Hrec.
  Qed.

  (* inside a transition nothing raises out of fire; the notification is recorded once *)
  Lemma fire_ok name w (Q : result unit -> world -> Prop) :
    TI w -> (forall w', RelM w w' (if term_note name then [EvListener name] else []) -> Q (Ok tt) w') -> wp (fire rec_ctl name) Q w.
  Proof.
    intros HT HQ. unfold fire, emit. repeat wp_prim.
    set (ex := if term_note name then [EvListener name] else []) in *.
    match goal with |- wp _ _ ?w1 => assert (H1 : RelM w w1 ex) end.
    { repeat split; try reflexivity; try apply HT. cbn [trace]. unfold RecordSet.set; cbn. rewrite marks_app. cbn. subst ex.
      destruct (term_note name); reflexivity. }
    eapply wp_mapM_inv with (I := fun s => RelM w s ex); [exact H1 | | intros s' H; apply HQ; exact H].
    intros ls s1 _ R1. assert (T1 : TI s1) by apply R1. wp_case.
    - do 2 wp_prim. eapply (Kat_Tat _ _ (Hrec _ _)); [exact T1|]. intros r s2 R2. cbv beta iota.
      wp_prim. split; [reflexivity|]. eapply RelM_RelT; [exact R1|]. eapply RelT_trans; [exact R2|].
      destruct R2 as (T2 & _). split; [exact T2|]. split; [core_done | reflexivity].
    - wp_prim. auto.
  Qed.

  (* on_entering, hooks alive *)
  Lemma on_entering_spec ns w (Q : result (option pstate) -> world -> Prop) :
    TI w ->
    (forall r w', side_eq w w' ->
        match r with
        | Ok None => pf_entered ns w w'
        | _ => pfut w' = pfut w
        end -> Q r w') ->
    wp (on_entering ns) Q w.
  Proof.
    intros HT HQ. unfold on_entering.
    assert (Hps : forall f w1 (k : LM (option pstate)) (Q' : result (option pstate) -> world -> Prop),
               (forall (r : result unit) w2, side_eq w1 w2 ->
                   match r with Ok _ => pfut w2 = f | Err _ => pfut w2 = pfut w1 end ->
                   match r with Ok _ => wp k Q' w2 | Err e => Q' (Err e) w2 end) ->
               TI w1 -> wp (bind (pfut_set f) (fun _ => k)) Q' w1).
    { intros f w1 k Q' H T1. wp_prim. apply pfut_set_side; [exact T1|]. intros r w2 SE I.
      destruct r as [u|e]; cbv beta iota; [apply (H (Ok u) w2) | apply (H (Err e) w2)]; assumption. }
    destruct ns.
    - use hook_ok; [exact HT|]. intros w1 R1. cbv beta iota. wp_prim. destruct (side_eq_of_RelT _ _ R1). apply HQ; assumption.
    - use hook_ok; [exact HT|]. intros w1 R1. cbv beta iota. wp_prim. destruct (side_eq_of_RelT _ _ R1). apply HQ; assumption.
    - use hook_ok; [exact HT|]. intros w1 R1. cbv beta iota. wp_prim. destruct (side_eq_of_RelT _ _ R1). apply HQ; assumption.
    - use hook_ok; [exact HT|]. intros w1 R1. cbv beta iota. destruct (side_eq_of_RelT _ _ R1) as [S1 P1]. do 2 wp_prim. wp_case.
      + wp_prim. apply HQ; assumption.
      + apply Hps; [|apply R1]. intros r w2 S2 P2. destruct r.
        * wp_prim. apply HQ; [eapply side_eq_trans; eauto|]. cbn. rewrite P2. destruct S1 as (_ & _ & _ & _ & _ & O1 & _). rewrite O1. reflexivity.
        * apply HQ; [eapply side_eq_trans; eauto | congruence].
    - use hook_ok; [exact HT|]. intros w1 R1. cbv beta iota. destruct (side_eq_of_RelT _ _ R1) as [S1 P1]. do 3 wp_prim. wp_case.
      + repeat wp_prim. apply HQ; [|reflexivity].
        destruct S1 as (T1 & F1 & V1 & C1 & K1 & O1 & M1 & L1). split; [exact T1|]. repeat split; assumption.
      + apply pfut_set_side; [apply R1|]. intros r w2 S2 P2. destruct r.
        * wp_prim. apply HQ; [eapply side_eq_trans; eauto|]. cbn. exact P2.
        * apply HQ; [eapply side_eq_trans; eauto | congruence].
    - use hook_ok; [exact HT|]. intros w1 R1. cbv beta iota. destruct (side_eq_of_RelT _ _ R1) as [S1 P1]. do 5 wp_prim.
      match goal with |- wp _ _ ?w1' => set (w1s := w1') end.
      assert (S1s : side_eq w w1s) by exact S1. assert (T1s : TI w1s) by apply R1.
      assert (Hset : wp (pfut_set (PfExn (EKilled match msg with Some (Some t) => t | _ => ""%string end)))
                        (fun r s' => match r with Ok _ => wp (ret None) Q s' | Err e => Q (Err e) s' end) w1s).
      { apply pfut_set_side; [exact T1s|]. intros r w2 S2 P2. destruct r.
        * wp_prim. apply HQ; [eapply side_eq_trans; eauto|]. cbn. exact P2.
        * apply HQ; [eapply side_eq_trans; eauto|]. rewrite P2. exact P1. }
      destruct (pfut w1s) eqn:Hp; try exact Hset.
      repeat wp_prim. apply HQ; [|reflexivity].
      destruct S1 as (T1 & F1 & V1 & C1 & K1 & O1 & M1 & L1). split; [exact T1|]. repeat split; assumption.
  Qed.
  Lemma RelT_of_side w w' : side_eq w w' -> pfut w' = pfut w -> RelT w w'.
  Proof. intros (T & F & V & C & H & O & M & L) P. split; [exact T|]. split; [repeat split; assumption | exact F]. Qed.

  Lemma wp_conj {A} (m : LM A) (Q1 Q2 : result A -> world -> Prop) w :
    wp m Q1 w -> wp m Q2 w -> wp m (fun r s => Q1 r s /\ Q2 r s) w.
  Proof. unfold wp. auto. Qed.

  Lemma wp_const {A} (m : LM A) (P : Prop) w : P -> wp m (fun _ _ => P) w.
  Proof. unfold wp. auto. Qed.

  Lemma wp_result {A} (m : LM A) (P : result A -> Prop) w : P (fst (m w)) -> wp m (fun r _ => P r) w.
  Proof. unfold wp. auto. Qed.

  (* _exit_current_state is a frame on the core; when it returns normally the process was live *)
  Lemma exit_current_spec ns w (Q : result unit -> world -> Prop) :
    TI w -> (forall r w', RelT w w' -> (r = Ok tt -> is_terminated w = false) -> Q r w') -> wp (exit_current ns) Q w.
  Proof.
    intros HT HQ. unfold exit_current. do 2 wp_prim. destruct (st w) as [cur|] eqn:Hst.
    2: { wp_case; wp_prim; (apply HQ; [apply RelT_refl; exact HT | intros _; unfold is_terminated; rewrite Hst; reflexivity]). }
    wp_case; [wp_prim; apply HQ; [apply RelT_refl; exact HT | discriminate]|].
    assert (Hrest : forall w1, RelT w w1 ->
              wp (if terminal (label_of cur) then raise EInvalidState
                  else match cur with
                       | SWaiting fn msg data wid WfPending =>
                           bind (modify (fun w => w <| st := Some (SWaiting fn msg data wid (WfDone WkNull)) |>))
                             (fun _ => bind get (fun w' => match t0 w' with
                                                       | PcAwaitWaiting wid' => when (Nat.eqb wid wid') (schedule (RWakeT0 WkNull))
                                                       | _ => ret tt
                                                       end))
                       | _ => ret tt
                       end) Q w1).
    { intros w1 R1. destruct (terminal (label_of cur)) eqn:Hterm; [wp_prim; apply HQ; [exact R1 | discriminate]|].
      assert (Hlive : is_terminated w = false) by (unfold is_terminated; rewrite Hst; exact Hterm).
      destruct cur; try (wp_prim; apply HQ; [exact R1 | intros _; exact Hlive]).
      destruct wf; [|wp_prim; apply HQ; [exact R1 | intros _; exact Hlive]].
      do 3 wp_prim.
      match goal with |- wp _ _ ?w2 => assert (R2 : RelT w w2) end.
      { destruct R1 as (T1 & (A1 & A2 & A3 & A4 & A5 & A6 & A7) & F1). split; [exact T1|]. split; [|exact F1].
        repeat split; try assumption. cbn. rewrite Hst. reflexivity. }
      wp_prim. wp_case; try (wp_prim; apply HQ; [exact R2 | intros _; exact Hlive]).
      wp_case; [|apply HQ; [exact R2 | intros _; exact Hlive]].
      unfold schedule. wp_prim. apply HQ; [|intros _; exact Hlive].
      eapply RelT_trans; [exact R2|]. destruct R2 as (T2 & _). split; [exact T2|]. split; [core_done | reflexivity]. }
    wp_prim. wp_case.
    - destruct cur; first [ wp_prim; cbv beta iota; apply Hrest; apply RelT_refl; exact HT
                          | eapply hook_ok; [exact HT|]; intros w1 R1; cbv beta iota; apply Hrest; exact R1 ].
    - cbv beta iota. apply Hrest. apply RelT_refl. exact HT.
  Qed.
  (* on_entered: hooks and listeners; nothing raises; a terminal state is notified once *)
  Definition note_ev (s : option pstate) : list event :=
    match tv s with Some x => [EvListener (note_of x)] | None => [] end.

  Lemma on_entered_ok w0 w (Q : result unit -> world -> Prop) :
    TI w -> (forall w', RelM w w' (note_ev (st w)) -> Q (Ok tt) w') -> wp (on_entered rec_ctl w0) Q w.
  Proof.
    intros HT HQ. unfold on_entered. do 2 wp_prim.
    assert (Hhf : forall h l, (if term_note l then [EvListener l] else []) = note_ev (st w) ->
                              wp (bind (hook h) (fun _ => fire rec_ctl l)) Q w).
    { intros h l El. use hook_ok; [exact HT|]. intros w1 R1. cbv beta iota. apply fire_ok; [apply R1|].
      intros w2 R2. apply HQ. rewrite <- El. eapply RelT_RelM; eauto. }
    destruct (st w) as [[]|]; try (apply Hhf; reflexivity);
      try (wp_prim; apply HQ; apply RelM_of_RelT; apply RelT_refl; exact HT).
    use hook_ok; [exact HT|]. intros w1 R1. cbv beta iota. do 2 wp_prim. apply fire_ok.
    - destruct R1 as (T1 & _). exact T1.
    - intros w2 R2. apply HQ. eapply RelT_RelM; [exact R1|]. eapply RelT_RelM; [|exact R2].
      destruct R1 as (T1 & _). split; [exact T1|]. split; [core_done | reflexivity].
  Qed.

  (* the outcome of a successful _enter_next_state *)
  Definition entered (ns : pstate) (w w' : world) : Prop :=
    TI w' /\ transition_failing w' = transition_failing w /\ tv (st w') = tv (Some ns) /\ closed w' = closed w
    /\ hooks_alive w' = hooks_alive w /\ outputs w' = outputs w /\ pf_entered ns w w'
    /\ marks (trace w') = marks (trace w) ++ note_ev (Some ns) /\ cleanups w' = cleanups w.

  Lemma pf_entered_eq ns w w1 w2 : pf_entered ns w w1 -> pfut w2 = pfut w1 -> pf_entered ns w w2.
  Proof. unfold pf_entered. intros H E. destruct ns; congruence. Qed.

  Lemma enter_next_spec ns w (Q : result (option pstate) -> world -> Prop) :
    TI w -> hooks_alive w = true ->
    (forall r w', match r with Ok None => entered ns w w' | _ => RelT w w' end -> Q r w') ->
    wp (enter_next rec_ctl ns) Q w.
  Proof.
    intros HT Hk HQ. unfold enter_next. do 2 wp_prim. rewrite Hk. wp_prim.
    apply on_entering_spec; [exact HT|]. intros r w1 S1 P1. destruct r as [[s'|]|e]; cbv beta iota.
    - wp_prim. apply HQ. apply RelT_of_side; assumption.
    - do 4 wp_prim. unfold emit. do 3 wp_prim.
      match goal with |- wp _ _ ?w2 => set (w2s := w2) end.
      destruct S1 as (T1 & F1 & V1 & C1 & K1 & O1 & M1 & L1).
      assert (T2 : TI w2s) by exact T1.
      assert (M2 : marks (trace w2s) = marks (trace w1)).
      { subst w2s. cbn [trace]. unfold RecordSet.set; cbn. apply marks_snoc. reflexivity. }
      wp_prim. replace (hooks_alive w2s) with true by (symmetry; change (hooks_alive w1 = true); congruence).
      unfold when. use on_entered_ok; [exact T2|]. intros w3 (T3 & F3 & A1 & A2 & A3 & A4 & A5 & A6 & A7). cbv beta iota. wp_prim.
      apply HQ. split; [exact T3|]. split; [rewrite F3; exact F1|]. split; [rewrite A1; reflexivity|].
      split; [rewrite A3; exact C1|]. split; [rewrite A4; exact K1|]. split; [rewrite A5; exact O1|].
      split; [eapply pf_entered_eq; [exact P1 | exact A2]|].
      split; [rewrite A6, M2, M1; reflexivity | rewrite A7; exact L1].
    - apply HQ. apply RelT_of_side; assumption.
  Qed.

  (* the registered cleanups are run in order, each once *)
  Lemma emit_cleanups_spec l : forall w (Q : result unit -> world -> Prop),
    TI w ->
    (forall w', RelM w w' (map EvCleanup l) -> Q (Ok tt) w') ->
    wp (mapM_ (fun c => emit (EvCleanup c)) l) Q w.
  Proof.
    induction l as [|c l IH]; intros w Q HT HQ; cbn [mapM_ map].
    - wp_prim. apply HQ. apply RelM_of_RelT. apply RelT_refl. exact HT.
    - unfold emit at 1. do 2 wp_prim. apply IH; [exact HT|]. intros w' (T & F & A1 & A2 & A3 & A4 & A5 & A6 & A7). apply HQ.
      repeat split; try assumption; try apply T. rewrite A6. cbn [trace]. unfold RecordSet.set; cbn. rewrite marks_app. cbn.
      rewrite <- app_assoc. reflexivity.
  Qed.

  (* on_terminated of a process that is not closed yet: hook, release of a paused stepping task, close *)
  Lemma on_terminated_spec w (Q : result unit -> world -> Prop) :
    TI w -> closed w = false ->
    (forall w', TI w' -> transition_failing w' = transition_failing w -> tv (st w') = tv (st w) -> pfut w' = pfut w ->
                outputs w' = outputs w -> closed w' = true -> hooks_alive w' = false ->
                marks (trace w') = marks (trace w) ++ map EvCleanup (cleanups w) -> cleanups w' = [] -> Q (Ok tt) w') ->
    wp on_terminated Q w.
  Proof.
    intros HT Hc HQ. unfold on_terminated.
    assert (Hclose : forall w1, RelT w w1 -> wp close Q w1).
    { intros w1 (T1 & (A1 & A2 & A3 & A4 & A5 & A6 & A7) & F1). unfold close. do 2 wp_prim. rewrite A3, Hc. unfold on_close.
      use hook_ok; [exact T1|]. intros w2 (T2 & (B1 & B2 & B3 & B4 & B5 & B6 & B7) & F2). cbv beta iota. do 4 wp_prim.
      apply emit_cleanups_spec; [exact T2|].
      intros s' (T3 & F3 & C1 & C2 & C3 & C4 & C5 & C6 & C7). cbv beta iota. do 2 wp_prim.
      apply HQ; cbn; try reflexivity; try apply T3; try congruence.
      change (marks (trace s') = marks (trace w) ++ map EvCleanup (cleanups w)). rewrite C6, B6, A6, B7, A7. reflexivity. }
    use hook_ok; [exact HT|]. intros w1 R1. cbv beta iota. do 3 wp_prim.
    repeat wp_case; cbv beta iota; try (wp_prim; cbv beta iota; apply Hclose; exact R1).
    - unfold schedule. wp_prim. cbv beta iota. apply Hclose. eapply RelT_trans; [exact R1|].
      destruct R1 as (T1 & _). split; [exact T1|]. split; [core_done | reflexivity].
    - apply Hclose; exact R1.
  Qed.

  (* facts about a live process whose views agree *)
  Lemma agree_live w : agree w -> is_terminated w = false ->
    unresolved (pfut w) /\ closed w = false /\ hooks_alive w = true /\ tv (st w) = None
    /\ marks (trace w) = [] /\ cleanups w = [0].
  Proof.
    unfold agree. rewrite is_terminated_tv. destruct (tv (st w)) as [s|] eqn:E; [discriminate|]. intros H _. cbn in H. tauto.
  Qed.

  Lemma entered_then_terminate ns w1 w2 (Q : result unit -> world -> Prop) :
    entered ns w1 w2 -> agree w1 -> is_terminated w1 = false ->
    (forall w3, TI w3 -> transition_failing w3 = transition_failing w1 -> agree w3 -> Q (Ok tt) w3) ->
    wp (bind get (fun w' => when (is_terminated w') on_terminated)) Q w2.
  Proof.
    intros (T2 & F2 & V2 & C2 & K2 & O2 & P2 & M2 & L2) Ha Hl HQ. destruct (agree_live _ Ha Hl) as (U1 & C1 & K1 & V1 & M1 & L1).
    do 2 wp_prim. rewrite is_terminated_tv, V2.
    destruct ns; cbn [tv pf_entered when note_ev note_of] in *.
    1-3: (wp_prim; apply HQ; [exact T2 | exact F2 | unfold agree; rewrite V2, P2, C2, K2, C1, K1, M2, M1, L2, L1; cbn; auto]).
    all: (apply on_terminated_spec; [exact T2 | congruence |]; intros w3 T3 F3 V3 P3 O3 C3 K3 M3 L3; apply HQ; [exact T3 | congruence |];
          unfold agree; rewrite V3, V2, P3, P2, C3, K3, O3, M3, M2, M1, L3, L2, L1; cbn; repeat split; congruence).
  Qed.

  Definition body_rest (ns : pstate) : LM unit :=
    bind (enter_next rec_ctl ns) (fun r =>
      bind (match r with
            | Some s' => bind (exit_current s') (fun _ => bind (enter_next rec_ctl s') (fun _ => ret tt))
            | None => ret tt
            end) (fun _ => bind get (fun w' => when (is_terminated w') (on_terminated)))).

  Lemma transition_body_unfold ns :
    transition_body rec_ctl ns =
    bind (modify (fun w => w <| transitioning := true |>))
         (fun _ => bind get (fun w => bind (when (negb (transition_failing w)) (exit_current ns)) (fun _ => body_rest ns))).
  Proof. reflexivity. Qed.

  Lemma body_rest_spec ns w1 (Q : result unit -> world -> Prop) :
    TI w1 -> agree w1 -> is_terminated w1 = false ->
    (forall r w', TI w' -> transition_failing w' = transition_failing w1 ->
                  match r with Ok _ => agree w' | Err _ => core_eq w1 w' end -> Q r w') ->
    wp (body_rest ns) Q w1.
  Proof.
    intros T1 Ha Hl HQ. destruct (agree_live _ Ha Hl) as (U1 & C1 & K1 & V1). unfold body_rest. wp_prim.
    apply enter_next_spec; [exact T1 | exact K1 |]. intros r w2 H2. destruct r as [[s'|]|e]; cbv beta iota.
    - destruct H2 as (T2 & E2 & F2). do 2 wp_prim. apply exit_current_spec; [exact T2|]. intros r3 w3 (T3 & E3 & F3) _.
      assert (E13 : core_eq w1 w3) by (eapply core_eq_trans; eauto).
      destruct r3; cbv beta iota; [|apply HQ; [exact T3 | congruence | exact E13]].
      wp_prim. apply enter_next_spec; [exact T3 | destruct E13 as (_ & _ & _ & X & _); congruence |].
      intros r4 w4 H4. destruct r4 as [[s''|]|e4]; cbv beta iota.
      + destruct H4 as (T4 & E4 & F4). assert (E14 : core_eq w1 w4) by (eapply core_eq_trans; eauto).
        wp_prim. do 2 wp_prim. rewrite (core_eq_terminated _ _ E14), Hl. unfold when. wp_prim.
        apply HQ; [exact T4 | congruence | eapply agree_core; eauto].
      + wp_prim. apply (entered_then_terminate s' w3); [exact H4 | eapply agree_core; eauto | rewrite (core_eq_terminated _ _ E13); exact Hl |].
        intros w5 T5 F5 A5. apply HQ; [exact T5 | congruence | exact A5].
      + destruct H4 as (T4 & E4 & F4). apply HQ; [exact T4 | congruence | eapply core_eq_trans; eauto].
    - do 2 wp_prim. apply (entered_then_terminate ns w1); [exact H2 | exact Ha | exact Hl |].
      intros w5 T5 F5 A5. apply HQ; assumption.
    - destruct H2 as (T2 & E2 & F2). apply HQ; assumption.
  Qed.

  Lemma transition_body_spec ns w (Q : result unit -> world -> Prop) :
    nofault w -> agree w -> (transition_failing w = true -> is_terminated w = false) ->
    (forall r w', TI w' -> transition_failing w' = transition_failing w ->
                  match r with Ok _ => agree w' | Err _ => core_eq w w' end -> Q r w') ->
    wp (transition_body rec_ctl ns) Q w.
  Proof.
    intros Hn Ha Hfl HQ. rewrite transition_body_unfold. do 2 wp_prim.
    match goal with |- wp _ _ ?w0 => set (w0s := w0) end.
    assert (T0 : TI w0s) by (split; [exact Hn | reflexivity]).
    assert (A0 : agree w0s) by exact Ha.
    assert (E0 : core_eq w w0s) by (repeat split).
    do 2 wp_prim. change (transition_failing w0s) with (transition_failing w).
    destruct (transition_failing w) eqn:Hf; cbn [negb when].
    - do 2 wp_prim. apply body_rest_spec; [exact T0 | exact A0 | apply Hfl; reflexivity |].
      intros r w' T' F' H'. apply HQ; [exact T' | rewrite F'; exact Hf |]. destruct r; [exact H'|]. eapply core_eq_trans; [exact E0 | exact H'].
    - wp_prim. apply exit_current_spec; [exact T0|]. intros r w1 (T1 & E1 & F1) Hlive. destruct r; cbv beta iota.
      + apply body_rest_spec; [exact T1 | eapply agree_core; eauto | rewrite (core_eq_terminated _ _ E1); apply Hlive; destruct a; reflexivity |].
        intros r w' T' F' H'. apply HQ; [exact T' | rewrite F', F1; exact Hf |]. destruct r; [exact H'|].
        eapply core_eq_trans; [exact E0|]. eapply core_eq_trans; [exact E1 | exact H'].
      + apply HQ; [exact T1 | rewrite F1; exact Hf | eapply core_eq_trans; [exact E0 | exact E1]].
  Qed.

  (* transition_to while _transition_failing is set, from a live process *)
  Lemma ttf_spec ns w (Q : result unit -> world -> Prop) :
    nofault w -> transitioning w = false -> transition_failing w = true -> agree w -> is_terminated w = false ->
    (forall r w', nofault w' -> agree w' -> Q r (w' <| transition_failing := false |> <| transitioning := false |>)) ->
    wp (transition_to_failing rec_ctl ns) Q w.
  Proof.
    intros Hn Ht Hf Ha Hl HQ. unfold transition_to_failing. do 2 wp_prim. rewrite Ht. do 2 wp_prim.
    apply transition_body_spec; [exact Hn | exact Ha | intros _; exact Hl |]. intros r w1 (N1 & T1) F1 H1. destruct r; cbv beta iota.
    - wp_prim. apply HQ; assumption.
    - do 3 wp_prim. apply (HQ _ (w1 <| transitioning := false |>)); [exact N1 | eapply agree_core; [|exact Ha]; exact H1].
  Qed.

  Lemma mkPost w w' :
    transitioning w = false -> nofault w' -> agree w' -> Post w (w' <| transition_failing := false |> <| transitioning := false |>).
  Proof.
    intros Ht Hn Ha. split; [|split; [symmetry; exact Ht | intro; congruence]].
    split; [exact Hn|]. split; [intros _; reflexivity | intros _; exact Ha].
  Qed.

  (* StateMachine.transition_to + Process.transition_failed, on a process that has not terminated *)
  Lemma transition_to_Kat ns w : (ns = None \/ is_terminated w = false) -> Kat (transition_to rec_ctl ns) w.
  Proof.
    intros Hpre Q HJ HQ. unfold transition_to. do 2 wp_prim. destruct (transitioning w) eqn:Ht.
    { wp_prim. apply HQ. apply Post_refl. exact HJ. }
    destruct ns as [ns|]; [|wp_prim; apply HQ; apply Post_refl; exact HJ].
    destruct Hpre as [?|Hl]; [discriminate|]. destruct HJ as (Hn & Hfi & Hag). specialize (Hfi Ht). specialize (Hag Ht).
    do 2 wp_prim. apply transition_body_spec; [exact Hn | exact Hag | intro; congruence |].
    intros r w1 (N1 & T1) F1 H1. destruct r; cbv beta iota.
    - wp_prim. apply HQ. apply mkPost; assumption.
    - do 4 wp_prim. change (transition_failing (w1 <| transitioning := false |>)) with (transition_failing w1). rewrite F1, Hfi.
      do 2 wp_prim. wp_case.
      + wp_prim. wp_prim. apply (HQ _ ((w1 <| transitioning := false |> <| transition_failing := true |>) <| transition_failing := false |> <| transitioning := false |>)).
        apply mkPost; [exact Ht | exact N1 | eapply agree_core; [|exact Hag]; exact H1].
      + apply ttf_spec; try reflexivity; [exact N1 | eapply agree_core; [|exact Hag]; exact H1 | rewrite <- Hl; apply (core_eq_terminated w); exact H1 |].
        intros r2 w2 N2 A2. wp_prim. apply HQ. apply (mkPost w w2); assumption.
  Qed.
  (* ---------------------------------------------------------------- control calls *)
  Lemma do_pause_Kat msg next w : (next = None \/ is_terminated w = false) -> Kat (do_pause rec_ctl msg next) w.
  Proof.
    intro Hpre. unfold do_pause. kstep; [|kauto].
    kstep.
    - destruct next; [apply transition_to_Kat; exact Hpre | apply Kat_ret].
    - kauto. apply fire_K. reflexivity.
  Qed.

  Lemma pause_K msg : K (pause rec_ctl msg).
  Proof.
    intro w. unfold pause. kauto. apply do_pause_Kat. left; reflexivity.
  Qed.

  Lemma play_K : K (play rec_ctl).
  Proof. intro w. unfold play. kauto; apply fire_K; reflexivity. Qed.

  Lemma kill_K msg : K (kill rec_ctl msg).
  Proof.
    intro w. unfold kill. kstep.
    assert (Hrest : Kat (if is_terminated w then ret (CrBool false)
                         else match killing w with
                              | Some a => ret (CrAction a)
                              | None =>
                                  if stepping w
                                  then bind fresh (fun iid => bind (set_interrupt_action_from (KKill msg) iid) (fun a =>
                                         bind (modify (fun w => w <| killing := Some a |>)) (fun _ =>
                                         bind (state_interrupt iid) (fun _ => ret (CrAction a)))))
                                  else bind (transition_to rec_ctl (Some (SKilled (Some msg)))) (fun _ => ret (CrBool true))
                              end) w).
    { destruct (is_terminated w) eqn:Hterm; [apply Kat_ret|]. kauto. apply transition_to_Kat. right; exact Hterm. }
    destruct (st w) as [[]|]; first [exact Hrest | apply Kat_ret].
  Qed.

  Lemma fail_K e : K (fail rec_ctl e).
  Proof.
    intro w. unfold fail. kstep. destruct (is_terminated w) eqn:Hterm; [apply Kat_ret|].
    kstep; [apply transition_to_Kat; right; exact Hterm|]. kauto.
  Qed.

  Lemma ctl_body_K c : K (ctl_body rec_ctl c).
  Proof.
    destruct c; cbn [ctl_body].
    - apply pause_K.
    - apply play_K.
    - apply kill_K.
    - apply Fr_K. apply resume_Fr.
    - apply fail_K.
    - intro w. apply Kat_raise.
  Qed.
End Reentrant.

Lemma do_ctl_K fuel c : K (do_ctl fuel c).
Proof.
  revert c. induction fuel as [|f IH]; intro c; cbn [do_ctl]; [intro w; apply Kat_raise|].
  apply ctl_body_K. exact IH.
Qed.

Lemma ctl_call_K c : K (ctl_call c).
Proof. apply do_ctl_K. Qed.

Lemma transition_Kat ns w : (ns = None \/ is_terminated w = false) -> Kat (transition ns) w.
Proof. apply transition_to_Kat. apply do_ctl_K. Qed.

Lemma ctl_observed_K c : K (ctl_observed c).
Proof. intro w. unfold ctl_observed. kauto. apply ctl_call_K. Qed.

(* ------------------------------------------------------------------ the stepping coroutine *)
Ltac sfr := apply Kat_Sat; kfr.
Ltac sauto' := repeat first [ kstep | put_frame | kfr | sfr | (apply Kat_Sat; put_frame) ].

Lemma do_pause_deferred_Kat msg next w : is_terminated w = false -> Kat (do_pause_deferred msg next) w.
Proof.
  intro Hl. unfold do_pause_deferred. kstep. destruct next as [ns|]; [destruct (pausing w) as [a'|]|].
  - kstep; [|kauto]. kstep; [apply transition_Kat; right; exact Hl|]. kstep. kstep. kstep.
    + apply do_pause_Kat; [apply do_ctl_K | left; reflexivity].
    + apply Kat_ret.
  - apply do_pause_Kat; [apply do_ctl_K | right; exact Hl].
  - apply do_pause_Kat; [apply do_ctl_K | left; reflexivity].
Qed.

Lemma run_action_Kat id next w : is_terminated w = false -> Kat (run_action id next) w.
Proof.
  intro Hl. unfold run_action. kstep. destruct (get_act w id) as [a|]; [|apply Kat_raise].
  destruct (a_fut a); try apply Kat_raise.
  kstep; [|kauto].
  kstep. destruct (a_kind a).
  - apply do_pause_deferred_Kat. exact Hl.
  - kstep; [|kauto]. destruct next as [[]|]; (kstep; [apply transition_Kat; right; exact Hl | kauto]).
Qed.

Lemma agree_open w : agree w -> closed w = false -> tv (st w) = None.
Proof.
  unfold agree. intros H Hc. rewrite Hc in H. destruct (st w) as [[]|]; try reflexivity; cbn in H; destruct H as (_ & H & _); discriminate.
Qed.

Lemma do_out_S path v : Stp (do_out path v).
Proof.
  intro w. unfold do_out. kstep. destruct (closed w) eqn:Hc; [apply Sat_raise|].
  intros Q [HJ Ht] HQ. wp_prim. apply hook_Fr. intros r w1 C1 E1 [T1 F1].
  assert (P1 : Post w w1) by (apply frame_Post; assumption).
  assert (J1 : J w1) by apply P1. assert (Ht1 : transitioning w1 = false) by congruence.
  destruct r; cbv beta iota; [|apply HQ; split; assumption].
  do 4 wp_prim.
  match goal with |- wp _ _ ?w2 => set (w2s := w2) end.
  assert (P2 : PreS w2s).
  { split; [|exact Ht1]. eapply Post_pre; [exact J1|]. apply frame_Post; try reflexivity; [exact J1 | repeat split]. }
  destruct (or_result (out (fun _ _ => false) (ospec w1) (outputs w1) path v)) as [e|[outs' dyn]]; [wp_prim; apply HQ; exact P2|].
  do 2 wp_prim.
  match goal with |- wp _ _ ?w3 => set (w3s := w3) end.
  assert (P3 : PreS w3s).
  { destruct P2 as [(N2 & F2 & A2) T2]. split; [|exact T2]. split; [exact N2|]. split; [exact F2|]. intros _.
    specialize (A2 T2). assert (Hc2 : closed w2s = false) by (destruct E1 as (_ & _ & X & _); change (closed w1 = false); congruence).
    pose proof (agree_open _ A2 Hc2) as V2. unfold agree in *. change (tv (st w3s)) with (tv (st w2s)). rewrite V2 in *. exact A2. }
  assert (Hrest : Sat (bind (emit (EvOutput path v dyn)) (fun _ => fire (do_ctl reent_fuel) "on_output_emitted")) w3s).
  { kstep; [sfr|]. intro wz. apply Kat_Sat. apply fire_K; [apply do_ctl_K | reflexivity]. }
  apply Hrest; [exact P3|]. intros r w' H'. apply HQ. exact H'.
Qed.

Lemma run_actions_S acts r : Stp (run_actions acts r).
Proof.
  induction acts as [|a rest IH]; cbn [run_actions]; [intro w; apply Sat_ret|]. destruct a.
  - intro w. kstep; [kstep; apply do_out_S|]. kstep. destruct a; [apply IH | apply Sat_ret].
  - intro w. sauto'.
  - intro w. kstep. destruct (find (fun kw => Nat.eqb (fst kw) k) (exts w)) as [[? []]|]; try apply IH; sauto'.
  - intro w. kstep; [apply Kat_Sat; apply ctl_observed_K|]. kstep. kstep; [sfr|]. intro. apply IH.
  - intro w. kstep; [sfr|]. intro. apply IH.
  - intro w. kstep. kstep; [sfr|]. intro. apply IH.
  - intro w. kstep; [sfr|]. intro. apply IH.
Qed.

Lemma after_run_fn_S o : Stp (after_run_fn o).
Proof. intro w. unfold after_run_fn. sauto'. Qed.

(* re-arming the wait: the payload of a WAITING state changes *)
Lemma rearm_Sat f m d cur x awaited w :
  st w = Some (SWaiting f m d cur x) ->
  Sat (if Nat.eqb cur awaited
       then bind fresh (fun wid => modify (fun w => w <| st := Some (SWaiting f m d wid WfPending) |>))
       else ret tt) w.
Proof.
  intro Hst. destruct (Nat.eqb cur awaited); [|apply Sat_ret]. apply Kat_Sat.
  intros Q HJ HQ. unfold fresh. repeat wp_prim. apply HQ. apply frame_Post; try reflexivity; [exact HJ|].
  eapply core_eq_waiting; [exact Hst | reflexivity | reflexivity ..].
Qed.

Lemma after_waiting_once_S fn awaited wk again : (forall x, Stp (again x)) -> Stp (after_waiting_once fn awaited wk again).
Proof.
  intros Hagain w. unfold after_waiting_once. destruct wk; try apply Sat_ret.
  kstep; [sfr|]. intro w1. kstep. destruct (st w1) as [[]|] eqn:Hst; try apply Sat_ret.
  kstep; [eapply rearm_Sat; exact Hst|]. intro w2. kstep. kstep; [|apply Sat_ret]. kstep; [sfr|]. intro. apply Hagain.
Qed.

Lemma await_current_S fn k : (forall a b, Stp (k a b)) -> Stp (await_current fn k).
Proof.
  intros Hk w. unfold await_current. kstep. destruct (st w) as [[]|]; try apply Sat_ret. destruct wf; [|apply Hk]. sauto'.
Qed.

Lemma after_waiting_S fn awaited wk : Stp (after_waiting fn awaited wk).
Proof.
  unfold after_waiting. apply after_waiting_once_S. intro x. apply await_current_S. intros a b.
  apply after_waiting_once_S. intros y w. apply Sat_ret.
Qed.

Lemma execute_state_S : Stp execute_state.
Proof.
  intro w. unfold execute_state. kstep. destruct (st w) as [[]|]; try apply Sat_ret.
  - kstep; [sfr|]. intro w1. destruct (lookup_script w fn); [|apply Sat_ret]. kstep; [apply run_actions_S | intro o; apply after_run_fn_S].
  - destruct wf; [sauto' | apply after_waiting_S].
Qed.

Lemma run_armed_S fuel ran : Stp (run_armed fuel ran).
Proof.
  revert ran. induction fuel as [|f IH]; intros ran w; cbn [run_armed]; [apply Sat_raise|].
  kstep. destruct (is_terminated w) eqn:Hl; [apply Sat_ret|]. destruct (intr w); [|apply Sat_ret].
  match goal with |- Hat _ _ (if ?c then _ else _) _ => destruct c end; [apply Sat_ret|].
  kstep; [apply Kat_Sat; apply run_action_Kat; exact Hl | intro; apply IH].
Qed.

Lemma finish_step_S x : Stp (finish_step x).
Proof.
  intro w. unfold finish_step. kstep; [|intro wz; sauto'].
  kstep.
  - destruct x; sauto'.
  - intro w1. kstep. destruct (is_terminated w1) eqn:Hl; [apply Sat_ret|].
    destruct (intr w1); (kstep; [apply Kat_Sat; first [apply run_action_Kat; exact Hl | apply transition_Kat; right; exact Hl]
                               | intro; apply run_armed_S]).
Qed.

Lemma loop_head_S fuel : Stp (loop_head fuel).
Proof.
  induction fuel as [|f IH]; cbn [loop_head]; intro w; [apply Sat_raise|].
  kstep. destruct (is_terminated w); [sfr|]. destruct (closed w); [apply Sat_raise|]. destruct (paused w); [sfr|].
  kstep; [sfr|]. intro w1. kstep; [apply execute_state_S|].
  assert (H : forall x, Stp (bind (finish_step x) (fun _ => loop_head f))).
  { intros x wz. kstep; [apply finish_step_S | intro; apply IH]. }
  destruct a0; first [ apply H | intro wz; apply Sat_ret ].
Qed.

Lemma step_tail_S (x : exec_out) : Stp (match x with XoSuspended => ret tt | _ => bind (finish_step x) (fun _ => loop_head chain_fuel) end).
Proof.
  assert (H : forall y, Stp (bind (finish_step y) (fun _ => loop_head chain_fuel))).
  { intros y wz. kstep; [apply finish_step_S | intro; apply loop_head_S]. }
  destruct x; first [ apply H | intro wz; apply Sat_ret ].
Qed.

Lemma resume_t0_S wk : Stp (resume_t0 wk).
Proof.
  intro w. unfold resume_t0. kstep. destruct (t0 w).
  - apply loop_head_S.
  - assert (H : Sat (bind (modify (fun w => w <| stepping := true |>))
                       (fun _ => bind execute_state (fun x => match x with XoSuspended => ret tt | _ => bind (finish_step x) (fun _ => loop_head chain_fuel) end))) w).
    { kstep; [sfr|]. intro w1. kstep; [apply execute_state_S | intro x; apply step_tail_S]. }
    destruct (paused w); [destruct (is_terminated w); [exact H | sfr] | exact H].
  - kstep; [destruct wk; first [apply run_actions_S | apply Sat_ret]|]. intro w1. kstep; [apply after_run_fn_S | intro x; apply step_tail_S].
  - kstep. kstep.
    + destruct (st w) as [[]|]; apply after_waiting_S.
    + intro w1. kstep; [apply finish_step_S | intro; apply loop_head_S].
  - apply Sat_ret.
  - apply Sat_ret.
Qed.

Lemma run_entry_S r : Stp (run_entry r).
Proof.
  intro w. unfold run_entry. destruct r.
  - kstep; [kstep; apply resume_t0_S|]. intro w1. destruct a; sauto'.
  - kstep; [sfr|]. intro w1. kstep. kstep.
    + kstep. destruct (nth_error (cf_callbacks (cfg w1)) cb) as [[]|]; try apply Sat_ret; try apply Sat_raise.
      kstep; [apply Kat_Sat; apply ctl_observed_K | intro; intro; sfr].
    + intro w2. destruct a0; [apply Sat_ret|]. kstep. destruct (st w2) as [[]|]; try apply Sat_ret;
        (kstep; [kstep; apply Kat_Sat; apply ctl_call_K | intro wz; destruct a0; sauto']).
  - kstep. destruct (orig_fut_cancelled w); [|apply Sat_ret].
    kstep; [kstep; apply Kat_Sat; apply ctl_call_K | intro wz; destruct a; sauto'].
Qed.

Lemma tick_S : Stp tick.
Proof.
  intro w. unfold tick. kstep. destruct (ready w); [apply Sat_ret|]. kstep; [apply Kat_Sat; put_frame | intro; apply run_entry_S].
Qed.

Lemma drain_S n : Stp (drain n).
Proof.
  induction n as [|n IH]; cbn [drain]; intro w; [apply Sat_ret|]. kstep. destruct (ready w); [apply Sat_ret|].
  kstep; [apply tick_S | intro; apply IH].
Qed.

Lemma env_step_m_S e : Stp (env_step_m e).
Proof.
  intro w. destruct e; cbn [env_step_m].
  - apply tick_S.
  - kstep; [apply Kat_Sat; apply ctl_observed_K | intro; intro; sfr].
  - kstep. destruct (pfut w) eqn:Hp; try apply Sat_ret.
    assert (Hc : forall w', cfg w' = cfg w -> st w' = st w -> closed w' = closed w -> hooks_alive w' = hooks_alive w ->
                 outputs w' = outputs w -> marks (trace w') = marks (trace w) -> cleanups w' = cleanups w ->
                 transitioning w' = transitioning w -> transition_failing w' = transition_failing w ->
                 pfut w' = PfCancelled -> PreS w -> PreS w').
    { intros w' A B C D E E2 E3 F G P [(N & FI0 & Ag) T]. split; [|congruence]. split; [unfold nofault in *; congruence|]. split.
      - unfold FI in *. rewrite F, G. exact FI0.
      - intros _. specialize (Ag T). unfold agree in *. rewrite B, C, D, E, E2, E3, P. rewrite Hp in Ag.
        destruct (tv (st w)) as [[]|]; cbn in *; try (destruct Ag as (X & _); discriminate);
          (split; [right; reflexivity | apply Ag]). }
    destruct (pfut_original w).
    + intros Q HP HQ. do 2 wp_prim. unfold schedule. wp_prim. apply HQ. apply (Hc _); try reflexivity. exact HP.
    + intros Q HP HQ. wp_prim. apply HQ. apply (Hc _); try reflexivity. exact HP.
  - sfr.
  - kstep. destruct (find (fun kw => Nat.eqb (fst kw) k) (exts w)); [apply Sat_ret|]. kstep; [apply Kat_Sat; put_frame|].
    intro w1. destruct (t0 w); try apply Sat_ret. destruct await_ext; [|apply Sat_ret]. kstep. sfr.
  - apply drain_S.
Qed.

(* ------------------------------------------------------------------ every run *)
Lemma env_step_PreS w e : PreS w -> PreS (env_step w e).
Proof.
  intro H. unfold env_step. apply (wp_run (env_step_m e) (fun _ w' => PreS w') w).
  apply env_step_m_S; [exact H|]. intros r w' H'. exact H'.
Qed.

Lemma run_from_PreS es : forall w, PreS w -> PreS (run_from w es).
Proof.
  unfold run_from. induction es as [|e es IH]; intros w H; cbn [fold_left]; [exact H|]. apply IH. apply env_step_PreS. exact H.
Qed.

Lemma init_PreS c : cf_fault c = None -> PreS (init_world c).
Proof.
  intro Hf. split; [|reflexivity]. split; [exact Hf|]. split; [intros _; reflexivity|]. intros _.
  unfold agree. cbn. split; [left; reflexivity | repeat split; reflexivity].
Qed.

Lemma constructed_PreS c r w : cf_fault c = None -> construct_process c = (r, w) -> PreS w.
Proof.
  intros Hf Hc. unfold construct_process in Hc.
  assert (H : Sat (bind (transition (Some SCreated)) (fun _ => schedule (RWakeT0 WkNone))) (init_world c)).
  { kstep; [apply Kat_Sat; apply transition_Kat; right; reflexivity | intro; intro; sfr]. }
  pose proof (wp_run _ (fun _ w' => PreS w') (init_world c) (H _ (init_PreS c Hf) (fun _ _ X => X))) as H2.
  rewrite Hc in H2. exact H2.
Qed.

Theorem run_agrees c es w : cf_fault c = None -> run c es = Some w -> agree w /\ transitioning w = false.
Proof.
  intros Hf Hr. unfold run in Hr. destruct (construct_process c) as [[u|e] w0] eqn:Hc; [|discriminate].
  injection Hr as <-. pose proof (run_from_PreS es w0 (constructed_PreS _ _ _ Hf Hc)) as [(N & F & A) T].
  split; [apply A; exact T | exact T].
Qed.

(* the invariant spelled out; [marks (trace w)] = the terminal notifications sent to the listeners and the cleanups run, in order *)
Theorem reports_agree c es w :
  cf_fault c = None -> run c es = Some w ->
  match st w with
  | Some (SFinished _ _) =>
      pfut w = PfResult (outputs w) /\ closed w = true /\ hooks_alive w = false
      /\ marks (trace w) = [EvListener "on_process_finished"; EvCleanup 0] /\ cleanups w = []
  | Some (SExcepted e) =>
      pfut w = PfExn e /\ closed w = true /\ hooks_alive w = false
      /\ marks (trace w) = [EvListener "on_process_excepted"; EvCleanup 0] /\ cleanups w = []
  | Some (SKilled m) =>
      pfut w = PfExn (EKilled (killed_text m)) /\ closed w = true /\ hooks_alive w = false
      /\ marks (trace w) = [EvListener "on_process_killed"; EvCleanup 0] /\ cleanups w = []
  | _ => (pfut w = PfPending \/ pfut w = PfCancelled) /\ closed w = false /\ hooks_alive w = true
         /\ marks (trace w) = [] /\ cleanups w = [0]
  end.
Proof.
  intros Hf Hr. destruct (run_agrees _ _ _ Hf Hr) as [H _]. unfold agree in H. destruct (st w) as [[]|]; exact H.
Qed.

Theorem live_future_unresolved c es w :
  cf_fault c = None -> run c es = Some w -> is_terminated w = false -> pfut w = PfPending \/ pfut w = PfCancelled.
Proof.
  intros Hf Hr Hl. destruct (run_agrees _ _ _ Hf Hr) as [H _]. apply agree_live in H; [|exact Hl]. apply H.
Qed.

Theorem terminated_iff_closed c es w :
  cf_fault c = None -> run c es = Some w -> closed w = is_terminated w /\ hooks_alive w = negb (is_terminated w).
Proof.
  intros Hf Hr. pose proof (reports_agree _ _ _ Hf Hr) as H. unfold is_terminated.
  destruct (st w) as [[]|]; cbn; destruct H as (_ & -> & -> & _); split; reflexivity.
Qed.

(* exactly one terminal notification, of the kind of the final state, and every registered cleanup exactly once — and none of
   either while the process is live *)
Theorem one_notification_one_cleanup c es w :
  cf_fault c = None -> run c es = Some w ->
  filter is_mark (trace w) =
    match st w with
    | Some (SFinished _ _) => [EvListener "on_process_finished"; EvCleanup 0]
    | Some (SExcepted _) => [EvListener "on_process_excepted"; EvCleanup 0]
    | Some (SKilled _) => [EvListener "on_process_killed"; EvCleanup 0]
    | _ => []
    end.
Proof.
  intros Hf Hr. pose proof (reports_agree _ _ _ Hf Hr) as H. fold (marks (trace w)).
  destruct (st w) as [[]|]; destruct H as (_ & _ & _ & H & _); exact H.
Qed.
