(* Life/LifeFx.v — functional lemmas about control requests on quiet worlds (no listener scripts, no injected
   fault, nothing pending), obtained by symbolic execution of the model (Life/LifeSx.v), for properties C04, C05
   and C06: what exactly kill / pause / play / resume do, at once or deferred to the end of the step in flight. *)
From Coq Require Import List ZArith String Bool Arith Lia.
From RecordUpdate Require Import RecordUpdate.
From Plumpy Require Import Val Mon MonTac PortModel Model Run LifeSx.
Import ListNotations.
Local Open Scope list_scope.
Local Open Scope mon_scope.
Local Open Scope string_scope.

Definition kill_text (msg : option string) : string := match msg with Some t => t | None => "" end.

Definition live_state (s : pstate) : Prop :=
  match s with
  | SCreated | SRunning _ _ _ | SWaiting _ _ _ _ WfPending => True
  | _ => False
  end.

Ltac ctl_open := unfold ctl_call; match goal with |- wp (do_ctl reent_fuel ?c) _ _ =>
  change (do_ctl reent_fuel c) with (ctl_body (do_ctl 5) c); cbn [ctl_body] end.

(* kill() between steps: the process is KILLED on return, True is returned, the text is recorded, the future raises
   KilledError with it, the process is closed *)
Lemma kill_now w s msg :
  quiet w -> stepping w = false -> st w = Some s -> live_state s ->
  wp (ctl_call (CKill msg))
     (fun r w' => r = Ok (CrBool true) /\ st w' = Some (SKilled (Some msg)) /\
                  pfut w' = PfExn (EKilled (kill_text msg)) /\ status w' = Some (kill_text msg) /\
                  closed w' = true /\ killing w' = None) w.
Proof.
  intros [Q1 Q2 Q3 Q4 Q5 Q6 Q7 Q8 Q9 Q10 Q11 Q12] Hstp Hst Hl.
  ctl_open. open_world w. cbn in Q1, Q2, Q3, Q4, Q5, Q6, Q7, Q8, Q9, Q10, Q11, Q12, Hstp, Hst. subst.
  destruct s as [| | fn m d wid wf | | |]; try contradiction; [| |destruct wf; [|contradiction]];
    sx; destruct msg; fin.
Qed.

(* kill() while a step is in flight: a pending kill action is armed (an action future is returned) *)
Lemma kill_deferred w s msg :
  quiet w -> stepping w = true -> st w = Some s -> live_state s ->
  wp (ctl_call (CKill msg))
     (fun r w' => r = Ok (CrAction (List.length (acts w))) /\
                  killing w' = Some (List.length (acts w)) /\ intr w' = Some (List.length (acts w)) /\
                  acts w' = (acts w ++ [mk_act (KKill msg) (next_id w) AfPending])%list /\
                  option_map label_of (st w') = option_map label_of (st w) /\ stepping w' = true /\ paused w' = None) w.
Proof.
  intros [Q1 Q2 Q3 Q4 Q5 Q6 Q7 Q8 Q9 Q10 Q11 Q12] Hstp Hst Hl.
  ctl_open. open_world w. cbn in Q1, Q2, Q3, Q4, Q5, Q6, Q7, Q8, Q9, Q10, Q11, Q12, Hstp, Hst. subst.
  destruct s as [| | fn m d wid wf | | |]; try contradiction; [| |destruct wf; [|contradiction]];
    sx; fin.
Qed.

Lemma nth_error_upd_nth {A} (f : A -> A) : forall (l : list A) n x,
  nth_error l n = Some x -> nth_error (upd_nth n f l) n = Some (f x).
Proof.
  induction l as [|y l IH]; intros [|n] x H; cbn in *; try discriminate.
  - injection H as ->. reflexivity.
  - apply IH. exact H.
Qed.

(* pause() between steps takes effect at once: the process reports paused, the message becomes the status and the
   previous status is remembered *)
Lemma pause_now w msg :
  quiet w -> stepping w = false -> is_terminated w = false ->
  wp (ctl_call (CPause msg))
     (fun r w' => r = Ok (CrBool true) /\ paused w' = Some (next_id w) /\ pausing w' = None /\
                  pre_paused_status w' = status w /\
                  status w' = (match msg with Some m => Some m | None => status w end) /\ st w' = st w) w.
Proof.
  intros [Q1 Q2 Q3 Q4 Q5 Q6 Q7 Q8 Q9 Q10 Q11 Q12] Hstp Hterm.
  ctl_open. open_world w. cbn in Q1, Q2, Q3, Q4, Q5, Q6, Q7, Q8, Q9, Q10, Q11, Q12, Hstp. subst.
  destruct msg; sx; fin.
Qed.

(* play() always leaves the process un-paused, and gives back the status that was there before the pause *)
Lemma play_restores w fid :
  cf_fault (cfg w) = None -> cf_listeners (cfg w) = [] -> paused w = Some fid ->
  wp (ctl_call CPlay)
     (fun r w' => r = Ok (CrBool true) /\ paused w' = None /\ status w' = pre_paused_status w /\
                  pre_paused_status w' = None /\ st w' = st w) w.
Proof.
  intros Q1 Q2 Hp.
  ctl_open. open_world w. cbn in Q1, Q2, Hp. subst.
  sx; fin.
Qed.

