(* Persist/Savable.v — M4 (Savable part): persistence.Savable / auto_persist / LoadSaveContext /
   _ensure_object_loader / SavableFuture and loaders.py.  Executable model, no proofs.

   Python                                   model
   a Savable instance                       SObj cls attrs   (attrs: attribute name -> mval)
   attribute values                         MPlain v | MMethod owner name | MObj o | MFut f
                                            (owner = true: a bound method of the object itself)
   @auto_persist / cls.auto_persist         class table: class -> (parent, members declared at this class);
                                            persisted members = union along the inheritance chain
   ObjectLoader (default / custom scheme)   loader := LDefault | LCustom; identifiers "procs:C" / "X|procs:C"
   loaders.get_object_loader() (global)     a [loader] parameter of save / load
   the saved state (nested dicts)           node
*)
From Coq Require Import List ZArith String Bool.
From Plumpy Require Import Val.
Import ListNotations.
Local Open Scope string_scope.

Inductive fstate := FPending | FResult (v : val) | FExn (e : exn) | FCancelled.

Inductive mval :=
| MPlain (v : val)
| MMethod (own : bool) (name : string)
| MObj (o : sobj)
| MFut (f : fstate)
with sobj :=
| SObj (cls : string) (attrs : mattrs)
with mattrs :=
| ANil
| ACons (name : string) (v : mval) (rest : mattrs).

Fixpoint attr_get (n : string) (a : mattrs) : option mval :=
  match a with
  | ANil => None
  | ACons n' v r => if String.eqb n n' then Some v else attr_get n r
  end.

(* class table: name -> (parent, members declared by this class's own auto_persist) *)
Definition ctable := list (string * (option string * list string)).

(* members persisted for a class: own declarations and everything inherited (fuel = chain length bound) *)
Fixpoint members_of (fuel : nat) (ct : ctable) (c : string) : list string :=
  match fuel with
  | 0 => []
  | S f =>
      match alist_get c ct with
      | None => []
      | Some (parent, own) =>
          (match parent with Some p => members_of f ct p | None => [] end) ++ own
      end
  end.

Definition chain_fuel := 8.

Fixpoint dedup (l : list string) : list string :=
  match l with
  | [] => []
  | x :: r => if existsb (String.eqb x) r then dedup r else x :: dedup r
  end.

Definition persisted (ct : ctable) (c : string) : list string := dedup (members_of chain_fuel ct c).

(* ---------------- loaders ---------------- *)
Inductive loader := LDefault | LCustom.

Definition default_id (c : string) : string := "procs:" ++ c.
Definition identify (l : loader) (c : string) : string :=
  match l with LDefault => default_id c | LCustom => "X|" ++ default_id c end.

Fixpoint strip_prefix (p s : string) : option string :=
  match p, s with
  | EmptyString, _ => Some s
  | String a p', String b s' => if Ascii.eqb a b then strip_prefix p' s' else None
  | _, _ => None
  end.

(* load_object: the class name, or ValueError (None) for an identifier the loader does not know.
   [known] = names loadable from the module (the classes of the table, and the loader class itself) *)
Definition load_object (known : list string) (l : loader) (ident : string) : option string :=
  let default_load i :=
    match strip_prefix "procs:" i with
    | Some c => if existsb (String.eqb c) known then Some c else None
    | None => None
    end in
  match l with
  | LDefault => default_load ident
  | LCustom => match strip_prefix "X|" ident with Some i => default_load i | None => None end
  end.

Definition loader_class_name (l : loader) : string :=
  match l with LDefault => "DefaultObjectLoader" | LCustom => "PrefixLoader" end.

(* ---------------- saved state ---------------- *)
Inductive node :=
| NVal (v : val)
| NExn (e : exn)
| NDict (kvs : nkvs)
with nkvs :=
| KNil
| KCons (k : string) (n : node) (rest : nkvs).

Fixpoint nk_get (k : string) (m : nkvs) : option node :=
  match m with
  | KNil => None
  | KCons k' n r => if String.eqb k k' then Some n else nk_get k r
  end.

Fixpoint nk_app (a b : nkvs) : nkvs :=
  match a with KNil => b | KCons k n r => KCons k n (nk_app r b) end.

Definition nk_of_opt (k : string) (n : option node) : nkvs :=
  match n with Some x => KCons k x KNil | None => KNil end.

Definition fut_state_name (f : fstate) : string :=
  match f with FPending => "PENDING" | FCancelled => "CANCELLED" | _ => "FINISHED" end.

(* ---------------- save ---------------- *)
(* Savable.save(save_context): [glob] = the global object loader, [ctx] = save_context.loader *)
Section Save.
  Variable ct : ctable.
  Variable glob : loader.

  Definition meta_node (ctx : option loader) (cls : string) (types : nkvs) : node :=
    let ldr := match ctx with Some l => l | None => glob end in
    NDict (nk_app
      (match ctx with
       | Some l => KCons "user" (NDict (KCons "object_loader" (NVal (VStr (identify glob (loader_class_name l)))) KNil)) KNil
       | None => KNil
       end)
      (nk_app (KCons "class_name" (NVal (VStr (identify ldr cls))) KNil)
              (match types with KNil => KNil | _ => KCons "types" (NDict types) KNil end))).

  (* SavableFuture.save_instance_state: members _state, _result, plus `exception` when it failed *)
  Definition save_future (ctx : option loader) (f : fstate) : node :=
    NDict (KCons "!!meta" (meta_node ctx "SavableFuture" KNil)
          (KCons "_state" (NVal (VStr (fut_state_name f)))
          (KCons "_result" (NVal (match f with FResult v => v | _ => VNone end))
          (match f with FExn e => KCons "exception" (NExn e) KNil | _ => KNil end)))).

  (* save_members over the persisted member names; None = the save raises
     (missing attribute: AttributeError; a method of another object: TypeError) *)
  Fixpoint save_obj (ctx : option loader) (o : sobj) {struct o} : option node :=
    match o with
    | SObj cls attrs =>
        let fix go (names : list string) : option (nkvs * nkvs) :=      (* (types, values) *)
          match names with
          | [] => Some (KNil, KNil)
          | n :: rest =>
              match go rest with
              | None => None
              | Some (ts, vs) =>
                  match find_attr ctx n attrs with
                  | None => None
                  | Some (ty, nd) => Some (nk_app (nk_of_opt n ty) ts, KCons n nd vs)
                  end
              end
          end in
        match go (persisted ct cls) with
        | None => None
        | Some (ts, vs) => Some (NDict (KCons "!!meta" (meta_node ctx cls ts) vs))
        end
    end
  (* getattr(self, member) and its encoding: (meta type, saved value) *)
  with find_attr (ctx : option loader) (n : string) (a : mattrs) {struct a} : option (option node * node) :=
    match a with
    | ANil => None
    | ACons n' v r =>
        if String.eqb n n' then
          match v with
          | MPlain x => Some (None, NVal x)                               (* copy.deepcopy(value) *)
          | MMethod own name =>
              if own then Some (Some (NVal (VStr "m")), NVal (VStr name)) else None
          | MObj o => match save_obj ctx o with
                      | Some nd => Some (Some (NVal (VStr "S")), nd)      (* value.save(save_context) *)
                      | None => None
                      end
          | MFut f => Some (Some (NVal (VStr "S")), save_future ctx f)
          end
        else find_attr ctx n r
    end.
End Save.

(* ---------------- load ---------------- *)
Inductive lerr := LValueError | LOther.      (* unknown class -> ValueError; anything else malformed *)

Section Load.
  Variable ct : ctable.
  Variable glob : loader.

  Definition known_names : list string :=
    loader_class_name LDefault :: loader_class_name LCustom :: "SavableFuture" :: map fst ct.

  Definition node_str (n : option node) : option string :=
    match n with Some (NVal (VStr s)) => Some s | _ => None end.

  (* _ensure_object_loader: 1) the context's loader, 2) the one recorded in the saved state, 3) the global *)
  Definition ensure_loader (ctx : option loader) (meta : nkvs) : lerr + loader :=
    match ctx with
    | Some l => inr l
    | None =>
        match nk_get "user" meta with
        | Some (NDict u) =>
            match node_str (nk_get "object_loader" u) with
            | Some ident =>
                match load_object known_names glob ident with
                | Some c => if String.eqb c (loader_class_name LCustom) then inr LCustom
                            else if String.eqb c (loader_class_name LDefault) then inr LDefault
                            else inl LOther
                | None => inl LValueError
                end
            | None => inr glob
            end
        | _ => inr glob
        end
    end.

  Definition load_future (kvs : nkvs) : lerr + fstate :=
    match node_str (nk_get "_state" kvs) with
    | Some st =>
        if String.eqb st "PENDING" then inr FPending
        else if String.eqb st "CANCELLED" then inr FCancelled
        else if String.eqb st "FINISHED" then
          match nk_get "exception" kvs with
          | Some (NExn e) => inr (FExn e)
          | Some _ => inl LOther
          | None => match nk_get "_result" kvs with Some (NVal v) => inr (FResult v) | _ => inl LOther end
          end
        else inl LOther
    | None => inl LOther
    end.

  (* Savable.load(saved_state, load_context); fuel bounds the nesting depth of the saved state *)
  Fixpoint load_obj (fuel : nat) (ctx : option loader) (n : node) : lerr + mval :=
    match fuel with
    | 0 => inl LOther
    | S fuel' =>
        match n with
        | NDict kvs =>
            match nk_get "!!meta" kvs with
            | Some (NDict meta) =>
                match ensure_loader ctx meta with
                | inl e => inl e
                | inr ldr =>
                    match node_str (nk_get "class_name" meta) with
                    | None => inl LValueError            (* 'Class name not found in saved state' *)
                    | Some ident =>
                        match load_object known_names ldr ident with
                        | None => inl LValueError
                        | Some cls =>
                            if String.eqb cls "SavableFuture" then
                              match load_future kvs with inl e => inl e | inr f => inr (MFut f) end
                            else
                              let types := match nk_get "types" meta with Some (NDict t) => t | _ => KNil end in
                              let fix go (names : list string) : lerr + mattrs :=
                                match names with
                                | [] => inr ANil
                                | m :: rest =>
                                    match nk_get m kvs with
                                    | None => inl LOther                 (* KeyError *)
                                    | Some nd =>
                                        let v : lerr + mval :=
                                          match node_str (nk_get m types), nd with
                                          | Some "m", NVal (VStr name) => inr (MMethod true name)   (* getattr(self, name) *)
                                          | Some "S", _ => load_obj fuel' (Some ldr) nd             (* Savable.load(value, load_context) *)
                                          | _, NVal x => inr (MPlain x)
                                          | _, _ => inl LOther
                                          end in
                                        match v, go rest with
                                        | inl e, _ => inl e
                                        | _, inl e => inl e
                                        | inr x, inr a => inr (ACons m x a)
                                        end
                                    end
                                end in
                              match go (persisted ct cls) with
                              | inl e => inl e
                              | inr a => inr (MObj (SObj cls a))
                              end
                        end
                    end
                end
            | _ => inl LValueError
            end
        | _ => inl LOther
        end
    end.
End Load.
