(* Persist/Persister.v — M4 (persisters part): InMemoryPersister and PicklePersister of persistence.py
   as data structures, and the abstract (pid, tag) -> snapshot map they are meant to implement.
   Executable model, no proofs.

   Python                                     model
   InMemoryPersister._checkpoints             mem  : dict pid -> dict tag -> Bundle (insertion ordered)
   PicklePersister: a directory of files      pdir : file name -> (PersistedCheckpoint(pid, tag), bundle)
     named pickle_filename(pid, tag), each
     holding PersistedPickle(checkpoint, bundle)
   a Bundle as saved                          [snap] (a value; what is compared is its canonical digest)
   pids / tags                                their str() rendering (the property restricts a history to one
                                              kind of id, on which str is injective); tag None = None
*)
From Coq Require Import List ZArith String Bool Ascii.
From Plumpy Require Import Val.
Import ListNotations.
Local Open Scope string_scope.

Definition pid := string.
Definition tag := option string.
Definition key := (pid * tag)%type.
Definition snap := val.

Definition tag_eqb (a b : tag) : bool := option_eqb String.eqb a b.
Definition key_eqb (a b : key) : bool := String.eqb (fst a) (fst b) && tag_eqb (snd a) (snd b).

Inductive pop :=
| Save (p : pid) (t : tag) (s : snap)      (* save_checkpoint(process, tag): s = the process's bundle right now *)
| Load (p : pid) (t : tag)
| ListAll                                  (* get_checkpoints() *)
| ListPid (p : pid)                        (* get_process_checkpoints(pid) *)
| Delete (p : pid) (t : tag)
| DeletePid (p : pid).

Inductive pout :=
| ONone
| OSnap (s : snap)
| ONotFound                                (* KeyError (in memory) / FileNotFoundError (pickle) *)
| OKeys (ks : list key).

(* ---------------- InMemoryPersister ---------------- *)
Definition tagmap := list (tag * snap).
Definition mem := list (pid * tagmap).

Fixpoint tm_get (t : tag) (m : tagmap) : option snap :=
  match m with
  | [] => None
  | (t', s) :: r => if tag_eqb t t' then Some s else tm_get t r
  end.

Fixpoint tm_set (t : tag) (s : snap) (m : tagmap) : tagmap :=
  match m with
  | [] => [(t, s)]
  | (t', s') :: r => if tag_eqb t t' then (t, s) :: r else (t', s') :: tm_set t s r
  end.

Fixpoint tm_del (t : tag) (m : tagmap) : tagmap :=
  match m with
  | [] => []
  | (t', s') :: r => if tag_eqb t t' then r else (t', s') :: tm_del t r
  end.

Definition mem_step (m : mem) (op : pop) : mem * pout :=
  match op with
  | Save p t s =>
      (* self._checkpoints.setdefault(pid, {})[tag] = Bundle(..., dereference=True) *)
      let tm := match alist_get p m with Some tm => tm | None => [] end in
      (alist_set p (tm_set t s tm) m, ONone)
  | Load p t =>
      match alist_get p m with
      | None => (m, ONotFound)
      | Some tm => match tm_get t tm with Some s => (m, OSnap s) | None => (m, ONotFound) end
      end
  | ListAll =>
      (m, OKeys (flat_map (fun e => map (fun ts => (fst e, fst ts)) (snd e)) m))
  | ListPid p =>
      (m, OKeys (match alist_get p m with Some tm => map (fun ts => (p, fst ts)) tm | None => [] end))
  | Delete p t =>
      match alist_get p m with
      | None => (m, ONone)
      | Some tm => (alist_set p (tm_del t tm) m, ONone)      (* leaves an empty dict behind *)
      end
  | DeletePid p => (alist_del p m, ONone)
  end.

(* ---------------- PicklePersister ---------------- *)
Definition pdir := list (string * (key * snap)).       (* file name -> content *)

Definition pickle_filename (p : pid) (t : tag) : string :=
  match t with
  | Some tg => p ++ "." ++ tg ++ ".pickle"
  | None => p ++ ".pickle"
  end.

Definition pickle_step (d : pdir) (op : pop) : pdir * pout :=
  match op with
  | Save p t s => (alist_set (pickle_filename p t) ((p, t), s) d, ONone)
  | Load p t =>
      match alist_get (pickle_filename p t) d with
      | Some (_, s) => (d, OSnap s)
      | None => (d, ONotFound)
      end
  | ListAll => (d, OKeys (map (fun f => fst (snd f)) d))        (* every *.pickle file's stored checkpoint *)
  | ListPid p =>
      (d, OKeys (filter (fun k => String.eqb (fst k) p) (map (fun f => fst (snd f)) d)))
  | Delete p t => (alist_del (pickle_filename p t) d, ONone)
  | DeletePid p =>
      (* for checkpoint in self.get_process_checkpoints(pid): self.delete_checkpoint(checkpoint.pid, checkpoint.tag) *)
      let ks := filter (fun k => String.eqb (fst k) p) (map (fun f => fst (snd f)) d) in
      (fold_left (fun d' k => alist_del (pickle_filename (fst k) (snd k)) d') ks d, ONone)
  end.

(* ---------------- running histories ---------------- *)
Fixpoint run_hist {S} (step : S -> pop -> S * pout) (s : S) (h : list pop) : list pout :=
  match h with
  | [] => []
  | op :: rest => let '(s', o) := step s op in o :: run_hist step s' rest
  end.

Fixpoint final_state {S} (step : S -> pop -> S * pout) (s : S) (h : list pop) : S :=
  match h with
  | [] => s
  | op :: rest => final_state step (fst (step s op)) rest
  end.

(* ---------------- the abstract snapshot store ---------------- *)
Definition amap := list (key * snap).

Fixpoint am_get (k : key) (m : amap) : option snap :=
  match m with
  | [] => None
  | (k', s) :: r => if key_eqb k k' then Some s else am_get k r
  end.

Fixpoint am_set (k : key) (s : snap) (m : amap) : amap :=
  match m with
  | [] => [(k, s)]
  | (k', s') :: r => if key_eqb k k' then (k, s) :: r else (k', s') :: am_set k s r
  end.

Definition am_del (k : key) (m : amap) : amap := filter (fun e => negb (key_eqb k (fst e))) m.
Definition am_del_pid (p : pid) (m : amap) : amap := filter (fun e => negb (String.eqb p (fst (fst e)))) m.

Definition spec_step (m : amap) (op : pop) : amap * pout :=
  match op with
  | Save p t s => (am_set (p, t) s m, ONone)
  | Load p t => (m, match am_get (p, t) m with Some s => OSnap s | None => ONotFound end)
  | ListAll => (m, OKeys (map fst m))
  | ListPid p => (m, OKeys (filter (fun k => String.eqb (fst k) p) (map fst m)))
  | Delete p t => (am_del (p, t) m, ONone)
  | DeletePid p => (am_del_pid p m, ONone)
  end.

(* ids and tags usable in a history: non-empty, no separator *)
Fixpoint sep_free (s : string) : bool :=
  match s with
  | EmptyString => true
  | String c r => negb (Ascii.eqb c "."%char) && sep_free r
  end.

Definition key_ok (p : pid) (t : tag) : bool :=
  sep_free p && match t with Some tg => sep_free tg | None => true end.

Definition op_ok (op : pop) : bool :=
  match op with
  | Save p t _ | Load p t | Delete p t => key_ok p t
  | ListPid p | DeletePid p => sep_free p
  | ListAll => true
  end.
