(* Persist/SavableProofs.v — proofs about Savable round trips (model: Savable.v). *)
From Coq Require Import List ZArith String Bool Lia.
From Plumpy Require Import Val Savable.
Import ListNotations.
Local Open Scope string_scope.

(* What must come back: the declared (persisted) members, in declaration order, own methods rebound (same
   name, bound to the new object), nested Savables projected recursively, futures in the same state.
   None: the object is not savable (a declared member is missing, or holds a method of another object). *)
Fixpoint project (ct : ctable) (o : sobj) {struct o} : option sobj :=
  match o with
  | SObj cls attrs =>
      let fix go (names : list string) : option mattrs :=
        match names with
        | [] => Some ANil
        | n :: rest =>
            match project_attr ct n attrs, go rest with
            | Some v, Some a => Some (ACons n v a)
            | _, _ => None
            end
        end in
      match go (persisted ct cls) with
      | Some a => Some (SObj cls a)
      | None => None
      end
  end
with project_attr (ct : ctable) (n : string) (a : mattrs) {struct a} : option mval :=
  match a with
  | ANil => None
  | ACons n' v r =>
      if String.eqb n n' then
        match v with
        | MPlain x => Some (MPlain x)
        | MMethod own name => if own then Some (MMethod true name) else None
        | MObj o => match project ct o with Some p => Some (MObj p) | None => None end
        | MFut f => Some (MFut f)
        end
      else project_attr ct n r
  end.

(* nesting depth *)
Fixpoint depth (o : sobj) : nat :=
  match o with SObj _ attrs => S (depth_attrs attrs) end
with depth_attrs (a : mattrs) : nat :=
  match a with
  | ANil => 0
  | ACons _ v r => Nat.max (match v with MObj o => depth o | MFut _ => 1 | _ => 0 end) (depth_attrs r)
  end.

(* the classes of an object (at any depth) are in the table *)
Fixpoint classes_known (ct : ctable) (o : sobj) : bool :=
  match o with SObj cls attrs => alist_mem cls ct && classes_known_attrs ct attrs end
with classes_known_attrs (ct : ctable) (a : mattrs) : bool :=
  match a with
  | ANil => true
  | ACons _ v r => match v with MObj o => classes_known ct o | _ => true end && classes_known_attrs ct r
  end.

(* sanity of the class table: no user class is called like the library classes, no member is called "!!meta" *)
Definition table_ok (ct : ctable) : bool :=
  forallb (fun e => negb (String.eqb (fst e) "SavableFuture")
                    && negb (String.eqb (fst e) (loader_class_name LDefault))
                    && negb (String.eqb (fst e) (loader_class_name LCustom))
                    && forallb (fun m => negb (String.eqb m "!!meta")) (snd (snd e))) ct.

Definition saved_with (glob : loader) (sctx : option loader) : loader :=
  match sctx with Some l => l | None => glob end.

(* TO BE PROVED.  Hypotheses may be weakened or adjusted to what is really needed; report every change.

(1) the round trip, under every loader configuration in which the loading side resolves classes with the
    loader that saved them: no load context (=> the recorded loader, else the global one), or the same loader.
Theorem roundtrip : forall ct glob sctx lctx o n p fuel,
  table_ok ct = true -> classes_known ct o = true ->
  save_obj ct glob sctx o = Some n ->
  project ct o = Some p ->
  (lctx = None \/ lctx = Some (saved_with glob sctx)) ->
  depth o < fuel ->
  load_obj ct glob fuel lctx n = inr (MObj p).

(2) saving succeeds exactly on savable objects:
Theorem save_defined_iff : forall ct glob sctx o,
  (exists n, save_obj ct glob sctx o = Some n) <-> (exists p, project ct o = Some p).

(3) a loader with another identifier scheme never yields an object: ValueError.
Theorem load_other_loader : forall ct glob sctx l o n fuel,
  save_obj ct glob sctx o = Some n -> l <> saved_with glob sctx -> 0 < fuel ->
  load_obj ct glob fuel (Some l) n = inl LValueError.

(4) an unknown class is a ValueError, never a wrong object (ct' = the table at load time):
Theorem load_unknown_class : forall ct ct' glob sctx lctx cls attrs n fuel,
  save_obj ct glob sctx (SObj cls attrs) = Some n ->
  alist_mem cls ct' = false -> cls <> "SavableFuture" ->
  cls <> loader_class_name LDefault -> cls <> loader_class_name LCustom ->
  (lctx = None \/ lctx = Some (saved_with glob sctx)) -> 0 < fuel ->
  load_obj ct' glob fuel lctx n = inl LValueError.

(5) loader precedence (context, then the one recorded in the saved state, then the global default):
Theorem ensure_loader_context : forall ct glob l meta, ensure_loader ct glob (Some l) meta = inr l.
Theorem ensure_loader_recorded : forall ct glob l,
  ensure_loader ct glob None
    (KCons "user" (NDict (KCons "object_loader" (NVal (VStr (identify glob (loader_class_name l)))) KNil)) KNil) = inr l.
Theorem ensure_loader_global : forall ct glob meta,
  nk_get "user" meta = None -> ensure_loader ct glob None meta = inr glob.

(6) futures come back in the state they were saved in, whatever the loaders (compatible as in (1)):
Theorem future_roundtrip : forall ct glob sctx lctx f fuel,
  (lctx = None \/ lctx = Some (saved_with glob sctx)) -> 0 < fuel ->
  load_obj ct glob fuel lctx (save_future glob sctx f) = inr (MFut f).
*)
