(* Persist/SavableProofs.v — proofs about Savable round trips (model: Savable.v). *)
From Coq Require Import List ZArith String Bool Lia.
From Plumpy Require Import Val Savable.
Import ListNotations.
Local Open Scope string_scope.

(* What must come back: the declared (persisted) members, in declaration order, own methods rebound (same
   name, bound to the new object), nested Savables projected recursively, futures in the same state.
   None: the object is not savable (a declared member is missing, or holds a method of another object). *)
Fixpoint project (ct : ctable) (o : sobj) {struct o} : option sobj :=
  match o with
  | SObj cls attrs =>
      let fix go (names : list string) : option mattrs :=
        match names with
        | [] => Some ANil
        | n :: rest =>
            match project_attr ct n attrs, go rest with
            | Some v, Some a => Some (ACons n v a)
            | _, _ => None
            end
        end in
      match go (persisted ct cls) with
      | Some a => Some (SObj cls a)
      | None => None
      end
  end
with project_attr (ct : ctable) (n : string) (a : mattrs) {struct a} : option mval :=
  match a with
  | ANil => None
  | ACons n' v r =>
      if String.eqb n n' then
        match v with
        | MPlain x => Some (MPlain x)
        | MMethod own name => if own then Some (MMethod true name) else None
        | MObj o => match project ct o with Some p => Some (MObj p) | None => None end
        | MFut f => Some (MFut f)
        end
      else project_attr ct n r
  end.

(* nesting depth *)
Fixpoint depth (o : sobj) : nat :=
  match o with SObj _ attrs => S (depth_attrs attrs) end
with depth_attrs (a : mattrs) : nat :=
  match a with
  | ANil => 0
  | ACons _ v r => Nat.max (match v with MObj o => depth o | MFut _ => 1 | _ => 0 end) (depth_attrs r)
  end.

(* the classes of an object (at any depth) are in the table *)
Fixpoint classes_known (ct : ctable) (o : sobj) : bool :=
  match o with SObj cls attrs => alist_mem cls ct && classes_known_attrs ct attrs end
with classes_known_attrs (ct : ctable) (a : mattrs) : bool :=
  match a with
  | ANil => true
  | ACons _ v r => match v with MObj o => classes_known ct o | _ => true end && classes_known_attrs ct r
  end.

(* sanity of the class table: no user class is called like the library classes, no member is called "!!meta" *)
Definition table_ok (ct : ctable) : bool :=
  forallb (fun e => negb (String.eqb (fst e) "SavableFuture")
                    && negb (String.eqb (fst e) (loader_class_name LDefault))
                    && negb (String.eqb (fst e) (loader_class_name LCustom))
                    && forallb (fun m => negb (String.eqb m "!!meta")) (snd (snd e))) ct.

Definition saved_with (glob : loader) (sctx : option loader) : loader :=
  match sctx with Some l => l | None => glob end.

(* ------------------------------------------------------------------------------------------------ *)
(* unfolding equations: the local [fix go] loops of the model as top-level functions                   *)

Fixpoint save_go (ct : ctable) (glob : loader) (ctx : option loader) (attrs : mattrs) (names : list string)
  : option (nkvs * nkvs) :=
  match names with
  | [] => Some (KNil, KNil)
  | n :: rest =>
      match save_go ct glob ctx attrs rest with
      | None => None
      | Some (ts, vs) =>
          match find_attr ct glob ctx n attrs with
          | None => None
          | Some (ty, nd) => Some (nk_app (nk_of_opt n ty) ts, KCons n nd vs)
          end
      end
  end.

Lemma save_obj_eq : forall ct glob ctx cls attrs,
  save_obj ct glob ctx (SObj cls attrs) =
  match save_go ct glob ctx attrs (persisted ct cls) with
  | None => None
  | Some (ts, vs) => Some (NDict (KCons "!!meta" (meta_node glob ctx cls ts) vs))
  end.
Proof.
  intros ct glob ctx cls attrs. cbn [save_obj].
  match goal with |- match ?f _ with _ => _ end = _ =>
    assert (E : forall names, f names = save_go ct glob ctx attrs names) end.
  { induction names as [|n rest IH]; [reflexivity|].
    cbn [save_go]. rewrite <- IH. reflexivity. }
  rewrite E. reflexivity.
Qed.

Lemma find_attr_cons : forall ct glob ctx n n' v r,
  find_attr ct glob ctx n (ACons n' v r) =
  if String.eqb n n' then
    match v with
    | MPlain x => Some (None, NVal x)
    | MMethod own name => if own then Some (Some (NVal (VStr "m")), NVal (VStr name)) else None
    | MObj o => match save_obj ct glob ctx o with
                | Some nd => Some (Some (NVal (VStr "S")), nd)
                | None => None
                end
    | MFut f => Some (Some (NVal (VStr "S")), save_future glob ctx f)
    end
  else find_attr ct glob ctx n r.
Proof. reflexivity. Qed.

Fixpoint proj_go (ct : ctable) (attrs : mattrs) (names : list string) : option mattrs :=
  match names with
  | [] => Some ANil
  | n :: rest =>
      match project_attr ct n attrs, proj_go ct attrs rest with
      | Some v, Some a => Some (ACons n v a)
      | _, _ => None
      end
  end.

Lemma project_eq : forall ct cls attrs,
  project ct (SObj cls attrs) =
  match proj_go ct attrs (persisted ct cls) with
  | Some a => Some (SObj cls a)
  | None => None
  end.
Proof.
  intros ct cls attrs. cbn [project].
  match goal with |- match ?f _ with _ => _ end = _ =>
    assert (E : forall names, f names = proj_go ct attrs names) end.
  { induction names as [|n rest IH]; [reflexivity|].
    cbn [proj_go]. rewrite <- IH. reflexivity. }
  rewrite E. reflexivity.
Qed.

Lemma project_attr_cons : forall ct n n' v r,
  project_attr ct n (ACons n' v r) =
  if String.eqb n n' then
    match v with
    | MPlain x => Some (MPlain x)
    | MMethod own name => if own then Some (MMethod true name) else None
    | MObj o => match project ct o with Some p => Some (MObj p) | None => None end
    | MFut f => Some (MFut f)
    end
  else project_attr ct n r.
Proof. reflexivity. Qed.

Lemma depth_SObj : forall cls attrs, depth (SObj cls attrs) = S (depth_attrs attrs).
Proof. reflexivity. Qed.

Lemma depth_attrs_cons : forall n v r,
  depth_attrs (ACons n v r) =
  Nat.max (match v with MObj o => depth o | MFut _ => 1 | _ => 0 end) (depth_attrs r).
Proof. reflexivity. Qed.

Lemma classes_known_SObj : forall ct cls attrs,
  classes_known ct (SObj cls attrs) = alist_mem cls ct && classes_known_attrs ct attrs.
Proof. reflexivity. Qed.

Lemma classes_known_attrs_cons : forall ct n v r,
  classes_known_attrs ct (ACons n v r) =
  match v with MObj o => classes_known ct o | _ => true end && classes_known_attrs ct r.
Proof. reflexivity. Qed.

(* one member of the load loop *)
Definition load_member (ct : ctable) (glob : loader) (fuel' : nat) (ldr : loader) (types : nkvs)
  (m : string) (nd : node) : lerr + mval :=
  match node_str (nk_get m types), nd with
  | Some "m", NVal (VStr name) => inr (MMethod true name)
  | Some "S", _ => load_obj ct glob fuel' (Some ldr) nd
  | _, NVal x => inr (MPlain x)
  | _, _ => inl LOther
  end.

Fixpoint load_go (ct : ctable) (glob : loader) (fuel' : nat) (ldr : loader) (kvs types : nkvs)
  (names : list string) : lerr + mattrs :=
  match names with
  | [] => inr ANil
  | m :: rest =>
      match nk_get m kvs with
      | None => inl LOther
      | Some nd =>
          match load_member ct glob fuel' ldr types m nd, load_go ct glob fuel' ldr kvs types rest with
          | inl e, _ => inl e
          | _, inl e => inl e
          | inr x, inr a => inr (ACons m x a)
          end
      end
  end.

Lemma load_obj_eq : forall ct glob fuel' ctx kvs meta ldr ident cls,
  nk_get "!!meta" kvs = Some (NDict meta) ->
  ensure_loader ct glob ctx meta = inr ldr ->
  node_str (nk_get "class_name" meta) = Some ident ->
  load_object (known_names ct) ldr ident = Some cls ->
  load_obj ct glob (S fuel') ctx (NDict kvs) =
  if String.eqb cls "SavableFuture" then
    match load_future kvs with inl e => inl e | inr f => inr (MFut f) end
  else
    match load_go ct glob fuel' ldr kvs
            (match nk_get "types" meta with Some (NDict t) => t | _ => KNil end) (persisted ct cls) with
    | inl e => inl e
    | inr a => inr (MObj (SObj cls a))
    end.
Proof.
  intros ct glob fuel' ctx kvs meta ldr ident cls Hmeta Hens Hcn Hlo.
  cbn [load_obj]. rewrite Hmeta, Hens, Hcn, Hlo.
  destruct (String.eqb cls "SavableFuture"); [reflexivity|].
  match goal with |- match ?f _ with _ => _ end = _ =>
    assert (E : forall names, f names =
      load_go ct glob fuel' ldr kvs
        (match nk_get "types" meta with Some (NDict t) => t | _ => KNil end) names) end.
  { induction names as [|m rest IH]; [reflexivity|].
    cbn [load_go]. rewrite <- IH. reflexivity. }
  rewrite E. reflexivity.
Qed.

Lemma load_obj_badclass : forall ct glob fuel' ctx kvs meta ldr ident,
  nk_get "!!meta" kvs = Some (NDict meta) ->
  ensure_loader ct glob ctx meta = inr ldr ->
  node_str (nk_get "class_name" meta) = Some ident ->
  load_object (known_names ct) ldr ident = None ->
  load_obj ct glob (S fuel') ctx (NDict kvs) = inl LValueError.
Proof.
  intros ct glob fuel' ctx kvs meta ldr ident Hmeta Hens Hcn Hlo.
  cbn [load_obj]. rewrite Hmeta, Hens, Hcn, Hlo. reflexivity.
Qed.

Lemma load_member_m : forall ct glob fuel' ldr types m name,
  nk_get m types = Some (NVal (VStr "m")) ->
  load_member ct glob fuel' ldr types m (NVal (VStr name)) = inr (MMethod true name).
Proof. intros ct glob fuel' ldr types m name H. unfold load_member. rewrite H. reflexivity. Qed.

Lemma load_member_S : forall ct glob fuel' ldr types m nd,
  nk_get m types = Some (NVal (VStr "S")) ->
  load_member ct glob fuel' ldr types m nd = load_obj ct glob fuel' (Some ldr) nd.
Proof. intros ct glob fuel' ldr types m nd H. unfold load_member. rewrite H. reflexivity. Qed.

Lemma load_member_plain : forall ct glob fuel' ldr types m x,
  nk_get m types = None ->
  load_member ct glob fuel' ldr types m (NVal x) = inr (MPlain x).
Proof. intros ct glob fuel' ldr types m x H. unfold load_member. rewrite H. reflexivity. Qed.

(* ------------------------------------------------------------------------------------------------ *)
(* the meta entry and the loaders                                                                     *)

Definition meta_kvs (glob : loader) (ctx : option loader) (cls : string) (types : nkvs) : nkvs :=
  nk_app
    (match ctx with
     | Some l => KCons "user" (NDict (KCons "object_loader"
                    (NVal (VStr (identify glob (loader_class_name l)))) KNil)) KNil
     | None => KNil
     end)
    (nk_app (KCons "class_name" (NVal (VStr (identify (saved_with glob ctx) cls))) KNil)
            (match types with KNil => KNil | _ => KCons "types" (NDict types) KNil end)).

Lemma meta_node_eq : forall glob ctx cls types,
  meta_node glob ctx cls types = NDict (meta_kvs glob ctx cls types).
Proof. reflexivity. Qed.

Lemma ensure_loader_meta : forall ct glob sctx lctx cls ts,
  (lctx = None \/ lctx = Some (saved_with glob sctx)) ->
  ensure_loader ct glob lctx (meta_kvs glob sctx cls ts) = inr (saved_with glob sctx).
Proof.
  intros ct glob sctx lctx cls ts [-> | ->]; [|reflexivity].
  destruct sctx as [l|].
  - destruct glob, l; reflexivity.
  - destruct ts; reflexivity.
Qed.

Lemma class_name_meta : forall glob sctx cls ts,
  node_str (nk_get "class_name" (meta_kvs glob sctx cls ts)) = Some (identify (saved_with glob sctx) cls).
Proof. intros glob sctx cls ts. destruct sctx; reflexivity. Qed.

Lemma types_meta : forall glob sctx cls ts,
  match nk_get "types" (meta_kvs glob sctx cls ts) with Some (NDict t) => t | _ => KNil end = ts.
Proof. intros glob sctx cls ts. destruct sctx, ts; reflexivity. Qed.

Lemma load_object_identify : forall known l c,
  existsb (String.eqb c) known = true -> load_object known l (identify l c) = Some c.
Proof.
  intros known l c H. destruct l; cbn; rewrite H; reflexivity.
Qed.

Lemma load_object_unknown : forall known l c,
  existsb (String.eqb c) known = false -> load_object known l (identify l c) = None.
Proof.
  intros known l c H. destruct l; cbn; rewrite H; reflexivity.
Qed.

Lemma load_object_other : forall known l l' c,
  l <> l' -> load_object known l (identify l' c) = None.
Proof.
  intros known l l' c H. destruct l, l'; try congruence; reflexivity.
Qed.

Lemma existsb_map_fst : forall (c : string) (ct : ctable),
  existsb (String.eqb c) (map fst ct) = alist_mem c ct.
Proof.
  intros c ct. induction ct as [|[k v] r IH]; [reflexivity|].
  unfold alist_mem in *. cbn. destruct (String.eqb c k); [reflexivity|exact IH].
Qed.

Lemma known_of_mem : forall ct cls,
  alist_mem cls ct = true -> existsb (String.eqb cls) (known_names ct) = true.
Proof.
  intros ct cls H. unfold known_names. cbn [existsb]. rewrite existsb_map_fst, H.
  rewrite !orb_true_r. reflexivity.
Qed.

Lemma unknown_of_not_mem : forall ct cls,
  alist_mem cls ct = false -> cls <> "SavableFuture" ->
  cls <> loader_class_name LDefault -> cls <> loader_class_name LCustom ->
  existsb (String.eqb cls) (known_names ct) = false.
Proof.
  intros ct cls H H1 H2 H3. unfold known_names. cbn [existsb]. rewrite existsb_map_fst, H.
  apply String.eqb_neq in H1, H2, H3. rewrite H1, H2, H3. reflexivity.
Qed.

(* ------------------------------------------------------------------------------------------------ *)
(* consequences of table_ok                                                                           *)

Lemma alist_get_in : forall (A : Type) (k : string) (l : list (string * A)) (v : A),
  alist_get k l = Some v -> In (k, v) l.
Proof.
  intros A k l v. induction l as [|[k' v'] r IH]; cbn; intros H; [discriminate|].
  destruct (String.eqb k k') eqn:E.
  - apply String.eqb_eq in E. subst k'. inversion H. left. reflexivity.
  - right. apply IH. exact H.
Qed.

Lemma table_ok_entry : forall ct c v,
  table_ok ct = true -> alist_get c ct = Some v ->
  String.eqb c "SavableFuture" = false /\
  forallb (fun m => negb (String.eqb m "!!meta")) (snd v) = true.
Proof.
  intros ct c v Hok Hget. apply alist_get_in in Hget.
  unfold table_ok in Hok. rewrite forallb_forall in Hok. specialize (Hok _ Hget). cbn [fst snd] in Hok.
  apply andb_true_iff in Hok. destruct Hok as [Hok Hm].
  apply andb_true_iff in Hok. destruct Hok as [Hok _].
  apply andb_true_iff in Hok. destruct Hok as [Hok _].
  split; [|exact Hm]. destruct (String.eqb c "SavableFuture"); [discriminate|reflexivity].
Qed.

Lemma table_ok_class : forall ct cls,
  table_ok ct = true -> alist_mem cls ct = true -> String.eqb cls "SavableFuture" = false.
Proof.
  intros ct cls Hok Hmem. unfold alist_mem in Hmem.
  destruct (alist_get cls ct) as [v|] eqn:E; [|discriminate].
  exact (proj1 (table_ok_entry ct cls v Hok E)).
Qed.

Lemma members_not_meta : forall ct, table_ok ct = true ->
  forall fuel c m, In m (members_of fuel ct c) -> m <> "!!meta".
Proof.
  intros ct Hok. induction fuel as [|f IH]; intros c m Hin; cbn [members_of] in Hin; [contradiction|].
  destruct (alist_get c ct) as [[parent own]|] eqn:E; [|contradiction].
  apply in_app_or in Hin. destruct Hin as [Hin|Hin].
  - destruct parent as [p|]; [exact (IH p m Hin)|contradiction].
  - destruct (table_ok_entry ct c _ Hok E) as [_ Hm]. cbn [snd] in Hm.
    rewrite forallb_forall in Hm. specialize (Hm m Hin).
    apply String.eqb_neq. destruct (String.eqb m "!!meta"); [discriminate|reflexivity].
Qed.

Lemma in_dedup : forall l m, In m (dedup l) -> In m l.
Proof.
  induction l as [|x r IH]; intros m H; cbn [dedup] in H; [contradiction|].
  destruct (existsb (String.eqb x) r).
  - right. apply IH. exact H.
  - destruct H as [H|H]; [left; exact H|right; apply IH; exact H].
Qed.

Lemma persisted_not_meta : forall ct cls m,
  table_ok ct = true -> In m (persisted ct cls) -> m <> "!!meta".
Proof.
  intros ct cls m Hok Hin. unfold persisted in Hin. apply in_dedup in Hin.
  exact (members_not_meta ct Hok _ _ _ Hin).
Qed.

(* ------------------------------------------------------------------------------------------------ *)
(* the save loop: what is stored under a member name                                                  *)

Lemma nk_get_types_other : forall m n ty ts,
  String.eqb m n = false -> nk_get m (nk_app (nk_of_opt n ty) ts) = nk_get m ts.
Proof.
  intros m n ty ts H. destruct ty as [t|]; cbn; [rewrite H|]; reflexivity.
Qed.

Lemma save_go_ts_none : forall ct glob ctx attrs m names ts vs,
  save_go ct glob ctx attrs names = Some (ts, vs) -> ~ In m names -> nk_get m ts = None.
Proof.
  intros ct glob ctx attrs m. induction names as [|n rest IH]; intros ts vs H Hnin; cbn [save_go] in H.
  - inversion H. reflexivity.
  - destruct (save_go ct glob ctx attrs rest) as [[ts' vs']|] eqn:E; [|discriminate].
    destruct (find_attr ct glob ctx n attrs) as [[ty nd]|] eqn:F; [|discriminate].
    inversion H; subst ts vs. clear H.
    assert (Hmn : String.eqb m n = false).
    { apply String.eqb_neq. intros ->. apply Hnin. left. reflexivity. }
    rewrite nk_get_types_other by exact Hmn.
    apply (IH ts' vs' eq_refl). intros Hin. apply Hnin. right. exact Hin.
Qed.

Lemma save_go_get : forall ct glob ctx attrs m names ts vs,
  save_go ct glob ctx attrs names = Some (ts, vs) -> In m names ->
  exists ty nd, find_attr ct glob ctx m attrs = Some (ty, nd) /\ nk_get m vs = Some nd /\ nk_get m ts = ty.
Proof.
  intros ct glob ctx attrs m. induction names as [|n rest IH]; intros ts vs H Hin; cbn [save_go] in H.
  - contradiction.
  - destruct (save_go ct glob ctx attrs rest) as [[ts' vs']|] eqn:E; [|discriminate].
    destruct (find_attr ct glob ctx n attrs) as [[ty nd]|] eqn:F; [|discriminate].
    inversion H; subst ts vs. clear H.
    destruct (String.eqb m n) eqn:Emn.
    + apply String.eqb_eq in Emn. subst n.
      exists ty, nd. split; [exact F|]. split.
      * cbn [nk_get]. rewrite String.eqb_refl. reflexivity.
      * destruct ty as [t|].
        -- cbn. rewrite String.eqb_refl. reflexivity.
        -- cbn [nk_of_opt nk_app].
           destruct (in_dec string_dec m rest) as [Hr|Hr].
           ++ destruct (IH ts' vs' eq_refl Hr) as [ty' [nd' [F' [_ Hts]]]].
              rewrite F in F'. inversion F' as [[Hty Hnd]]. rewrite Hty. exact Hts.
           ++ exact (save_go_ts_none ct glob ctx attrs m rest ts' vs' E Hr).
    + assert (Hr : In m rest).
      { destruct Hin as [Hin|Hin]; [|exact Hin]. subst n. rewrite String.eqb_refl in Emn. discriminate. }
      destruct (IH ts' vs' eq_refl Hr) as [ty' [nd' [F' [Hvs Hts]]]].
      exists ty', nd'. split; [exact F'|]. split.
      * cbn [nk_get]. rewrite Emn. exact Hvs.
      * rewrite nk_get_types_other by exact Emn. exact Hts.
Qed.

(* ------------------------------------------------------------------------------------------------ *)
(* (6) futures                                                                                        *)

Theorem future_roundtrip : forall ct glob sctx lctx f fuel,
  (lctx = None \/ lctx = Some (saved_with glob sctx)) -> 0 < fuel ->
  load_obj ct glob fuel lctx (save_future glob sctx f) = inr (MFut f).
Proof.
  intros ct glob sctx lctx f fuel Hl Hfuel.
  destruct fuel as [|fuel']; [lia|].
  unfold save_future. rewrite meta_node_eq.
  rewrite (load_obj_eq ct glob fuel' lctx _ (meta_kvs glob sctx "SavableFuture" KNil)
             (saved_with glob sctx) (identify (saved_with glob sctx) "SavableFuture") "SavableFuture").
  - destruct f; reflexivity.
  - reflexivity.
  - apply ensure_loader_meta. exact Hl.
  - apply class_name_meta.
  - apply load_object_identify. reflexivity.
Qed.

(* ------------------------------------------------------------------------------------------------ *)
(* (1) the round trip                                                                                 *)

Section Roundtrip.
  Variable ct : ctable.
  Variable glob : loader.
  Variable sctx : option loader.
  Variable fuel' : nat.
  Hypothesis IHfuel : forall o n p,
    classes_known ct o = true ->
    save_obj ct glob sctx o = Some n ->
    project ct o = Some p ->
    depth o < fuel' ->
    load_obj ct glob fuel' (Some (saved_with glob sctx)) n = inr (MObj p).

  Lemma member_roundtrip : forall ts m attrs nd v,
    classes_known_attrs ct attrs = true ->
    depth_attrs attrs < fuel' ->
    find_attr ct glob sctx m attrs = Some (nk_get m ts, nd) ->
    project_attr ct m attrs = Some v ->
    load_member ct glob fuel' (saved_with glob sctx) ts m nd = inr v.
  Proof.
    intros ts m. induction attrs as [|n' mv r IH]; intros nd v Hck Hd Hf Hp.
    - discriminate.
    - rewrite find_attr_cons in Hf. rewrite project_attr_cons in Hp.
      rewrite classes_known_attrs_cons in Hck. apply andb_true_iff in Hck. destruct Hck as [Hck1 Hck2].
      rewrite depth_attrs_cons in Hd.
      destruct (String.eqb m n').
      + destruct mv as [x|own name|o|f].
        * injection Hf as Hty Hnd. injection Hp as Hv. subst nd v.
          apply load_member_plain. symmetry. exact Hty.
        * destruct own; [|discriminate].
          injection Hf as Hty Hnd. injection Hp as Hv. subst nd v.
          apply load_member_m. symmetry. exact Hty.
        * destruct (save_obj ct glob sctx o) as [nd'|] eqn:Es; [|discriminate].
          destruct (project ct o) as [p'|] eqn:Ep; [|discriminate].
          injection Hf as Hty Hnd. injection Hp as Hv. subst nd v.
          rewrite load_member_S by (symmetry; exact Hty).
          apply (IHfuel o); [exact Hck1|exact Es|exact Ep|lia].
        * injection Hf as Hty Hnd. injection Hp as Hv. subst nd v.
          rewrite load_member_S by (symmetry; exact Hty).
          apply future_roundtrip; [right; reflexivity|lia].
      + apply (IH nd v Hck2); [lia|exact Hf|exact Hp].
  Qed.

  Lemma load_go_roundtrip : forall attrs names ts vs M,
    save_go ct glob sctx attrs names = Some (ts, vs) ->
    (forall m, In m names -> m <> "!!meta") ->
    classes_known_attrs ct attrs = true ->
    depth_attrs attrs < fuel' ->
    forall names' a, incl names' names ->
    proj_go ct attrs names' = Some a ->
    load_go ct glob fuel' (saved_with glob sctx) (KCons "!!meta" M vs) ts names' = inr a.
  Proof.
    intros attrs names ts vs M Hs Hnm Hck Hd.
    induction names' as [|m rest IH]; intros a Hincl Hp; cbn [proj_go] in Hp.
    - inversion Hp. reflexivity.
    - destruct (project_attr ct m attrs) as [v|] eqn:Ev; [|discriminate].
      destruct (proj_go ct attrs rest) as [a'|] eqn:Ea; [|discriminate].
      inversion Hp; subst a. clear Hp.
      assert (Hin : In m names) by (apply Hincl; left; reflexivity).
      assert (Hincl' : incl rest names) by (intros x Hx; apply Hincl; right; exact Hx).
      destruct (save_go_get ct glob sctx attrs m names ts vs Hs Hin) as [ty [nd [Hf [Hvs Hts]]]].
      cbn [load_go nk_get].
      assert (Hmm : String.eqb m "!!meta" = false) by (apply String.eqb_neq; apply Hnm; exact Hin).
      rewrite Hmm, Hvs. rewrite <- Hts in Hf.
      rewrite (member_roundtrip ts m attrs nd v Hck Hd Hf Ev).
      rewrite (IH a' Hincl' eq_refl). reflexivity.
  Qed.
End Roundtrip.

Lemma roundtrip_fuel : forall ct glob sctx, table_ok ct = true ->
  forall fuel lctx o n p,
  classes_known ct o = true ->
  save_obj ct glob sctx o = Some n ->
  project ct o = Some p ->
  (lctx = None \/ lctx = Some (saved_with glob sctx)) ->
  depth o < fuel ->
  load_obj ct glob fuel lctx n = inr (MObj p).
Proof.
  intros ct glob sctx Hok. induction fuel as [|fuel' IHf]; intros lctx o n p Hck Hs Hp Hl Hd; [lia|].
  destruct o as [cls attrs].
  rewrite save_obj_eq in Hs.
  destruct (save_go ct glob sctx attrs (persisted ct cls)) as [[ts vs]|] eqn:Eg; [|discriminate].
  inversion Hs; subst n. clear Hs.
  rewrite project_eq in Hp.
  destruct (proj_go ct attrs (persisted ct cls)) as [a|] eqn:Ea; [|discriminate].
  inversion Hp; subst p. clear Hp.
  rewrite classes_known_SObj in Hck. apply andb_true_iff in Hck. destruct Hck as [Hmem Hck].
  rewrite depth_SObj in Hd.
  rewrite meta_node_eq.
  rewrite (load_obj_eq ct glob fuel' lctx _ (meta_kvs glob sctx cls ts)
             (saved_with glob sctx) (identify (saved_with glob sctx) cls) cls).
  - rewrite (table_ok_class ct cls Hok Hmem). rewrite types_meta.
    rewrite (load_go_roundtrip ct glob sctx fuel'
               (fun o n p Hck Hs Hp Hd => IHf (Some (saved_with glob sctx)) o n p Hck Hs Hp (or_intror eq_refl) Hd)
               attrs (persisted ct cls) ts vs _ Eg
               (fun m Hin => persisted_not_meta ct cls m Hok Hin) Hck ltac:(lia)
               (persisted ct cls) a (incl_refl _) Ea).
    reflexivity.
  - reflexivity.
  - apply ensure_loader_meta. exact Hl.
  - apply class_name_meta.
  - apply load_object_identify. apply known_of_mem. exact Hmem.
Qed.

Theorem roundtrip : forall ct glob sctx lctx o n p fuel,
  table_ok ct = true -> classes_known ct o = true ->
  save_obj ct glob sctx o = Some n ->
  project ct o = Some p ->
  (lctx = None \/ lctx = Some (saved_with glob sctx)) ->
  depth o < fuel ->
  load_obj ct glob fuel lctx n = inr (MObj p).
Proof.
  intros ct glob sctx lctx o n p fuel Hok Hck Hs Hp Hl Hd.
  exact (roundtrip_fuel ct glob sctx Hok fuel lctx o n p Hck Hs Hp Hl Hd).
Qed.

(* ------------------------------------------------------------------------------------------------ *)
(* (2) saving succeeds exactly on savable objects                                                     *)

Scheme mval_mut := Induction for mval Sort Prop
  with sobj_mut := Induction for sobj Sort Prop
  with mattrs_mut := Induction for mattrs Sort Prop.

Definition is_some {A : Type} (x : option A) : bool := match x with Some _ => true | None => false end.

Lemma save_project_defined : forall ct glob o ctx,
  is_some (save_obj ct glob ctx o) = is_some (project ct o).
Proof.
  intros ct glob.
  apply (sobj_mut
    (fun v => match v with
              | MObj o => forall ctx, is_some (save_obj ct glob ctx o) = is_some (project ct o)
              | _ => True
              end)
    (fun o => forall ctx, is_some (save_obj ct glob ctx o) = is_some (project ct o))
    (fun a => forall ctx n, is_some (find_attr ct glob ctx n a) = is_some (project_attr ct n a))).
  - intros v. exact I.
  - intros own name. exact I.
  - intros o H. exact H.
  - intros f. exact I.
  - intros cls attrs IHa ctx. rewrite save_obj_eq, project_eq.
    assert (E : forall names,
      is_some (save_go ct glob ctx attrs names) = is_some (proj_go ct attrs names)).
    { induction names as [|n rest IH]; [reflexivity|]. cbn [save_go proj_go].
      specialize (IHa ctx n).
      destruct (save_go ct glob ctx attrs rest) as [[ts vs]|];
        destruct (proj_go ct attrs rest) as [a|]; cbn in IH; try discriminate;
        destruct (find_attr ct glob ctx n attrs) as [[ty nd]|];
        destruct (project_attr ct n attrs) as [v|]; cbn in IHa; try discriminate; reflexivity. }
    specialize (E (persisted ct cls)).
    destruct (save_go ct glob ctx attrs (persisted ct cls)) as [[ts vs]|];
      destruct (proj_go ct attrs (persisted ct cls)) as [a|]; cbn in E; try discriminate; reflexivity.
  - intros ctx n. reflexivity.
  - intros n' v IHv r IHr ctx n. rewrite find_attr_cons, project_attr_cons.
    destruct (String.eqb n n'); [|apply IHr].
    destruct v as [x|own name|o|f].
    + reflexivity.
    + destruct own; reflexivity.
    + specialize (IHv ctx).
      destruct (save_obj ct glob ctx o); destruct (project ct o); cbn in IHv; try discriminate; reflexivity.
    + reflexivity.
Qed.

Theorem save_defined_iff : forall ct glob sctx o,
  (exists n, save_obj ct glob sctx o = Some n) <-> (exists p, project ct o = Some p).
Proof.
  intros ct glob sctx o. pose proof (save_project_defined ct glob o sctx) as H.
  split; intros [x Hx]; rewrite Hx in H; cbn in H.
  - destruct (project ct o) as [p|]; [exists p; reflexivity|discriminate].
  - destruct (save_obj ct glob sctx o) as [n|]; [exists n; reflexivity|discriminate].
Qed.

(* ------------------------------------------------------------------------------------------------ *)
(* (3), (4) wrong loader / unknown class: ValueError                                                  *)

Theorem load_other_loader : forall ct glob sctx l o n fuel,
  save_obj ct glob sctx o = Some n -> l <> saved_with glob sctx -> 0 < fuel ->
  load_obj ct glob fuel (Some l) n = inl LValueError.
Proof.
  intros ct glob sctx l o n fuel Hs Hl Hfuel.
  destruct fuel as [|fuel']; [lia|].
  destruct o as [cls attrs]. rewrite save_obj_eq in Hs.
  destruct (save_go ct glob sctx attrs (persisted ct cls)) as [[ts vs]|]; [|discriminate].
  inversion Hs; subst n. rewrite meta_node_eq.
  apply (load_obj_badclass ct glob fuel' (Some l) _ (meta_kvs glob sctx cls ts) l
           (identify (saved_with glob sctx) cls)).
  - reflexivity.
  - reflexivity.
  - apply class_name_meta.
  - apply load_object_other. exact Hl.
Qed.

Theorem load_unknown_class : forall ct ct' glob sctx lctx cls attrs n fuel,
  save_obj ct glob sctx (SObj cls attrs) = Some n ->
  alist_mem cls ct' = false -> cls <> "SavableFuture" ->
  cls <> loader_class_name LDefault -> cls <> loader_class_name LCustom ->
  (lctx = None \/ lctx = Some (saved_with glob sctx)) -> 0 < fuel ->
  load_obj ct' glob fuel lctx n = inl LValueError.
Proof.
  intros ct ct' glob sctx lctx cls attrs n fuel Hs Hmem H1 H2 H3 Hl Hfuel.
  destruct fuel as [|fuel']; [lia|].
  rewrite save_obj_eq in Hs.
  destruct (save_go ct glob sctx attrs (persisted ct cls)) as [[ts vs]|]; [|discriminate].
  inversion Hs; subst n. rewrite meta_node_eq.
  apply (load_obj_badclass ct' glob fuel' lctx _ (meta_kvs glob sctx cls ts) (saved_with glob sctx)
           (identify (saved_with glob sctx) cls)).
  - reflexivity.
  - apply ensure_loader_meta. exact Hl.
  - apply class_name_meta.
  - apply load_object_unknown. exact (unknown_of_not_mem ct' cls Hmem H1 H2 H3).
Qed.

(* ------------------------------------------------------------------------------------------------ *)
(* (5) loader precedence                                                                              *)

Theorem ensure_loader_context : forall ct glob l meta, ensure_loader ct glob (Some l) meta = inr l.
Proof. reflexivity. Qed.

Theorem ensure_loader_recorded : forall ct glob l,
  ensure_loader ct glob None
    (KCons "user" (NDict (KCons "object_loader" (NVal (VStr (identify glob (loader_class_name l)))) KNil)) KNil) = inr l.
Proof. intros ct glob l. destruct glob, l; reflexivity. Qed.

Theorem ensure_loader_global : forall ct glob meta,
  nk_get "user" meta = None -> ensure_loader ct glob None meta = inr glob.
Proof. intros ct glob meta H. unfold ensure_loader. rewrite H. reflexivity. Qed.

Print Assumptions roundtrip.
Print Assumptions save_defined_iff.
Print Assumptions load_other_loader.
Print Assumptions load_unknown_class.
Print Assumptions ensure_loader_context.
Print Assumptions ensure_loader_recorded.
Print Assumptions ensure_loader_global.
Print Assumptions future_roundtrip.
