(* Persist/PersisterProofs.v — proofs about the persisters (Persister.v): both refine the abstract
   (pid, tag) -> snapshot map; corollaries of the property. *)
From Coq Require Import List ZArith String Bool Lia Permutation.
From Plumpy Require Import Val Persister.
Import ListNotations.

(* two outputs are the same observation: listings are compared as duplicate-free sets *)
Definition out_equiv (a b : pout) : Prop :=
  match a, b with
  | ONone, ONone | ONotFound, ONotFound => True
  | OSnap x, OSnap y => x = y
  | OKeys x, OKeys y => NoDup x /\ NoDup y /\ (forall k, In k x <-> In k y)
  | _, _ => False
  end.

(* TO BE PROVED.  Hypotheses may be weakened; report everything you had to add.

(0) the file name is injective on separator-free keys:
Theorem pickle_filename_injective : forall p1 t1 p2 t2,
  key_ok p1 t1 = true -> key_ok p2 t2 = true ->
  pickle_filename p1 t1 = pickle_filename p2 t2 -> p1 = p2 /\ t1 = t2.

(1) refinement: over any history of well-keyed operations each persister produces, operation by operation,
    the outputs of the abstract map.
Theorem mem_refines_spec : forall h, forallb op_ok h = true ->
  Forall2 out_equiv (run_hist mem_step [] h) (run_hist spec_step [] h).
Theorem pickle_refines_spec : forall h, forallb op_ok h = true ->
  Forall2 out_equiv (run_hist pickle_step [] h) (run_hist spec_step [] h).
   (mem_refines_spec should not need op_ok at all — drop the hypothesis if so.)

(2) hence the two persisters are observationally equivalent:
Theorem persisters_equivalent : forall h, forallb op_ok h = true ->
  Forall2 out_equiv (run_hist mem_step [] h) (run_hist pickle_step [] h).

(3) the abstract map is a snapshot store: characterise every reachable abstract state m = final_state spec_step [] h
    (keys unique), and prove the corollaries the property names, on spec_step:
Theorem spec_keys_unique : forall h, NoDup (map fst (final_state spec_step [] h)).
Theorem spec_load_latest : forall m p t s, snd (spec_step (fst (spec_step m (Save p t s))) (Load p t)) = OSnap s.
Theorem spec_save_other : forall m p t s p' t', (p', t') <> (p, t) ->
  am_get (p', t') (fst (spec_step m (Save p t s))) = am_get (p', t') m.
Theorem spec_delete_idempotent : forall m p t,
  fst (spec_step (fst (spec_step m (Delete p t))) (Delete p t)) = fst (spec_step m (Delete p t)).
Theorem spec_delete_local : forall m p t k, k <> (p, t) -> am_get k (fst (spec_step m (Delete p t))) = am_get k m.
Theorem spec_delete_removes : forall m p t, am_get (p, t) (fst (spec_step m (Delete p t))) = None.
Theorem spec_delete_pid_exact : forall m p k,
  am_get k (fst (spec_step m (DeletePid p))) = if String.eqb p (fst k) then None else am_get k m.
Theorem spec_list_exact : forall m k, NoDup (map fst m) ->
  (In k (map fst m) <-> am_get k m <> None).
*)
