(* Persist/PersisterProofs.v — proofs about the persisters (Persister.v): both refine the abstract
   (pid, tag) -> snapshot map; corollaries of the property. *)
From Coq Require Import List ZArith String Bool Lia Permutation Ascii.
From Plumpy Require Import Val Persister.
Import ListNotations.

(* two outputs are the same observation: listings are compared as duplicate-free sets *)
Definition out_equiv (a b : pout) : Prop :=
  match a, b with
  | ONone, ONone | ONotFound, ONotFound => True
  | OSnap x, OSnap y => x = y
  | OKeys x, OKeys y => NoDup x /\ NoDup y /\ (forall k, In k x <-> In k y)
  | _, _ => False
  end.

(* ------------------------------------------------------------------------------------------ *)
(* generic association lists over a key type with a reflecting boolean equality               *)
(* ------------------------------------------------------------------------------------------ *)
Section Generic.
  Context {K A : Type} (eqb : K -> K -> bool).
  Hypothesis eqb_eq : forall a b, eqb a b = true <-> a = b.

  Fixpoint gget (k : K) (l : list (K * A)) : option A :=
    match l with
    | [] => None
    | (k', v) :: r => if eqb k k' then Some v else gget k r
    end.

  Fixpoint gset (k : K) (v : A) (l : list (K * A)) : list (K * A) :=
    match l with
    | [] => [(k, v)]
    | (k', v') :: r => if eqb k k' then (k, v) :: r else (k', v') :: gset k v r
    end.

  Fixpoint gdel (k : K) (l : list (K * A)) : list (K * A) :=
    match l with
    | [] => []
    | (k', v') :: r => if eqb k k' then r else (k', v') :: gdel k r
    end.

  Definition gfilt (P : K -> bool) (l : list (K * A)) : list (K * A) :=
    filter (fun e => P (fst e)) l.

  Lemma g_eqb_refl : forall a, eqb a a = true.
  Proof. intros a. apply eqb_eq. reflexivity. Qed.

  Lemma g_eqb_neq : forall a b, eqb a b = false <-> a <> b.
  Proof.
    intros a b. split.
    - intros H E. apply eqb_eq in E. congruence.
    - intros H. destruct (eqb a b) eqn:E; [|reflexivity]. apply eqb_eq in E. contradiction.
  Qed.

  Lemma gget_notin : forall k l, ~ In k (map fst l) -> gget k l = None.
  Proof.
    intros k l. induction l as [|[k0 v0] r IH]; intros H; simpl in *.
    - reflexivity.
    - destruct (eqb k k0) eqn:E.
      + apply eqb_eq in E. subst k0. exfalso. apply H. left. reflexivity.
      + apply IH. intros Hin. apply H. right. exact Hin.
  Qed.

  Lemma gget_In : forall k v l, gget k l = Some v -> In (k, v) l.
  Proof.
    intros k v l. induction l as [|[k0 v0] r IH]; intros H; simpl in *.
    - discriminate.
    - destruct (eqb k k0) eqn:E.
      + apply eqb_eq in E. subst k0. inversion H; subst. left. reflexivity.
      + right. apply IH. exact H.
  Qed.

  Lemma In_gget : forall k v l, NoDup (map fst l) -> In (k, v) l -> gget k l = Some v.
  Proof.
    intros k v l. induction l as [|[k0 v0] r IH]; intros Hnd Hin; simpl in *.
    - contradiction.
    - inversion Hnd as [|x xs Hnotin Hnd']; subst.
      destruct Hin as [Heq | Hin].
      + inversion Heq; subst. rewrite g_eqb_refl. reflexivity.
      + destruct (eqb k k0) eqn:E.
        * apply eqb_eq in E. subst k0. exfalso. apply Hnotin.
          apply in_map_iff. exists (k, v). split; [reflexivity | exact Hin].
        * apply IH; assumption.
  Qed.

  Lemma gget_keys : forall k l, In k (map fst l) <-> gget k l <> None.
  Proof.
    intros k l. induction l as [|[k0 v0] r IH]; simpl.
    - split; [intros [] | intros H; congruence].
    - destruct (eqb k k0) eqn:E.
      + apply eqb_eq in E. subst k0. split; [intros _; discriminate | intros _; left; reflexivity].
      + rewrite <- IH. split.
        * intros [H | H]; [|exact H]. subst k0. rewrite g_eqb_refl in E. discriminate.
        * intros H. right. exact H.
  Qed.

  Lemma gget_gset : forall k k' v l,
    gget k (gset k' v l) = if eqb k k' then Some v else gget k l.
  Proof.
    intros k k' v l. induction l as [|[k0 v0] r IH]; simpl.
    - reflexivity.
    - destruct (eqb k' k0) eqn:E; simpl.
      + apply eqb_eq in E. subst k0. destruct (eqb k k'); reflexivity.
      + destruct (eqb k k0) eqn:E3.
        * apply eqb_eq in E3. subst k0.
          destruct (eqb k k') eqn:E2; [|reflexivity].
          apply eqb_eq in E2. subst k'. rewrite g_eqb_refl in E. discriminate.
        * exact IH.
  Qed.

  Lemma gget_gdel : forall k k' l, NoDup (map fst l) ->
    gget k (gdel k' l) = if eqb k k' then None else gget k l.
  Proof.
    intros k k' l. induction l as [|[k0 v0] r IH]; intros Hnd; simpl in *.
    - destruct (eqb k k'); reflexivity.
    - inversion Hnd as [|x xs Hnotin Hnd']; subst.
      destruct (eqb k' k0) eqn:E.
      + apply eqb_eq in E. subst k0.
        destruct (eqb k k') eqn:E2; [|reflexivity].
        apply eqb_eq in E2. subst k'. apply gget_notin. exact Hnotin.
      + simpl. destruct (eqb k k0) eqn:E3.
        * apply eqb_eq in E3. subst k0.
          destruct (eqb k k') eqn:E2; [|reflexivity].
          apply eqb_eq in E2. subst k'. rewrite g_eqb_refl in E. discriminate.
        * apply IH. exact Hnd'.
  Qed.

  Lemma gget_gfilt : forall P k l,
    gget k (gfilt P l) = if P k then gget k l else None.
  Proof.
    intros P k l. unfold gfilt. induction l as [|[k0 v0] r IH]; simpl.
    - destruct (P k); reflexivity.
    - destruct (P k0) eqn:EP; simpl.
      + destruct (eqb k k0) eqn:E.
        * apply eqb_eq in E. subst k0. rewrite EP. reflexivity.
        * exact IH.
      + rewrite IH. destruct (eqb k k0) eqn:E; [|reflexivity].
        apply eqb_eq in E. subst k0. rewrite EP. reflexivity.
  Qed.

  Lemma In_gset : forall e k v l, In e (gset k v l) -> e = (k, v) \/ In e l.
  Proof.
    intros e k v l. induction l as [|[k0 v0] r IH]; simpl; intros H.
    - destruct H as [H | []]. left. symmetry. exact H.
    - destruct (eqb k k0).
      + destruct H as [H | H]; [left; symmetry; exact H | right; right; exact H].
      + destruct H as [H | H]; [right; left; exact H |].
        destruct (IH H) as [H' | H']; [left; exact H' | right; right; exact H'].
  Qed.

  Lemma In_gdel : forall e k l, In e (gdel k l) -> In e l.
  Proof.
    intros e k l. induction l as [|[k0 v0] r IH]; simpl; intros H.
    - exact H.
    - destruct (eqb k k0).
      + right. exact H.
      + destruct H as [H | H]; [left; exact H | right; apply IH; exact H].
  Qed.

  Lemma NoDup_gset : forall k v l, NoDup (map fst l) -> NoDup (map fst (gset k v l)).
  Proof.
    intros k v l. induction l as [|[k0 v0] r IH]; intros Hnd; simpl in *.
    - constructor; [intros [] | constructor].
    - inversion Hnd as [|x xs Hnotin Hnd']; subst.
      destruct (eqb k k0) eqn:E; simpl.
      + apply eqb_eq in E. subst k0. constructor; assumption.
      + constructor; [| apply IH; exact Hnd'].
        intros Hin. apply in_map_iff in Hin. destruct Hin as [[k1 v1] [Hk Hin]]. simpl in Hk. subst k1.
        apply In_gset in Hin. destruct Hin as [Heq | Hin].
        * inversion Heq; subst. rewrite g_eqb_refl in E. discriminate.
        * apply Hnotin. apply in_map_iff. exists (k0, v1). split; [reflexivity | exact Hin].
  Qed.

  Lemma NoDup_gdel : forall k l, NoDup (map fst l) -> NoDup (map fst (gdel k l)).
  Proof.
    intros k l. induction l as [|[k0 v0] r IH]; intros Hnd; simpl in *.
    - constructor.
    - inversion Hnd as [|x xs Hnotin Hnd']; subst.
      destruct (eqb k k0); simpl.
      + exact Hnd'.
      + constructor; [| apply IH; exact Hnd'].
        intros Hin. apply in_map_iff in Hin. destruct Hin as [[k1 v1] [Hk Hin]]. simpl in Hk. subst k1.
        apply In_gdel in Hin. apply Hnotin. apply in_map_iff. exists (k0, v1). split; [reflexivity | exact Hin].
  Qed.
End Generic.

Lemma NoDup_map_filter : forall {X Y} (g : X -> Y) (f : X -> bool) l,
  NoDup (map g l) -> NoDup (map g (filter f l)).
Proof.
  intros X Y g f l. induction l as [|x r IH]; intros Hnd; simpl in *.
  - constructor.
  - inversion Hnd as [|y ys Hnotin Hnd']; subst.
    destruct (f x); simpl.
    + constructor; [| apply IH; exact Hnd'].
      intros Hin. apply Hnotin. apply in_map_iff in Hin. destruct Hin as [x' [Hx Hin]].
      apply filter_In in Hin. destruct Hin as [Hin _]. apply in_map_iff. exists x'. split; assumption.
    + apply IH. exact Hnd'.
Qed.

Lemma NoDup_app_intro : forall {X} (l1 l2 : list X),
  NoDup l1 -> NoDup l2 -> (forall x, In x l1 -> In x l2 -> False) -> NoDup (l1 ++ l2).
Proof.
  intros X l1 l2. induction l1 as [|x r IH]; intros H1 H2 Hd; simpl.
  - exact H2.
  - inversion H1 as [|y ys Hnotin H1']; subst. constructor.
    + intros Hin. apply in_app_or in Hin. destruct Hin as [Hin | Hin].
      * contradiction.
      * apply (Hd x); [left; reflexivity | exact Hin].
    + apply IH; [exact H1' | exact H2 |].
      intros z Hz1 Hz2. apply (Hd z); [right; exact Hz1 | exact Hz2].
Qed.

Lemma filter_idem : forall {X} (f : X -> bool) l, filter f (filter f l) = filter f l.
Proof.
  intros X f l. induction l as [|x r IH]; simpl.
  - reflexivity.
  - destruct (f x) eqn:E; simpl.
    + rewrite E, IH. reflexivity.
    + exact IH.
Qed.

(* ------------------------------------------------------------------------------------------ *)
(* decidable equalities                                                                        *)
(* ------------------------------------------------------------------------------------------ *)
Lemma tag_eqb_eq : forall a b : tag, tag_eqb a b = true <-> a = b.
Proof.
  intros [a|] [b|]; unfold tag_eqb; simpl.
  - rewrite String.eqb_eq. split; intros H; [subst; reflexivity | inversion H; reflexivity].
  - split; discriminate.
  - split; discriminate.
  - split; reflexivity.
Qed.

Lemma key_eqb_eq : forall a b : key, key_eqb a b = true <-> a = b.
Proof.
  intros [p1 t1] [p2 t2]. unfold key_eqb. simpl.
  rewrite andb_true_iff, String.eqb_eq, tag_eqb_eq. split.
  - intros [H1 H2]. subst. reflexivity.
  - intros H. inversion H. split; reflexivity.
Qed.

Lemma key_eqb_refl : forall k, key_eqb k k = true.
Proof. intros k. apply key_eqb_eq. reflexivity. Qed.

(* ------------------------------------------------------------------------------------------ *)
(* the model's three kinds of association list are instances of the generic one               *)
(* ------------------------------------------------------------------------------------------ *)
Lemma alist_get_g : forall {A} k (l : list (string * A)), alist_get k l = gget String.eqb k l.
Proof. intros A k l. induction l as [|[k0 v0] r IH]; simpl; [reflexivity | rewrite IH; reflexivity]. Qed.
Lemma alist_set_g : forall {A} k v (l : list (string * A)), alist_set k v l = gset String.eqb k v l.
Proof. intros A k v l. induction l as [|[k0 v0] r IH]; simpl; [reflexivity | rewrite IH; reflexivity]. Qed.
Lemma alist_del_g : forall {A} k (l : list (string * A)), alist_del k l = gdel String.eqb k l.
Proof. intros A k l. induction l as [|[k0 v0] r IH]; simpl; [reflexivity | rewrite IH; reflexivity]. Qed.

Lemma tm_get_g : forall t (l : tagmap), tm_get t l = gget tag_eqb t l.
Proof. intros k l. induction l as [|[k0 v0] r IH]; simpl; [reflexivity | rewrite IH; reflexivity]. Qed.
Lemma tm_set_g : forall t s (l : tagmap), tm_set t s l = gset tag_eqb t s l.
Proof. intros k v l. induction l as [|[k0 v0] r IH]; simpl; [reflexivity | rewrite IH; reflexivity]. Qed.
Lemma tm_del_g : forall t (l : tagmap), tm_del t l = gdel tag_eqb t l.
Proof. intros k l. induction l as [|[k0 v0] r IH]; simpl; [reflexivity | rewrite IH; reflexivity]. Qed.

Lemma am_get_g : forall k (l : amap), am_get k l = gget key_eqb k l.
Proof. intros k l. induction l as [|[k0 v0] r IH]; simpl; [reflexivity | rewrite IH; reflexivity]. Qed.
Lemma am_set_g : forall k s (l : amap), am_set k s l = gset key_eqb k s l.
Proof. intros k v l. induction l as [|[k0 v0] r IH]; simpl; [reflexivity | rewrite IH; reflexivity]. Qed.

(* --- string-keyed --- *)
Lemma alist_get_set : forall {A} k k' (v : A) l,
  alist_get k (alist_set k' v l) = if String.eqb k k' then Some v else alist_get k l.
Proof. intros. rewrite alist_set_g, !alist_get_g. apply gget_gset. exact String.eqb_eq. Qed.
Lemma alist_get_del : forall {A} k k' (l : list (string * A)), NoDup (map fst l) ->
  alist_get k (alist_del k' l) = if String.eqb k k' then None else alist_get k l.
Proof. intros A k k' l H. rewrite alist_del_g, !alist_get_g. apply gget_gdel; [exact String.eqb_eq | exact H]. Qed.
Lemma alist_get_In : forall {A} k (v : A) l, alist_get k l = Some v -> In (k, v) l.
Proof. intros A k v l. rewrite alist_get_g. apply gget_In. exact String.eqb_eq. Qed.
Lemma In_alist_get : forall {A} k (v : A) l, NoDup (map fst l) -> In (k, v) l -> alist_get k l = Some v.
Proof. intros A k v l. rewrite alist_get_g. apply In_gget. exact String.eqb_eq. Qed.
Lemma In_alist_set : forall {A} e k (v : A) l, In e (alist_set k v l) -> e = (k, v) \/ In e l.
Proof. intros A e k v l. rewrite alist_set_g. apply In_gset. Qed.
Lemma In_alist_del : forall {A} e k (l : list (string * A)), In e (alist_del k l) -> In e l.
Proof. intros A e k l. rewrite alist_del_g. apply In_gdel. Qed.
Lemma NoDup_alist_set : forall {A} k (v : A) l, NoDup (map fst l) -> NoDup (map fst (alist_set k v l)).
Proof. intros A k v l. rewrite alist_set_g. apply NoDup_gset. exact String.eqb_eq. Qed.
Lemma NoDup_alist_del : forall {A} k (l : list (string * A)), NoDup (map fst l) -> NoDup (map fst (alist_del k l)).
Proof. intros A k l. rewrite alist_del_g. apply NoDup_gdel. Qed.

(* --- tag-keyed --- *)
Lemma tm_get_set : forall t t' s l, tm_get t (tm_set t' s l) = if tag_eqb t t' then Some s else tm_get t l.
Proof. intros. rewrite tm_set_g, !tm_get_g. apply gget_gset. exact tag_eqb_eq. Qed.
Lemma tm_get_del : forall t t' l, NoDup (map fst l) ->
  tm_get t (tm_del t' l) = if tag_eqb t t' then None else tm_get t l.
Proof. intros t t' l H. rewrite tm_del_g, !tm_get_g. apply gget_gdel; [exact tag_eqb_eq | exact H]. Qed.
Lemma tm_get_keys : forall t l, In t (map fst l) <-> tm_get t l <> None.
Proof. intros t l. rewrite tm_get_g. apply gget_keys. exact tag_eqb_eq. Qed.
Lemma NoDup_tm_set : forall t s l, NoDup (map fst l) -> NoDup (map fst (tm_set t s l)).
Proof. intros t s l. rewrite tm_set_g. apply NoDup_gset. exact tag_eqb_eq. Qed.
Lemma NoDup_tm_del : forall t l, NoDup (map fst l) -> NoDup (map fst (tm_del t l)).
Proof. intros t l. rewrite tm_del_g. apply NoDup_gdel. Qed.

(* --- (pid, tag)-keyed: the abstract map --- *)
Lemma am_get_set : forall k k' s l, am_get k (am_set k' s l) = if key_eqb k k' then Some s else am_get k l.
Proof. intros. rewrite am_set_g, !am_get_g. apply gget_gset. exact key_eqb_eq. Qed.
Lemma am_get_keys : forall k l, In k (map fst l) <-> am_get k l <> None.
Proof. intros k l. rewrite am_get_g. apply gget_keys. exact key_eqb_eq. Qed.
Lemma NoDup_am_set : forall k s l, NoDup (map fst l) -> NoDup (map fst (am_set k s l)).
Proof. intros k s l. rewrite am_set_g. apply NoDup_gset. exact key_eqb_eq. Qed.

Lemma am_get_del : forall k k' l, am_get k (am_del k' l) = if key_eqb k k' then None else am_get k l.
Proof.
  intros k k' l. unfold am_del. rewrite !am_get_g.
  change (filter (fun e => negb (key_eqb k' (fst e))) l) with (gfilt (fun x => negb (key_eqb k' x)) l).
  rewrite (gget_gfilt key_eqb key_eqb_eq).
  destruct (key_eqb k k') eqn:E.
  - apply key_eqb_eq in E. subst k'. rewrite key_eqb_refl. reflexivity.
  - destruct (key_eqb k' k) eqn:E'; [|reflexivity].
    apply key_eqb_eq in E'. subst k'. rewrite key_eqb_refl in E. discriminate.
Qed.

Lemma am_get_del_pid : forall k p l,
  am_get k (am_del_pid p l) = if String.eqb p (fst k) then None else am_get k l.
Proof.
  intros k p l. unfold am_del_pid. rewrite !am_get_g.
  change (filter (fun e => negb (String.eqb p (fst (fst e)))) l)
    with (gfilt (fun x : key => negb (String.eqb p (fst x))) l).
  rewrite (gget_gfilt key_eqb key_eqb_eq).
  destruct (String.eqb p (fst k)); reflexivity.
Qed.

Lemma NoDup_am_del : forall k l, NoDup (map fst l) -> NoDup (map fst (am_del k l)).
Proof. intros k l. unfold am_del. apply NoDup_map_filter. Qed.
Lemma NoDup_am_del_pid : forall p l, NoDup (map fst l) -> NoDup (map fst (am_del_pid p l)).
Proof. intros p l. unfold am_del_pid. apply NoDup_map_filter. Qed.

(* ------------------------------------------------------------------------------------------ *)
(* (3) the abstract map is a snapshot store                                                    *)
(* ------------------------------------------------------------------------------------------ *)
Lemma spec_step_NoDup : forall m op, NoDup (map fst m) -> NoDup (map fst (fst (spec_step m op))).
Proof.
  intros m op H. destruct op as [p t s|p t| |p|p t|p]; simpl.
  - apply NoDup_am_set. exact H.
  - exact H.
  - exact H.
  - exact H.
  - apply NoDup_am_del. exact H.
  - apply NoDup_am_del_pid. exact H.
Qed.

Lemma spec_final_NoDup : forall h m, NoDup (map fst m) -> NoDup (map fst (final_state spec_step m h)).
Proof.
  intros h. induction h as [|op rest IH]; intros m H; simpl.
  - exact H.
  - apply IH. apply spec_step_NoDup. exact H.
Qed.

Theorem spec_keys_unique : forall h, NoDup (map fst (final_state spec_step [] h)).
Proof. intros h. apply spec_final_NoDup. constructor. Qed.

Theorem spec_load_latest : forall m p t s,
  snd (spec_step (fst (spec_step m (Save p t s))) (Load p t)) = OSnap s.
Proof. intros m p t s. simpl. rewrite am_get_set, key_eqb_refl. reflexivity. Qed.

Theorem spec_save_other : forall m p t s p' t', (p', t') <> (p, t) ->
  am_get (p', t') (fst (spec_step m (Save p t s))) = am_get (p', t') m.
Proof.
  intros m p t s p' t' Hne. simpl. rewrite am_get_set.
  destruct (key_eqb (p', t') (p, t)) eqn:E; [|reflexivity].
  apply key_eqb_eq in E. contradiction.
Qed.

Theorem spec_delete_idempotent : forall m p t,
  fst (spec_step (fst (spec_step m (Delete p t))) (Delete p t)) = fst (spec_step m (Delete p t)).
Proof. intros m p t. simpl. unfold am_del. apply filter_idem. Qed.

Theorem spec_delete_local : forall m p t k, k <> (p, t) ->
  am_get k (fst (spec_step m (Delete p t))) = am_get k m.
Proof.
  intros m p t k Hne. simpl. rewrite am_get_del.
  destruct (key_eqb k (p, t)) eqn:E; [|reflexivity].
  apply key_eqb_eq in E. contradiction.
Qed.

Theorem spec_delete_removes : forall m p t, am_get (p, t) (fst (spec_step m (Delete p t))) = None.
Proof. intros m p t. simpl. rewrite am_get_del, key_eqb_refl. reflexivity. Qed.

Theorem spec_delete_pid_exact : forall m p k,
  am_get k (fst (spec_step m (DeletePid p))) = if String.eqb p (fst k) then None else am_get k m.
Proof. intros m p k. simpl. apply am_get_del_pid. Qed.

(* (the NoDup hypothesis is not needed; kept as stated) *)
Theorem spec_list_exact : forall m k, NoDup (map fst m) ->
  (In k (map fst m) <-> am_get k m <> None).
Proof. intros m k _. apply am_get_keys. Qed.

Print Assumptions spec_keys_unique.
Print Assumptions spec_load_latest.
Print Assumptions spec_save_other.
Print Assumptions spec_delete_idempotent.
Print Assumptions spec_delete_local.
Print Assumptions spec_delete_removes.
Print Assumptions spec_delete_pid_exact.
Print Assumptions spec_list_exact.

(* ------------------------------------------------------------------------------------------ *)
(* (0) the file name is injective on separator-free keys                                       *)
(* ------------------------------------------------------------------------------------------ *)
Section Strings.
Local Open Scope string_scope.

Fixpoint before_dot (s : string) : string :=
  match s with
  | EmptyString => EmptyString
  | String c r => if Ascii.eqb c "."%char then EmptyString else String c (before_dot r)
  end.

Fixpoint after_dot (s : string) : string :=
  match s with
  | EmptyString => EmptyString
  | String c r => if Ascii.eqb c "."%char then r else after_dot r
  end.

Lemma before_dot_app : forall p r, sep_free p = true -> before_dot (p ++ String "."%char r) = p.
Proof.
  induction p as [|c p IH]; intros r H.
  - reflexivity.
  - simpl in H. apply andb_true_iff in H. destruct H as [Hc Hp].
    simpl. destruct (Ascii.eqb c "."%char); simpl in Hc; [discriminate|].
    rewrite IH by exact Hp. reflexivity.
Qed.

Lemma after_dot_app : forall p r, sep_free p = true -> after_dot (p ++ String "."%char r) = r.
Proof.
  induction p as [|c p IH]; intros r H.
  - reflexivity.
  - simpl in H. apply andb_true_iff in H. destruct H as [Hc Hp].
    simpl. destruct (Ascii.eqb c "."%char); simpl in Hc; [discriminate|].
    apply IH. exact Hp.
Qed.

Theorem pickle_filename_injective : forall p1 t1 p2 t2,
  key_ok p1 t1 = true -> key_ok p2 t2 = true ->
  pickle_filename p1 t1 = pickle_filename p2 t2 -> p1 = p2 /\ t1 = t2.
Proof.
  intros p1 t1 p2 t2 H1 H2 E. unfold key_ok in H1, H2.
  apply andb_true_iff in H1. apply andb_true_iff in H2.
  destruct H1 as [Hp1 Ht1]. destruct H2 as [Hp2 Ht2].
  assert (Hp : p1 = p2).
  { apply (f_equal before_dot) in E.
    destruct t1 as [t1|], t2 as [t2|]; simpl in E;
      rewrite (before_dot_app p1) in E by exact Hp1;
      rewrite (before_dot_app p2) in E by exact Hp2; exact E. }
  subst p2. split; [reflexivity|].
  apply (f_equal after_dot) in E.
  destruct t1 as [t1|], t2 as [t2|]; simpl in E;
    rewrite !(after_dot_app p1) in E by exact Hp1.
  - apply (f_equal before_dot) in E.
    rewrite (before_dot_app t1) in E by exact Ht1.
    rewrite (before_dot_app t2) in E by exact Ht2. subst. reflexivity.
  - exfalso. pose proof (f_equal before_dot E) as E'.
    rewrite (before_dot_app t1) in E' by exact Ht1. simpl in E'. subst t1. discriminate E.
  - exfalso. pose proof (f_equal before_dot E) as E'.
    rewrite (before_dot_app t2) in E' by exact Ht2. simpl in E'. subst t2. discriminate E.
  - reflexivity.
Qed.
End Strings.

Print Assumptions pickle_filename_injective.

Definition fn (k : key) : string := pickle_filename (fst k) (snd k).
Definition kok (k : key) : bool := key_ok (fst k) (snd k).

Lemma fn_inj : forall k1 k2, kok k1 = true -> kok k2 = true -> fn k1 = fn k2 -> k1 = k2.
Proof.
  intros [p1 t1] [p2 t2] H1 H2 E. unfold kok, fn in *. simpl in *.
  destruct (pickle_filename_injective p1 t1 p2 t2 H1 H2 E) as [Hp Ht]. subst. reflexivity.
Qed.

(* ------------------------------------------------------------------------------------------ *)
(* out_equiv is a partial equivalence                                                          *)
(* ------------------------------------------------------------------------------------------ *)
Lemma out_equiv_sym : forall a b, out_equiv a b -> out_equiv b a.
Proof.
  intros [|x|  |x] [|y| |y] H; simpl in *; try contradiction; try exact I.
  - symmetry. exact H.
  - destruct H as [H1 [H2 H3]]. split; [exact H2 | split; [exact H1 |]].
    intros k. symmetry. apply H3.
Qed.

Lemma out_equiv_trans : forall a b c, out_equiv a b -> out_equiv b c -> out_equiv a c.
Proof.
  intros [|x| |x] [|y| |y] [|z| |z] H1 H2; simpl in *; try contradiction; try exact I.
  - congruence.
  - destruct H1 as [A1 [A2 A3]]. destruct H2 as [B1 [B2 B3]].
    split; [exact A1 | split; [exact B2 |]].
    intros k. rewrite A3. apply B3.
Qed.

Lemma Forall2_sym_gen : forall {X} (R : X -> X -> Prop), (forall a b, R a b -> R b a) ->
  forall l1 l2, Forall2 R l1 l2 -> Forall2 R l2 l1.
Proof.
  intros X R Hs l1 l2 H. induction H as [|a b l1 l2 Hab H IH]; constructor; [apply Hs; exact Hab | exact IH].
Qed.

Lemma Forall2_trans_gen : forall {X} (R : X -> X -> Prop), (forall a b c, R a b -> R b c -> R a c) ->
  forall l1 l2 l3, Forall2 R l1 l2 -> Forall2 R l2 l3 -> Forall2 R l1 l3.
Proof.
  intros X R Ht l1 l2 l3 H. revert l3. induction H as [|a b l1 l2 Hab H IH]; intros l3 H23.
  - inversion H23; subst. constructor.
  - inversion H23 as [|b' c l2' l3' Hbc H23']; subst. constructor.
    + eapply Ht; eassumption.
    + apply IH. exact H23'.
Qed.

Lemma out_equiv_filter : forall (f : key -> bool) x y,
  out_equiv (OKeys x) (OKeys y) -> out_equiv (OKeys (filter f x)) (OKeys (filter f y)).
Proof.
  intros f x y [H1 [H2 H3]]. simpl. split; [apply NoDup_filter; exact H1 | split; [apply NoDup_filter; exact H2 |]].
  intros k. rewrite !filter_In, H3. reflexivity.
Qed.

(* ------------------------------------------------------------------------------------------ *)
(* (1a) the in-memory persister refines the abstract map                                       *)
(* ------------------------------------------------------------------------------------------ *)
Definition mget (p : pid) (t : tag) (m : mem) : option snap :=
  match alist_get p m with Some tm => tm_get t tm | None => None end.

Definition R_mem (m : mem) (a : amap) : Prop :=
  NoDup (map fst m) /\
  (forall p tm, In (p, tm) m -> NoDup (map fst tm)) /\
  NoDup (map fst a) /\
  (forall p t, mget p t m = am_get (p, t) a).

Definition mlist (m : mem) : list key :=
  flat_map (fun e => map (fun ts => (fst e, fst ts)) (snd e)) m.

Lemma NoDup_map_pair : forall (p : pid) (tm : tagmap),
  NoDup (map fst tm) -> NoDup (map (fun ts => (p, fst ts)) tm).
Proof.
  intros p tm. induction tm as [|[t s] r IH]; intros Hnd; simpl in *.
  - constructor.
  - inversion Hnd as [|x xs Hnotin Hnd']; subst. constructor; [| apply IH; exact Hnd'].
    intros Hin. apply in_map_iff in Hin. destruct Hin as [[t1 s1] [Heq Hin]]. simpl in Heq.
    inversion Heq; subst. apply Hnotin. apply in_map_iff. exists (t, s1). split; [reflexivity | exact Hin].
Qed.

Lemma mlist_In : forall m, NoDup (map fst m) ->
  forall p t, In (p, t) (mlist m) <-> mget p t m <> None.
Proof.
  intros m Hnd p t. unfold mlist. rewrite in_flat_map. split.
  - intros [[p0 tm] [Hin Hin2]]. simpl in Hin2. apply in_map_iff in Hin2.
    destruct Hin2 as [[t0 s0] [Heq Hin3]]. simpl in Heq. inversion Heq; subst.
    unfold mget. rewrite (In_alist_get _ _ _ Hnd Hin). apply tm_get_keys.
    apply in_map_iff. exists (t, s0). split; [reflexivity | exact Hin3].
  - unfold mget. destruct (alist_get p m) as [tm|] eqn:E; [|congruence].
    intros H. apply alist_get_In in E. exists (p, tm). split; [exact E|]. simpl.
    apply tm_get_keys in H. apply in_map_iff in H. destruct H as [[t1 s1] [Heq Hin]]. simpl in Heq. subst t1.
    apply in_map_iff. exists (t, s1). split; [reflexivity | exact Hin].
Qed.

Lemma mlist_NoDup : forall m, NoDup (map fst m) ->
  (forall p tm, In (p, tm) m -> NoDup (map fst tm)) -> NoDup (mlist m).
Proof.
  intros m. induction m as [|[p tm] r IH]; intros Hnd Hin; simpl in *.
  - constructor.
  - inversion Hnd as [|x xs Hnotin Hnd']; subst.
    apply NoDup_app_intro.
    + apply NoDup_map_pair. apply (Hin p tm). left. reflexivity.
    + apply IH; [exact Hnd' |]. intros p' tm' H. apply (Hin p' tm'). right. exact H.
    + intros [p' t'] H1 H2. apply in_map_iff in H1. destruct H1 as [[t1 s1] [Heq _]]. simpl in Heq.
      inversion Heq; subst. fold (mlist r) in H2. unfold mlist in H2. apply in_flat_map in H2.
      destruct H2 as [[p0 tm0] [Hin0 Hin1]]. simpl in Hin1. apply in_map_iff in Hin1.
      destruct Hin1 as [[t2 s2] [Heq2 _]]. simpl in Heq2. inversion Heq2; subst.
      apply Hnotin. apply in_map_iff. exists (p', tm0). split; [reflexivity | exact Hin0].
Qed.

Lemma mem_step_sim : forall m a op, R_mem m a ->
  R_mem (fst (mem_step m op)) (fst (spec_step a op)) /\
  out_equiv (snd (mem_step m op)) (snd (spec_step a op)).
Proof.
  intros m a op [Hnd [Hinner [Hnda Hag]]].
  destruct op as [p t s|p t| |p|p t|p].
  - (* Save *)
    simpl. split; [|exact I].
    assert (Htm : NoDup (map fst (match alist_get p m with Some tm => tm | None => [] end))).
    { destruct (alist_get p m) as [tm|] eqn:E.
      - apply alist_get_In in E. apply (Hinner p tm E).
      - constructor. }
    split; [apply NoDup_alist_set; exact Hnd|].
    split.
    { intros p' tm' Hin. apply In_alist_set in Hin. destruct Hin as [Heq | Hin].
      - inversion Heq; subst. apply NoDup_tm_set. exact Htm.
      - apply (Hinner p' tm' Hin). }
    split; [apply NoDup_am_set; exact Hnda|].
    intros p' t'. unfold mget. rewrite alist_get_set, am_get_set. unfold key_eqb. simpl.
    destruct (String.eqb p' p) eqn:Ep; simpl.
    + apply String.eqb_eq in Ep. subst p'. rewrite tm_get_set.
      destruct (tag_eqb t' t); [reflexivity|].
      rewrite <- Hag. unfold mget. destruct (alist_get p m); reflexivity.
    + apply Hag.
  - (* Load *)
    simpl. pose proof (Hag p t) as H. unfold mget in H.
    destruct (alist_get p m) as [tm|] eqn:E.
    + destruct (tm_get t tm) as [s|] eqn:E2; simpl; rewrite <- H;
        (split; [repeat split; assumption | simpl; trivial]).
    + simpl. rewrite <- H. split; [repeat split; assumption | exact I].
  - (* ListAll *)
    simpl. split; [repeat split; assumption |].
    split; [apply mlist_NoDup; assumption | split; [exact Hnda |]].
    intros [p t]. fold (mlist m). rewrite (mlist_In m Hnd), am_get_keys, Hag. reflexivity.
  - (* ListPid *)
    simpl. split; [repeat split; assumption |].
    split.
    { destruct (alist_get p m) as [tm|] eqn:E; [|constructor].
      apply NoDup_map_pair. apply alist_get_In in E. apply (Hinner p tm E). }
    split; [apply NoDup_filter; exact Hnda |].
    intros [p' t']. rewrite filter_In, am_get_keys, <- Hag. unfold mget. simpl.
    destruct (alist_get p m) as [tm|] eqn:E.
    + split.
      * intros Hin. apply in_map_iff in Hin. destruct Hin as [[t0 s0] [Heq Hin]]. simpl in Heq.
        inversion Heq; subst. rewrite E. split; [| apply String.eqb_refl].
        apply tm_get_keys. apply in_map_iff. exists (t', s0). split; [reflexivity | exact Hin].
      * intros [Hne Hp]. apply String.eqb_eq in Hp. subst p'. rewrite E in Hne.
        apply tm_get_keys in Hne. apply in_map_iff in Hne. destruct Hne as [[t1 s1] [Heq Hin]].
        simpl in Heq. subst t1. apply in_map_iff. exists (t', s1). split; [reflexivity | exact Hin].
    + split; [intros [] |]. intros [Hne Hp]. apply String.eqb_eq in Hp. subst p'.
      rewrite E in Hne. congruence.
  - (* Delete *)
    simpl. destruct (alist_get p m) as [tm|] eqn:E; simpl; (split; [|exact I]).
    + assert (Htm : NoDup (map fst tm)).
      { apply alist_get_In in E. apply (Hinner p tm E). }
      split; [apply NoDup_alist_set; exact Hnd|].
      split.
      { intros p' tm' Hin. apply In_alist_set in Hin. destruct Hin as [Heq | Hin].
        - inversion Heq; subst. apply NoDup_tm_del. exact Htm.
        - apply (Hinner p' tm' Hin). }
      split; [apply NoDup_am_del; exact Hnda|].
      intros p' t'. unfold mget. rewrite alist_get_set, am_get_del. unfold key_eqb. simpl.
      destruct (String.eqb p' p) eqn:Ep; simpl.
      * apply String.eqb_eq in Ep. subst p'. rewrite (tm_get_del t' t tm Htm).
        destruct (tag_eqb t' t); [reflexivity|].
        rewrite <- Hag. unfold mget. rewrite E. reflexivity.
      * apply Hag.
    + split; [exact Hnd|]. split; [exact Hinner|].
      split; [apply NoDup_am_del; exact Hnda|].
      intros p' t'. rewrite am_get_del.
      destruct (key_eqb (p', t') (p, t)) eqn:Ek; [| apply Hag].
      apply key_eqb_eq in Ek. inversion Ek; subst. unfold mget. rewrite E. reflexivity.
  - (* DeletePid *)
    simpl. split; [|exact I].
    split; [apply NoDup_alist_del; exact Hnd|].
    split.
    { intros p' tm' Hin. apply In_alist_del in Hin. apply (Hinner p' tm' Hin). }
    split; [apply NoDup_am_del_pid; exact Hnda|].
    intros p' t'. unfold mget. rewrite (alist_get_del p' p m Hnd), am_get_del_pid. simpl.
    rewrite (String.eqb_sym p p').
    destruct (String.eqb p' p); [reflexivity|]. apply Hag.
Qed.

Lemma sim_lift : forall {S} (step : S -> pop -> S * pout) (R : S -> amap -> Prop) (ok : pop -> bool),
  (forall s a op, R s a -> ok op = true ->
     R (fst (step s op)) (fst (spec_step a op)) /\ out_equiv (snd (step s op)) (snd (spec_step a op))) ->
  forall h s a, R s a -> forallb ok h = true ->
    Forall2 out_equiv (run_hist step s h) (run_hist spec_step a h).
Proof.
  intros S step R ok Hstep h. induction h as [|op rest IH]; intros s a HR Hok.
  - simpl. constructor.
  - simpl in Hok. apply andb_true_iff in Hok. destruct Hok as [Hop Hrest].
    destruct (Hstep s a op HR Hop) as [HR' Hout].
    cbn [run_hist].
    destruct (step s op) as [s' o] eqn:E1. destruct (spec_step a op) as [a' o'] eqn:E2.
    simpl in HR', Hout. constructor; [exact Hout |]. apply IH; assumption.
Qed.

Lemma R_mem_init : R_mem [] [].
Proof.
  split; [constructor|]. split; [intros p tm []|]. split; [constructor|]. intros p t. reflexivity.
Qed.

(* op_ok is not needed for the in-memory persister *)
Theorem mem_refines_spec : forall h,
  Forall2 out_equiv (run_hist mem_step [] h) (run_hist spec_step [] h).
Proof.
  intros h.
  apply (sim_lift mem_step R_mem (fun _ => true)).
  - intros s a op HR _. apply mem_step_sim. exact HR.
  - exact R_mem_init.
  - induction h as [|op rest IH]; [reflexivity | exact IH].
Qed.

Print Assumptions mem_refines_spec.

(* ------------------------------------------------------------------------------------------ *)
(* (1b) the pickle-directory persister refines the abstract map                                *)
(* ------------------------------------------------------------------------------------------ *)
Definition pget (k : key) (d : pdir) : option snap := option_map snd (alist_get (fn k) d).

Definition plist (d : pdir) : list key := map (fun f => fst (snd f)) d.

(* every file is named after the checkpoint it stores, and that checkpoint is well-keyed *)
Definition pwf (d : pdir) : Prop :=
  forall f k s, In (f, (k, s)) d -> f = fn k /\ kok k = true.

Definition R_pickle (d : pdir) (a : amap) : Prop :=
  NoDup (map fst d) /\
  pwf d /\
  NoDup (map fst a) /\
  (forall k, am_get k a <> None -> kok k = true) /\
  (forall k, kok k = true -> pget k d = am_get k a).

Lemma plist_In_file : forall d k, In k (plist d) -> exists f s, In (f, (k, s)) d.
Proof.
  intros d k H. unfold plist in H. apply in_map_iff in H. destruct H as [[f [k0 s]] [Heq Hin]].
  simpl in Heq. subst k0. exists f, s. exact Hin.
Qed.

Lemma file_In_plist : forall d f k s, In (f, (k, s)) d -> In k (plist d).
Proof.
  intros d f k s H. unfold plist. apply in_map_iff. exists (f, (k, s)). split; [reflexivity | exact H].
Qed.

Lemma plist_NoDup : forall d, NoDup (map fst d) -> pwf d -> NoDup (plist d).
Proof.
  intros d. induction d as [|[f [k s]] r IH]; intros Hnd Hwf; simpl in *.
  - constructor.
  - inversion Hnd as [|x xs Hnotin Hnd']; subst.
    assert (Hwf' : pwf r).
    { intros f' k' s' H. apply (Hwf f' k' s'). right. exact H. }
    constructor; [| apply IH; assumption].
    intros Hin. apply plist_In_file in Hin. destruct Hin as [f' [s' Hin]].
    destruct (Hwf f k s (or_introl eq_refl)) as [Hf _].
    destruct (Hwf' f' k s' Hin) as [Hf' _].
    apply Hnotin. apply in_map_iff. exists (f', (k, s')). split; [simpl; congruence | exact Hin].
Qed.

Lemma plist_In : forall d a, R_pickle d a -> forall k, In k (plist d) <-> am_get k a <> None.
Proof.
  intros d a [Hnd [Hwf [Hnda [Hkok Hag]]]] k. split.
  - intros Hin. apply plist_In_file in Hin. destruct Hin as [f [s Hin]].
    destruct (Hwf f k s Hin) as [Hf Hk]. subst f.
    rewrite <- (Hag k Hk). unfold pget. rewrite (In_alist_get _ _ _ Hnd Hin). simpl. discriminate.
  - intros Hne. pose proof (Hkok k Hne) as Hk. rewrite <- (Hag k Hk) in Hne. unfold pget in Hne.
    destruct (alist_get (fn k) d) as [[k' s]|] eqn:E; [| simpl in Hne; congruence].
    apply alist_get_In in E. destruct (Hwf _ _ _ E) as [Hf Hk'].
    assert (k = k') by (apply fn_inj; assumption). subst k'.
    apply (file_In_plist d (fn k) k s E).
Qed.

Definition delf (d' : pdir) (k : key) : pdir := alist_del (pickle_filename (fst k) (snd k)) d'.

Lemma fold_del_NoDup : forall ks d, NoDup (map fst d) -> NoDup (map fst (fold_left delf ks d)).
Proof.
  intros ks. induction ks as [|k ks IH]; intros d H; simpl.
  - exact H.
  - apply IH. unfold delf. apply NoDup_alist_del. exact H.
Qed.

Lemma fold_del_In : forall ks d e, In e (fold_left delf ks d) -> In e d.
Proof.
  intros ks. induction ks as [|k ks IH]; intros d e H; simpl in *.
  - exact H.
  - apply IH in H. unfold delf in H. apply In_alist_del in H. exact H.
Qed.

Lemma fold_del_get : forall ks d f, NoDup (map fst d) ->
  alist_get f (fold_left delf ks d) =
  if existsb (fun k => String.eqb f (fn k)) ks then None else alist_get f d.
Proof.
  intros ks. induction ks as [|k ks IH]; intros d f H; simpl.
  - reflexivity.
  - rewrite IH by (unfold delf; apply NoDup_alist_del; exact H).
    unfold delf at 1. rewrite (alist_get_del f _ d H). fold (fn k).
    destruct (String.eqb f (fn k)); simpl; [|reflexivity].
    destruct (existsb (fun k0 => String.eqb f (fn k0)) ks); reflexivity.
Qed.

Lemma pickle_step_sim : forall d a op, R_pickle d a -> op_ok op = true ->
  R_pickle (fst (pickle_step d op)) (fst (spec_step a op)) /\
  out_equiv (snd (pickle_step d op)) (snd (spec_step a op)).
Proof.
  intros d a op HR Hop. pose proof HR as [Hnd [Hwf [Hnda [Hkok Hag]]]].
  destruct op as [p t s|p t| |p|p t|p].
  - (* Save *)
    simpl in Hop. simpl. split; [|exact I].
    change (pickle_filename p t) with (fn (p, t)).
    assert (Hk0 : kok (p, t) = true) by exact Hop.
    split; [apply NoDup_alist_set; exact Hnd|].
    split.
    { intros f k s' Hin. apply In_alist_set in Hin. destruct Hin as [Heq | Hin].
      - inversion Heq; subst. split; [reflexivity | exact Hk0].
      - apply (Hwf f k s' Hin). }
    split; [apply NoDup_am_set; exact Hnda|].
    split.
    { intros k. rewrite am_get_set. destruct (key_eqb k (p, t)) eqn:E.
      - apply key_eqb_eq in E. subst k. intros _. exact Hk0.
      - apply Hkok. }
    intros k Hk. unfold pget. rewrite alist_get_set, am_get_set.
    destruct (key_eqb k (p, t)) eqn:E.
    + apply key_eqb_eq in E. subst k. rewrite String.eqb_refl. reflexivity.
    + destruct (String.eqb (fn k) (fn (p, t))) eqn:E2.
      * apply String.eqb_eq in E2. apply fn_inj in E2; [| exact Hk | exact Hk0].
        subst k. rewrite key_eqb_refl in E. discriminate.
      * apply (Hag k Hk).
  - (* Load *)
    simpl in Hop. simpl. change (pickle_filename p t) with (fn (p, t)).
    pose proof (Hag (p, t) Hop) as H. unfold pget in H.
    destruct (alist_get (fn (p, t)) d) as [[k0 s0]|] eqn:E; simpl in *; rewrite <- H; simpl;
      (split; [exact HR | trivial]).
  - (* ListAll *)
    simpl. split; [exact HR|]. fold (plist d).
    split; [apply plist_NoDup; assumption | split; [exact Hnda|]].
    intros k. rewrite (plist_In d a HR k), am_get_keys. reflexivity.
  - (* ListPid *)
    simpl. split; [exact HR|]. fold (plist d).
    apply out_equiv_filter. simpl.
    split; [apply plist_NoDup; assumption | split; [exact Hnda|]].
    intros k. rewrite (plist_In d a HR k), am_get_keys. reflexivity.
  - (* Delete *)
    simpl in Hop. simpl. split; [|exact I].
    change (pickle_filename p t) with (fn (p, t)).
    assert (Hk0 : kok (p, t) = true) by exact Hop.
    split; [apply NoDup_alist_del; exact Hnd|].
    split.
    { intros f k s' Hin. apply In_alist_del in Hin. apply (Hwf f k s' Hin). }
    split; [apply NoDup_am_del; exact Hnda|].
    split.
    { intros k. rewrite am_get_del. destruct (key_eqb k (p, t)); [congruence | apply Hkok]. }
    intros k Hk. unfold pget. rewrite (alist_get_del _ _ d Hnd), am_get_del.
    destruct (key_eqb k (p, t)) eqn:E.
    + apply key_eqb_eq in E. subst k. rewrite String.eqb_refl. reflexivity.
    + destruct (String.eqb (fn k) (fn (p, t))) eqn:E2.
      * apply String.eqb_eq in E2. apply fn_inj in E2; [| exact Hk | exact Hk0].
        subst k. rewrite key_eqb_refl in E. discriminate.
      * apply (Hag k Hk).
  - (* DeletePid *)
    split; [|exact I].
    change (fst (pickle_step d (DeletePid p)))
      with (fold_left delf (filter (fun k : key => String.eqb (fst k) p) (plist d)) d).
    change (fst (spec_step a (DeletePid p))) with (am_del_pid p a).
    set (ks := filter (fun k : key => String.eqb (fst k) p) (plist d)).
    split; [apply fold_del_NoDup; exact Hnd|].
    split.
    { intros f k s' Hin. apply fold_del_In in Hin. apply (Hwf f k s' Hin). }
    split; [apply NoDup_am_del_pid; exact Hnda|].
    split.
    { intros k. rewrite am_get_del_pid. destruct (String.eqb p (fst k)); [congruence | apply Hkok]. }
    intros k Hk. unfold pget. rewrite (fold_del_get ks d (fn k) Hnd), am_get_del_pid.
    destruct (String.eqb p (fst k)) eqn:Ep.
    + destruct (existsb (fun k0 => String.eqb (fn k) (fn k0)) ks) eqn:Eex; [reflexivity|].
      destruct (alist_get (fn k) d) as [[k0 s0]|] eqn:Eg; [|reflexivity].
      exfalso. apply alist_get_In in Eg. destruct (Hwf _ _ _ Eg) as [Hf Hk'].
      assert (k = k0) by (apply fn_inj; assumption). subst k0.
      assert (Hex : existsb (fun k0 => String.eqb (fn k) (fn k0)) ks = true).
      { apply existsb_exists. exists k. split; [| apply String.eqb_refl].
        unfold ks. apply filter_In. split.
        - apply (file_In_plist d (fn k) k s0 Eg).
        - rewrite String.eqb_sym. exact Ep. }
      congruence.
    + destruct (existsb (fun k0 => String.eqb (fn k) (fn k0)) ks) eqn:Eex; [| apply (Hag k Hk)].
      exfalso. apply existsb_exists in Eex. destruct Eex as [k1 [Hin1 Heq1]].
      apply String.eqb_eq in Heq1. unfold ks in Hin1. apply filter_In in Hin1.
      destruct Hin1 as [Hin1 Hp1]. apply plist_In_file in Hin1. destruct Hin1 as [f1 [s1 Hin1]].
      destruct (Hwf _ _ _ Hin1) as [_ Hk1].
      assert (k = k1) by (apply fn_inj; assumption). subst k1.
      rewrite String.eqb_sym in Hp1. congruence.
Qed.

Lemma R_pickle_init : R_pickle [] [].
Proof.
  split; [constructor|]. split; [intros f k s []|]. split; [constructor|].
  split; [intros k H; simpl in H; congruence|]. intros k _. reflexivity.
Qed.

Theorem pickle_refines_spec : forall h, forallb op_ok h = true ->
  Forall2 out_equiv (run_hist pickle_step [] h) (run_hist spec_step [] h).
Proof.
  intros h Hok.
  apply (sim_lift pickle_step R_pickle op_ok pickle_step_sim h [] [] R_pickle_init Hok).
Qed.

(* (2) hence the two persisters are observationally equivalent *)
Theorem persisters_equivalent : forall h, forallb op_ok h = true ->
  Forall2 out_equiv (run_hist mem_step [] h) (run_hist pickle_step [] h).
Proof.
  intros h Hok.
  apply (Forall2_trans_gen out_equiv out_equiv_trans _ (run_hist spec_step [] h)).
  - apply mem_refines_spec.
  - apply (Forall2_sym_gen out_equiv out_equiv_sym). apply pickle_refines_spec. exact Hok.
Qed.

Print Assumptions pickle_refines_spec.
Print Assumptions persisters_equivalent.
