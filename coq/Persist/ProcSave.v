(* Persist/ProcSave.v — M4 (process part): what Bundle(process) contains and what Bundle.unbundle() makes of it.
   Executable model, definitions only (proofs: ProcSaveProofs.v).

   Python                                                      model
   Process / WorkChain instance (persisted part)               proc   (pid, creation time, state + payload, inputs, outputs,
                                                                       status, paused future, pre-paused status, process future,
                                                                       event helper; for work chains ctx, stepper, live awaitables)
   Savable.save / _set_class_name / set_custom_meta            meta
   Savable.save_members over cls._auto_persist                 save_members over the member lists [members_*]
                                                               (the lists are compared with Gen/Facts.x_auto_persist in the proofs)
   Process.save_instance_state                                 save_proc      (keys: the constants key_*, compared with x_bundle_keys)
   Created/Running/Waiting/Excepted.save_instance_state        save_state     (run_fn / DONE_CALLBACK / ex_value / traceback)
   SavableFuture.save_instance_state / recreate_from           save_fut / load_fut
   EventHelper (auto-persisted members only)                   save_helper / load_helper
   ContextMixin / WorkChain.save_instance_state                ctx / stepper part of save_proc
   Savable.load + _ensure_object_loader + loader.load_object   resolve
   Savable.load_members / _get_value                           load_members (+ lv_plain / lv_sav)
   Process.recreate_from / load_instance_state                 load_proc
   Process.recreate_state: LoadSaveContext(process=self)       load_state is resolved WITHOUT the caller's loader
   State.load_instance_state: getattr(process, name)           the name must be a method of the loaded class ([classes])
   Excepted.load_instance_state without tblib                  the traceback is dropped
   public accessors                                            observe

   Values are Base/Val.v [val]s (dict keys sorted by the harness, creation time / uuid / classes as opaque strings),
   exceptions [exn] (type + args), saved-state dicts [node]s of Persist/Savable.v.  The stepper of a work chain is opaque
   here: a type [S] with [save_stepper] / [recreate_stepper] (its round trip is property C08, Outline/StepperPersist*.v). *)
From Coq Require Import List ZArith String Bool.
From Plumpy Require Import Val Savable.
Import ListNotations.
Local Open Scope string_scope.

(* ---------------- constants of the code (checked against Gen/Facts.v in ProcSaveProofs.v) ---------------- *)
Definition key_meta := "!!meta".
Definition key_class_name := "class_name".
Definition key_types := "types".
Definition key_user := "user".
Definition key_object_loader := "object_loader".
Definition ty_savable := "S".
Definition ty_method := "m".
Definition key_state := "_state".                 (* literal in Process.save_instance_state *)
Definition key_inputs_raw := "INPUTS_RAW".
Definition key_inputs_parsed := "INPUTS_PARSED".
Definition key_outputs := "OUTPUTS".
Definition key_context := "_context".
Definition key_stepper := "stepper_state".
Definition key_run_fn := "run_fn".
Definition key_done_callback := "DONE_CALLBACK".
Definition key_ex_value := "ex_value".
Definition key_traceback := "traceback".
Definition key_exception := "exception".          (* literal in SavableFuture.save_instance_state *)

Definition members_process := ["_creation_time"; "_event_helper"; "_future"; "_paused"; "_pid"; "_pre_paused_status"; "_status"].
Definition members_created := ["args"; "in_state"; "kwargs"].
Definition members_running := ["args"; "in_state"; "kwargs"].
Definition members_waiting := ["data"; "in_state"; "msg"].
Definition members_wcwaiting := ["_awaiting"; "data"; "in_state"; "msg"].
Definition members_finished := ["in_state"; "result"; "successful"].
Definition members_excepted := ["in_state"].
Definition members_killed := ["in_state"; "msg"].
Definition members_future := ["_result"; "_state"].
Definition members_helper := ["_listener_type"; "_listeners"].

(* qualified class names as the default loader identifies them ("module:name") *)
Definition q_future := "plumpy.persistence:SavableFuture".
Definition q_helper := "plumpy.event_helper:EventHelper".
Definition q_created := "plumpy.process_states:Created".
Definition q_running := "plumpy.process_states:Running".
Definition q_waiting := "plumpy.process_states:Waiting".
Definition q_wcwaiting := "plumpy.workchains:Waiting".
Definition q_finished := "plumpy.process_states:Finished".
Definition q_excepted := "plumpy.process_states:Excepted".
Definition q_killed := "plumpy.process_states:Killed".
Definition q_default_loader := "plumpy.loaders:DefaultObjectLoader".
Definition q_custom_loader := "procs:PrefixLoader".       (* the harness's loader with the "X|" identifier scheme *)

Definition traceback_token := VStr "<traceback>".          (* the text is never compared *)

(* ---------------- the persisted part of a process ---------------- *)
Inductive kind := KProcess | KWorkChain.

Definition kind_eqb (a b : kind) : bool :=
  match a, b with KProcess, KProcess | KWorkChain, KWorkChain => true | _, _ => false end.

(* state objects with their payload; functions are names (bound methods of the process) *)
Inductive sstate :=
| StCreated (fn : string) (args : list val) (kwargs : list (string * val))
| StRunning (fn : string) (args : list val) (kwargs : list (string * val))   (* Running._command is never set by plumpy: always None *)
| StWaiting (fn : option string) (msg : val) (data : val)
| StFinished (result : val) (ok : bool)
| StExcepted (e : exn) (tb : bool)                                            (* tb: a traceback object is attached *)
| StKilled (msg : val).

Definition state_label (s : sstate) : string :=
  match s with
  | StCreated _ _ _ => "created" | StRunning _ _ _ => "running" | StWaiting _ _ _ => "waiting"
  | StFinished _ _ => "finished" | StExcepted _ _ => "excepted" | StKilled _ => "killed"
  end.

Section ProcSave.
  Variable S : Type.                                          (* a stepper with its position: opaque here *)
  Variable save_stepper : loader -> option loader -> S -> node.   (* stepper.save(save_context) under global loader / context loader *)
  Variable recreate_stepper : node -> option S.               (* outline.recreate_stepper(saved_state, workchain) *)

  (* what a WorkChain adds to a Process *)
  Inductive kdata :=
  | KdProcess
  | KdWorkChain (ctx : list (string * val)) (stepper : option S) (awaiting : nat).   (* awaiting: live awaitables of a Waiting state *)

  Record proc := mk_proc {
    p_cls : string;                       (* qualified class name *)
    p_kd : kdata;
    p_pid : val;
    p_ctime : val;                        (* opaque token (or VNone) *)
    p_state : sstate;
    p_in_state : bool;
    p_raw : option val;                   (* _raw_inputs: None or an AttributesFrozendict *)
    p_parsed : option val;
    p_outputs : list (string * val);
    p_status : val;
    p_pre_paused : val;
    p_paused : option fstate;             (* _paused: None or a SavableFuture *)
    p_future : fstate;
    p_listener_type : val;                (* EventHelper._listener_type (a class, opaque) *)
    p_listeners : val                     (* EventHelper._listeners (deep-copied objects, opaque, canonical order) *)
  }.

  Definition kind_of (p : proc) : kind := match p_kd p with KdProcess => KProcess | KdWorkChain _ _ _ => KWorkChain end.

  (* ---------------- loaders and identifiers ---------------- *)
  Definition ident (l : loader) (q : string) : string := match l with LDefault => q | LCustom => "X|" ++ q end.

  (* loader.load_object(identifier) as far as the identifier scheme goes; None = ValueError.
     The default loader splits at ':' and imports the module: an identifier of the other scheme names no module. *)
  Definition unident (l : loader) (i : string) : option string :=
    match l with
    | LDefault => match strip_prefix "X|" i with Some _ => None | None => Some i end
    | LCustom => strip_prefix "X|" i
    end.

  Definition loader_qual (l : loader) : string := match l with LDefault => q_default_loader | LCustom => q_custom_loader end.

  Definition effective (glob : loader) (sctx : option loader) : loader := match sctx with Some l => l | None => glob end.

  (* the '!!meta' entry written by Savable.save: user.object_loader (only with a context loader), class_name, types *)
  Definition meta (glob : loader) (sctx : option loader) (q : string) (types : nkvs) : node :=
    NDict (nk_app
      (match sctx with
       | Some l => KCons key_user (NDict (KCons key_object_loader (NVal (VStr (ident glob (loader_qual l)))) KNil)) KNil
       | None => KNil
       end)
      (KCons key_class_name (NVal (VStr (ident (effective glob sctx) q)))
        (match types with KNil => KNil | _ => KCons key_types (NDict types) KNil end))).

  (* ---------------- Savable.save_members ---------------- *)
  Inductive mv :=
  | MvPlain (v : val)          (* copy.deepcopy(value) *)
  | MvSav (n : node).          (* value.save(save_context), meta type 'S' *)

  (* getattr per member; None = the save raises (AttributeError, or deepcopy of a live future: TypeError) *)
  Fixpoint save_members (get : string -> option mv) (names : list string) : option (nkvs * nkvs) :=
    match names with
    | [] => Some (KNil, KNil)
    | m :: rest =>
        match get m, save_members get rest with
        | Some (MvPlain v), Some (ts, vs) => Some (ts, KCons m (NVal v) vs)
        | Some (MvSav n), Some (ts, vs) => Some (KCons m (NVal (VStr ty_savable)) ts, KCons m n vs)
        | _, _ => None
        end
    end.

  (* Savable.save of an object of class q: meta, auto-persisted members, then what save_instance_state adds *)
  Definition save_obj (glob : loader) (sctx : option loader) (q : string) (get : string -> option mv)
             (names : list string) (extra : nkvs) : option node :=
    match save_members get names with
    | Some (ts, vs) => Some (NDict (KCons key_meta (meta glob sctx q ts) (nk_app vs extra)))
    | None => None
    end.

  (* ---------------- SavableFuture ---------------- *)
  Definition get_fut (f : fstate) (m : string) : option mv :=
    if m =? "_state" then Some (MvPlain (VStr (fut_state_name f)))
    else if m =? "_result" then Some (MvPlain (match f with FResult v => v | _ => VNone end))
    else None.

  Definition save_fut (glob : loader) (sctx : option loader) (f : fstate) : option node :=
    save_obj glob sctx q_future (get_fut f) members_future
      (match f with FExn e => KCons key_exception (NExn e) KNil | _ => KNil end).

  (* ---------------- EventHelper ---------------- *)
  Definition get_helper (ltype listeners : val) (m : string) : option mv :=
    if m =? "_listener_type" then Some (MvPlain ltype)
    else if m =? "_listeners" then Some (MvPlain listeners)
    else None.

  Definition save_helper (glob : loader) (sctx : option loader) (ltype listeners : val) : option node :=
    save_obj glob sctx q_helper (get_helper ltype listeners) members_helper KNil.

  (* ---------------- the state objects ---------------- *)
  Definition q_state (k : kind) (s : sstate) : string :=
    match s with
    | StCreated _ _ _ => q_created
    | StRunning _ _ _ => q_running
    | StWaiting _ _ _ => match k with KProcess => q_waiting | KWorkChain => q_wcwaiting end
    | StFinished _ _ => q_finished
    | StExcepted _ _ => q_excepted
    | StKilled _ => q_killed
    end.

  Definition state_members (k : kind) (s : sstate) : list string :=
    match s with
    | StCreated _ _ _ => members_created
    | StRunning _ _ _ => members_running
    | StWaiting _ _ _ => match k with KProcess => members_waiting | KWorkChain => members_wcwaiting end
    | StFinished _ _ => members_finished
    | StExcepted _ _ => members_excepted
    | StKilled _ => members_killed
    end.

  (* awaiting: number of live awaitables held by a work chain's Waiting state (both in `_awaiting` and `data`) *)
  Definition get_state (k : kind) (awaiting : nat) (s : sstate) (in_state : bool) (m : string) : option mv :=
    if m =? "in_state" then Some (MvPlain (VBool in_state))
    else match s with
         | StCreated _ a kw | StRunning _ a kw =>
             if m =? "args" then Some (MvPlain (VTup a))
             else if m =? "kwargs" then Some (MvPlain (VDict kw)) else None
         | StWaiting _ msg data =>
             if m =? "msg" then Some (MvPlain msg)
             else if m =? "data" then match awaiting with 0 => Some (MvPlain data) | _ => None end
             else if m =? "_awaiting" then
               match k, awaiting with KWorkChain, 0 => Some (MvPlain (VDict [])) | _, _ => None end
             else None
         | StFinished r ok =>
             if m =? "result" then Some (MvPlain r)
             else if m =? "successful" then Some (MvPlain (VBool ok)) else None
         | StExcepted _ _ => None
         | StKilled msg => if m =? "msg" then Some (MvPlain msg) else None
         end.

  (* what the state's own save_instance_state adds after the members *)
  Definition state_extra (s : sstate) : nkvs :=
    match s with
    | StCreated fn _ _ | StRunning fn _ _ => KCons key_run_fn (NVal (VStr fn)) KNil
    | StWaiting fn _ _ => match fn with Some f => KCons key_done_callback (NVal (VStr f)) KNil | None => KNil end
    | StExcepted e tb =>
        KCons key_ex_value (NExn e)                                    (* yaml.dump(self.exception) *)
          (if tb then KCons key_traceback (NVal traceback_token) KNil else KNil)
    | StFinished _ _ | StKilled _ => KNil
    end.

  Definition save_state (glob : loader) (sctx : option loader) (k : kind) (awaiting : nat) (s : sstate) (in_state : bool)
    : option node :=
    save_obj glob sctx (q_state k s) (get_state k awaiting s in_state) (state_members k s) (state_extra s).

  (* ---------------- Process / WorkChain ---------------- *)
  Definition awaiting_of (p : proc) : nat := match p_kd p with KdProcess => 0 | KdWorkChain _ _ n => n end.

  Definition get_proc (glob : loader) (sctx : option loader) (p : proc) (m : string) : option mv :=
    if m =? "_pid" then Some (MvPlain (p_pid p))
    else if m =? "_creation_time" then Some (MvPlain (p_ctime p))
    else if m =? "_status" then Some (MvPlain (p_status p))
    else if m =? "_pre_paused_status" then Some (MvPlain (p_pre_paused p))
    else if m =? "_paused" then
      match p_paused p with
      | None => Some (MvPlain VNone)
      | Some f => option_map MvSav (save_fut glob sctx f)
      end
    else if m =? "_future" then option_map MvSav (save_fut glob sctx (p_future p))
    else if m =? "_event_helper" then option_map MvSav (save_helper glob sctx (p_listener_type p) (p_listeners p))
    else None.

  Definition opt_entry (k : string) (v : option val) : nkvs := nk_of_opt k (option_map NVal v).

  (* Savable.save on a process: Process.save_instance_state, then ContextMixin's, then WorkChain's *)
  Definition save_proc (glob : loader) (sctx : option loader) (p : proc) : option node :=
    match save_state glob sctx (kind_of p) (awaiting_of p) (p_state p) (p_in_state p) with
    | None => None
    | Some stn =>
        save_obj glob sctx (p_cls p) (get_proc glob sctx p) members_process
          (KCons key_state stn
          (nk_app (opt_entry key_inputs_raw (p_raw p))
          (nk_app (opt_entry key_inputs_parsed (p_parsed p))
          (nk_app (match p_outputs p with [] => KNil | o => KCons key_outputs (NVal (VDict o)) KNil end)   (* `if self.outputs:` *)
                  (match p_kd p with
                   | KdProcess => KNil
                   | KdWorkChain ctx st _ =>
                       KCons key_context (NVal (VDict ctx))
                         (match st with Some s => KCons key_stepper (save_stepper glob sctx s) KNil | None => KNil end)
                   end)))))
    end.

  (* ---------------- loading ---------------- *)
  (* _ensure_object_loader: the context's loader, else the one recorded in the saved state, else the global one *)
  Definition ensure (glob : loader) (lctx : option loader) (meta_kvs : nkvs) : option loader :=
    match lctx with
    | Some l => Some l
    | None =>
        match nk_get key_user meta_kvs with
        | Some (NDict u) =>
            match nk_get key_object_loader u with
            | Some (NVal (VStr i)) =>
                match unident glob i with                       (* default_loader.load_object(loader_identifier)() *)
                | Some q => if q =? q_custom_loader then Some LCustom
                            else if q =? q_default_loader then Some LDefault else None
                | None => None
                end
            | Some _ => None
            | None => Some glob
            end
        | Some _ => None
        | None => Some glob
        end
    end.

  (* the common beginning of Savable.load: loader, qualified class name, meta types *)
  Definition resolve (glob : loader) (lctx : option loader) (kvs : nkvs) : option (loader * string * nkvs) :=
    match nk_get key_meta kvs with
    | Some (NDict m) =>
        match ensure glob lctx m with
        | Some ldr =>
            match nk_get key_class_name m with
            | Some (NVal (VStr i)) =>
                match unident ldr i with
                | Some q => Some (ldr, q, match nk_get key_types m with Some (NDict t) => t | _ => KNil end)
                | None => None
                end
            | _ => None
            end
        | None => None
        end
    | _ => None
    end.

  Inductive lv := LvPlain (n : node) | LvSav (n : node) | LvMeth (name : string).

  (* load_members / _get_value: a missing key is a KeyError (None) *)
  Fixpoint load_members (types kvs : nkvs) (names : list string) : option (list (string * lv)) :=
    match names with
    | [] => Some []
    | m :: rest =>
        match nk_get m kvs, load_members types kvs rest with
        | Some nd, Some l =>
            match nk_get m types with
            | Some (NVal (VStr t)) =>
                if t =? ty_savable then Some ((m, LvSav nd) :: l)
                else if t =? ty_method then match nd with NVal (VStr s) => Some ((m, LvMeth s) :: l) | _ => None end
                else Some ((m, LvPlain nd) :: l)
            | _ => Some ((m, LvPlain nd) :: l)
            end
        | _, _ => None
        end
    end.

  Definition lv_plain (m : string) (a : list (string * lv)) : option val :=
    match alist_get m a with Some (LvPlain (NVal v)) => Some v | _ => None end.
  Definition lv_sav (m : string) (a : list (string * lv)) : option node :=
    match alist_get m a with Some (LvSav n) => Some n | _ => None end.

  (* Savable.load of a nested SavableFuture (SavableFuture.recreate_from) *)
  Definition load_fut (glob : loader) (lctx : option loader) (n : node) : option fstate :=
    match n with
    | NDict kvs =>
        match resolve glob lctx kvs with
        | Some (_, q, _) =>
            if q =? q_future then match load_future kvs with inr f => Some f | inl _ => None end else None
        | None => None
        end
    | _ => None
    end.

  Definition load_helper (glob : loader) (lctx : option loader) (n : node) : option (val * val) :=
    match n with
    | NDict kvs =>
        match resolve glob lctx kvs with
        | Some (_, q, ts) =>
            if q =? q_helper then
              match load_members ts kvs members_helper with
              | Some a => match lv_plain "_listener_type" a, lv_plain "_listeners" a with
                          | Some t, Some l => Some (t, l)
                          | _, _ => None
                          end
              | None => None
              end
            else None
        | None => None
        end
    | _ => None
    end.

  Definition has_method (methods : list string) (fn : string) : bool := existsb (String.eqb fn) methods.

  (* Process.recreate_state: Savable.load(saved_state, LoadSaveContext(process=self)) — no loader in that context.
     Returns the state, in_state and (work chain Waiting) the number of restored awaitables (always 0). *)
  Definition load_state (glob : loader) (k : kind) (methods : list string) (n : node) : option (sstate * bool) :=
    match n with
    | NDict kvs =>
        match resolve glob None kvs with
        | Some (_, q, ts) =>
            let fn_of key := match nk_get key kvs with
                             | Some (NVal (VStr f)) => if has_method methods f then Some f else None   (* getattr(self.process, name) *)
                             | _ => None
                             end in
            let get names := load_members ts kvs names in
            let ins a := match lv_plain "in_state" a with Some (VBool b) => Some b | _ => None end in
            let run_like (mk : string -> list val -> list (string * val) -> sstate) names :=
              match get names with
              | Some a =>
                  match lv_plain "args" a, lv_plain "kwargs" a, ins a, fn_of key_run_fn with
                  | Some (VTup ar), Some (VDict kw), Some b, Some f => Some (mk f ar kw, b)
                  | _, _, _, _ => None
                  end
              | None => None
              end in
            let wait_like names (wc : bool) :=
              match get names with
              | Some a =>
                  match lv_plain "msg" a, lv_plain "data" a, ins a with
                  | Some msg, Some data, Some b =>
                      let aw_ok := if wc then match lv_plain "_awaiting" a with Some (VDict []) => true | _ => false end else true in
                      if aw_ok then
                        match nk_get key_done_callback kvs with              (* saved_state.get(DONE_CALLBACK, None) *)
                        | None => Some (StWaiting None msg data, b)
                        | Some (NVal VNone) => Some (StWaiting None msg data, b)
                        | Some _ => match fn_of key_done_callback with
                                    | Some f => Some (StWaiting (Some f) msg data, b)
                                    | None => None
                                    end
                        end
                      else None
                  | _, _, _ => None
                  end
              | None => None
              end in
            if q =? q_created then run_like StCreated members_created
            else if q =? q_running then run_like StRunning members_running
            else if q =? q_waiting then (match k with KProcess => wait_like members_waiting false | KWorkChain => None end)
            else if q =? q_wcwaiting then (match k with KWorkChain => wait_like members_wcwaiting true | KProcess => None end)
            else if q =? q_finished then
              match get members_finished with
              | Some a => match lv_plain "result" a, lv_plain "successful" a, ins a with
                          | Some r, Some (VBool ok), Some b => Some (StFinished r ok, b)
                          | _, _, _ => None
                          end
              | None => None
              end
            else if q =? q_excepted then
              match get members_excepted with
              | Some a => match nk_get key_ex_value kvs, ins a with
                          | Some (NExn e), Some b => Some (StExcepted e false, b)      (* no tblib: self.traceback = None *)
                          | _, _ => None
                          end
              | None => None
              end
            else if q =? q_killed then
              match get members_killed with
              | Some a => match lv_plain "msg" a, ins a with
                          | Some msg, Some b => Some (StKilled msg, b)
                          | _, _ => None
                          end
              | None => None
              end
            else None
        | None => None
        end
    | _ => None
    end.

  Definition opt_val (k : string) (kvs : nkvs) : option (option val) :=
    match nk_get k kvs with
    | None => Some None                                  (* except KeyError: ... = None *)
    | Some (NVal v) => Some (Some v)
    | Some _ => None
    end.

  (* the classes the loaders can import: qualified name -> (Process or WorkChain, method names) *)
  Definition cenv := list (string * (kind * list string)).

  (* Bundle.unbundle(load_context) = Savable.load -> Process.recreate_from -> load_instance_state (+ ContextMixin, WorkChain) *)
  Definition load_proc (classes : cenv) (glob : loader) (lctx : option loader) (n : node) : option proc :=
    match n with
    | NDict kvs =>
        match resolve glob lctx kvs with
        | Some (ldr, q, ts) =>
            match alist_get q classes with
            | Some (k, methods) =>
                match nk_get key_state kvs with
                | Some stn =>
                    match load_state glob k methods stn, load_members ts kvs members_process with
                    | Some (st, ins), Some a =>
                        let paused :=
                          match alist_get "_paused" a with
                          | Some (LvPlain (NVal VNone)) => Some None
                          | Some (LvSav pn) => option_map Some (load_fut glob (Some ldr) pn)
                          | _ => None
                          end in
                        let fut := match lv_sav "_future" a with Some fn => load_fut glob (Some ldr) fn | None => None end in
                        let helper := match lv_sav "_event_helper" a with Some hn => load_helper glob (Some ldr) hn | None => None end in
                        let outs := match nk_get key_outputs kvs with
                                    | None => Some []
                                    | Some (NVal (VDict o)) => Some o
                                    | Some _ => None
                                    end in
                        let kd :=
                          match k with
                          | KProcess => Some KdProcess
                          | KWorkChain =>
                              match nk_get key_context kvs with
                              | Some (NVal (VDict c)) =>
                                  match nk_get key_stepper kvs with          (* saved_state.get(_STEPPER_STATE, None) *)
                                  | None => Some (KdWorkChain c None 0)
                                  | Some sn => match recreate_stepper sn with
                                               | Some s => Some (KdWorkChain c (Some s) 0)
                                               | None => None
                                               end
                                  end
                              | _ => None
                              end
                          end in
                        match lv_plain "_pid" a, lv_plain "_creation_time" a, lv_plain "_status" a, lv_plain "_pre_paused_status" a with
                        | Some pid, Some ct, Some status, Some pps =>
                            match paused, fut, helper, outs, kd, opt_val key_inputs_raw kvs, opt_val key_inputs_parsed kvs with
                            | Some pa, Some f, Some (lt, ls), Some o, Some d, Some raw, Some parsed =>
                                Some (mk_proc q d pid ct st ins raw parsed o status pps pa f lt ls)
                            | _, _, _, _, _, _, _ => None
                            end
                        | _, _, _, _ => None
                        end
                    | _, _ => None
                    end
                | None => None
                end
            | None => None
            end
        | None => None
        end
    | _ => None
    end.

  (* ---------------- what the public accessors of a process show ---------------- *)
  Inductive racc := RaOk (v : val) | RaKilled (msg : val) | RaExn (e : exn) | RaInvalid.

  Definition acc_result (s : sstate) : racc :=                  (* Process.result() *)
    match s with
    | StFinished r _ => RaOk r
    | StKilled msg => RaKilled msg
    | StExcepted e _ => RaExn e
    | _ => RaInvalid
    end.
  Definition acc_successful (s : sstate) : option bool := match s with StFinished _ ok => Some ok | _ => None end.
  Definition acc_exception (s : sstate) : option exn := match s with StExcepted e _ => Some e | _ => None end.
  Definition acc_killed_msg (s : sstate) : option val := match s with StKilled m => Some m | _ => None end.

  (* the state payload as far as it is visible (the traceback object is not: it cannot be restored without tblib) *)
  Definition payload (s : sstate) : sstate := match s with StExcepted e _ => StExcepted e false | _ => s end.

  Record obs := mk_obs {
    o_pid : val; o_ctime : val; o_label : string; o_payload : sstate;
    o_raw : option val; o_parsed : option val; o_outputs : list (string * val);
    o_ctx : option (list (string * val)); o_status : val; o_paused : bool;
    o_future : fstate; o_result : racc; o_successful : option bool; o_exception : option exn; o_killed_msg : option val
  }.

  Definition observe (p : proc) : obs :=
    mk_obs (p_pid p) (p_ctime p) (state_label (p_state p)) (payload (p_state p))
           (p_raw p) (p_parsed p) (p_outputs p)
           (match p_kd p with KdProcess => None | KdWorkChain c _ _ => Some c end)
           (p_status p) (match p_paused p with Some _ => true | None => false end)
           (p_future p) (acc_result (p_state p)) (acc_successful (p_state p)) (acc_exception (p_state p))
           (acc_killed_msg (p_state p)).

  (* ---------------- the domain of C07 ---------------- *)
  Definition fn_ok (methods : list string) (s : sstate) : bool :=
    match s with
    | StCreated fn _ _ | StRunning fn _ _ => has_method methods fn
    | StWaiting (Some fn) _ _ => has_method methods fn
    | _ => true
    end.

  Definition wfq (q : string) : bool := match strip_prefix "X|" q with Some _ => false | None => true end.

  (* "a state in which it can be saved" + "loadable": the class is importable under its name, the step functions are
     methods of the process, a work chain's wait holds no live awaitable (those cannot be copied by the code either) *)
  Definition savable (classes : cenv) (p : proc) : bool :=
    wfq (p_cls p) &&
    match alist_get (p_cls p) classes with
    | Some (k, methods) => kind_eqb k (kind_of p) && fn_ok methods (p_state p)
    | None => false
    end &&
    match awaiting_of p with 0 => true | _ => false end.

  (* the loaded process differs from the saved one in nothing but the dropped traceback object *)
  Definition drop_tb (p : proc) : proc :=
    mk_proc (p_cls p) (p_kd p) (p_pid p) (p_ctime p) (payload (p_state p)) (p_in_state p) (p_raw p) (p_parsed p) (p_outputs p)
            (p_status p) (p_pre_paused p) (p_paused p) (p_future p) (p_listener_type p) (p_listeners p).

  (* removing _state.traceback from a process bundle: "identical up to the traceback text" *)
  Fixpoint nk_del (k : string) (m : nkvs) : nkvs :=
    match m with
    | KNil => KNil
    | KCons k' n r => if k =? k' then nk_del k r else KCons k' n (nk_del k r)
    end.
  Fixpoint nk_map_at (k : string) (f : node -> node) (m : nkvs) : nkvs :=
    match m with
    | KNil => KNil
    | KCons k' n r => if k =? k' then KCons k' (f n) r else KCons k' n (nk_map_at k f r)
    end.
  Definition strip_traceback (n : node) : node :=
    match n with
    | NDict kvs => NDict (nk_map_at key_state (fun s => match s with NDict skvs => NDict (nk_del key_traceback skvs) | x => x end) kvs)
    | x => x
    end.
End ProcSave.

Arguments KdProcess {S}.
Arguments KdWorkChain {S}.
Arguments mk_proc {S}.
Arguments p_cls {S}. Arguments p_kd {S}. Arguments p_pid {S}. Arguments p_ctime {S}. Arguments p_state {S}.
Arguments p_in_state {S}. Arguments p_raw {S}. Arguments p_parsed {S}. Arguments p_outputs {S}. Arguments p_status {S}.
Arguments p_pre_paused {S}. Arguments p_paused {S}. Arguments p_future {S}. Arguments p_listener_type {S}. Arguments p_listeners {S}.
Arguments kind_of {S}. Arguments awaiting_of {S}.
Arguments save_proc {S}. Arguments load_proc {S}. Arguments observe {S}. Arguments savable {S}. Arguments drop_tb {S}.

(* order-insensitive comparison of saved states (Python dict equality); values are compared exactly *)
Fixpoint nk_len (m : nkvs) : nat := match m with KNil => 0 | KCons _ _ r => Datatypes.S (nk_len r) end.

Fixpoint node_eqm (a b : node) {struct a} : bool :=
  match a, b with
  | NVal x, NVal y => val_eqb x y
  | NExn x, NExn y => exn_eqb x y
  | NDict x, NDict y => Nat.eqb (nk_len x) (nk_len y) && nkvs_sub x y
  | _, _ => false
  end
with nkvs_sub (a : nkvs) (b : nkvs) {struct a} : bool :=
  match a with
  | KNil => true
  | KCons k n r => match nk_get k b with Some n' => node_eqm n n' | None => false end && nkvs_sub r b
  end.
