(* Persist/ProcSaveProofs.v — proofs about Persist/ProcSave.v (property C07). *)
From Coq Require Import List ZArith String Bool Ascii Lia.
From Plumpy Require Import Val Savable ProcSave Facts.
Import ListNotations.
Local Open Scope string_scope.
Arguments meta : simpl never.

(* ------------------------------------------------------------------------------------------------------------
   1. the tables of the code (re-extracted from /repo into Gen/Facts.v on every run) are the ones the model uses
   ------------------------------------------------------------------------------------------------------------ *)
Lemma facts_auto_persist :
  alist_get "Process" x_auto_persist = Some members_process /\
  alist_get "WorkChain" x_auto_persist = Some members_process /\
  alist_get "Created" x_auto_persist = Some members_created /\
  alist_get "Running" x_auto_persist = Some members_running /\
  alist_get "Waiting" x_auto_persist = Some members_waiting /\
  alist_get "WcWaiting" x_auto_persist = Some members_wcwaiting /\
  alist_get "Finished" x_auto_persist = Some members_finished /\
  alist_get "Excepted" x_auto_persist = Some members_excepted /\
  alist_get "Killed" x_auto_persist = Some members_killed /\
  alist_get "SavableFuture" x_auto_persist = Some members_future /\
  alist_get "EventHelper" x_auto_persist = Some members_helper.
Proof. repeat split; reflexivity. Qed.

Lemma facts_bundle_keys :
  alist_get "INPUTS_RAW" x_bundle_keys = Some key_inputs_raw /\
  alist_get "INPUTS_PARSED" x_bundle_keys = Some key_inputs_parsed /\
  alist_get "OUTPUTS" x_bundle_keys = Some key_outputs /\
  alist_get "META" x_bundle_keys = Some key_meta /\
  alist_get "META__CLASS_NAME" x_bundle_keys = Some key_class_name /\
  alist_get "META__OBJECT_LOADER" x_bundle_keys = Some key_object_loader /\
  alist_get "META__USER" x_bundle_keys = Some key_user /\
  alist_get "META__TYPES" x_bundle_keys = Some key_types /\
  alist_get "META__TYPE__METHOD" x_bundle_keys = Some ty_method /\
  alist_get "META__TYPE__SAVABLE" x_bundle_keys = Some ty_savable /\
  alist_get "WC_STEPPER_STATE" x_bundle_keys = Some key_stepper /\
  alist_get "CONTEXT" x_bundle_keys = Some key_context /\
  alist_get "RUN_FN" x_bundle_keys = Some key_run_fn /\
  alist_get "CREATED_RUN_FN" x_bundle_keys = Some key_run_fn /\
  alist_get "DONE_CALLBACK" x_bundle_keys = Some key_done_callback /\
  alist_get "EXC_VALUE" x_bundle_keys = Some key_ex_value /\
  alist_get "TRACEBACK" x_bundle_keys = Some key_traceback.
Proof. repeat split; reflexivity. Qed.

(* ------------------------------------------------------------------------------------------------------------
   2. loaders and meta blocks
   ------------------------------------------------------------------------------------------------------------ *)
Lemma unident_ident : forall l q, wfq q = true -> unident l (ident l q) = Some q.
Proof.
  intros l q Hq. unfold wfq in Hq. destruct l; unfold unident, ident.
  - destruct (strip_prefix "X|" q); [discriminate | reflexivity].
  - reflexivity.
Qed.

Definition lctx_ok (glob : loader) (sctx lctx : option loader) : Prop :=
  lctx = None \/ lctx = Some (effective glob sctx).

Definition meta_kvs (glob : loader) (sctx : option loader) (q : string) (ts : nkvs) : nkvs :=
  nk_app
    (match sctx with
     | Some l => KCons key_user (NDict (KCons key_object_loader (NVal (VStr (ident glob (loader_qual l)))) KNil)) KNil
     | None => KNil
     end)
    (KCons key_class_name (NVal (VStr (ident (effective glob sctx) q)))
       (match ts with KNil => KNil | _ => KCons key_types (NDict ts) KNil end)).

Lemma meta_eq : forall glob sctx q ts, meta glob sctx q ts = NDict (meta_kvs glob sctx q ts).
Proof. reflexivity. Qed.

Lemma ensure_meta : forall glob sctx lctx q ts,
  lctx_ok glob sctx lctx ->
  ensure glob lctx (meta_kvs glob sctx q ts) = Some (effective glob sctx).
Proof.
  intros glob sctx lctx q ts [H | H]; subst lctx; [| reflexivity].
  destruct sctx as [l |]; [destruct glob, l; reflexivity | destruct ts; reflexivity].
Qed.

Lemma class_name_meta : forall glob sctx q ts,
  nk_get key_class_name (meta_kvs glob sctx q ts) = Some (NVal (VStr (ident (effective glob sctx) q))).
Proof. intros. destruct sctx; reflexivity. Qed.

Lemma types_meta : forall glob sctx q ts,
  match nk_get key_types (meta_kvs glob sctx q ts) with Some (NDict t) => t | _ => KNil end = ts.
Proof. intros. destruct sctx; destruct ts; reflexivity. Qed.

Lemma resolve_meta : forall glob sctx lctx q ts rest,
  wfq q = true -> lctx_ok glob sctx lctx ->
  resolve glob lctx (KCons key_meta (meta glob sctx q ts) rest) = Some (effective glob sctx, q, ts).
Proof.
  intros glob sctx lctx q ts rest Hq Hl.
  unfold resolve. cbn [nk_get]. change (key_meta =? key_meta) with true. cbv iota.
  rewrite meta_eq. rewrite (ensure_meta glob sctx lctx q ts Hl), class_name_meta, (unident_ident _ _ Hq), types_meta.
  reflexivity.
Qed.

(* ------------------------------------------------------------------------------------------------------------
   3. futures and the event helper
   ------------------------------------------------------------------------------------------------------------ *)
Definition fut_node (glob : loader) (sctx : option loader) (f : fstate) : node :=
  NDict (KCons key_meta (meta glob sctx q_future KNil)
        (KCons "_result" (NVal (match f with FResult v => v | _ => VNone end))
        (KCons "_state" (NVal (VStr (fut_state_name f)))
        (match f with FExn e => KCons key_exception (NExn e) KNil | _ => KNil end)))).

Lemma save_fut_eq : forall glob sctx f, save_fut glob sctx f = Some (fut_node glob sctx f).
Proof. intros. reflexivity. Qed.

Lemma load_fut_save : forall glob sctx lctx f,
  lctx_ok glob sctx lctx -> load_fut glob lctx (fut_node glob sctx f) = Some f.
Proof.
  intros glob sctx lctx f Hl. unfold load_fut, fut_node.
  rewrite (resolve_meta glob sctx lctx q_future KNil _ eq_refl Hl).
  change (q_future =? q_future) with true. cbv iota.
  destruct f; reflexivity.
Qed.

Definition helper_node (glob : loader) (sctx : option loader) (lt ls : val) : node :=
  NDict (KCons key_meta (meta glob sctx q_helper KNil)
        (KCons "_listener_type" (NVal lt) (KCons "_listeners" (NVal ls) KNil))).

Lemma save_helper_eq : forall glob sctx lt ls, save_helper glob sctx lt ls = Some (helper_node glob sctx lt ls).
Proof. intros. reflexivity. Qed.

Lemma load_helper_save : forall glob sctx lctx lt ls,
  lctx_ok glob sctx lctx -> load_helper glob lctx (helper_node glob sctx lt ls) = Some (lt, ls).
Proof.
  intros glob sctx lctx lt ls Hl. unfold load_helper, helper_node.
  rewrite (resolve_meta glob sctx lctx q_helper KNil _ eq_refl Hl).
  reflexivity.
Qed.

(* ------------------------------------------------------------------------------------------------------------
   4. the state objects
   ------------------------------------------------------------------------------------------------------------ *)
Lemma lctx_ok_none : forall glob sctx, lctx_ok glob sctx None.
Proof. intros. left. reflexivity. Qed.

Lemma lctx_ok_some : forall glob sctx, lctx_ok glob sctx (Some (effective glob sctx)).
Proof. intros. right. reflexivity. Qed.

Lemma load_state_save : forall glob sctx k methods s ins n,
  fn_ok methods s = true ->
  save_state glob sctx k 0 s ins = Some n ->
  load_state glob k methods n = Some (payload s, ins).
Proof.
  intros glob sctx k methods s ins n Hfn Hs.
  destruct s as [fn a kw | fn a kw | fn msg data | r ok | e tb | msg]; destruct k;
    cbv [save_state save_obj state_members q_state] in Hs; cbn in Hs;
    injection Hs as Hs; subst n; unfold load_state;
    (erewrite resolve_meta; [| reflexivity | apply lctx_ok_none]);
    cbn in Hfn |- *; try rewrite Hfn; try reflexivity.
  all: destruct fn as [f |]; cbn in Hfn |- *; [rewrite Hfn |]; reflexivity.
Qed.

Lemma save_state_total : forall glob sctx k s ins, exists n, save_state glob sctx k 0 s ins = Some n.
Proof. intros. destruct s, k; eexists; reflexivity. Qed.

Lemma payload_idem : forall s, payload (payload s) = payload s.
Proof. destruct s; reflexivity. Qed.

Lemma fn_ok_payload : forall methods s, fn_ok methods (payload s) = fn_ok methods s.
Proof. destruct s; reflexivity. Qed.

Lemma save_state_payload : forall glob sctx k aw s ins stn,
  save_state glob sctx k aw s ins = Some stn ->
  save_state glob sctx k aw (payload s) ins =
  Some (match stn with NDict skvs => NDict (nk_del key_traceback skvs) | x => x end).
Proof.
  intros glob sctx k aw s ins stn H.
  destruct s as [fn a kw | fn a kw | fn msg data | r ok | e tb | msg];
    [ | | destruct fn as [f |] | | destruct tb | ]; destruct k; destruct aw;
    cbv [save_state save_obj state_members q_state payload] in H |- *; cbn in H |- *;
    try discriminate H; injection H as H; subst stn; reflexivity.
Qed.

Arguments save_state : simpl never.
Arguments load_state : simpl never.
Arguments save_fut : simpl never.
Arguments load_fut : simpl never.
Arguments save_helper : simpl never.
Arguments load_helper : simpl never.
Arguments fut_node : simpl never.
Arguments helper_node : simpl never.
Arguments resolve : simpl never.

(* ------------------------------------------------------------------------------------------------------------
   5. processes and work chains
   ------------------------------------------------------------------------------------------------------------ *)
Section Proc.
  Variable S : Type.
  Variable save_stepper : loader -> option loader -> S -> node.
  Variable recreate_stepper : node -> option S.
  (* the stepper's own round trip (property C08) *)
  Hypothesis stepper_roundtrip : forall g c s, recreate_stepper (save_stepper g c s) = Some s.
  Variable classes : cenv.

  Notation save := (save_proc save_stepper).
  Notation load := (load_proc recreate_stepper classes).

  Lemma savable_inv : forall (p : proc S),
    savable classes p = true ->
    wfq (p_cls p) = true /\ awaiting_of p = 0 /\
    exists methods, alist_get (p_cls p) classes = Some (kind_of p, methods) /\ fn_ok methods (p_state p) = true.
  Proof.
    intros p H. unfold savable in H.
    apply andb_prop in H as [H Haw]. apply andb_prop in H as [Hq Hc].
    split; [exact Hq |]. split; [destruct (awaiting_of p); [reflexivity | discriminate] |].
    destruct (alist_get (p_cls p) classes) as [[k methods] |]; [| discriminate].
    apply andb_prop in Hc as [Hk Hfn]. exists methods. split; [| exact Hfn].
    destruct k, (kind_of p); try discriminate; reflexivity.
  Qed.

  Theorem save_total : forall g c (p : proc S), savable classes p = true -> exists n, save g c p = Some n.
  Proof.
    intros g c p H. apply savable_inv in H as (_ & Haw & _).
    unfold save_proc. rewrite Haw.
    destruct (save_state_total g c (kind_of p) (p_state p) (p_in_state p)) as [stn Hst]. rewrite Hst.
    unfold save_obj. destruct p as [cls kd pid ct st ins raw parsed outs status pps paused fut lt ls].
    destruct paused; cbn; rewrite ?save_fut_eq, ?save_helper_eq; cbn; eexists; reflexivity.
  Qed.

  Theorem roundtrip : forall g c lctx (p : proc S) n,
    savable classes p = true -> lctx_ok g c lctx ->
    save g c p = Some n ->
    load g lctx n = Some (drop_tb p).
  Proof.
    intros g c lctx p n Hsv Hl Hs.
    apply savable_inv in Hsv as (Hq & Haw & methods & Hcls & Hfn).
    unfold save_proc in Hs. rewrite Haw in Hs.
    destruct (save_state g c (kind_of p) 0 (p_state p) (p_in_state p)) as [stn |] eqn:Hst; [| discriminate].
    pose proof (load_state_save g c (kind_of p) methods (p_state p) (p_in_state p) stn Hfn Hst) as Hld.
    destruct p as [cls kd pid ct st ins raw parsed outs status pps paused fut lt ls].
    cbn [p_cls p_kd p_pid p_ctime p_state p_in_state p_raw p_parsed p_outputs p_status p_pre_paused p_paused p_future
         p_listener_type p_listeners] in *.
    unfold save_obj in Hs.
    destruct paused as [pf |]; cbn in Hs; rewrite ?save_fut_eq, ?save_helper_eq in Hs; cbn in Hs;
      injection Hs as Hs; subst n;
      unfold load_proc; rewrite (resolve_meta g c lctx cls _ _ Hq Hl); rewrite Hcls;
      cbn; rewrite Hld; cbn;
      rewrite ?(load_fut_save g c _ _ (lctx_ok_some g c)), ?(load_helper_save g c _ _ _ (lctx_ok_some g c));
      destruct raw, parsed, outs; destruct kd as [| ctx [stp |] aw]; cbn in Haw |- *; subst;
      rewrite ?stepper_roundtrip; reflexivity.
  Qed.

  (* saving the loaded process: the same bundle, minus the traceback text of an excepted state *)
  Lemma save_drop_tb : forall g c (p : proc S) n,
    save g c p = Some n -> save g c (drop_tb p) = Some (strip_traceback n).
  Proof.
    intros g c p n Hs.
    unfold save_proc in Hs |- *.
    replace (kind_of (drop_tb p)) with (kind_of p) by (destruct p; reflexivity).
    replace (awaiting_of (drop_tb p)) with (awaiting_of p) by (destruct p; reflexivity).
    replace (p_state (drop_tb p)) with (payload (p_state p)) by (destruct p; reflexivity).
    replace (p_in_state (drop_tb p)) with (p_in_state p) by (destruct p; reflexivity).
    destruct (save_state g c (kind_of p) (awaiting_of p) (p_state p) (p_in_state p)) as [stn |] eqn:Hs1; [| discriminate Hs].
    rewrite (save_state_payload _ _ _ _ _ _ _ Hs1).
    destruct p as [cls kd pid ct st ins raw parsed outs status pps paused fut lt ls].
    unfold save_obj, drop_tb in *.
    cbn [p_cls p_kd p_pid p_ctime p_state p_in_state p_raw p_parsed p_outputs p_status p_pre_paused p_paused p_future
         p_listener_type p_listeners] in *.
    destruct paused as [pf |]; cbn in Hs |- *; rewrite ?save_fut_eq, ?save_helper_eq in Hs |- *; cbn in Hs |- *;
      injection Hs as Hs; subst n; reflexivity.
  Qed.

  Lemma observe_drop_tb : forall (p : proc S), observe (drop_tb p) = observe p.
  Proof. intros [cls kd pid ct st ins raw parsed outs status pps paused fut lt ls]. destruct st; reflexivity. Qed.

  Lemma drop_tb_idem : forall (p : proc S), drop_tb (drop_tb p) = drop_tb p.
  Proof. intros [cls kd pid ct st ins raw parsed outs status pps paused fut lt ls]. unfold drop_tb; cbn. rewrite payload_idem. reflexivity. Qed.

  Lemma savable_drop_tb : forall (p : proc S), savable classes (drop_tb p) = savable classes p.
  Proof.
    intros [cls kd pid ct st ins raw parsed outs status pps paused fut lt ls]. unfold savable, drop_tb; cbn.
    destruct (alist_get cls classes) as [[k methods] |]; [| reflexivity]. rewrite fn_ok_payload. reflexivity.
  Qed.

  (* a bundle without a traceback entry is not changed by stripping it *)
  Lemma strip_drop_tb : forall g c (p : proc S) n,
    save g c (drop_tb p) = Some n -> strip_traceback n = n.
  Proof.
    intros g c p n Hs. pose proof (save_drop_tb g c (drop_tb p) n Hs) as H.
    rewrite drop_tb_idem in H. rewrite Hs in H. injection H as H. symmetry. exact H.
  Qed.

  (* ---------------- the statements of C07, with the serialisation medium ---------------- *)
  Variable medium : node -> node.
  (* deep copy / pickle / YAML reproduce a bundle of a savable process exactly (tested on every snapshot) *)
  Hypothesis medium_id : forall g c (p : proc S) n, savable classes p = true -> save g c p = Some n -> medium n = n.

  Theorem load_total : forall g c lctx (p : proc S) n,
    savable classes p = true -> lctx_ok g c lctx -> save g c p = Some n ->
    exists p', load g lctx (medium n) = Some p'.
  Proof.
    intros g c lctx p n Hsv Hl Hs. rewrite (medium_id g c p n Hsv Hs). eexists. exact (roundtrip g c lctx p n Hsv Hl Hs).
  Qed.

  Theorem idempotent : forall g c lctx (p p' : proc S) n,
    savable classes p = true -> lctx_ok g c lctx -> save g c p = Some n ->
    load g lctx (medium n) = Some p' ->
    save g c p' = Some (strip_traceback (medium n)).
  Proof.
    intros g c lctx p p' n Hsv Hl Hs Hld. rewrite (medium_id g c p n Hsv Hs) in *.
    rewrite (roundtrip g c lctx p n Hsv Hl Hs) in Hld. injection Hld as Hld. subst p'.
    exact (save_drop_tb g c p n Hs).
  Qed.

  (* without a traceback object (every state but an Excepted one that holds one) the two bundles are identical *)
  Theorem idempotent_exact : forall g c lctx (p p' : proc S) n,
    savable classes p = true -> lctx_ok g c lctx -> save g c p = Some n ->
    (forall e, p_state p <> StExcepted e true) ->
    load g lctx (medium n) = Some p' ->
    save g c p' = Some (medium n).
  Proof.
    intros g c lctx p p' n Hsv Hl Hs Hne Hld.
    rewrite (idempotent g c lctx p p' n Hsv Hl Hs Hld). f_equal.
    rewrite (medium_id g c p n Hsv Hs).
    assert (Hp : drop_tb p = p).
    { destruct p as [cls kd pid ct st ins raw parsed outs status pps paused fut lt ls]. unfold drop_tb; cbn in *.
      destruct st as [| | | | e tb |]; try reflexivity. destruct tb; [exfalso; exact (Hne e eq_refl) | reflexivity]. }
    apply (strip_drop_tb g c p n). rewrite Hp. exact Hs.
  Qed.

  Theorem observe_same : forall g c lctx (p p' : proc S) n,
    savable classes p = true -> lctx_ok g c lctx -> save g c p = Some n ->
    load g lctx (medium n) = Some p' ->
    observe p' = observe p.
  Proof.
    intros g c lctx p p' n Hsv Hl Hs Hld. rewrite (medium_id g c p n Hsv Hs) in *.
    rewrite (roundtrip g c lctx p n Hsv Hl Hs) in Hld. injection Hld as Hld. subst p'. apply observe_drop_tb.
  Qed.

  (* any number of further generations: the loaded process is a fixed point of save ; medium ; load *)
  Theorem second_generation : forall g c lctx (p p' : proc S) n n',
    savable classes p = true -> lctx_ok g c lctx -> save g c p = Some n ->
    load g lctx (medium n) = Some p' -> save g c p' = Some n' ->
    savable classes p' = true /\ load g lctx (medium n') = Some p' /\ n' = strip_traceback (medium n).
  Proof.
    intros g c lctx p p' n n' Hsv Hl Hs Hld Hs'.
    pose proof (idempotent g c lctx p p' n Hsv Hl Hs Hld) as Hi. rewrite Hs' in Hi. injection Hi as Hi.
    rewrite (medium_id g c p n Hsv Hs) in Hld.
    rewrite (roundtrip g c lctx p n Hsv Hl Hs) in Hld. injection Hld as Hld. subst p'.
    assert (Hsv' : savable classes (drop_tb p) = true) by (rewrite savable_drop_tb; exact Hsv).
    split; [exact Hsv' |]. split; [| exact Hi].
    rewrite (medium_id g c (drop_tb p) n' Hsv' Hs').
    rewrite (roundtrip g c lctx (drop_tb p) n' Hsv' Hl Hs'). rewrite drop_tb_idem. reflexivity.
  Qed.

  (* the loaded process is paused iff the saved one was, with the paused future in the same state, same statuses *)
  Theorem paused_restored : forall g c lctx (p p' : proc S) n,
    savable classes p = true -> lctx_ok g c lctx -> save g c p = Some n ->
    load g lctx (medium n) = Some p' ->
    p_paused p' = p_paused p /\ p_status p' = p_status p /\ p_pre_paused p' = p_pre_paused p /\ p_future p' = p_future p.
  Proof.
    intros g c lctx p p' n Hsv Hl Hs Hld. rewrite (medium_id g c p n Hsv Hs) in *.
    rewrite (roundtrip g c lctx p n Hsv Hl Hs) in Hld. injection Hld as Hld. subst p'.
    destruct p; repeat split; reflexivity.
  Qed.

  (* outside the domain: a work chain waiting on live awaitables cannot be saved (deepcopy of a future raises) *)
  Theorem live_awaitables_unsavable : forall g c (p : proc S) fn msg data,
    p_state p = StWaiting fn msg data -> awaiting_of p <> 0 -> save g c p = None.
  Proof.
    intros g c p fn msg data Hst Haw. unfold save_proc. rewrite Hst.
    destruct (awaiting_of p) as [| a]; [congruence |].
    destruct (kind_of p); reflexivity.
  Qed.
End Proc.
