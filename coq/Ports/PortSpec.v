(* Ports/PortSpec.v — the declarative reading of properties C11, C12, C15: what "conforms to the
   spec", "completed with exactly the declared defaults" and "selected by the rules" mean, written
   without pops, clones, rule stripping or string-prefix tests.  Specification side only. *)
From Coq Require Import List ZArith String Bool Ascii.
From Plumpy Require Import Val PortModel.
Import ListNotations.
Local Open Scope string_scope.

(* ---- well-formedness of Python data: dict keys are unique ---- *)
Fixpoint keys_unique {A} (l : list (string * A)) : bool :=
  match l with
  | [] => true
  | (k, _) :: rest => negb (alist_mem k rest) && keys_unique rest
  end.

Fixpoint wf_val (v : val) : bool :=
  let fix wf_list (l : list val) : bool :=
    match l with [] => true | x :: r => wf_val x && wf_list r end in
  let fix wf_kvs (l : list (string * val)) : bool :=
    match l with [] => true | (_, x) :: r => wf_val x && wf_kvs r end in
  match v with
  | VTup l | VList l => wf_list l
  | VDict kvs | VFrozen kvs => keys_unique kvs && wf_kvs kvs
  | _ => true
  end.

Definition wf_kvs (m : list (string * val)) : bool := wf_val (VDict m).

Fixpoint names_unique (ps : ports) : bool :=
  match ps with
  | PNil => true
  | PCons n _ rest => negb (existsb (String.eqb n) (ports_names rest)) && names_unique rest
  end.

Fixpoint wf_port (p : port) : bool :=
  match p with
  | PLeaf _ => true
  | PNs _ ps => names_unique ps && wf_ports ps
  end
with wf_ports (ps : ports) : bool :=
  match ps with
  | PNil => true
  | PCons _ p rest => wf_port p && wf_ports rest
  end.

Definition is_nil {A} (l : list A) : bool := match l with [] => true | _ => false end.

Definition declared (ps : ports) (k : string) : bool :=
  match ports_get k ps with Some _ => true | None => false end.

(* the values supplied under names the namespace does not declare *)
Definition undeclared_items (ps : ports) (m : list (string * val)) : list (string * val) :=
  filter (fun kv => negb (declared ps (fst kv))) m.

Section Spec.
  Variable veval : vid -> val -> bool.

  (* ================= C11: conformance ================= *)
  (* x = None: nothing supplied for this port. *)
  Fixpoint conforms (p : port) (x : option val) {struct p} : bool :=
    match p with
    | PLeaf a =>
        match x with
        | None => negb (l_required a)
        | Some v =>
            if is_unspec v then negb (l_required a)
            else match l_vt a with Some ts => isinstance_any v ts | None => true end
                 && negb (run_validator veval (l_validator a) v)
        end
    | PNs a ps =>
        let given := match x with Some v => if truthy v then v else VDict [] | None => VDict [] end in
        match mapping_items given with
        | None => false
        | Some m =>
            (negb (n_required a) && is_nil m)
            || (conforms_all ps m
                && (is_nil (undeclared_items ps m) || n_dynamic a)
                && match n_vt a with
                   | None => true
                   | Some ts => forallb (fun kv => dyn_value_ok (n_dynamic a) ts (snd kv)) (undeclared_items ps m)
                   end
                && negb (run_validator veval (n_validator a) (VDict m)))
        end
    end
  (* every declared port of the namespace accepts what m supplies for it (m is not consumed) *)
  with conforms_all (ps : ports) (m : list (string * val)) {struct ps} : bool :=
    match ps with
    | PNil => true
    | PCons n p rest => conforms p (alist_get n m) && conforms_all rest m
    end.

  (* ================= C11: completion with exactly the declared defaults ================= *)
  Definition freeze (r : exn + list (string * val)) : exn + val :=
    match r with inl e => inl e | inr m => inr (VFrozen m) end.

  (* what inputs[n] is for a declared namespace n, given what was supplied for it *)
  Definition expected_ns_entry (a : nattrs) (sub : ports) (given : option val) : option (exn + val) :=
    match given with
    | Some (VDict kvs) => Some (freeze (pre_process sub kvs))
    | Some _ => Some (inl EType)
    | None =>
        if negb (n_populate a) then None
        else match dflt_value (n_default a) with
             | Some (VDict kvs) => Some (freeze (pre_process sub kvs))
             | Some _ => Some (inl EType)
             | None => if ports_empty sub then None else Some (freeze (pre_process sub []))
             end
    end.

  (* what inputs[n] is, for any key n *)
  Definition expected_entry (ps : ports) (m : list (string * val)) (n : string) : option (exn + val) :=
    match ports_get n ps with
    | None => option_map inr (alist_get n m)                 (* undeclared key: exactly as given *)
    | Some (PLeaf a) =>
        match alist_get n m with
        | Some v => Some (inr v)                             (* supplied: as given *)
        | None => option_map inr (dflt_value (l_default a))  (* absent: the declared default, if any *)
        end
    | Some (PNs a sub) => expected_ns_entry a sub (alist_get n m)
    end.

  (* read-only at every declared namespace level *)
  Fixpoint frozen_levels (p : port) (v : val) {struct p} : bool :=
    match p, v with
    | PLeaf _, _ => true
    | PNs _ ps, VFrozen m => frozen_levels_ports ps m
    | PNs _ _, _ => false
    end
  with frozen_levels_ports (ps : ports) (m : list (string * val)) {struct ps} : bool :=
    match ps with
    | PNil => true
    | PCons n p rest =>
        match p, alist_get n m with
        | PNs _ _, Some v => frozen_levels p v
        | _, _ => true
        end && frozen_levels_ports rest m
    end.

  (* ================= C12 ================= *)
  Fixpoint lookup_val (q : list string) (v : val) : option val :=
    match q with
    | [] => Some v
    | c :: q' => match v with
                 | VDict m => match alist_get c m with Some x => lookup_val q' x | None => None end
                 | _ => None
                 end
    end.

  (* ================= C15: selection by rules, on component lists ================= *)
  Definition path := list string.

  Fixpoint is_prefix (a b : path) : bool :=
    match a, b with
    | [], _ => true
    | x :: a', y :: b' => String.eqb x y && is_prefix a' b'
    | _, _ => false
    end.

  Inductive ruleset :=
  | RAll
  | RInclude (rs : list path)
  | RExclude (rs : list path).

  (* `if exclude and ...` / `if include and ...`: an empty or absent list is no rule at all *)
  Definition ruleset_of (exclude include : option (list string)) : ruleset :=
    match exclude, include with
    | Some ((_ :: _) as ex), _ => RExclude (map split_path ex)
    | _, Some ((_ :: _) as inc) => RInclude (map split_path inc)
    | _, _ => RAll
    end.

  (* a rule selects its own path and everything below it *)
  Definition leaf_selected (R : ruleset) (q : path) : bool :=
    match R with
    | RAll => true
    | RInclude rs => existsb (fun r => is_prefix r q) rs
    | RExclude rs => negb (existsb (fun r => is_prefix r q) rs)
    end.

  (* an include rule also creates the namespaces it passes through *)
  Definition ns_selected (R : ruleset) (q : path) : bool :=
    match R with
    | RAll => true
    | RInclude rs => existsb (fun r => is_prefix r q || is_prefix q r) rs
    | RExclude rs => negb (existsb (fun r => is_prefix r q) rs)
    end.

  (* the selected part of a source tree; [at_] is the path of the namespace whose ports are [ps] *)
  Fixpoint select (R : ruleset) (at_ : path) (ps : ports) {struct ps} : ports :=
    match ps with
    | PNil => PNil
    | PCons n p rest =>
        let q := (at_ ++ [n])%list in
        match p with
        | PLeaf a => if leaf_selected R q then PCons n (PLeaf a) (select R at_ rest) else select R at_ rest
        | PNs a sub =>
            if ns_selected R q
            then PCons n (PNs (set_valid_type a (n_vt a)) (select R q sub)) (select R at_ rest)
            else select R at_ rest
        end
    end.

  (* destination ports afterwards: existing entries, each selected source entry assigned by name *)
  Fixpoint assign_all (src dst : ports) : ports :=
    match src with
    | PNil => dst
    | PCons n p rest => assign_all rest (ports_set n p dst)
    end.

  Fixpoint lookup_port (q : path) (p : port) : option port :=
    match q with
    | [] => Some p
    | c :: q' => match p with
                 | PNs _ ps => match ports_get c ps with Some p' => lookup_port q' p' | None => None end
                 | PLeaf _ => None
                 end
    end.

  (* names usable as path components: non-empty, no separator *)
  Fixpoint sep_free (s : string) : bool :=
    match s with
    | EmptyString => true
    | String c r => negb (Ascii.eqb c "."%char) && sep_free r
    end.
  Definition good_name (s : string) : bool := sep_free s && negb (String.eqb s "").

  Fixpoint good_names (p : port) : bool :=
    match p with
    | PLeaf _ => true
    | PNs _ ps => good_names_ports ps
    end
  with good_names_ports (ps : ports) : bool :=
    match ps with
    | PNil => true
    | PCons n p rest => good_name n && good_names p && good_names_ports rest
    end.
End Spec.
