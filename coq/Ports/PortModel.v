(* Ports/PortModel.v — M3: ports.py / process_spec.py / Process.on_create, out, on_finish.
   Executable, algorithmic model (pops, clones, rule stripping as in the code).  No proofs.

   Python                                         model
   Port / InputPort / OutputPort                  PLeaf lattrs
   PortNamespace                                  PNs nattrs ports     (ports: insertion-ordered dict)
   UNSPECIFIED = ()  (compared with `is`; CPython  VTup []  (is_unspec)
     has one empty tuple)
   Port.validate                                  valid_leaf
   PortNamespace.validate / validate_ports /      valid_port / valid_ports / valid_dynamic
     validate_dynamic_ports
   PortNamespace.pre_process                      pre_process
   Process.on_create (inputs part)                construct
   PortNamespace.get_port(create_dynamically)     get_port_dyn
   Process.out                                    out
   Process.on_finish (output validation)          finish_successful
   PortNamespace.absorb / strip_namespace         absorb / strip_namespace
   ProcessSpec._expose_ports                      expose
   PortNamespace.create_port_namespace            create_port_namespace
*)
From Coq Require Import List ZArith String Bool Ascii.
From Plumpy Require Import Val.
Import ListNotations.
Local Open Scope string_scope.

(* the type universe of valid_type *)
Inductive ty := TInt | TStr | TBool | TDict | TList | TNoneT.

Definition ty_eqb (a b : ty) : bool :=
  match a, b with
  | TInt, TInt | TStr, TStr | TBool, TBool | TDict, TDict | TList, TList | TNoneT, TNoneT => true
  | _, _ => false
  end.

(* Python isinstance on the value domain (bool is a subclass of int) *)
Definition isinstance (v : val) (t : ty) : bool :=
  match v, t with
  | VInt _, TInt | VBool _, TInt | VBool _, TBool | VStr _, TStr
  | VDict _, TDict | VList _, TList | VNone, TNoneT => true
  | _, _ => false
  end.

Definition isinstance_any (v : val) (ts : list ty) : bool := existsb (isinstance v) ts.

Definition is_unspec (v : val) : bool := match v with VTup [] => true | _ => false end.
Definition UNSPEC : val := VTup [].

Definition vid := string.            (* validator identifier; its meaning is a Section variable *)

Inductive dflt :=
| DNone                              (* UNSPECIFIED *)
| DVal (v : val)
| DCall (v : val).                   (* a callable returning v *)

Record lattrs := mk_lattrs {
  l_required : bool; l_vt : option (list ty); l_default : dflt; l_validator : option vid; l_help : option string }.

Record nattrs := mk_nattrs {
  n_required : bool; n_vt : option (list ty); n_default : dflt; n_validator : option vid;
  n_dynamic : bool; n_populate : bool; n_help : option string }.

Inductive port :=
| PLeaf (a : lattrs)
| PNs (a : nattrs) (ps : ports)
with ports :=
| PNil
| PCons (n : string) (p : port) (rest : ports).

(* InputPort.__init__: required_override — a port with a default is never required *)
Definition input_leaf (required : bool) (vt : option (list ty)) (d : dflt) (validator : option vid)
    (help : option string) : port :=
  PLeaf (mk_lattrs (match d with DNone => required | _ => false end) vt d validator help).

(* PortNamespace() constructor defaults *)
Definition default_nattrs : nattrs := mk_nattrs true None DNone None false true None.

(* the valid_type setter: anything but None forces dynamic = True *)
Definition set_valid_type (a : nattrs) (vt : option (list ty)) : nattrs :=
  mk_nattrs (n_required a) vt (n_default a) (n_validator a)
            (match vt with Some _ => true | None => n_dynamic a end) (n_populate a) (n_help a).

(* ---- the _ports dict ---- *)
Fixpoint ports_get (n : string) (ps : ports) : option port :=
  match ps with
  | PNil => None
  | PCons n' p rest => if String.eqb n n' then Some p else ports_get n rest
  end.

Fixpoint ports_set (n : string) (p : port) (ps : ports) : ports :=
  match ps with
  | PNil => PCons n p PNil
  | PCons n' p' rest => if String.eqb n n' then PCons n p rest else PCons n' p' (ports_set n p rest)
  end.

Fixpoint ports_names (ps : ports) : list string :=
  match ps with PNil => [] | PCons n _ rest => n :: ports_names rest end.

Definition ports_empty (ps : ports) : bool := match ps with PNil => true | _ => false end.

Definition dflt_value (d : dflt) : option val :=
  match d with DNone => None | DVal v | DCall v => Some v end.

Section Ports.
  (* a validator either accepts (false) or returns a message (true); arbitrary user code *)
  Variable veval : vid -> val -> bool.

  Definition run_validator (v : option vid) (x : val) : bool :=   (* true = rejected *)
    match v with None => false | Some i => veval i x end.

  (* ---- Port.validate ---- true = valid *)
  Definition valid_leaf (a : lattrs) (v : val) : bool :=
    let unspec := is_unspec v in
    if unspec && l_required a then false
    else if negb unspec && match l_vt a with Some ts => negb (isinstance_any v ts) | None => false end then false
    else if negb unspec then negb (run_validator (l_validator a) v) else true.

  (* InputPort.__init__ validates a non-callable default at declaration time (ValueError) *)
  Fixpoint declared_defaults_ok (p : port) : bool :=
    match p with
    | PLeaf a => match l_default a with DVal v => valid_leaf a v | _ => true end
    | PNs _ ps => declared_defaults_ok_ports ps
    end
  with declared_defaults_ok_ports (ps : ports) : bool :=
    match ps with
    | PNil => true
    | PCons _ p rest => declared_defaults_ok p && declared_defaults_ok_ports rest
    end.

  (* ---- PortNamespace.validate_dynamic_ports, the recursive part on one value ---- *)
  Fixpoint dyn_value_ok (dynamic : bool) (ts : list ty) (v : val) {struct v} : bool :=
    let fix all_ok (kvs : list (string * val)) : bool :=
      match kvs with
      | [] => true
      | (_, x) :: rest => dyn_value_ok dynamic ts x && all_ok rest
      end in
    if truthy v && negb dynamic then false
    else match v with
         | VDict kvs => all_ok kvs
         | _ => isinstance_any v ts
         end.

  Definition valid_dynamic (a : nattrs) (rest : list (string * val)) : bool :=
    if negb (match rest with [] => true | _ => false end) && negb (n_dynamic a) then false
    else match n_vt a with
         | None => true
         | Some ts => forallb (fun kv => dyn_value_ok (n_dynamic a) ts (snd kv)) rest
         end.

  Definition mapping_items (v : val) : option (list (string * val)) :=
    match v with VDict m | VFrozen m => Some m | _ => None end.

  (* ---- PortNamespace.validate / Port.validate, by recursion on the port tree ----
     [valid_ports] is validate_ports: it pops each declared name and returns the remaining values. *)
  Fixpoint valid_port (p : port) (v : val) {struct p} : bool :=
    match p with
    | PLeaf a => valid_leaf a v
    | PNs a ps =>
        let pv := if truthy v then v else VDict [] in
        match mapping_items pv with
        | None => false
        | Some m =>
            if match m with [] => true | _ => false end && negb (n_required a) then true
            else match valid_ports ps m with
                 | None => false
                 | Some rest =>
                     valid_dynamic a rest && negb (run_validator (n_validator a) (VDict m))
                 end
        end
    end
  with valid_ports (ps : ports) (m : list (string * val)) {struct ps} : option (list (string * val)) :=
    match ps with
    | PNil => Some m
    | PCons n p rest =>
        let v := match alist_get n m with Some x => x | None => UNSPEC end in
        if valid_port p v then valid_ports rest (alist_del n m) else None
    end.

  (* ---- PortNamespace.pre_process ---- *)
  Fixpoint pre_process (ps : ports) (m : list (string * val)) {struct ps} : exn + list (string * val) :=
    match ps with
    | PNil => inr m
    | PCons n p rest =>
        let continue_with (m' : list (string * val)) := pre_process rest m' in
        match alist_get n m, p with
        | None, PLeaf a =>
            match dflt_value (l_default a) with
            | Some v => continue_with (alist_set n v m)
            | None => continue_with m
            end
        | Some v, PLeaf _ => continue_with (alist_set n v m)
        | None, PNs a sub =>
            if negb (n_populate a) then continue_with m
            else
              match dflt_value (n_default a) with
              | Some v =>
                  match v with
                  | VDict kvs =>
                      match pre_process sub kvs with
                      | inl e => inl e
                      | inr r => continue_with (alist_set n (VFrozen r) m)
                      end
                  | _ => inl EType
                  end
              | None =>
                  if ports_empty sub then continue_with m
                  else match pre_process sub [] with
                       | inl e => inl e
                       | inr r => continue_with (alist_set n (VFrozen r) m)
                       end
              end
        | Some v, PNs a sub =>
            match v with
            | VDict kvs =>
                match pre_process sub kvs with
                | inl e => inl e
                | inr r => continue_with (alist_set n (VFrozen r) m)
                end
            | _ => inl EType
            end
        end
    end.

  (* ---- Process.on_create, the inputs part.  [spec] is spec().inputs (a namespace);
     raw = None models `inputs=None`. ---- *)
  Definition construct (spec : port) (raw : option (list (string * val))) : exn + val :=
    match spec with
    | PLeaf _ => inl EType
    | PNs a ps =>
        let m := match raw with Some m => m | None => [] end in
        match pre_process ps m with
        | inl e => inl e
        | inr r => if valid_port spec (VFrozen r) then inr (VFrozen r) else inl EValue
        end
    end.

  (* ================= outputs (C12) ================= *)

  Fixpoint split_on (sep : ascii) (s : string) : list string :=
    match s with
    | EmptyString => [EmptyString]
    | String c rest =>
        if Ascii.eqb c sep then EmptyString :: split_on sep rest
        else match split_on sep rest with
             | [] => [String c EmptyString]
             | x :: xs => String c x :: xs
             end
    end.

  Definition split_path (s : string) : list string := split_on "."%char s.

  (* PortNamespace.get_port(name, create_dynamically=True) along a component list; returns the
     possibly extended namespace and the port found *)
  Fixpoint get_port_dyn (comps : list string) (a : nattrs) (ps : ports) {struct comps}
      : exn + (ports * port) :=
    match comps with
    | [] => inl EValue
    | c :: rest =>
        if String.eqb c "" then inl EValue      (* `if not name: raise ValueError` (only checked on the joined name; see out) *)
        else
        let found := ports_get c ps in
        match found with
        | None =>
            if negb (n_dynamic a) then inl EValue
            else
              (* self[port_name] = self.__class__(name, required=, validator=, valid_type=, default=, dynamic=, populate_defaults=) *)
              let a' := set_valid_type (mk_nattrs (n_required a) None (n_default a) (n_validator a)
                                                  (n_dynamic a) (n_populate a) None) (n_vt a) in
              let a'' := match n_vt a with
                         | None => a'
                         | Some _ => a'     (* `if valid_type is None: self.dynamic = dynamic` *)
                         end in
              match rest with
              | [] => inr (ports_set c (PNs a'' PNil) ps, PNs a'' PNil)
              | _ => match get_port_dyn rest a'' PNil with
                     | inl e => inl e      (* NB: in the code the created namespace stays even on error *)
                     | inr (sub', p) => inr (ports_set c (PNs a'' sub') ps, p)
                     end
              end
        | Some (PLeaf la) =>
            match rest with
            | [] => inr (ps, PLeaf la)
            | _ => inl EAttribute           (* a leaf Port has no get_port *)
            end
        | Some (PNs na sub) =>
            match rest with
            | [] => inr (ps, PNs na sub)
            | _ => match get_port_dyn rest na sub with
                   | inl e => inl e
                   | inr (sub', p) => inr (ports_set c (PNs na sub') ps, p)
                   end
            end
        end
    end.

  (* outputs dict: setdefault along the namespace, then assignment *)
  Fixpoint outputs_insert (comps : list string) (name : string) (v : val) (outs : list (string * val))
      : exn + list (string * val) :=
    match comps with
    | [] => inr (alist_set name v outs)
    | c :: rest =>
        match alist_get c outs with
        | None => match outputs_insert rest name v [] with
                  | inl e => inl e
                  | inr sub => inr (alist_set c (VDict sub) outs)
                  end
        | Some (VDict sub) => match outputs_insert rest name v sub with
                              | inl e => inl e
                              | inr sub' => inr (alist_set c (VDict sub') outs)
                              end
        | Some _ => inl EAttribute          (* 'int' object has no attribute 'setdefault' *)
        end
    end.

  Definition last_and_init (l : list string) : list string * string :=
    (removelast l, last l "").

  Record out_res := mk_out_res {
    or_spec : port;                                   (* spec().outputs afterwards: get_port may have created namespaces *)
    or_result : exn + (list (string * val) * bool)    (* new outputs and the `dynamic` flag told to listeners, or the error *)
  }.

  (* Process.out(output_port, value) on spec().outputs = PNs a ps and self._outputs = outs *)
  Definition out (spec : port) (outs : list (string * val)) (path : string) (v : val) : out_res :=
    match spec with
    | PLeaf _ => mk_out_res spec (inl EType)
    | PNs a ps =>
        let '(ns, name) := last_and_init (split_path path) in
        let located : exn + (ports * port) :=
          match ns with
          | [] => inr (ps, spec)
          | _ => get_port_dyn ns a ps
          end in
        match located with
        | inl e => mk_out_res spec (inl e)
        | inr (ps', target) =>
            let spec' := PNs a ps' in
            match target with
            | PLeaf _ => mk_out_res spec' (inl EType)    (* 'OutputPort' object is not subscriptable *)
            | PNs ta tps =>
                let check :=
                  match ports_get name tps with
                  | Some p => (false, valid_port p v)
                  | None => (true, valid_dynamic ta [(name, v)])
                  end in
                if negb (snd check) then mk_out_res spec' (inl EValue)
                else match outputs_insert ns name v outs with
                     | inl e => mk_out_res spec' (inl e)
                     | inr outs' => mk_out_res spec' (inr (outs', fst check))
                     end
            end
        end
    end.

  (* on_finish: `if successful: validation_error = outputs.validate(self.outputs)` *)
  Definition finish_successful (spec : port) (outs : list (string * val)) (returned_ok : bool) : bool :=
    returned_ok && valid_port spec (VDict outs).

  (* ================= absorb / expose (C15) ================= *)

  Fixpoint prefixb (p s : string) : bool :=       (* s.startswith(p) *)
    match p, s with
    | EmptyString, _ => true
    | String a p', String b s' => Ascii.eqb a b && prefixb p' s'
    | _, _ => false
    end.

  Fixpoint drop (n : nat) (s : string) : string :=
    match n, s with
    | 0, _ => s
    | S n', String _ s' => drop n' s'
    | S _, EmptyString => EmptyString
    end.

  Definition strip_namespace (ns : string) (rules : option (list string)) : option (list string) :=
    match rules with
    | None => None
    | Some rs =>
        let prefix := ns ++ "." in
        Some (map (drop (String.length prefix)) (filter (prefixb prefix) rs))
    end.

  Definition rules_nonempty (r : option (list string)) : bool :=
    match r with Some (_ :: _) => true | _ => false end.     (* `if exclude and ...` *)

  Definition in_rules (n : string) (r : option (list string)) : bool :=
    match r with Some rs => existsb (String.eqb n) rs | None => false end.

  (* namespace_options: property name -> new value *)
  Inductive optval :=
  | OBool (b : bool) | OVt (vt : option (list ty)) | ODflt (d : dflt) | OVid (v : option vid) | OHelp (h : option string).

  Definition opt_bool (o : option optval) (dfl : bool) : exn + bool :=
    match o with None => inr dfl | Some (OBool b) => inr b | Some _ => inl EType end.

  (* `for attr in dir(port_namespace): if is_mutable_property(...): setattr(self, attr, options.pop(attr, getattr(src, attr)))`
     in dir() order: default, dynamic, help, populate_defaults, required, valid_type, validator;
     leftover options -> ValueError *)
  Definition known_props : list string :=
    ["default"; "dynamic"; "help"; "populate_defaults"; "required"; "valid_type"; "validator"].

  Definition absorb_attrs (src : nattrs) (opts : list (string * optval)) : exn + nattrs :=
    let get k := alist_get k opts in
    let dfl := match get "default" with Some (ODflt d) => d | _ => n_default src end in
    let dyn := match get "dynamic" with Some (OBool b) => b | _ => n_dynamic src end in
    let hlp := match get "help" with Some (OHelp h) => h | _ => n_help src end in
    let pop := match get "populate_defaults" with Some (OBool b) => b | _ => n_populate src end in
    let req := match get "required" with Some (OBool b) => b | _ => n_required src end in
    let vt := match get "valid_type" with Some (OVt t) => t | _ => n_vt src end in
    let vld := match get "validator" with Some (OVid v) => v | _ => n_validator src end in
    if forallb (fun kv => existsb (String.eqb (fst kv)) known_props) opts
    then inr (set_valid_type (mk_nattrs req None dfl vld dyn pop hlp) vt)
    else inl EValue.

  (* PortNamespace.absorb.  self = (da, dps); returns the new self and the absorbed names.
     Fuel-free: structural recursion on the source ports. *)
  Fixpoint absorb_ports (src : ports) (dps : ports) (exclude include : option (list string))
      {struct src} : ports * list string :=
    match src with
    | PNil => (dps, [])
    | PCons n p rest =>
        let skip := absorb_ports rest dps exclude include in
        if rules_nonempty exclude && in_rules n exclude then skip
        else
          match p with
          | PNs a sub =>
              if rules_nonempty include
                 && negb (match include with
                          | Some rs => existsb (fun r => String.eqb r n || prefixb (n ++ ".") r) rs
                          | None => false
                          end)
              then skip
              else
                let sub_ex := strip_namespace n exclude in
                let sub_in := strip_namespace n include in
                (* self[n] = copy.copy(port); ._ports = {}; .absorb(port, sub_ex, sub_in) *)
                let '(sub', _) := absorb_ports sub PNil sub_ex sub_in in
                let a' := set_valid_type (mk_nattrs (n_required a) None (n_default a) (n_validator a)
                                                    (n_dynamic a) (n_populate a) (n_help a)) (n_vt a) in
                let '(dps', names) := absorb_ports rest (ports_set n (PNs a' sub') dps) exclude include in
                (dps', n :: names)
          | PLeaf la =>
              if rules_nonempty include && negb (in_rules n include) then skip
              else
                let '(dps', names) := absorb_ports rest (ports_set n (PLeaf la) dps) exclude include in
                (dps', n :: names)
          end
    end.

  Definition absorb (dst : port) (src : port) (exclude include : option (list string))
      (opts : list (string * optval)) : exn + (port * list string) :=
    match dst, src with
    | PNs da dps, PNs sa sps =>
        match exclude, include with
        | Some _, Some _ => inl EValue                 (* mutually exclusive *)
        | _, _ =>
            match absorb_attrs sa opts with
            | inl e => inl e
            | inr a' =>
                let '(dps', names) := absorb_ports sps dps exclude include in
                inr (PNs a' dps', names)
            end
        end
    | _, _ => inl EValue
    end.

  (* PortNamespace.create_port_namespace(name) along a component list (no kwargs: as used by expose) *)
  Fixpoint create_port_namespace (comps : list string) (ps : ports) {struct comps} : exn + ports :=
    match comps with
    | [] => inl EValue
    | c :: rest =>
        match ports_get c ps with
        | Some (PLeaf _) => inl EValue
        | Some (PNs a sub) =>
            match rest with
            | [] => inr ps
            | _ => match create_port_namespace rest sub with
                   | inl e => inl e
                   | inr sub' => inr (ports_set c (PNs a sub') ps)
                   end
            end
        | None =>
            match rest with
            | [] => inr (ports_set c (PNs default_nattrs PNil) ps)
            | _ => match create_port_namespace rest PNil with
                   | inl e => inl e          (* NB: cannot happen on a fresh namespace *)
                   | inr sub' => inr (ports_set c (PNs default_nattrs sub') ps)
                   end
            end
        end
    end.

  (* apply f to the namespace at a component path *)
  Fixpoint update_at (comps : list string) (f : port -> exn + port) (p : port) {struct comps} : exn + port :=
    match comps with
    | [] => f p
    | c :: rest =>
        match p with
        | PLeaf _ => inl EValue
        | PNs a ps =>
            match ports_get c ps with
            | None => inl EValue
            | Some q => match update_at rest f q with
                        | inl e => inl e
                        | inr q' => inr (PNs a (ports_set c q' ps))
                        end
            end
        end
    end.

  (* ProcessSpec._expose_ports(source, destination, namespace, exclude, include, namespace_options) *)
  Definition expose (dst src : port) (namespace : option string) (exclude include : option (list string))
      (opts : list (string * optval)) : exn + port :=
    if rules_nonempty exclude && match include with Some _ => true | None => false end then inl EValue
    else
      match namespace with
      | Some ns =>
          if String.eqb ns "" then
            match absorb dst src exclude include opts with inl e => inl e | inr (d, _) => inr d end
          else
            match dst with
            | PLeaf _ => inl EValue
            | PNs da dps =>
                let comps := split_path ns in
                match create_port_namespace comps dps with
                | inl e => inl e
                | inr dps' =>
                    update_at comps (fun target =>
                      match absorb target src exclude include opts with inl e => inl e | inr (d, _) => inr d end)
                      (PNs da dps')
                end
            end
      | None =>
          match absorb dst src exclude include opts with inl e => inl e | inr (d, _) => inr d end
      end.
End Ports.
