(* Ports/PortProofsC15.v — proofs for property C15 (model: PortModel.v, specification: PortSpec.v). *)
From Coq Require Import List ZArith String Bool Lia.
From Plumpy Require Import Val PortModel PortSpec.
Import ListNotations.

Section C15.
  (* TO BE PROVED.  Hypotheses may be weakened or adjusted to what is really needed (e.g. a condition that
     the components of every rule are good names); report every hypothesis you had to add.

  (1) string level = component level: the rule-stripping, string-prefix algorithm of absorb computes the
      component-wise selection.
  Theorem absorb_ports_select : forall sps dps ex inc,
    good_names_ports sps = true -> wf_ports sps = true -> names_unique sps = true ->
    (ex = None \/ inc = None) ->
    fst (absorb_ports sps dps ex inc) = assign_all (select (ruleset_of ex inc) [] sps) dps
    /\ snd (absorb_ports sps dps ex inc) = ports_names (select (ruleset_of ex inc) [] sps).

  (2) pointwise meaning of the selection: a leaf of the source is in the selection iff a rule selects its path
      (include: some rule is a component-prefix of it; exclude: none is), with its attributes; nothing else is.
  Theorem select_leaf : forall R a sps q la,
    wf_ports sps = true -> names_unique sps = true ->
    (lookup_port q (PNs a (select R [] sps)) = Some (PLeaf la) <->
     lookup_port q (PNs a sps) = Some (PLeaf la) /\ q <> [] /\ leaf_selected R q = true).
  Theorem select_ns : forall R a sps q na sub,
    wf_ports sps = true -> names_unique sps = true -> q <> [] ->
    lookup_port q (PNs a (select R [] sps)) = Some (PNs na sub) ->
    exists na' sub', lookup_port q (PNs a sps) = Some (PNs na' sub') /\ na = set_valid_type na' (n_vt na')
                     /\ ns_selected R q = true.
  (for exclude rules and RAll also the converse of select_ns holds; for include rules a namespace appears iff
   ns_selected and all its ancestors are ns_selected — state and prove the strongest version you can.)

  (3) the destination: other ports stay, selected ones are assigned by name.
  Theorem assign_all_other : forall X dps k,
    existsb (String.eqb k) (ports_names X) = false -> ports_get k (assign_all X dps) = ports_get k dps.
  Theorem assign_all_selected : forall X dps k p,
    names_unique X = true -> ports_get k X = Some p -> ports_get k (assign_all X dps) = Some p.

  (4) absorb as a whole, and the mutual exclusion:
  Theorem absorb_spec : forall dst src ex inc opts d names,
    good_names src = true -> wf_port src = true ->
    absorb dst src ex inc opts = inr (d, names) ->
    exists da dps sa sps a',
      dst = PNs da dps /\ src = PNs sa sps /\ (ex = None \/ inc = None) /\ absorb_attrs sa opts = inr a'
      /\ d = PNs a' (assign_all (select (ruleset_of ex inc) [] sps) dps)
      /\ names = ports_names (select (ruleset_of ex inc) [] sps).
  Theorem absorb_exclusive : forall dst src ex inc opts,
    absorb dst src (Some ex) (Some inc) opts = inl EValue
    \/ (exists la, dst = PLeaf la) \/ (exists la, src = PLeaf la).
  (5) the namespace properties: source's unless overridden; an unknown option is an error; valid_type <> None forces dynamic.
  Theorem absorb_attrs_spec : forall sa opts a',
    absorb_attrs sa opts = inr a' ->
    (forall k, alist_mem k opts = true -> existsb (String.eqb k) known_props = true)
    /\ n_vt a' = match alist_get "valid_type" opts with Some (OVt t) => t | _ => n_vt sa end
    /\ (n_vt a' <> None -> n_dynamic a' = true)
    /\ (n_vt a' = None -> n_dynamic a' = match alist_get "dynamic" opts with Some (OBool b) => b | _ => n_dynamic sa end)
    /\ n_required a' = match alist_get "required" opts with Some (OBool b) => b | _ => n_required sa end
    /\ n_populate a' = match alist_get "populate_defaults" opts with Some (OBool b) => b | _ => n_populate sa end
    /\ n_help a' = match alist_get "help" opts with Some (OHelp h) => h | _ => n_help sa end
    /\ n_validator a' = match alist_get "validator" opts with Some (OVid v) => v | _ => n_validator sa end
    /\ n_default a' = match alist_get "default" opts with Some (ODflt d) => d | _ => n_default sa end.
  Theorem absorb_attrs_unknown : forall sa opts k v,
    alist_get k opts = Some v -> existsb (String.eqb k) known_props = false -> absorb_attrs sa opts = inl EValue.
  *)
End C15.
