(* Ports/PortProofsC15.v — proofs for property C15 (model: PortModel.v, specification: PortSpec.v).

   What is proved (all Qed, closed under the global context):
   (1) absorb_ports_select   the rule-stripping, string-prefix algorithm of absorb computes the
                             component-wise selection [select (ruleset_of ex inc) []]
   (2) select_leaf, select_ns, select_ns_iff, select_ns_converse
                             pointwise meaning of the selection
   (3) assign_all_other, assign_all_selected
   (4) absorb_spec, absorb_exclusive
   (5) absorb_attrs_spec, absorb_attrs_unknown

   Changes w.r.t. the statements first proposed:
   * absorb_ports_select and absorb_spec have ONE extra hypothesis,
       include_antichain (ruleset_of ex inc) = true
     (no include rule is a proper ancestor of another include rule; nothing is asked of exclude
     rules).  It is necessary: see [antichain_needed] below — with include = ["n"; "n.x"] the code
     strips the rule "n" away when it descends into n, keeps ["x"], and exposes only n.x, whereas
     the rule "n" selects all of n.  This is the property's own quantifier ("no rule being an
     ancestor of another rule in the same set").
   * no hypothesis on the rules' components is needed (rules such as "", "n." or "n..x" are fine);
     port names must be good names (good_names_ports), which is necessary (a port called "a.b" is
     excluded by the rule "a.b" in the code but not at component level).
   * wf_ports is used (only) to know that nested namespaces have unique names: the code builds the
     copy of a namespace by successive assignments into an empty dict; names_unique of the top level
     is not used by (1). *)
From Coq Require Import List ZArith String Bool Ascii Lia.
From Plumpy Require Import Val PortModel PortSpec.
Import ListNotations.
Local Open Scope string_scope.

Scheme port_mut := Induction for port Sort Prop
  with ports_mut := Induction for ports Sort Prop.
Combined Scheme port_ports_ind from port_mut, ports_mut.

Section C15.

  (* ---------- strings ---------- *)
  Lemma app_assoc_s : forall a b c : string, (a ++ b) ++ c = a ++ (b ++ c).
  Proof. induction a as [|ch a IH]; intros b c; simpl; [reflexivity | now rewrite IH]. Qed.

  Lemma prefixb_app : forall a b c, prefixb (a ++ b) (a ++ c) = prefixb b c.
  Proof.
    induction a as [|ch a IH]; intros b c; simpl; [reflexivity|].
    rewrite Ascii.eqb_refl; simpl; apply IH.
  Qed.

  Lemma prefixb_true : forall p s, prefixb p s = true -> exists r, s = p ++ r.
  Proof.
    induction p as [|ch p IH]; intros s H; simpl in *.
    - now exists s.
    - destruct s as [|b s]; [discriminate|].
      apply andb_true_iff in H as [H1 H2]. apply Ascii.eqb_eq in H1; subst b.
      destruct (IH _ H2) as [r Hr]. exists r. now rewrite Hr.
  Qed.

  Lemma drop_app : forall a b c, drop (String.length (a ++ b)) (a ++ c) = drop (String.length b) c.
  Proof. induction a as [|ch a IH]; intros b c; simpl; [reflexivity | apply IH]. Qed.

  Lemma prefixb_self_dot : forall n, prefixb (n ++ ".") n = false.
  Proof.
    induction n as [|ch n IH]; simpl; [reflexivity|].
    rewrite Ascii.eqb_refl; simpl; exact IH.
  Qed.

  Lemma split_on_nonnil : forall c s, split_on c s <> [].
  Proof.
    intros c s; destruct s as [|a s]; simpl; [discriminate|].
    destruct (Ascii.eqb a c); [discriminate|].
    destruct (split_on c s); discriminate.
  Qed.

  Lemma split_path_nonnil : forall s, split_path s <> [].
  Proof. intros s; apply split_on_nonnil. Qed.

  Lemma split_path_dot : forall n r, sep_free n = true ->
    split_path (n ++ "." ++ r) = n :: split_path r.
  Proof.
    unfold split_path.
    induction n as [|ch n IH]; intros r Hn; simpl in *.
    - reflexivity.
    - apply andb_true_iff in Hn as [H1 H2].
      apply negb_true_iff in H1. rewrite H1.
      simpl in IH. rewrite (IH r H2). reflexivity.
  Qed.

  Lemma split_path_single : forall n, sep_free n = true -> split_path n = [n].
  Proof.
    unfold split_path.
    induction n as [|ch n IH]; intros Hn; simpl in *.
    - reflexivity.
    - apply andb_true_iff in Hn as [H1 H2].
      apply negb_true_iff in H1. rewrite H1. rewrite (IH H2). reflexivity.
  Qed.

  (* the head of a split, read back on the string *)
  Lemma split_hd : forall s x xs, split_path s = x :: xs ->
    (xs = [] /\ s = x) \/ (exists s', s = x ++ "." ++ s' /\ xs = split_path s').
  Proof.
    unfold split_path.
    induction s as [|ch s IH]; intros x xs H; simpl in H.
    - inversion H; subst. now left.
    - destruct (Ascii.eqb ch ".") eqn:E.
      + apply Ascii.eqb_eq in E; subst ch. inversion H; subst. right. exists s. split; reflexivity.
      + destruct (split_on "." s) as [|y ys] eqn:Es.
        * exfalso. exact (split_on_nonnil _ _ Es).
        * inversion H; subst.
          destruct (IH y xs eq_refl) as [[Hx Hs] | [s' [Hs Hx]]].
          -- left. split; [assumption | now rewrite Hs].
          -- right. exists s'. split; [now rewrite Hs | assumption].
  Qed.

  (* trichotomy of a rule string w.r.t. a separator-free name *)
  Lemma rule_cases : forall n s, sep_free n = true ->
    (s = n /\ split_path s = [n])
    \/ (exists s', s = n ++ "." ++ s' /\ split_path s = n :: split_path s')
    \/ (s <> n /\ prefixb (n ++ ".") s = false /\ exists x xs, split_path s = x :: xs /\ x <> n).
  Proof.
    intros n s Hn.
    destruct (split_path s) as [|x xs] eqn:Es; [exfalso; exact (split_path_nonnil _ Es)|].
    destruct (String.eqb x n) eqn:Ex.
    - apply String.eqb_eq in Ex; subst x.
      destruct (split_hd _ _ _ Es) as [[Hx Hs] | [s' [Hs Hx]]].
      + left. subst. split; reflexivity.
      + right; left. exists s'. subst xs. split; [assumption | reflexivity].
    - apply String.eqb_neq in Ex. right; right. split; [|split].
      + intros ->. rewrite (split_path_single _ Hn) in Es. inversion Es; subst. now apply Ex.
      + destruct (prefixb (n ++ ".") s) eqn:Ep; [|reflexivity].
        apply prefixb_true in Ep as [r Hr]. rewrite app_assoc_s in Hr. subst s.
        rewrite (split_path_dot _ _ Hn) in Es. inversion Es; subst. now elim Ex.
      + exists x, xs. split; [reflexivity | assumption].
  Qed.

  (* ---------- component paths ---------- *)
  Lemma is_prefix_refl : forall p, is_prefix p p = true.
  Proof. induction p as [|x p IH]; simpl; [reflexivity | now rewrite String.eqb_refl]. Qed.

  Lemma is_prefix_nil_r : forall r, is_prefix r [] = true -> r = [].
  Proof. intros [|x r] H; [reflexivity | discriminate]. Qed.

  Lemma is_prefix_antisym : forall a b, is_prefix a b = true -> is_prefix b a = true -> a = b.
  Proof.
    induction a as [|x a IH]; intros [|y b] H1 H2; simpl in *; try discriminate; [reflexivity|].
    apply andb_true_iff in H1 as [H1 H1']. apply andb_true_iff in H2 as [_ H2'].
    apply String.eqb_eq in H1; subst y. f_equal. now apply IH.
  Qed.

  Lemma is_prefix_app_l : forall r p q, is_prefix r p = true -> is_prefix r (p ++ q)%list = true.
  Proof.
    induction r as [|x r IH]; intros [|y p] q H; simpl in *; try discriminate; try reflexivity.
    apply andb_true_iff in H as [H1 H2]. rewrite H1; simpl. now apply IH.
  Qed.

  Lemma is_prefix_app_cases : forall r p q, is_prefix r (p ++ q)%list = true ->
    is_prefix r p = true \/ is_prefix p r = true.
  Proof.
    induction r as [|x r IH]; intros [|y p] q H; simpl in *; auto.
    apply andb_true_iff in H as [H1 H2]. rewrite H1. rewrite String.eqb_sym in H1. rewrite H1. simpl.
    now apply IH with q.
  Qed.

  (* the string-level stripping of rules *)
  Definition sstrip (n : string) (rs : list string) : list string :=
    map (drop (String.length (n ++ "."))) (filter (prefixb (n ++ ".")) rs).

  Lemma strip_namespace_Some : forall n rs, strip_namespace n (Some rs) = Some (sstrip n rs).
  Proof. reflexivity. Qed.

  Lemma sstrip_cons : forall n s rs, sstrip n (s :: rs) =
    if prefixb (n ++ ".") s then drop (String.length (n ++ ".")) s :: sstrip n rs else sstrip n rs.
  Proof. intros n s rs; unfold sstrip; simpl. now destruct (prefixb (n ++ ".") s). Qed.

  Lemma strip_dot : forall n s', 
    prefixb (n ++ ".") (n ++ "." ++ s') = true /\ drop (String.length (n ++ ".")) (n ++ "." ++ s') = s'.
  Proof.
    intros n s'. split.
    - rewrite prefixb_app. reflexivity.
    - rewrite drop_app. reflexivity.
  Qed.

  Lemma in_sstrip : forall n rs t, In t (sstrip n rs) -> In (n ++ "." ++ t) rs.
  Proof.
    intros n rs t H. unfold sstrip in H. apply in_map_iff in H as [s [Hs Hin]].
    apply filter_In in Hin as [Hin Hp].
    apply prefixb_true in Hp as [r Hr]. rewrite app_assoc_s in Hr. subst s.
    destruct (strip_dot n r) as [_ Hd]. rewrite Hd in Hs. subst t. assumption.
  Qed.

  Lemma sstrip_nil_or : forall n rs, sstrip n rs = [] \/ exists s', In (n ++ "." ++ s') rs.
  Proof.
    intros n rs. destruct (sstrip n rs) as [|t ts] eqn:E; [now left|].
    right. exists t. apply in_sstrip. rewrite E. now left.
  Qed.

  (* the same trichotomy, with everything absorb computes on the rule *)
  Lemma rule_cases' : forall n s, sep_free n = true ->
    (s = n /\ split_path s = [n] /\ prefixb (n ++ ".") s = false)
    \/ (exists s', split_path s = n :: split_path s' /\ prefixb (n ++ ".") s = true
                   /\ drop (String.length (n ++ ".")) s = s' /\ s <> n)
    \/ (s <> n /\ prefixb (n ++ ".") s = false /\ exists x xs, split_path s = x :: xs /\ x <> n).
  Proof.
    intros n s Hn.
    destruct (rule_cases n s Hn) as [[Hs Hsp] | [[s' [Hs Hsp]] | H3]].
    - left. subst s. repeat split; [assumption | apply prefixb_self_dot].
    - right; left. exists s'. destruct (strip_dot n s') as [Hp Hd]. rewrite <- Hs in Hp, Hd.
      repeat split; try assumption.
      intros Heq. rewrite Heq in Hsp. rewrite (split_path_single _ Hn) in Hsp.
      inversion Hsp as [Hnil]. symmetry in Hnil. now apply split_path_nonnil in Hnil.
    - right; right. exact H3.
  Qed.

  Lemma existsb_map : forall {A B} (f : B -> bool) (g : A -> B) l,
    existsb f (map g l) = existsb (fun x => f (g x)) l.
  Proof. intros A B f g l; induction l as [|x l IH]; simpl; [reflexivity | now rewrite IH]. Qed.

  Lemma existsb_ext' : forall {A} (f g : A -> bool) l, (forall x, f x = g x) -> existsb f l = existsb g l.
  Proof. intros A f g l H; induction l as [|x l IH]; simpl; [reflexivity | now rewrite H, IH]. Qed.

  Lemma existsb_sstrip : forall n (F G : string -> bool) rs,
    (forall s, F s = String.eqb n s || (prefixb (n ++ ".") s && G (drop (String.length (n ++ ".")) s))) ->
    existsb F rs = existsb (String.eqb n) rs || existsb G (sstrip n rs).
  Proof.
    intros n F G rs HF. induction rs as [|s rs IH]; [reflexivity|].
    rewrite sstrip_cons. cbn [existsb]. rewrite IH, HF.
    destruct (String.eqb n s); destruct (prefixb (n ++ ".") s); cbn [existsb orb andb];
      try reflexivity.
    - destruct (G (drop (String.length (n ++ ".")) s)); cbn [orb]; [|reflexivity].
      now rewrite orb_true_r.
  Qed.

  Lemma neq_eqb : forall a b : string, a <> b -> String.eqb a b = false.
  Proof. intros a b H; now apply String.eqb_neq. Qed.
  Lemma neq_eqb' : forall a b : string, a <> b -> String.eqb b a = false.
  Proof. intros a b H; apply String.eqb_neq; congruence. Qed.

  (* one rule against a path below n *)
  Lemma rule_leaf : forall n s q, sep_free n = true ->
    is_prefix (split_path s) (n :: q)
    = String.eqb n s || (prefixb (n ++ ".") s && is_prefix (split_path (drop (String.length (n ++ ".")) s)) q).
  Proof.
    intros n s q Hn.
    destruct (rule_cases' n s Hn) as [[Hs [Hsp Hp]] | [[s' [Hsp [Hp [Hd Hne]]]] | [Hne [Hp [x [xs [Hsp Hx]]]]]]].
    - rewrite Hsp, Hp. subst s. cbn [is_prefix]. now rewrite String.eqb_refl.
    - rewrite Hsp, Hp, Hd. rewrite (neq_eqb' _ _ Hne). cbn [is_prefix]. now rewrite String.eqb_refl.
    - rewrite Hsp, Hp. rewrite (neq_eqb' _ _ Hne). cbn [is_prefix]. now rewrite (neq_eqb _ _ Hx).
  Qed.

  Lemma rule_ns : forall n s q, sep_free n = true ->
    is_prefix (split_path s) (n :: q) || is_prefix (n :: q) (split_path s)
    = String.eqb n s || (prefixb (n ++ ".") s &&
         (is_prefix (split_path (drop (String.length (n ++ ".")) s)) q
          || is_prefix q (split_path (drop (String.length (n ++ ".")) s)))).
  Proof.
    intros n s q Hn.
    destruct (rule_cases' n s Hn) as [[Hs [Hsp Hp]] | [[s' [Hsp [Hp [Hd Hne]]]] | [Hne [Hp [x [xs [Hsp Hx]]]]]]].
    - rewrite Hsp, Hp. subst s. cbn [is_prefix]. now rewrite String.eqb_refl.
    - rewrite Hsp, Hp, Hd. rewrite (neq_eqb' _ _ Hne). cbn [is_prefix]. now rewrite String.eqb_refl.
    - rewrite Hsp, Hp. rewrite (neq_eqb' _ _ Hne). cbn [is_prefix].
      now rewrite (neq_eqb _ _ Hx), (neq_eqb' _ _ Hx).
  Qed.

  Lemma existsb_strip_leaf : forall n rs q, sep_free n = true ->
    existsb (fun r => is_prefix r (n :: q)) (map split_path rs)
    = existsb (String.eqb n) rs || existsb (fun r => is_prefix r q) (map split_path (sstrip n rs)).
  Proof.
    intros n rs q Hn. rewrite !existsb_map.
    apply existsb_sstrip with (G := fun s => is_prefix (split_path s) q).
    intros s. now apply rule_leaf.
  Qed.

  Lemma existsb_strip_ns : forall n rs q, sep_free n = true ->
    existsb (fun r => is_prefix r (n :: q) || is_prefix (n :: q) r) (map split_path rs)
    = existsb (String.eqb n) rs
      || existsb (fun r => is_prefix r q || is_prefix q r) (map split_path (sstrip n rs)).
  Proof.
    intros n rs q Hn. rewrite !existsb_map.
    apply existsb_sstrip with (G := fun s => is_prefix (split_path s) q || is_prefix q (split_path s)).
    intros s. now apply rule_ns.
  Qed.

  (* the rule tests of absorb at the current level *)
  Lemma is_prefix_single : forall n s, sep_free n = true ->
    is_prefix (split_path s) [n] = String.eqb n s.
  Proof.
    intros n s Hn. rewrite rule_leaf by assumption.
    destruct (String.eqb n s); [reflexivity|]. cbn [orb].
    destruct (prefixb (n ++ ".") s); [|reflexivity]. cbn [andb].
    destruct (split_path (drop (String.length (n ++ ".")) s)) eqn:E; [now apply split_path_nonnil in E | reflexivity].
  Qed.

  Lemma ns_test_single : forall n s, sep_free n = true ->
    is_prefix (split_path s) [n] || is_prefix [n] (split_path s)
    = String.eqb s n || prefixb (n ++ ".") s.
  Proof.
    intros n s Hn. rewrite rule_ns by assumption. rewrite (String.eqb_sym s n).
    destruct (String.eqb n s); [reflexivity|]. cbn [orb].
    destruct (prefixb (n ++ ".") s); [|reflexivity]. cbn [andb is_prefix].
    now rewrite orb_true_r.
  Qed.

  (* ---------- antichains of include rules ---------- *)
  Definition antichainb (rs : list path) : bool :=
    forallb (fun r1 => forallb (fun r2 => negb (is_prefix r1 r2) || is_prefix r2 r1) rs) rs.

  (* no include rule is a proper ancestor of another include rule (exclude rules are unconstrained) *)
  Definition include_antichain (R : ruleset) : bool :=
    match R with RInclude rs => antichainb rs | _ => true end.

  Definition antichain (rs : list path) : Prop :=
    forall r1 r2, In r1 rs -> In r2 rs -> is_prefix r1 r2 = true -> r1 = r2.

  Definition antichainR (R : ruleset) : Prop :=
    match R with RInclude rs => antichain rs | _ => True end.

  Lemma antichainb_spec : forall rs, antichainb rs = true -> antichain rs.
  Proof.
    intros rs H r1 r2 H1 H2 Hp. unfold antichainb in H.
    rewrite forallb_forall in H. specialize (H r1 H1). rewrite forallb_forall in H.
    specialize (H r2 H2). rewrite Hp in H. cbn in H. now apply is_prefix_antisym.
  Qed.

  Lemma include_antichain_spec : forall R, include_antichain R = true -> antichainR R.
  Proof. intros [|rs|rs] H; cbn in *; auto. now apply antichainb_spec. Qed.

  Lemma antichain_strip : forall n rs, sep_free n = true ->
    antichain (map split_path rs) -> antichain (map split_path (sstrip n rs)).
  Proof.
    intros n rs Hn HA r1 r2 H1 H2 Hp.
    apply in_map_iff in H1 as [t1 [E1 I1]]. apply in_map_iff in H2 as [t2 [E2 I2]].
    apply in_sstrip in I1. apply in_sstrip in I2.
    apply (in_map split_path) in I1. apply (in_map split_path) in I2.
    rewrite (split_path_dot _ _ Hn) in I1. rewrite (split_path_dot _ _ Hn) in I2. rewrite E1 in I1. rewrite E2 in I2.
    assert (Hc : is_prefix (n :: r1) (n :: r2) = true)
      by (cbn [is_prefix]; now rewrite String.eqb_refl).
    specialize (HA _ _ I1 I2 Hc). now inversion HA.
  Qed.

  Lemma antichain_single : forall n rs, sep_free n = true ->
    antichain (map split_path rs) -> existsb (String.eqb n) rs = true -> sstrip n rs = [].
  Proof.
    intros n rs Hn HA Hex.
    destruct (sstrip_nil_or n rs) as [H | [s' Hs']]; [assumption | exfalso].
    apply existsb_exists in Hex as [x [Hx Hxn]]. apply String.eqb_eq in Hxn; subst x.
    apply (in_map split_path) in Hx. apply (in_map split_path) in Hs'.
    rewrite (split_path_single _ Hn) in Hx. rewrite (split_path_dot _ _ Hn) in Hs'.
    assert (Hc : is_prefix [n] (n :: split_path s') = true)
      by (cbn [is_prefix]; now rewrite String.eqb_refl).
    specialize (HA _ _ Hx Hs' Hc). inversion HA as [Hnil]. symmetry in Hnil.
    now apply split_path_nonnil in Hnil.
  Qed.

  Lemma include_test_sstrip : forall n rs,
    existsb (fun r => String.eqb r n || prefixb (n ++ ".") r) rs = true ->
    existsb (String.eqb n) rs = false -> sstrip n rs <> [].
  Proof.
    intros n rs. induction rs as [|s rs IH]; cbn [existsb]; intros H1 H2; [discriminate|].
    rewrite sstrip_cons. apply orb_false_iff in H2 as [H2 H2'].
    rewrite String.eqb_sym in H2. rewrite H2 in H1. cbn [orb] in H1.
    destruct (prefixb (n ++ ".") s); [discriminate|]. cbn [orb] in H1. now apply IH.
  Qed.

  (* ---------- the selection only depends on what the rules say below the current path ---------- *)
  Lemma select_ext_aux : forall ps R1 R2 at1 at2,
    (forall q, leaf_selected R1 (at1 ++ q)%list = leaf_selected R2 (at2 ++ q)%list) ->
    (forall q, ns_selected R1 (at1 ++ q)%list = ns_selected R2 (at2 ++ q)%list) ->
    select R1 at1 ps = select R2 at2 ps.
  Proof.
    intros ps.
    apply (ports_mut
      (fun p => match p with
                | PLeaf _ => True
                | PNs _ sub => forall R1 R2 at1 at2,
                    (forall q, leaf_selected R1 (at1 ++ q)%list = leaf_selected R2 (at2 ++ q)%list) ->
                    (forall q, ns_selected R1 (at1 ++ q)%list = ns_selected R2 (at2 ++ q)%list) ->
                    select R1 at1 sub = select R2 at2 sub
                end)
      (fun ps => forall R1 R2 at1 at2,
                    (forall q, leaf_selected R1 (at1 ++ q)%list = leaf_selected R2 (at2 ++ q)%list) ->
                    (forall q, ns_selected R1 (at1 ++ q)%list = ns_selected R2 (at2 ++ q)%list) ->
                    select R1 at1 ps = select R2 at2 ps)); clear ps.
    - intros a. exact I.
    - intros a ps IH. exact IH.
    - intros R1 R2 at1 at2 HL HN. reflexivity.
    - intros n p IHp rest IHrest R1 R2 at1 at2 HL HN.
      cbn [select]. rewrite (IHrest R1 R2 at1 at2 HL HN).
      destruct p as [la | na sub].
      + now rewrite HL.
      + rewrite HN. rewrite (IHp R1 R2 (at1 ++ [n])%list (at2 ++ [n])%list); [reflexivity| |].
        * intros q. rewrite <- !app_assoc. apply HL.
        * intros q. rewrite <- !app_assoc. apply HN.
  Qed.

  Lemma select_descend : forall ps R R' n,
    (forall q, leaf_selected R (n :: q) = leaf_selected R' q) ->
    (forall q, ns_selected R (n :: q) = ns_selected R' q) ->
    select R [n] ps = select R' [] ps.
  Proof. intros ps R R' n HL HN. apply select_ext_aux; intros q; cbn [app]; [apply HL | apply HN]. Qed.

  (* ---------- the rule sets, read semantically ---------- *)
  Lemma leaf_excl : forall l q,
    leaf_selected (ruleset_of (Some l) None) q = negb (existsb (fun r => is_prefix r q) (map split_path l)).
  Proof. intros [|x l] q; reflexivity. Qed.
  Lemma ns_excl : forall l q,
    ns_selected (ruleset_of (Some l) None) q = negb (existsb (fun r => is_prefix r q) (map split_path l)).
  Proof. intros [|x l] q; reflexivity. Qed.

  Definition include_test (n : string) (inc : option (list string)) : bool :=
    match inc with
    | Some rs => existsb (fun r => String.eqb r n || prefixb (n ++ ".") r) rs
    | None => false
    end.

  (* the tests absorb makes on a name at the current level are the component-level ones *)
  Lemma top_leaf : forall n ex inc, sep_free n = true -> (ex = None \/ inc = None) ->
    leaf_selected (ruleset_of ex inc) [n]
    = negb (rules_nonempty ex && in_rules n ex) && negb (rules_nonempty inc && negb (in_rules n inc)).
  Proof.
    intros n ex inc Hn Hx.
    destruct ex as [[|e es]|]; destruct inc as [[|i is_]|]; 
      try (destruct Hx; discriminate); try reflexivity.
    - cbn [ruleset_of leaf_selected rules_nonempty in_rules andb negb]. rewrite andb_true_r.
      f_equal. rewrite existsb_map. apply existsb_ext'. intros s. now apply is_prefix_single.
    - cbn [ruleset_of leaf_selected rules_nonempty in_rules andb negb]. rewrite negb_involutive.
      rewrite existsb_map. apply existsb_ext'. intros s. now apply is_prefix_single.
  Qed.

  Lemma top_ns : forall n ex inc, sep_free n = true -> (ex = None \/ inc = None) ->
    ns_selected (ruleset_of ex inc) [n]
    = negb (rules_nonempty ex && in_rules n ex) && negb (rules_nonempty inc && negb (include_test n inc)).
  Proof.
    intros n ex inc Hn Hx.
    destruct ex as [[|e es]|]; destruct inc as [[|i is_]|]; 
      try (destruct Hx; discriminate); try reflexivity.
    - cbn [ruleset_of ns_selected rules_nonempty in_rules andb negb]. rewrite andb_true_r.
      f_equal. rewrite existsb_map. apply existsb_ext'. intros s. now apply is_prefix_single.
    - cbn [ruleset_of ns_selected rules_nonempty include_test andb negb]. rewrite negb_involutive.
      rewrite existsb_map. apply existsb_ext'. intros s. now apply ns_test_single.
  Qed.

  (* descending into a selected namespace n with stripped rules = moving the path to [n] *)
  Lemma descend : forall n ex inc, sep_free n = true -> (ex = None \/ inc = None) ->
    antichainR (ruleset_of ex inc) ->
    rules_nonempty ex && in_rules n ex = false ->
    rules_nonempty inc && negb (include_test n inc) = false ->
    (forall q, leaf_selected (ruleset_of ex inc) (n :: q)
               = leaf_selected (ruleset_of (strip_namespace n ex) (strip_namespace n inc)) q)
    /\ (forall q, ns_selected (ruleset_of ex inc) (n :: q)
                  = ns_selected (ruleset_of (strip_namespace n ex) (strip_namespace n inc)) q)
    /\ (strip_namespace n ex = None \/ strip_namespace n inc = None)
    /\ antichainR (ruleset_of (strip_namespace n ex) (strip_namespace n inc)).
  Proof.
    intros n ex inc Hn Hx HA H1 H2.
    destruct ex as [[|e es]|]; destruct inc as [[|i is_]|]; try (destruct Hx; discriminate).
    - cbn. repeat split; auto.
    - (* exclude *)
      cbn [rules_nonempty in_rules andb] in H1.
      rewrite strip_namespace_Some. cbn [strip_namespace].
      split; [|split; [|split]].
      + intros q. rewrite (leaf_excl (sstrip n (e :: es))). cbn [ruleset_of leaf_selected]. f_equal.
        rewrite existsb_strip_leaf by assumption. now rewrite H1.
      + intros q. rewrite (ns_excl (sstrip n (e :: es))). cbn [ruleset_of ns_selected]. f_equal.
        rewrite existsb_strip_leaf by assumption. now rewrite H1.
      + now right.
      + destruct (sstrip n (e :: es)); exact I.
    - cbn. repeat split; auto.
    - (* include *)
      cbn [rules_nonempty include_test andb] in H2. apply negb_false_iff in H2.
      cbn [ruleset_of antichainR] in HA.
      rewrite strip_namespace_Some. cbn [strip_namespace].
      destruct (existsb (String.eqb n) (i :: is_)) eqn:Eb.
      + rewrite (antichain_single _ _ Hn HA Eb). cbn [ruleset_of leaf_selected ns_selected antichainR].
        split; [|split; [|split]]; auto.
        * intros q. rewrite existsb_strip_leaf by assumption. now rewrite Eb.
        * intros q. rewrite existsb_strip_ns by assumption. now rewrite Eb.
      + pose proof (include_test_sstrip _ _ H2 Eb) as Hne.
        pose proof (antichain_strip n _ Hn HA) as HA'.
        destruct (sstrip n (i :: is_)) as [|t ts] eqn:Es; [now elim Hne|].
        cbn [ruleset_of leaf_selected ns_selected antichainR].
        split; [|split; [|split]]; auto.
        * intros q. rewrite existsb_strip_leaf by assumption. now rewrite Eb, Es.
        * intros q. rewrite existsb_strip_ns by assumption. now rewrite Eb, Es.
    - cbn. repeat split; auto.
  Qed.

  (* ---------- unfolding absorb_ports ---------- *)
  Lemma absorb_ports_leaf : forall n la rest dps ex inc,
    absorb_ports (PCons n (PLeaf la) rest) dps ex inc =
    if rules_nonempty ex && in_rules n ex then absorb_ports rest dps ex inc
    else if rules_nonempty inc && negb (in_rules n inc) then absorb_ports rest dps ex inc
    else let '(dps', names) := absorb_ports rest (ports_set n (PLeaf la) dps) ex inc in (dps', n :: names).
  Proof. reflexivity. Qed.

  Lemma absorb_ports_ns : forall n a sub rest dps ex inc,
    absorb_ports (PCons n (PNs a sub) rest) dps ex inc =
    if rules_nonempty ex && in_rules n ex then absorb_ports rest dps ex inc
    else if rules_nonempty inc && negb (include_test n inc) then absorb_ports rest dps ex inc
    else let '(sub', _) := absorb_ports sub PNil (strip_namespace n ex) (strip_namespace n inc) in
         let '(dps', names) := absorb_ports rest (ports_set n (PNs (set_valid_type a (n_vt a)) sub') dps) ex inc in
         (dps', n :: names).
  Proof. intros. destruct a; reflexivity. Qed.

  (* ---------- ports as dictionaries ---------- *)
  Lemma existsb_eqb_In : forall n l, existsb (String.eqb n) l = true <-> In n l.
  Proof.
    intros n l. rewrite existsb_exists. split.
    - intros [x [Hx He]]. apply String.eqb_eq in He. now subst.
    - intros H. exists n. split; [assumption | apply String.eqb_refl].
  Qed.

  Lemma existsb_eqb_notIn : forall n l, existsb (String.eqb n) l = false <-> ~ In n l.
  Proof.
    intros n l. rewrite <- existsb_eqb_In. destruct (existsb (String.eqb n) l); split; intros H;
      try reflexivity; try discriminate; try (intros H'; discriminate). now elim H.
  Qed.

  Fixpoint ports_app (a b : ports) : ports :=
    match a with PNil => b | PCons n p r => PCons n p (ports_app r b) end.

  Lemma ports_app_assoc : forall a b c, ports_app (ports_app a b) c = ports_app a (ports_app b c).
  Proof. induction a as [|n p a IH]; intros b c; cbn; [reflexivity | now rewrite IH]. Qed.

  Lemma ports_names_app : forall a b, ports_names (ports_app a b) = (ports_names a ++ ports_names b)%list.
  Proof. induction a as [|n p a IH]; intros b; cbn; [reflexivity | now rewrite IH]. Qed.

  Lemma ports_set_fresh : forall n p D, ~ In n (ports_names D) ->
    ports_set n p D = ports_app D (PCons n p PNil).
  Proof.
    intros n p D. induction D as [|m q D IH]; cbn; intros H; [reflexivity|].
    destruct (String.eqb n m) eqn:E.
    - apply String.eqb_eq in E. subst. elim H. now left.
    - rewrite IH; [reflexivity|]. intros H'. apply H. now right.
  Qed.

  Lemma names_unique_cons : forall n p rest,
    names_unique (PCons n p rest) = true <-> ~ In n (ports_names rest) /\ names_unique rest = true.
  Proof.
    intros n p rest. cbn [names_unique]. rewrite andb_true_iff, negb_true_iff, existsb_eqb_notIn.
    reflexivity.
  Qed.

  Lemma assign_all_app : forall X D, names_unique X = true ->
    (forall k, In k (ports_names X) -> ~ In k (ports_names D)) ->
    assign_all X D = ports_app D X.
  Proof.
    induction X as [|n p X IH]; intros D HU HD; cbn [assign_all].
    - induction D as [|m q D IHD]; cbn; [reflexivity | now rewrite <- IHD at 1].
    - apply names_unique_cons in HU as [Hn HU].
      rewrite ports_set_fresh by (apply HD; now left).
      rewrite IH; [now rewrite ports_app_assoc | assumption |].
      intros k Hk. rewrite ports_names_app. cbn. intros Hin. apply in_app_or in Hin as [Hin | [Hin | []]].
      + apply (HD k); [now right | assumption].
      + subst k. now apply Hn.
  Qed.

  Lemma assign_all_nil : forall X, names_unique X = true -> assign_all X PNil = X.
  Proof. intros X HU. rewrite assign_all_app; [reflexivity | assumption | intros k _ []]. Qed.

  Lemma select_names_incl : forall R at_ ps k,
    In k (ports_names (select R at_ ps)) -> In k (ports_names ps).
  Proof.
    intros R at_ ps k. induction ps as [|n p ps IH]; cbn [select ports_names]; [auto|].
    destruct p as [la | a sub].
    - destruct (leaf_selected R (at_ ++ [n])%list); cbn [ports_names In]; intuition.
    - destruct (ns_selected R (at_ ++ [n])%list); cbn [ports_names In]; intuition.
  Qed.

  Lemma select_names_unique : forall R at_ ps,
    names_unique ps = true -> names_unique (select R at_ ps) = true.
  Proof.
    intros R at_ ps. induction ps as [|n p ps IH]; intros HU; [reflexivity|].
    apply names_unique_cons in HU as [Hn HU]. cbn [select].
    assert (Hn' : ~ In n (ports_names (select R at_ ps)))
      by (intros H; apply Hn; eapply select_names_incl; eassumption).
    destruct p as [la | a sub].
    - destruct (leaf_selected R (at_ ++ [n])%list); [|now apply IH].
      apply names_unique_cons. split; [assumption | now apply IH].
    - destruct (ns_selected R (at_ ++ [n])%list); [|now apply IH].
      apply names_unique_cons. split; [assumption | now apply IH].
  Qed.

  Definition absorb_ports_correct (sps : ports) : Prop :=
    forall dps ex inc,
      good_names_ports sps = true -> wf_ports sps = true ->
      (ex = None \/ inc = None) -> antichainR (ruleset_of ex inc) ->
      absorb_ports sps dps ex inc
      = (assign_all (select (ruleset_of ex inc) [] sps) dps, ports_names (select (ruleset_of ex inc) [] sps)).

  Lemma absorb_ports_select_gen : forall sps, absorb_ports_correct sps.
  Proof.
    intros sps.
    apply (ports_mut
      (fun p => match p with PLeaf _ => True | PNs _ sub => absorb_ports_correct sub end)
      absorb_ports_correct); clear sps.
    - intros a; exact I.
    - intros a ps IH; exact IH.
    - intros dps ex inc _ _ _ _. reflexivity.
    - intros n p IHp rest IHrest dps ex inc Hg Hw Hx HA.
      cbn [good_names_ports] in Hg.
      apply andb_true_iff in Hg as [Hg Hgrest]. apply andb_true_iff in Hg as [Hgn Hgp].
      unfold good_name in Hgn. apply andb_true_iff in Hgn as [Hn _].
      cbn [wf_ports] in Hw. apply andb_true_iff in Hw as [Hwp Hwrest].
      cbn [select app].
      destruct p as [la | a sub].
      + rewrite absorb_ports_leaf. rewrite (top_leaf _ _ _ Hn Hx).
        destruct (rules_nonempty ex && in_rules n ex); cbn [negb andb].
        * now apply IHrest.
        * destruct (rules_nonempty inc && negb (in_rules n inc)); cbn [negb].
          -- now apply IHrest.
          -- rewrite (IHrest _ ex inc Hgrest Hwrest Hx HA). reflexivity.
      + rewrite absorb_ports_ns. rewrite (top_ns _ _ _ Hn Hx).
        destruct (rules_nonempty ex && in_rules n ex) eqn:E1; cbn [negb andb].
        * now apply IHrest.
        * destruct (rules_nonempty inc && negb (include_test n inc)) eqn:E2; cbn [negb].
          -- now apply IHrest.
          -- destruct (descend n ex inc Hn Hx HA E1 E2) as [HL [HN [Hx' HA']]].
             cbn [good_names] in Hgp. cbn [wf_port] in Hwp.
             apply andb_true_iff in Hwp as [Hus Hws].
             rewrite (IHp PNil _ _ Hgp Hws Hx' HA').
             rewrite (IHrest _ ex inc Hgrest Hwrest Hx HA).
             rewrite (select_descend sub _ _ n HL HN).
             rewrite assign_all_nil by (now apply select_names_unique).
             reflexivity.
  Qed.

  (* (1) *)
  Theorem absorb_ports_select : forall sps dps ex inc,
    good_names_ports sps = true -> wf_ports sps = true -> names_unique sps = true ->
    (ex = None \/ inc = None) ->
    include_antichain (ruleset_of ex inc) = true ->
    fst (absorb_ports sps dps ex inc) = assign_all (select (ruleset_of ex inc) [] sps) dps
    /\ snd (absorb_ports sps dps ex inc) = ports_names (select (ruleset_of ex inc) [] sps).
  Proof.
    intros sps dps ex inc Hg Hw _ Hx HA.
    rewrite (absorb_ports_select_gen sps dps ex inc Hg Hw Hx (include_antichain_spec _ HA)).
    split; reflexivity.
  Qed.

  (* ---------- (3) the destination ---------- *)
  Lemma ports_get_set : forall k n p D,
    ports_get k (ports_set n p D) = if String.eqb k n then Some p else ports_get k D.
  Proof.
    intros k n p D. induction D as [|m q D IH]; cbn [ports_set ports_get].
    - reflexivity.
    - destruct (String.eqb n m) eqn:E; cbn [ports_get].
      + apply String.eqb_eq in E. subst m. now destruct (String.eqb k n).
      + rewrite IH. destruct (String.eqb k m) eqn:E2; [|reflexivity].
        apply String.eqb_eq in E2. subst m. rewrite String.eqb_sym. now rewrite E.
  Qed.

  Theorem assign_all_other : forall X dps k,
    existsb (String.eqb k) (ports_names X) = false -> ports_get k (assign_all X dps) = ports_get k dps.
  Proof.
    induction X as [|n p X IH]; intros dps k H; cbn [assign_all]; [reflexivity|].
    cbn [ports_names existsb] in H. apply orb_false_iff in H as [H1 H2].
    rewrite (IH _ _ H2). rewrite ports_get_set. now rewrite H1.
  Qed.

  Theorem assign_all_selected : forall X dps k p,
    names_unique X = true -> ports_get k X = Some p -> ports_get k (assign_all X dps) = Some p.
  Proof.
    induction X as [|n p0 X IH]; intros dps k p HU HG; cbn [assign_all]; [discriminate|].
    cbn [names_unique] in HU. apply andb_true_iff in HU as [Hn HU]. apply negb_true_iff in Hn.
    cbn [ports_get] in HG. destruct (String.eqb k n) eqn:E.
    - apply String.eqb_eq in E. subst k. inversion HG; subst p0.
      rewrite (assign_all_other _ _ _ Hn). rewrite ports_get_set. now rewrite String.eqb_refl.
    - now apply IH.
  Qed.

  (* ---------- (4) absorb as a whole ---------- *)
  Theorem absorb_spec : forall dst src ex inc opts d names,
    good_names src = true -> wf_port src = true ->
    include_antichain (ruleset_of ex inc) = true ->
    absorb dst src ex inc opts = inr (d, names) ->
    exists da dps sa sps a',
      dst = PNs da dps /\ src = PNs sa sps /\ (ex = None \/ inc = None) /\ absorb_attrs sa opts = inr a'
      /\ d = PNs a' (assign_all (select (ruleset_of ex inc) [] sps) dps)
      /\ names = ports_names (select (ruleset_of ex inc) [] sps).
  Proof.
    intros dst src ex inc opts d names Hg Hw HA H.
    destruct dst as [dl | da dps]; [discriminate|].
    destruct src as [sl | sa sps]; [discriminate|].
    cbn [good_names] in Hg. cbn [wf_port] in Hw. apply andb_true_iff in Hw as [Hu Hw].
    assert (Hx : ex = None \/ inc = None).
    { destruct ex; [|now left]. destruct inc; [|now right]. cbn in H. discriminate. }
    assert (H' : match absorb_attrs sa opts with
                 | inl e => inl e
                 | inr a' => let '(dps', names) := absorb_ports sps dps ex inc in inr (PNs a' dps', names)
                 end = @inr exn _ (d, names)).
    { destruct Hx; subst; [destruct inc | destruct ex]; exact H. }
    clear H. destruct (absorb_attrs sa opts) as [e | a'] eqn:Ea; [discriminate|].
    rewrite (absorb_ports_select_gen sps dps ex inc Hg Hw Hx (include_antichain_spec _ HA)) in H'.
    inversion H'; subst.
    exists da, dps, sa, sps, a'. repeat split; auto.
  Qed.

  Theorem absorb_exclusive : forall dst src ex inc opts,
    absorb dst src (Some ex) (Some inc) opts = inl EValue
    \/ (exists la, dst = PLeaf la) \/ (exists la, src = PLeaf la).
  Proof.
    intros [dl | da dps] [sl | sa sps] ex inc opts.
    - right; left; now exists dl.
    - right; left; now exists dl.
    - right; right; now exists sl.
    - left. reflexivity.
  Qed.

  (* ---------- (5) the namespace properties ---------- *)
  Lemma alist_get_In : forall {A} k (l : list (string * A)) v, alist_get k l = Some v -> In (k, v) l.
  Proof.
    intros A k l v. induction l as [|[k' v'] l IH]; cbn [alist_get]; [discriminate|].
    destruct (String.eqb k k') eqn:E; intros H.
    - apply String.eqb_eq in E. inversion H; subst. now left.
    - right. now apply IH.
  Qed.

  Theorem absorb_attrs_spec : forall sa opts a',
    absorb_attrs sa opts = inr a' ->
    (forall k, alist_mem k opts = true -> existsb (String.eqb k) known_props = true)
    /\ n_vt a' = match alist_get "valid_type" opts with Some (OVt t) => t | _ => n_vt sa end
    /\ (n_vt a' <> None -> n_dynamic a' = true)
    /\ (n_vt a' = None -> n_dynamic a' = match alist_get "dynamic" opts with Some (OBool b) => b | _ => n_dynamic sa end)
    /\ n_required a' = match alist_get "required" opts with Some (OBool b) => b | _ => n_required sa end
    /\ n_populate a' = match alist_get "populate_defaults" opts with Some (OBool b) => b | _ => n_populate sa end
    /\ n_help a' = match alist_get "help" opts with Some (OHelp h) => h | _ => n_help sa end
    /\ n_validator a' = match alist_get "validator" opts with Some (OVid v) => v | _ => n_validator sa end
    /\ n_default a' = match alist_get "default" opts with Some (ODflt d) => d | _ => n_default sa end.
  Proof.
    intros sa opts a' H. unfold absorb_attrs in H.
    destruct (forallb (fun kv => existsb (String.eqb (fst kv)) known_props) opts) eqn:Ef; [|discriminate].
    inversion H as [Ha]. clear H.
    split.
    { intros k Hk. unfold alist_mem in Hk. destruct (alist_get k opts) as [v|] eqn:Eg; [|discriminate].
      apply alist_get_In in Eg. rewrite forallb_forall in Ef. exact (Ef _ Eg). }
    unfold set_valid_type. cbn [n_vt n_dynamic n_required n_populate n_help n_validator n_default].
    repeat split.
    - intros Hvt. destruct (match alist_get "valid_type" opts with Some (OVt t) => t | _ => n_vt sa end);
        [reflexivity | now elim Hvt].
    - intros Hvt. now rewrite Hvt.
  Qed.

  Theorem absorb_attrs_unknown : forall sa opts k v,
    alist_get k opts = Some v -> existsb (String.eqb k) known_props = false -> absorb_attrs sa opts = inl EValue.
  Proof.
    intros sa opts k v Hg Hk. unfold absorb_attrs.
    destruct (forallb (fun kv => existsb (String.eqb (fst kv)) known_props) opts) eqn:Ef; [|reflexivity].
    apply alist_get_In in Hg. rewrite forallb_forall in Ef. specialize (Ef _ Hg). cbn [fst] in Ef.
    rewrite Ef in Hk. discriminate.
  Qed.

  (* ---------- (2) pointwise meaning of the selection ---------- *)
  Definition port_selected (R : ruleset) (q : path) (p : port) : bool :=
    match p with PLeaf _ => leaf_selected R q | PNs _ _ => ns_selected R q end.

  (* what a selected source port becomes *)
  Definition sel_port (R : ruleset) (q : path) (p : port) : port :=
    match p with
    | PLeaf la => PLeaf la
    | PNs na sub => PNs (set_valid_type na (n_vt na)) (select R q sub)
    end.

  Lemma ports_get_None : forall c ps, ~ In c (ports_names ps) -> ports_get c ps = None.
  Proof.
    intros c ps. induction ps as [|n p ps IH]; cbn [ports_names ports_get]; intros H; [reflexivity|].
    destruct (String.eqb c n) eqn:E.
    - apply String.eqb_eq in E. subst. elim H. now left.
    - apply IH. intros H'. apply H. now right.
  Qed.

  Lemma ports_get_select : forall R at_ ps c, names_unique ps = true ->
    ports_get c (select R at_ ps) =
    match ports_get c ps with
    | Some p => if port_selected R (at_ ++ [c])%list p then Some (sel_port R (at_ ++ [c])%list p) else None
    | None => None
    end.
  Proof.
    intros R at_ ps c. induction ps as [|n p ps IH]; intros HU; [reflexivity|].
    apply names_unique_cons in HU as [Hn HU].
    cbn [select ports_get]. destruct (String.eqb c n) eqn:E.
    - apply String.eqb_eq in E. subst c.
      assert (Hnone : ports_get n (select R at_ ps) = None).
      { apply ports_get_None. intros H. apply Hn. eapply select_names_incl; eassumption. }
      destruct p as [la | na sub]; cbn [port_selected sel_port].
      + destruct (leaf_selected R (at_ ++ [n])%list); [|assumption].
        cbn [ports_get]. now rewrite String.eqb_refl.
      + destruct (ns_selected R (at_ ++ [n])%list); [|assumption].
        cbn [ports_get]. now rewrite String.eqb_refl.
    - destruct p as [la | na sub].
      + destruct (leaf_selected R (at_ ++ [n])%list); [|now apply IH].
        cbn [ports_get]. rewrite E. now apply IH.
      + destruct (ns_selected R (at_ ++ [n])%list); [|now apply IH].
        cbn [ports_get]. rewrite E. now apply IH.
  Qed.

  Lemma wf_ports_get : forall ps c p, wf_ports ps = true -> ports_get c ps = Some p -> wf_port p = true.
  Proof.
    induction ps as [|n p0 ps IH]; intros c p Hw Hg; cbn [ports_get] in Hg; [discriminate|].
    cbn [wf_ports] in Hw. apply andb_true_iff in Hw as [Hw0 Hw].
    destruct (String.eqb c n); [inversion Hg; now subst | now apply IH with c].
  Qed.

  (* every namespace on the way is selected, and so is the port reached *)
  Fixpoint path_ok (R : ruleset) (at_ : path) (q : path) (r0 : port) {struct q} : bool :=
    match q with
    | [] => true
    | c :: q' =>
        match q' with
        | [] => port_selected R (at_ ++ [c])%list r0
        | _ :: _ => ns_selected R (at_ ++ [c])%list && path_ok R (at_ ++ [c])%list q' r0
        end
    end.

  Lemma path_ok_cons : forall R at_ c q' p1 r0, lookup_port q' p1 = Some r0 ->
    path_ok R at_ (c :: q') r0 = port_selected R (at_ ++ [c])%list p1 && path_ok R (at_ ++ [c])%list q' r0.
  Proof.
    intros R at_ c q' p1 r0 H. destruct q' as [|c2 q''].
    - cbn in H. inversion H; subst. cbn [path_ok]. now rewrite andb_true_r.
    - destruct p1 as [la | na sub]; [discriminate|]. reflexivity.
  Qed.

  Lemma lookup_select : forall R q p at_ r, wf_port p = true ->
    (lookup_port q (sel_port R at_ p) = Some r <->
     exists r0, lookup_port q p = Some r0 /\ r = sel_port R (at_ ++ q)%list r0 /\ path_ok R at_ q r0 = true).
  Proof.
    intros R. induction q as [|c q' IH]; intros p at_ r Hw.
    - cbn [lookup_port path_ok]. rewrite app_nil_r. split.
      + intros H. inversion H; subst. exists p. auto.
      + intros [r0 [H0 [Hr _]]]. inversion H0; subst. reflexivity.
    - destruct p as [la | na sub].
      + cbn [sel_port lookup_port]. split; [discriminate | intros [r0 [H0 _]]; discriminate].
      + cbn [wf_port] in Hw. apply andb_true_iff in Hw as [Hu Hws].
        cbn [sel_port lookup_port]. rewrite (ports_get_select _ _ _ _ Hu).
        destruct (ports_get c sub) as [p1|] eqn:Eg;
          [|split; [discriminate | intros [r0 [H0 _]]; discriminate]].
        pose proof (wf_ports_get _ _ _ Hws Eg) as Hw1.
        destruct (port_selected R (at_ ++ [c])%list p1) eqn:Es.
        * rewrite (IH p1 (at_ ++ [c])%list r Hw1). rewrite <- app_assoc. cbn [app].
          split; intros [r0 [H0 [Hr Hp]]]; exists r0; (split; [assumption | split; [assumption|]]).
          -- rewrite (path_ok_cons _ _ _ _ _ _ H0). now rewrite Es.
          -- rewrite (path_ok_cons _ _ _ _ _ _ H0) in Hp. now rewrite Es in Hp.
        * split; [discriminate|]. intros [r0 [H0 [Hr Hp]]].
          rewrite (path_ok_cons _ _ _ _ _ _ H0) in Hp. rewrite Es in Hp. discriminate.
  Qed.

  Lemma leaf_sel_ns_sel : forall R p q, leaf_selected R (p ++ q)%list = true -> ns_selected R p = true.
  Proof.
    intros [|rs|rs] p q H; cbn [leaf_selected ns_selected] in *.
    - reflexivity.
    - apply existsb_exists in H as [r [Hr Hp]]. apply existsb_exists. exists r. split; [assumption|].
      apply orb_true_iff. now apply is_prefix_app_cases with q.
    - apply negb_true_iff in H. apply negb_true_iff.
      destruct (existsb (fun r => is_prefix r p) rs) eqn:E; [|reflexivity].
      apply existsb_exists in E as [r [Hr Hp]].
      rewrite <- H. symmetry. apply existsb_exists. exists r. split; [assumption|].
      now apply is_prefix_app_l.
  Qed.

  Lemma path_ok_final : forall R q at_ r0, q <> [] -> path_ok R at_ q r0 = true ->
    port_selected R (at_ ++ q)%list r0 = true.
  Proof.
    intros R. induction q as [|c q' IH]; intros at_ r0 Hne H; [now elim Hne|].
    destruct q' as [|c2 q''].
    - exact H.
    - cbn [path_ok] in H. apply andb_true_iff in H as [_ H].
      change (at_ ++ c :: c2 :: q'')%list with (at_ ++ [c] ++ c2 :: q'')%list. rewrite app_assoc.
      apply IH; [discriminate | exact H].
  Qed.

  Lemma path_ok_leaf : forall R q at_ la, leaf_selected R (at_ ++ q)%list = true ->
    path_ok R at_ q (PLeaf la) = true.
  Proof.
    intros R. induction q as [|c q' IH]; intros at_ la H; [reflexivity|].
    destruct q' as [|c2 q''].
    - exact H.
    - change (at_ ++ c :: c2 :: q'')%list with (at_ ++ [c] ++ c2 :: q'')%list in H. rewrite app_assoc in H.
      cbn [path_ok]. rewrite (leaf_sel_ns_sel _ _ _ H). cbn [andb]. now apply IH.
  Qed.

  Theorem select_leaf : forall R a sps q la,
    wf_ports sps = true -> names_unique sps = true ->
    (lookup_port q (PNs a (select R [] sps)) = Some (PLeaf la) <->
     lookup_port q (PNs a sps) = Some (PLeaf la) /\ q <> [] /\ leaf_selected R q = true).
  Proof.
    intros R a sps q la Hw Hu.
    destruct q as [|c q'].
    - cbn [lookup_port]. split; [discriminate | intros [_ [H _]]; now elim H].
    - change (lookup_port (c :: q') (PNs a (select R [] sps)))
        with (lookup_port (c :: q') (sel_port R [] (PNs a sps))).
      rewrite lookup_select by (cbn [wf_port]; now rewrite Hu, Hw).
      cbn [app]. split.
      + intros [r0 [H0 [Hr Hp]]]. destruct r0 as [la0 | na0 sub0]; [|discriminate].
        cbn [sel_port] in Hr. inversion Hr; subst la0.
        split; [assumption | split; [discriminate|]].
        apply (path_ok_final R (c :: q') [] (PLeaf la)); [discriminate | assumption].
      + intros [H0 [_ Hs]]. exists (PLeaf la). split; [assumption | split; [reflexivity|]].
        now apply path_ok_leaf.
  Qed.

  (* all non-empty prefixes of q (taken below at_) are selected as namespaces *)
  Fixpoint ns_chain (R : ruleset) (at_ : path) (q : path) {struct q} : bool :=
    match q with
    | [] => true
    | c :: q' => ns_selected R (at_ ++ [c])%list && ns_chain R (at_ ++ [c])%list q'
    end.

  Lemma path_ok_ns : forall R q at_ na sub, path_ok R at_ q (PNs na sub) = ns_chain R at_ q.
  Proof.
    intros R. induction q as [|c q' IH]; intros at_ na sub; [reflexivity|].
    destruct q' as [|c2 q''].
    - cbn. now rewrite andb_true_r.
    - cbn [path_ok ns_chain]. f_equal. apply IH.
  Qed.

  Lemma ns_chain_spec : forall R q at_,
    ns_chain R at_ q = true <->
    (forall q1 q2, q = (q1 ++ q2)%list -> q1 <> [] -> ns_selected R (at_ ++ q1)%list = true).
  Proof.
    intros R. induction q as [|c q' IH]; intros at_.
    - split; [|reflexivity]. intros _ q1 q2 H Hne. destruct q1; [now elim Hne | discriminate].
    - cbn [ns_chain]. rewrite andb_true_iff. rewrite IH. split.
      + intros [H1 H2] q1 q2 Hq Hne. destruct q1 as [|c1 q1']; [now elim Hne|].
        cbn [app] in Hq. inversion Hq; subst c1.
        destruct q1' as [|c2 q1''].
        * exact H1.
        * change (at_ ++ c :: c2 :: q1'')%list with (at_ ++ [c] ++ c2 :: q1'')%list. rewrite app_assoc.
          apply (H2 _ q2); [assumption | discriminate].
      + intros H. split.
        * apply (H [c] q'); [reflexivity | discriminate].
        * intros q1 q2 Hq Hne. rewrite <- app_assoc. cbn [app].
          apply (H (c :: q1) q2); [cbn [app]; now rewrite Hq | discriminate].
  Qed.

  (* the strongest version for namespaces: a namespace appears iff it and all its ancestors are
     ns_selected; it carries the source's attributes (valid_type setter applied) and the selection
     of the source's sub-ports *)
  Theorem select_ns_iff : forall R a sps q na sub,
    wf_ports sps = true -> names_unique sps = true -> q <> [] ->
    (lookup_port q (PNs a (select R [] sps)) = Some (PNs na sub) <->
     exists na' sub', lookup_port q (PNs a sps) = Some (PNs na' sub')
                      /\ na = set_valid_type na' (n_vt na') /\ sub = select R q sub'
                      /\ ns_chain R [] q = true).
  Proof.
    intros R a sps q na sub Hw Hu Hne.
    destruct q as [|c q']; [now elim Hne|].
    change (lookup_port (c :: q') (PNs a (select R [] sps)))
      with (lookup_port (c :: q') (sel_port R [] (PNs a sps))).
    rewrite lookup_select by (cbn [wf_port]; now rewrite Hu, Hw).
    cbn [app]. split.
    - intros [r0 [H0 [Hr Hp]]]. destruct r0 as [la0 | na0 sub0]; [discriminate|].
      cbn [sel_port] in Hr. inversion Hr; subst na sub.
      exists na0, sub0. rewrite path_ok_ns in Hp. auto.
    - intros [na' [sub' [H0 [Hna [Hsub Hc]]]]]. exists (PNs na' sub').
      split; [assumption | split; [cbn [sel_port]; now subst|]].
      now rewrite path_ok_ns.
  Qed.

  Theorem select_ns : forall R a sps q na sub,
    wf_ports sps = true -> names_unique sps = true -> q <> [] ->
    lookup_port q (PNs a (select R [] sps)) = Some (PNs na sub) ->
    exists na' sub', lookup_port q (PNs a sps) = Some (PNs na' sub') /\ na = set_valid_type na' (n_vt na')
                     /\ ns_selected R q = true.
  Proof.
    intros R a sps q na sub Hw Hu Hne H.
    apply (select_ns_iff R a sps q na sub Hw Hu Hne) in H as [na' [sub' [H0 [Hna [_ Hc]]]]].
    exists na', sub'. split; [assumption | split; [assumption|]].
    rewrite ns_chain_spec in Hc. apply (Hc q []); [now rewrite app_nil_r | assumption].
  Qed.

  (* for exclude rules and RAll the ancestors come for free: the converse of select_ns *)
  Lemma ns_sel_prefix_noninclude : forall R p q, (forall rs, R <> RInclude rs) ->
    ns_selected R (p ++ q)%list = true -> ns_selected R p = true.
  Proof.
    intros [|rs|rs] p q HR H.
    - reflexivity.
    - now elim (HR rs).
    - exact (leaf_sel_ns_sel (RExclude rs) p q H).
  Qed.

  Lemma ns_chain_noninclude : forall R q at_, (forall rs, R <> RInclude rs) -> q <> [] ->
    ns_selected R (at_ ++ q)%list = true -> ns_chain R at_ q = true.
  Proof.
    intros R q at_ HR Hne H. apply ns_chain_spec. intros q1 q2 Hq _. subst q.
    rewrite app_assoc in H. now apply ns_sel_prefix_noninclude with q2.
  Qed.

  Theorem select_ns_converse : forall R a sps q na' sub',
    (forall rs, R <> RInclude rs) ->
    wf_ports sps = true -> names_unique sps = true -> q <> [] ->
    lookup_port q (PNs a sps) = Some (PNs na' sub') -> ns_selected R q = true ->
    lookup_port q (PNs a (select R [] sps)) = Some (PNs (set_valid_type na' (n_vt na')) (select R q sub')).
  Proof.
    intros R a sps q na' sub' HR Hw Hu Hne H0 Hs.
    apply (select_ns_iff R a sps q _ _ Hw Hu Hne). exists na', sub'.
    repeat split; try assumption; try reflexivity.
    apply ns_chain_noninclude; assumption.
  Qed.

  (* the extra hypothesis of (1) cannot be dropped *)
  Example antichain_needed :
    let lf := PLeaf (mk_lattrs false None DNone None None) in
    let src := PCons "n" (PNs default_nattrs (PCons "x" lf (PCons "y" lf PNil))) PNil in
    let inc := Some ["n"; "n.x"] in
    good_names_ports src = true /\ wf_ports src = true /\ names_unique src = true
    /\ include_antichain (ruleset_of None inc) = false
    /\ snd (absorb_ports src PNil None inc) = ports_names (select (ruleset_of None inc) [] src)
    /\ fst (absorb_ports src PNil None inc) <> assign_all (select (ruleset_of None inc) [] src) PNil
    /\ lookup_port ["n"; "y"] (PNs default_nattrs (fst (absorb_ports src PNil None inc))) = None
    /\ lookup_port ["n"; "y"] (PNs default_nattrs (select (ruleset_of None inc) [] src)) = Some lf.
  Proof. vm_compute. repeat split; try reflexivity. discriminate. Qed.

End C15.

Print Assumptions absorb_ports_select.
Print Assumptions select_leaf.
Print Assumptions select_ns.
Print Assumptions select_ns_iff.
Print Assumptions select_ns_converse.
Print Assumptions assign_all_other.
Print Assumptions assign_all_selected.
Print Assumptions absorb_spec.
Print Assumptions absorb_exclusive.
Print Assumptions absorb_attrs_spec.
Print Assumptions absorb_attrs_unknown.
Print Assumptions antichain_needed.
