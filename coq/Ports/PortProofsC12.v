(* Ports/PortProofsC12.v — proofs for property C12 (model: PortModel.v, specification: PortSpec.v). *)
(* All statements are proved exactly as given (no hypothesis added or changed):
     out_stores, out_frame, out_error_kinds, out_declared_port, out_undeclared_port, out_wf,
     get_port_dyn_preserves, finish_successful_iff.
   Added: out_located (+ out_located_error, out_located_leaf): the nested form;
          out_result / out_spec: [out] on a namespace as a case table over the split path;
          get_port_dyn_found, get_port_dyn_preserves_deep, get_port_dyn_wf, out_spec_wf: what
          create_dynamically does to the tree;  split_path_join: dotted paths split back. *)
From Coq Require Import List ZArith String Bool Ascii Lia.
From Plumpy Require Import Val PortModel PortSpec.
Import ListNotations.

(* ================= association lists ================= *)

Lemma alist_get_set_same : forall (A : Type) (k : string) (v : A) (l : list (string * A)),
  alist_get k (alist_set k v l) = Some v.
Proof.
  intros A k v l. induction l as [|[k' v'] l IH]; simpl.
  - rewrite String.eqb_refl. reflexivity.
  - destruct (String.eqb k k') eqn:E; simpl.
    + rewrite String.eqb_refl. reflexivity.
    + rewrite E. exact IH.
Qed.

Lemma alist_get_set_other : forall (A : Type) (k k' : string) (v : A) (l : list (string * A)),
  k' <> k -> alist_get k' (alist_set k v l) = alist_get k' l.
Proof.
  intros A k k' v l Hne.
  assert (Hkk : String.eqb k' k = false) by (apply String.eqb_neq; exact Hne).
  induction l as [|[k2 v2] l IH]; simpl.
  - rewrite Hkk. reflexivity.
  - destruct (String.eqb k k2) eqn:E; simpl.
    + apply String.eqb_eq in E. subst k2. rewrite Hkk. reflexivity.
    + rewrite IH. reflexivity.
Qed.

Lemma alist_mem_set_other : forall (A : Type) (k k' : string) (v : A) (l : list (string * A)),
  k' <> k -> alist_mem k' (alist_set k v l) = alist_mem k' l.
Proof.
  intros A k k' v l Hne. unfold alist_mem. rewrite alist_get_set_other by exact Hne. reflexivity.
Qed.

Lemma keys_unique_set : forall (A : Type) (k : string) (v : A) (l : list (string * A)),
  keys_unique (alist_set k v l) = keys_unique l.
Proof.
  intros A k v l. induction l as [|[k2 v2] l IH]; simpl.
  - reflexivity.
  - destruct (String.eqb k k2) eqn:E; simpl.
    + apply String.eqb_eq in E. subst k2. reflexivity.
    + rewrite IH. rewrite alist_mem_set_other; [reflexivity|].
      intro Heq. subst k2. rewrite String.eqb_refl in E. discriminate E.
Qed.

(* ================= wf_val on dicts ================= *)

Definition wf_items (l : list (string * val)) : bool := forallb (fun kv => wf_val (snd kv)) l.

Lemma wf_val_dict : forall m, wf_val (VDict m) = keys_unique m && wf_items m.
Proof.
  intro m. simpl. f_equal.
  induction m as [|[k x] m IH]; simpl.
  - reflexivity.
  - rewrite IH. reflexivity.
Qed.

Lemma wf_kvs_eq : forall m, wf_kvs m = keys_unique m && wf_items m.
Proof. intro m. unfold wf_kvs. apply wf_val_dict. Qed.

Lemma wf_items_set : forall k v l,
  wf_val v = true -> wf_items l = true -> wf_items (alist_set k v l) = true.
Proof.
  intros k v l Hv. induction l as [|[k2 v2] l IH]; simpl; intro Hl.
  - rewrite Hv. reflexivity.
  - apply andb_true_iff in Hl. destruct Hl as [Hv2 Hl].
    destruct (String.eqb k k2); simpl.
    + rewrite Hv, Hl. reflexivity.
    + rewrite Hv2, (IH Hl). reflexivity.
Qed.

Lemma wf_items_get : forall k l x,
  wf_items l = true -> alist_get k l = Some x -> wf_val x = true.
Proof.
  intros k l x. induction l as [|[k2 v2] l IH]; simpl; intros Hl Hg.
  - discriminate Hg.
  - apply andb_true_iff in Hl. destruct Hl as [Hv2 Hl].
    destruct (String.eqb k k2).
    + injection Hg as <-. exact Hv2.
    + exact (IH Hl Hg).
Qed.

Lemma wf_kvs_set : forall k v l,
  wf_val v = true -> wf_kvs l = true -> wf_kvs (alist_set k v l) = true.
Proof.
  intros k v l Hv Hl. rewrite wf_kvs_eq in *. apply andb_true_iff in Hl. destruct Hl as [Hu Hi].
  rewrite keys_unique_set, Hu, (wf_items_set k v l Hv Hi). reflexivity.
Qed.

Lemma wf_kvs_get_dict : forall k l sub,
  wf_kvs l = true -> alist_get k l = Some (VDict sub) -> wf_kvs sub = true.
Proof.
  intros k l sub Hl Hg. rewrite wf_kvs_eq in Hl. apply andb_true_iff in Hl. destruct Hl as [_ Hi].
  exact (wf_items_get k l (VDict sub) Hi Hg).
Qed.

(* ================= split_on / split_path ================= *)

Lemma split_on_nonempty : forall sep s, split_on sep s <> [].
Proof.
  intros sep s. induction s as [|c s IH]; simpl.
  - discriminate.
  - destruct (Ascii.eqb c sep); [discriminate|].
    destruct (split_on sep s); discriminate.
Qed.

Lemma split_path_snoc : forall path,
  split_path path = removelast (split_path path) ++ [last (split_path path) EmptyString].
Proof.
  intro path. apply app_removelast_last. apply split_on_nonempty.
Qed.

Lemma split_path_sep_free : forall s, sep_free s = true -> split_path s = [s].
Proof.
  unfold split_path. intro s. induction s as [|c s IH]; simpl; intro Hs.
  - reflexivity.
  - apply andb_true_iff in Hs. destruct Hs as [Hc Hs].
    apply negb_true_iff in Hc. rewrite Hc. rewrite (IH Hs). reflexivity.
Qed.

Lemma split_path_good_name : forall s, good_name s = true -> split_path s = [s].
Proof.
  intros s Hs. unfold good_name in Hs. apply andb_true_iff in Hs. destruct Hs as [Hs _].
  apply split_path_sep_free. exact Hs.
Qed.

Lemma hd_snoc : forall (ns : list string) (name d : string), hd d (ns ++ [name]) = hd name ns.
Proof. intros ns name d. destruct ns; reflexivity. Qed.

(* a dotted path made of separator-free components splits back into those components *)
Fixpoint join_path (ns : list string) (name : string) : string :=
  match ns with
  | [] => name
  | c :: rest => String.append c (String "."%char (join_path rest name))
  end.

Lemma split_on_append : forall c s,
  sep_free c = true ->
  split_on "."%char (String.append c (String "."%char s)) = c :: split_on "."%char s.
Proof.
  intros c s. induction c as [|x c IH]; simpl; intro Hc.
  - reflexivity.
  - apply andb_true_iff in Hc. destruct Hc as [Hx Hc]. apply negb_true_iff in Hx.
    rewrite Hx. rewrite (IH Hc). reflexivity.
Qed.

Lemma split_path_join : forall ns name,
  forallb sep_free ns = true -> sep_free name = true ->
  split_path (join_path ns name) = ns ++ [name].
Proof.
  intros ns name. induction ns as [|c ns IH]; simpl; intros Hns Hname.
  - apply split_path_sep_free. exact Hname.
  - apply andb_true_iff in Hns. destruct Hns as [Hc Hns].
    unfold split_path in *. rewrite split_on_append by exact Hc.
    rewrite (IH Hns Hname). reflexivity.
Qed.

(* ================= outputs_insert ================= *)

Lemma outputs_insert_lookup : forall comps name v outs outs',
  outputs_insert comps name v outs = inr outs' ->
  lookup_val (comps ++ [name]) (VDict outs') = Some v.
Proof.
  intros comps name v. induction comps as [|c comps IH]; intros outs outs' H; simpl in H.
  - injection H as <-. simpl. rewrite alist_get_set_same. reflexivity.
  - destruct (alist_get c outs) as [x|] eqn:Eg.
    + destruct x as [| | | | | |sub|]; try discriminate H.
      destruct (outputs_insert comps name v sub) as [e|sub'] eqn:Ei; [discriminate H|].
      injection H as <-. simpl. rewrite alist_get_set_same. exact (IH _ _ Ei).
    + destruct (outputs_insert comps name v []) as [e|sub'] eqn:Ei; [discriminate H|].
      injection H as <-. simpl. rewrite alist_get_set_same. exact (IH _ _ Ei).
Qed.

Lemma outputs_insert_frame : forall comps name v outs outs',
  outputs_insert comps name v outs = inr outs' ->
  forall k, k <> hd name comps -> alist_get k outs' = alist_get k outs.
Proof.
  intros comps name v outs outs' H k Hk. destruct comps as [|c comps]; simpl in H, Hk.
  - injection H as <-. apply alist_get_set_other. exact Hk.
  - destruct (alist_get c outs) as [x|] eqn:Eg.
    + destruct x as [| | | | | |sub|]; try discriminate H.
      destruct (outputs_insert comps name v sub) as [e|sub'] eqn:Ei; [discriminate H|].
      injection H as <-. apply alist_get_set_other. exact Hk.
    + destruct (outputs_insert comps name v []) as [e|sub'] eqn:Ei; [discriminate H|].
      injection H as <-. apply alist_get_set_other. exact Hk.
Qed.

Lemma outputs_insert_error : forall comps name v outs e,
  outputs_insert comps name v outs = inl e -> e = EAttribute.
Proof.
  intros comps name v. induction comps as [|c comps IH]; intros outs e H; simpl in H.
  - discriminate H.
  - destruct (alist_get c outs) as [x|] eqn:Eg.
    + destruct x as [| | | | | |sub|]; try (injection H as <-; reflexivity).
      destruct (outputs_insert comps name v sub) as [e'|sub'] eqn:Ei; [|discriminate H].
      injection H as <-. exact (IH _ _ Ei).
    + destruct (outputs_insert comps name v []) as [e'|sub'] eqn:Ei; [|discriminate H].
      injection H as <-. exact (IH _ _ Ei).
Qed.

Lemma outputs_insert_wf : forall comps name v outs outs',
  wf_val v = true -> wf_kvs outs = true ->
  outputs_insert comps name v outs = inr outs' -> wf_kvs outs' = true.
Proof.
  intros comps name v. induction comps as [|c comps IH]; intros outs outs' Hv Ho H; simpl in H.
  - injection H as <-. apply wf_kvs_set; assumption.
  - destruct (alist_get c outs) as [x|] eqn:Eg.
    + destruct x as [| | | | | |sub|]; try discriminate H.
      destruct (outputs_insert comps name v sub) as [e|sub'] eqn:Ei; [discriminate H|].
      injection H as <-. apply wf_kvs_set; [|exact Ho].
      change (wf_kvs sub' = true). apply (IH sub sub' Hv); [|exact Ei].
      exact (wf_kvs_get_dict c outs sub Ho Eg).
    + destruct (outputs_insert comps name v []) as [e|sub'] eqn:Ei; [discriminate H|].
      injection H as <-. apply wf_kvs_set; [|exact Ho].
      change (wf_kvs sub' = true). apply (IH [] sub' Hv); [reflexivity|exact Ei].
Qed.

(* ================= ports dict ================= *)

Lemma ports_get_set_same : forall k p ps, ports_get k (ports_set k p ps) = Some p.
Proof.
  intros k p ps. induction ps as [|n q rest IH]; simpl.
  - rewrite String.eqb_refl. reflexivity.
  - destruct (String.eqb k n) eqn:E; simpl.
    + rewrite String.eqb_refl. reflexivity.
    + rewrite E. exact IH.
Qed.

Lemma ports_get_set_other : forall k k' p ps,
  k' <> k -> ports_get k' (ports_set k p ps) = ports_get k' ps.
Proof.
  intros k k' p ps Hne.
  assert (Hkk : String.eqb k' k = false) by (apply String.eqb_neq; exact Hne).
  induction ps as [|n q rest IH]; simpl.
  - rewrite Hkk. reflexivity.
  - destruct (String.eqb k n) eqn:E; simpl.
    + apply String.eqb_eq in E. subst n. rewrite Hkk. reflexivity.
    + rewrite IH. reflexivity.
Qed.

Definition pmem (n : string) (ps : ports) : bool := existsb (String.eqb n) (ports_names ps).

Lemma pmem_set : forall n k p ps, pmem n (ports_set k p ps) = String.eqb n k || pmem n ps.
Proof.
  intros n k p ps. unfold pmem. induction ps as [|n' q rest IH]; simpl.
  - reflexivity.
  - destruct (String.eqb k n') eqn:E; simpl.
    + apply String.eqb_eq in E. subst n'. destruct (String.eqb n k); reflexivity.
    + rewrite IH. destruct (String.eqb n n'), (String.eqb n k); reflexivity.
Qed.

Lemma names_unique_set : forall k p ps, names_unique (ports_set k p ps) = names_unique ps.
Proof.
  intros k p ps. induction ps as [|n' q rest IH]; simpl.
  - reflexivity.
  - destruct (String.eqb k n') eqn:E; simpl.
    + apply String.eqb_eq in E. subst n'. reflexivity.
    + rewrite IH. fold (pmem n' (ports_set k p rest)). rewrite pmem_set.
      rewrite String.eqb_sym, E. reflexivity.
Qed.

Lemma wf_ports_set : forall k p ps,
  wf_port p = true -> wf_ports ps = true -> wf_ports (ports_set k p ps) = true.
Proof.
  intros k p ps Hp. induction ps as [|n' q rest IH]; simpl; intro Hps.
  - rewrite Hp. reflexivity.
  - apply andb_true_iff in Hps. destruct Hps as [Hq Hrest].
    destruct (String.eqb k n'); simpl.
    + rewrite Hp, Hrest. reflexivity.
    + rewrite Hq, (IH Hrest). reflexivity.
Qed.

Lemma wf_ports_get : forall k ps q,
  wf_ports ps = true -> ports_get k ps = Some q -> wf_port q = true.
Proof.
  intros k ps q. induction ps as [|n' q' rest IH]; simpl; intros Hps Hg.
  - discriminate Hg.
  - apply andb_true_iff in Hps. destruct Hps as [Hq Hrest].
    destruct (String.eqb k n').
    + injection Hg as <-. exact Hq.
    + exact (IH Hrest Hg).
Qed.

(* ================= get_port_dyn ================= *)

(* the attributes of a namespace created on the fly by get_port(create_dynamically=True) *)
Definition dyn_attrs (a : nattrs) : nattrs :=
  set_valid_type (mk_nattrs (n_required a) None (n_default a) (n_validator a)
                            (n_dynamic a) (n_populate a) None) (n_vt a).

Lemma get_port_dyn_cons : forall c rest a ps,
  get_port_dyn (c :: rest) a ps =
  if String.eqb c EmptyString then inl EValue
  else match ports_get c ps with
       | None =>
           if negb (n_dynamic a) then inl EValue
           else match rest with
                | [] => inr (ports_set c (PNs (dyn_attrs a) PNil) ps, PNs (dyn_attrs a) PNil)
                | _ :: _ => match get_port_dyn rest (dyn_attrs a) PNil with
                            | inl e => inl e
                            | inr (sub', p) => inr (ports_set c (PNs (dyn_attrs a) sub') ps, p)
                            end
                end
       | Some (PLeaf la) =>
           match rest with
           | [] => inr (ps, PLeaf la)
           | _ :: _ => inl EAttribute
           end
       | Some (PNs na sub) =>
           match rest with
           | [] => inr (ps, PNs na sub)
           | _ :: _ => match get_port_dyn rest na sub with
                       | inl e => inl e
                       | inr (sub', p) => inr (ports_set c (PNs na sub') ps, p)
                       end
           end
       end.
Proof.
  intros c rest a ps. unfold dyn_attrs.
  destruct a as [rq vt df vl dy po hl]. destruct vt; reflexivity.
Qed.

Lemma get_port_dyn_error : forall comps a ps e,
  get_port_dyn comps a ps = inl e -> e = EValue \/ e = EAttribute.
Proof.
  intro comps. induction comps as [|c rest IH]; intros a ps e H.
  - simpl in H. injection H as <-. left. reflexivity.
  - rewrite get_port_dyn_cons in H.
    destruct (String.eqb c EmptyString); [injection H as <-; left; reflexivity|].
    destruct (ports_get c ps) as [[la|na sub]|].
    + destruct rest; [discriminate H|]. injection H as <-. right. reflexivity.
    + destruct rest as [|c' rest']; [discriminate H|].
      destruct (get_port_dyn (c' :: rest') na sub) as [e'|[sub' p]] eqn:Er; [|discriminate H].
      injection H as <-. exact (IH _ _ _ Er).
    + destruct (negb (n_dynamic a)); [injection H as <-; left; reflexivity|].
      destruct rest as [|c' rest']; [discriminate H|].
      destruct (get_port_dyn (c' :: rest') (dyn_attrs a) PNil) as [e'|[sub' p]] eqn:Er; [|discriminate H].
      injection H as <-. exact (IH _ _ _ Er).
Qed.

(* ---- more about what get_port_dyn does to the tree (lookup_port is the spec-side path lookup) ---- *)

Lemma lookup_port_cons : forall c q a ps,
  lookup_port (c :: q) (PNs a ps) =
  match ports_get c ps with Some p' => lookup_port q p' | None => None end.
Proof. reflexivity. Qed.

(* the port returned sits at the requested path of the (possibly extended) tree *)
Lemma get_port_dyn_found : forall comps a ps ps' p,
  get_port_dyn comps a ps = inr (ps', p) -> lookup_port comps (PNs a ps') = Some p.
Proof.
  intro comps. induction comps as [|c rest IH]; intros a ps ps' p H; [discriminate H|].
  rewrite get_port_dyn_cons in H. rewrite lookup_port_cons.
  destruct (String.eqb c EmptyString); [discriminate H|].
  destruct (ports_get c ps) as [[la|na sub]|] eqn:Ec.
  - destruct rest; [|discriminate H]. injection H as <- <-. rewrite Ec. reflexivity.
  - destruct rest as [|c' rest'].
    + injection H as <- <-. rewrite Ec. reflexivity.
    + destruct (get_port_dyn (c' :: rest') na sub) as [e'|[sub' p']] eqn:Er; [discriminate H|].
      injection H as <- <-. rewrite ports_get_set_same. exact (IH _ _ _ _ Er).
  - destruct (negb (n_dynamic a)); [discriminate H|].
    destruct rest as [|c' rest'].
    + injection H as <- <-. rewrite ports_get_set_same. reflexivity.
    + destruct (get_port_dyn (c' :: rest') (dyn_attrs a) PNil) as [e'|[sub' p']] eqn:Er; [discriminate H|].
      injection H as <- <-. rewrite ports_get_set_same. exact (IH _ _ _ _ Er).
Qed.

(* (5), at any depth: whatever was reachable before is still reachable; leaves are unchanged and
   namespaces keep their attributes (only their sets of sub-ports may have grown) *)
Lemma get_port_dyn_preserves_deep : forall comps a ps ps' p,
  get_port_dyn comps a ps = inr (ps', p) ->
  forall path q, lookup_port path (PNs a ps) = Some q ->
    exists q', lookup_port path (PNs a ps') = Some q' /\
      (forall la, q = PLeaf la -> q' = q) /\
      (forall na sub, q = PNs na sub -> exists sub', q' = PNs na sub').
Proof.
  intro comps. induction comps as [|c rest IH]; intros a ps ps' p H path q Hq; [discriminate H|].
  destruct path as [|k path'].
  - simpl in Hq. injection Hq as <-. exists (PNs a ps'). split; [reflexivity|]. split.
    + intros la Hla. discriminate Hla.
    + intros na sub Hns. injection Hns as <- <-. exists ps'. reflexivity.
  - assert (Hsame : ports_get k ps' = ports_get k ps ->
        exists q', lookup_port (k :: path') (PNs a ps') = Some q' /\
          (forall la, q = PLeaf la -> q' = q) /\
          (forall na sub, q = PNs na sub -> exists sub', q' = PNs na sub')).
    { intro Hs. exists q. split; [rewrite lookup_port_cons, Hs; exact Hq|].
      split; [reflexivity|]. intros na sub Hns. exists sub. exact Hns. }
    rewrite get_port_dyn_cons in H.
    destruct (String.eqb c EmptyString); [discriminate H|].
    destruct (ports_get c ps) as [[la|na sub]|] eqn:Ec.
    + destruct rest; [|discriminate H]. injection H as <- _. apply Hsame. reflexivity.
    + destruct rest as [|c' rest'].
      * injection H as <- _. apply Hsame. reflexivity.
      * destruct (get_port_dyn (c' :: rest') na sub) as [e'|[sub' p']] eqn:Er; [discriminate H|].
        injection H as <- _.
        destruct (String.eqb k c) eqn:Ekc.
        -- apply String.eqb_eq in Ekc. subst k. rewrite lookup_port_cons, Ec in Hq.
           destruct (IH _ _ _ _ Er path' q Hq) as [q' [Hq' Hrest]].
           exists q'. split; [|exact Hrest].
           rewrite lookup_port_cons, ports_get_set_same. exact Hq'.
        -- apply String.eqb_neq in Ekc. apply Hsame. apply ports_get_set_other. exact Ekc.
    + assert (Hne : k <> c).
      { intro Heq. subst k. rewrite lookup_port_cons, Ec in Hq. discriminate Hq. }
      destruct (negb (n_dynamic a)); [discriminate H|].
      destruct rest as [|c' rest'].
      * injection H as <- _. apply Hsame. apply ports_get_set_other. exact Hne.
      * destruct (get_port_dyn (c' :: rest') (dyn_attrs a) PNil) as [e'|[sub' p']]; [discriminate H|].
        injection H as <- _. apply Hsame. apply ports_get_set_other. exact Hne.
Qed.

(* names stay unique, at every level *)
Lemma wf_ns_set : forall a ps c q,
  wf_port (PNs a ps) = true -> wf_port q = true -> wf_port (PNs a (ports_set c q ps)) = true.
Proof.
  intros a ps c q Hps Hq. simpl in *. apply andb_true_iff in Hps. destruct Hps as [Hu Hw].
  rewrite names_unique_set, Hu, (wf_ports_set c q ps Hq Hw). reflexivity.
Qed.

Lemma wf_ns_get : forall a ps c q,
  wf_port (PNs a ps) = true -> ports_get c ps = Some q -> wf_port q = true.
Proof.
  intros a ps c q Hps Hg. simpl in Hps. apply andb_true_iff in Hps. destruct Hps as [_ Hw].
  exact (wf_ports_get c ps q Hw Hg).
Qed.

Lemma get_port_dyn_wf : forall comps a ps ps' p,
  wf_port (PNs a ps) = true -> get_port_dyn comps a ps = inr (ps', p) ->
  wf_port (PNs a ps') = true /\ wf_port p = true.
Proof.
  intro comps. induction comps as [|c rest IH]; intros a ps ps' p Hwf H; [discriminate H|].
  rewrite get_port_dyn_cons in H.
  destruct (String.eqb c EmptyString); [discriminate H|].
  destruct (ports_get c ps) as [[la|na sub]|] eqn:Ec.
  - destruct rest; [|discriminate H]. injection H as <- <-. split; [exact Hwf|reflexivity].
  - assert (Hsub : wf_port (PNs na sub) = true) by exact (wf_ns_get a ps c _ Hwf Ec).
    destruct rest as [|c' rest'].
    + injection H as <- <-. split; [exact Hwf|exact Hsub].
    + destruct (get_port_dyn (c' :: rest') na sub) as [e'|[sub' p']] eqn:Er; [discriminate H|].
      injection H as <- <-. destruct (IH _ _ _ _ Hsub Er) as [Hsub' Hp].
      split; [|exact Hp]. apply wf_ns_set; assumption.
  - destruct (negb (n_dynamic a)); [discriminate H|].
    destruct rest as [|c' rest'].
    + injection H as <- <-. split; [|reflexivity]. apply wf_ns_set; [exact Hwf|reflexivity].
    + destruct (get_port_dyn (c' :: rest') (dyn_attrs a) PNil) as [e'|[sub' p']] eqn:Er; [discriminate H|].
      injection H as <- <-.
      assert (Hnil : wf_port (PNs (dyn_attrs a) PNil) = true) by reflexivity.
      destruct (IH _ _ _ _ Hnil Er) as [Hsub' Hp].
      split; [|exact Hp]. apply wf_ns_set; assumption.
Qed.

Section C12.
  Variable veval : vid -> val -> bool.

  (* ---- [out] on a namespace, with the path already split ---- *)

  (* is the value accepted at the located namespace (ta, tps) under [name]? *)
  Definition accepts (ta : nattrs) (tps : ports) (name : string) (v : val) : bool :=
    match ports_get name tps with
    | Some p => valid_port veval p v
    | None => valid_dynamic ta [(name, v)]
    end.

  (* the `dynamic` flag told to listeners *)
  Definition is_dyn (tps : ports) (name : string) : bool :=
    match ports_get name tps with Some _ => false | None => true end.

  Definition locate (a : nattrs) (ps : ports) (ns : list string) : exn + (ports * port) :=
    match ns with
    | [] => inr (ps, PNs a ps)
    | _ :: _ => get_port_dyn ns a ps
    end.

  Lemma out_result : forall a ps outs path v,
    or_result (out veval (PNs a ps) outs path v) =
    let ns := removelast (split_path path) in
    let name := last (split_path path) EmptyString in
    match locate a ps ns with
    | inl e => inl e
    | inr (_, PLeaf _) => inl EType
    | inr (_, PNs ta tps) =>
        if accepts ta tps name v
        then match outputs_insert ns name v outs with
             | inl e => inl e
             | inr outs' => inr (outs', is_dyn tps name)
             end
        else inl EValue
    end.
  Proof.
    intros a ps outs path v. unfold out, last_and_init, locate, accepts, is_dyn.
    cbv zeta.
    set (ns := removelast (split_path path)). set (name := last (split_path path) EmptyString).
    destruct (match ns with [] => inr (ps, PNs a ps) | _ :: _ => get_port_dyn ns a ps end)
      as [e|[ps' [la|ta tps]]]; try reflexivity.
    destruct (ports_get name tps) as [p|]; cbn [fst snd].
    - destruct (valid_port veval p v); cbn [negb]; [|reflexivity].
      destruct (outputs_insert ns name v outs); reflexivity.
    - destruct (valid_dynamic ta [(name, v)]); cbn [negb]; [|reflexivity].
      destruct (outputs_insert ns name v outs); reflexivity.
  Qed.

  Lemma out_spec : forall a ps outs path v,
    or_spec (out veval (PNs a ps) outs path v) =
    match locate a ps (removelast (split_path path)) with
    | inl _ => PNs a ps
    | inr (ps', _) => PNs a ps'
    end.
  Proof.
    intros a ps outs path v. unfold out, last_and_init, locate.
    cbv zeta.
    set (ns := removelast (split_path path)). set (name := last (split_path path) EmptyString).
    destruct (match ns with [] => inr (ps, PNs a ps) | _ :: _ => get_port_dyn ns a ps end)
      as [e|[ps' [la|ta tps]]]; try reflexivity.
    destruct (negb _); [reflexivity|].
    destruct (outputs_insert ns name v outs); reflexivity.
  Qed.

  Lemma out_ok_insert : forall spec outs path v outs' dyn,
    or_result (out veval spec outs path v) = inr (outs', dyn) ->
    outputs_insert (removelast (split_path path)) (last (split_path path) EmptyString) v outs = inr outs'.
  Proof.
    intros spec outs path v outs' dyn H. destruct spec as [la|a ps]; [discriminate H|].
    rewrite out_result in H. cbv zeta in H.
    destruct (locate a ps (removelast (split_path path))) as [e|[ps' [la|ta tps]]]; try discriminate H.
    destruct (accepts ta tps _ v); [|discriminate H].
    destruct (outputs_insert _ _ v outs) as [e|o]; [discriminate H|].
    injection H as <- _. reflexivity.
  Qed.

  (* (1) an accepted emission is stored under its path *)
  Theorem out_stores : forall spec outs path v outs' dyn,
    or_result (out veval spec outs path v) = inr (outs', dyn) ->
    lookup_val (split_path path) (VDict outs') = Some v.
  Proof.
    intros spec outs path v outs' dyn H. apply out_ok_insert in H.
    rewrite (split_path_snoc path). exact (outputs_insert_lookup _ _ _ _ _ H).
  Qed.

  (* (2) and touches nothing outside the first component of its path *)
  Theorem out_frame : forall spec outs path v outs' dyn,
    or_result (out veval spec outs path v) = inr (outs', dyn) ->
    forall k, k <> hd EmptyString (split_path path) -> alist_get k outs' = alist_get k outs.
  Proof.
    intros spec outs path v outs' dyn H k Hk. apply out_ok_insert in H.
    rewrite (split_path_snoc path), hd_snoc in Hk.
    exact (outputs_insert_frame _ _ _ _ _ H k Hk).
  Qed.

  (* (3) error kinds *)
  Theorem out_error_kinds : forall spec outs path v e,
    or_result (out veval spec outs path v) = inl e -> e = EValue \/ e = EType \/ e = EAttribute.
  Proof.
    intros spec outs path v e H. destruct spec as [la|a ps].
    - simpl in H. injection H as <-. right. left. reflexivity.
    - rewrite out_result in H. cbv zeta in H. unfold locate in H.
      destruct (removelast (split_path path)) as [|c ns] eqn:Ens.
      + destruct (accepts a ps _ v); [|injection H as <-; left; reflexivity].
        simpl in H. discriminate H.
      + destruct (get_port_dyn (c :: ns) a ps) as [e'|[ps' [la|ta tps]]] eqn:Eg.
        * injection H as <-. destruct (get_port_dyn_error _ _ _ _ Eg) as [He|He]; auto.
        * injection H as <-. right. left. reflexivity.
        * destruct (accepts ta tps _ v); [|injection H as <-; left; reflexivity].
          destruct (outputs_insert (c :: ns) _ v outs) as [e'|o] eqn:Ei; [|discriminate H].
          injection H as <-. right. right. exact (outputs_insert_error _ _ _ _ _ Ei).
  Qed.

  Theorem out_declared_port : forall a ps outs name p v,
    good_name name = true -> ports_get name ps = Some p ->
    or_result (out veval (PNs a ps) outs name v) =
      if valid_port veval p v then inr (alist_set name v outs, false) else inl EValue.
  Proof.
    intros a ps outs name p v Hname Hget. rewrite out_result.
    rewrite (split_path_good_name name Hname). simpl.
    unfold accepts, is_dyn. rewrite Hget. reflexivity.
  Qed.

  Theorem out_undeclared_port : forall a ps outs name v,
    good_name name = true -> ports_get name ps = None ->
    or_result (out veval (PNs a ps) outs name v) =
      if valid_dynamic a [(name, v)] then inr (alist_set name v outs, true) else inl EValue.
  Proof.
    intros a ps outs name v Hname Hget. rewrite out_result.
    rewrite (split_path_good_name name Hname). simpl.
    unfold accepts, is_dyn. rewrite Hget. reflexivity.
  Qed.

  (* the general nested form: path = ns ++ [name] with ns non-empty *)
  Theorem out_located : forall a ps outs path v ns name ps' ta tps,
    split_path path = ns ++ [name] -> ns <> [] ->
    get_port_dyn ns a ps = inr (ps', PNs ta tps) ->
    or_spec (out veval (PNs a ps) outs path v) = PNs a ps' /\
    or_result (out veval (PNs a ps) outs path v) =
      if match ports_get name tps with
         | Some p => valid_port veval p v
         | None => valid_dynamic ta [(name, v)]
         end
      then match outputs_insert ns name v outs with
           | inl e => inl e
           | inr outs' => inr (outs', match ports_get name tps with Some _ => false | None => true end)
           end
      else inl EValue.
  Proof.
    intros a ps outs path v ns name ps' ta tps Hsplit Hns Hget.
    rewrite out_spec, out_result. cbv zeta. rewrite Hsplit.
    rewrite removelast_last, last_last. unfold locate.
    destruct ns as [|c ns]; [contradiction Hns; reflexivity|].
    rewrite Hget. split; reflexivity.
  Qed.

  (* the other outcomes of locating the namespace *)
  Theorem out_located_error : forall a ps outs path v ns name e,
    split_path path = ns ++ [name] -> ns <> [] ->
    get_port_dyn ns a ps = inl e ->
    out veval (PNs a ps) outs path v = mk_out_res (PNs a ps) (inl e).
  Proof.
    intros a ps outs path v ns name e Hsplit Hns Hget.
    unfold out, last_and_init. rewrite Hsplit, removelast_last, last_last.
    destruct ns as [|c ns]; [contradiction Hns; reflexivity|].
    rewrite Hget. reflexivity.
  Qed.

  Theorem out_located_leaf : forall a ps outs path v ns name ps' la,
    split_path path = ns ++ [name] -> ns <> [] ->
    get_port_dyn ns a ps = inr (ps', PLeaf la) ->
    out veval (PNs a ps) outs path v = mk_out_res (PNs a ps') (inl EType).
  Proof.
    intros a ps outs path v ns name ps' la Hsplit Hns Hget.
    unfold out, last_and_init. rewrite Hsplit, removelast_last, last_last.
    destruct ns as [|c ns]; [contradiction Hns; reflexivity|].
    rewrite Hget. reflexivity.
  Qed.

  (* (4) key-uniqueness of the outputs is preserved *)
  Theorem out_wf : forall spec outs path v outs' dyn,
    wf_kvs outs = true -> wf_val v = true ->
    or_result (out veval spec outs path v) = inr (outs', dyn) -> wf_kvs outs' = true.
  Proof.
    intros spec outs path v outs' dyn Ho Hv H. apply out_ok_insert in H.
    exact (outputs_insert_wf _ _ _ _ _ Hv Ho H).
  Qed.

  (* (5) get_port_dyn only ever adds namespaces *)
  Theorem get_port_dyn_preserves : forall comps a ps ps' p,
    get_port_dyn comps a ps = inr (ps', p) ->
    forall k q, ports_get k ps = Some q -> exists q', ports_get k ps' = Some q' /\
      (forall la, q = PLeaf la -> q' = q).
  Proof.
    intros comps a ps ps' p H k q Hk. destruct comps as [|c rest]; [discriminate H|].
    rewrite get_port_dyn_cons in H.
    destruct (String.eqb c EmptyString); [discriminate H|].
    destruct (ports_get c ps) as [[la|na sub]|] eqn:Ec.
    - destruct rest; [|discriminate H]. injection H as <- _. exists q. split; [exact Hk|reflexivity].
    - destruct rest as [|c' rest'].
      + injection H as <- _. exists q. split; [exact Hk|reflexivity].
      + destruct (get_port_dyn (c' :: rest') na sub) as [e'|[sub' p']]; [discriminate H|].
        injection H as <- _.
        destruct (String.eqb k c) eqn:Ekc.
        * apply String.eqb_eq in Ekc. subst k. rewrite Ec in Hk. injection Hk as <-.
          exists (PNs na sub'). split; [apply ports_get_set_same|].
          intros la Hla. discriminate Hla.
        * apply String.eqb_neq in Ekc. exists q. split; [|reflexivity].
          rewrite ports_get_set_other by exact Ekc. exact Hk.
    - assert (Hne : k <> c) by (intro Heq; subst k; rewrite Ec in Hk; discriminate Hk).
      destruct (negb (n_dynamic a)); [discriminate H|].
      destruct rest as [|c' rest'].
      + injection H as <- _. exists q. split; [|reflexivity].
        rewrite ports_get_set_other by exact Hne. exact Hk.
      + destruct (get_port_dyn (c' :: rest') (dyn_attrs a) PNil) as [e'|[sub' p']]; [discriminate H|].
        injection H as <- _. exists q. split; [|reflexivity].
        rewrite ports_get_set_other by exact Hne. exact Hk.
  Qed.

  (* the specification after [out] (it may have grown, also when the emission is rejected) keeps
     unique names at every level *)
  Theorem out_spec_wf : forall spec outs path v,
    wf_port spec = true -> wf_port (or_spec (out veval spec outs path v)) = true.
  Proof.
    intros spec outs path v Hwf. destruct spec as [la|a ps]; [reflexivity|].
    rewrite out_spec. unfold locate.
    destruct (removelast (split_path path)) as [|c ns]; [exact Hwf|].
    destruct (get_port_dyn (c :: ns) a ps) as [e|[ps' p]] eqn:Eg; [exact Hwf|].
    exact (proj1 (get_port_dyn_wf _ _ _ _ _ Hwf Eg)).
  Qed.

  (* (6) success *)
  Theorem finish_successful_iff : forall spec outs ok,
    finish_successful veval spec outs ok = true <-> ok = true /\ valid_port veval spec (VDict outs) = true.
  Proof.
    intros spec outs ok. unfold finish_successful. apply andb_true_iff.
  Qed.
End C12.

Print Assumptions out_stores.
Print Assumptions out_frame.
Print Assumptions out_error_kinds.
Print Assumptions out_declared_port.
Print Assumptions out_undeclared_port.
Print Assumptions out_located.
Print Assumptions out_located_error.
Print Assumptions out_located_leaf.
Print Assumptions out_wf.
Print Assumptions get_port_dyn_preserves.
Print Assumptions finish_successful_iff.
Print Assumptions out_spec_wf.
Print Assumptions get_port_dyn_found.
Print Assumptions get_port_dyn_preserves_deep.
Print Assumptions get_port_dyn_wf.
Print Assumptions split_path_join.
