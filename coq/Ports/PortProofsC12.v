(* Ports/PortProofsC12.v — proofs for property C12 (model: PortModel.v, specification: PortSpec.v). *)
From Coq Require Import List ZArith String Bool Lia.
From Plumpy Require Import Val PortModel PortSpec.
Import ListNotations.

Section C12.
  Variable veval : vid -> val -> bool.

  (* TO BE PROVED.  Hypotheses may be weakened; report every hypothesis you had to add.

  (1) an accepted emission is stored under its path:
  Theorem out_stores : forall spec outs path v outs' dyn,
    or_result (out veval spec outs path v) = inr (outs', dyn) ->
    lookup_val (split_path path) (VDict outs') = Some v.

  (2) and touches nothing outside the first component of its path:
  Theorem out_frame : forall spec outs path v outs' dyn,
    or_result (out veval spec outs path v) = inr (outs', dyn) ->
    forall k, k <> hd EmptyString (split_path path) -> alist_get k outs' = alist_get k outs.

  (3) error kinds; a value the located port / namespace does not accept is a ValueError:
  Theorem out_error_kinds : forall spec outs path v e,
    or_result (out veval spec outs path v) = inl e -> e = EValue \/ e = EType \/ e = EAttribute.
  Theorem out_declared_port : forall a ps outs name p v,
    good_name name = true -> ports_get name ps = Some p ->
    or_result (out veval (PNs a ps) outs name v) =
      if valid_port veval p v then inr (alist_set name v outs, false) else inl EValue.
  Theorem out_undeclared_port : forall a ps outs name v,
    good_name name = true -> ports_get name ps = None ->
    or_result (out veval (PNs a ps) outs name v) =
      if valid_dynamic a [(name, v)] then inr (alist_set name v outs, true) else inl EValue.
  (and, if you can, the general nested form: state it with get_port_dyn on the namespace components:
   when get_port_dyn ns a ps = inr (ps', PNs ta tps), the result is EValue iff the value is not accepted
   by the declared port name of tps / by valid_dynamic ta, else the outputs_insert result.)

  (4) key-uniqueness of the outputs is preserved:
  Theorem out_wf : forall spec outs path v outs' dyn,
    wf_kvs outs = true -> wf_val v = true ->
    or_result (out veval spec outs path v) = inr (outs', dyn) -> wf_kvs outs' = true.

  (5) get_port_dyn only ever adds namespaces: every port present before is still there unchanged
      (pointwise along existing paths), names stay unique:
  Theorem get_port_dyn_preserves : forall comps a ps ps' p,
    get_port_dyn comps a ps = inr (ps', p) ->
    forall k q, ports_get k ps = Some q -> exists q', ports_get k ps' = Some q' /\
      (forall la, q = PLeaf la -> q' = q).

  (6) success:
  Theorem finish_successful_iff : forall spec outs ok,
    finish_successful veval spec outs ok = true <-> ok = true /\ valid_port veval spec (VDict outs) = true.
  *)
End C12.
