(* Ports/PortProofsC11.v — proofs for property C11 (model: PortModel.v, specification: PortSpec.v). *)
From Coq Require Import List ZArith String Bool Lia.
From Plumpy Require Import Val PortModel PortSpec.
Import ListNotations.

Section C11.
  Variable veval : vid -> val -> bool.

  (* TO BE PROVED.  Hypotheses may be *weakened* or replaced by equivalent/weaker well-formedness
     conditions you define; never strengthen silently — report every hypothesis you had to add.

  (1) the algorithm (pops each declared name, clones, validates the rest dynamically) decides the
      declarative reading:
  Theorem valid_port_conforms : forall p v,
    wf_port p = true -> wf_val v = true -> valid_port veval p v = conforms veval p (Some v).

  (2) completion with exactly the declared defaults, entry by entry:
  Theorem pre_process_entries : forall ps m r,
    names_unique ps = true -> pre_process ps m = inr r ->
    forall n, option_map (@inr exn val) (alist_get n r) = expected_entry ps m n.

  (3) key-uniqueness is preserved (so that (1) applies to the completed inputs).  [wf_defaults ps]
      is to be defined by you: every declared default value (at any depth) satisfies wf_val.
  Theorem pre_process_wf : forall ps m r,
    wf_defaults ps = true -> wf_kvs m = true -> pre_process ps m = inr r -> wf_kvs r = true.

  (4) read-only mappings at every declared namespace level:
  Theorem pre_process_frozen : forall ps m r,
    names_unique ps = true -> wf_ports ps = true -> pre_process ps m = inr r -> frozen_levels_ports ps r = true.

  (5) construction succeeds exactly on conforming completed inputs, and yields them:
  Theorem construct_accept_iff : forall spec raw parsed,
    wf_port spec = true -> wf_defaults_port spec = true ->
    wf_kvs (match raw with Some m => m | None => [] end) = true ->
    (construct veval spec raw = inr parsed <->
     exists a ps r, spec = PNs a ps
       /\ pre_process ps (match raw with Some m => m | None => [] end) = inr r
       /\ parsed = VFrozen r
       /\ conforms veval spec (Some parsed) = true).
  *)
End C11.
