(* Ports/PortProofsC11.v — proofs for property C11 (model: PortModel.v, specification: PortSpec.v). *)
From Coq Require Import List ZArith String Bool Lia.
From Plumpy Require Import Val PortModel PortSpec.
Import ListNotations.

(* ---- mutual induction on port / ports ---- *)
Scheme port_mut_ind := Induction for port Sort Prop
  with ports_mut_ind := Induction for ports Sort Prop.
Combined Scheme port_ports_mutind from port_mut_ind, ports_mut_ind.

(* ---- every declared default value (at any depth) is well-formed Python data ---- *)
Definition wf_dflt (d : dflt) : bool :=
  match dflt_value d with Some v => wf_val v | None => true end.

Fixpoint wf_defaults_port (p : port) : bool :=
  match p with
  | PLeaf a => wf_dflt (l_default a)
  | PNs a ps => wf_dflt (n_default a) && wf_defaults ps
  end
with wf_defaults (ps : ports) : bool :=
  match ps with
  | PNil => true
  | PCons _ p rest => wf_defaults_port p && wf_defaults rest
  end.

(* ---- wf_val on mappings, without the nested fix ---- *)
Definition wfk (m : list (string * val)) : bool :=
  keys_unique m && forallb (fun kv => wf_val (snd kv)) m.

Lemma wf_val_dict : forall m, wf_val (VDict m) = wfk m.
Proof.
  intros m. unfold wfk. cbn [wf_val]. f_equal.
  induction m as [|[k x] m IH]; [reflexivity|].
  cbn [forallb snd]. rewrite <- IH. reflexivity.
Qed.

Lemma wf_val_frozen : forall m, wf_val (VFrozen m) = wfk m.
Proof. intros m. rewrite <- wf_val_dict. reflexivity. Qed.

Lemma wf_kvs_wfk : forall m, wf_kvs m = wfk m.
Proof. intros m. unfold wf_kvs. apply wf_val_dict. Qed.

(* ---- association lists ---- *)
Lemma alist_get_del_other : forall {A} k n (m : list (string * A)),
  String.eqb k n = false -> alist_get k (alist_del n m) = alist_get k m.
Proof.
  intros A k n m Hkn. induction m as [|[k' x] m IH]; [reflexivity|].
  cbn [alist_del alist_get].
  destruct (String.eqb n k') eqn:Enk.
  - apply String.eqb_eq in Enk. subst k'. rewrite Hkn. reflexivity.
  - cbn [alist_get]. rewrite IH. reflexivity.
Qed.

Lemma alist_get_del_none : forall {A} k n (m : list (string * A)),
  alist_get k m = None -> alist_get k (alist_del n m) = None.
Proof.
  intros A k n m. induction m as [|[k' x] m IH]; intros H; [reflexivity|].
  cbn [alist_get] in H. cbn [alist_del].
  destruct (String.eqb k k') eqn:Ekk; [discriminate|].
  destruct (String.eqb n k'); [exact H|].
  cbn [alist_get]. rewrite Ekk. apply IH, H.
Qed.

Lemma alist_get_set_same : forall {A} n (v : A) m, alist_get n (alist_set n v m) = Some v.
Proof.
  intros A n v m. induction m as [|[k' x] m IH].
  - cbn. rewrite String.eqb_refl. reflexivity.
  - cbn [alist_set]. destruct (String.eqb n k') eqn:E.
    + cbn [alist_get]. rewrite String.eqb_refl. reflexivity.
    + cbn [alist_get]. rewrite E. exact IH.
Qed.

Lemma alist_get_set_other : forall {A} k n (v : A) m,
  String.eqb k n = false -> alist_get k (alist_set n v m) = alist_get k m.
Proof.
  intros A k n v m Hkn. induction m as [|[k' x] m IH].
  - cbn. rewrite Hkn. reflexivity.
  - cbn [alist_set]. destruct (String.eqb n k') eqn:E.
    + apply String.eqb_eq in E. subst k'. cbn [alist_get]. rewrite Hkn. reflexivity.
    + cbn [alist_get]. rewrite IH. reflexivity.
Qed.

Lemma keys_unique_del : forall {A} n (m : list (string * A)),
  keys_unique m = true -> keys_unique (alist_del n m) = true.
Proof.
  intros A n m. induction m as [|[k x] m IH]; intros H; [reflexivity|].
  cbn [keys_unique] in H. apply andb_true_iff in H. destruct H as [Hk Hm].
  cbn [alist_del]. destruct (String.eqb n k); [exact Hm|].
  cbn [keys_unique]. rewrite (IH Hm), andb_true_r.
  unfold alist_mem in *. destruct (alist_get k m) eqn:E; [discriminate|].
  rewrite (alist_get_del_none _ _ _ E). reflexivity.
Qed.

Lemma keys_unique_set : forall {A} n (v : A) (m : list (string * A)),
  keys_unique m = true -> keys_unique (alist_set n v m) = true.
Proof.
  intros A n v m. induction m as [|[k x] m IH]; intros H; [reflexivity|].
  cbn [keys_unique] in H. apply andb_true_iff in H. destruct H as [Hk Hm].
  cbn [alist_set]. destruct (String.eqb n k) eqn:E.
  - apply String.eqb_eq in E. subst k. cbn [keys_unique]. rewrite Hk, Hm. reflexivity.
  - cbn [keys_unique]. rewrite (IH Hm), andb_true_r.
    unfold alist_mem in *. rewrite alist_get_set_other; [exact Hk|].
    rewrite String.eqb_sym. exact E.
Qed.

Lemma forallb_del : forall {A} (f : string * A -> bool) n m,
  forallb f m = true -> forallb f (alist_del n m) = true.
Proof.
  intros A f n m. induction m as [|[k x] m IH]; intros H; [reflexivity|].
  cbn [forallb] in H. apply andb_true_iff in H. destruct H as [Hx Hm].
  cbn [alist_del]. destruct (String.eqb n k); [exact Hm|].
  cbn [forallb]. rewrite Hx, (IH Hm). reflexivity.
Qed.

Lemma forallb_set : forall {A} (Q : A -> bool) n v (m : list (string * A)),
  Q v = true -> forallb (fun kv => Q (snd kv)) m = true ->
  forallb (fun kv => Q (snd kv)) (alist_set n v m) = true.
Proof.
  intros A Q n v m Hv. induction m as [|[k x] m IH]; intros H.
  - cbn. rewrite Hv. reflexivity.
  - cbn [forallb] in H. apply andb_true_iff in H. destruct H as [Hx Hm].
    cbn [alist_set]. destruct (String.eqb n k).
    + cbn [forallb snd]. rewrite Hv, Hm. reflexivity.
    + cbn [forallb]. rewrite Hx, (IH Hm). reflexivity.
Qed.

Lemma forallb_get : forall {A} (Q : A -> bool) n v (m : list (string * A)),
  forallb (fun kv => Q (snd kv)) m = true -> alist_get n m = Some v -> Q v = true.
Proof.
  intros A Q n v m. induction m as [|[k x] m IH]; intros H Hg; [discriminate|].
  cbn [forallb snd] in H. apply andb_true_iff in H. destruct H as [Hx Hm].
  cbn [alist_get] in Hg. destruct (String.eqb n k).
  - injection Hg as <-. exact Hx.
  - exact (IH Hm Hg).
Qed.

Lemma wfk_nil : wfk [] = true.
Proof. reflexivity. Qed.

Lemma wfk_del : forall n m, wfk m = true -> wfk (alist_del n m) = true.
Proof.
  intros n m H. unfold wfk in *. apply andb_true_iff in H. destruct H as [Hk Hf].
  rewrite (keys_unique_del n m Hk), (forallb_del _ n m Hf). reflexivity.
Qed.

Lemma wfk_set : forall n v m, wf_val v = true -> wfk m = true -> wfk (alist_set n v m) = true.
Proof.
  intros n v m Hv H. unfold wfk in *. apply andb_true_iff in H. destruct H as [Hk Hf].
  rewrite (keys_unique_set n v m Hk), (forallb_set wf_val n v m Hv Hf). reflexivity.
Qed.

Lemma wfk_get : forall n v m, wfk m = true -> alist_get n m = Some v -> wf_val v = true.
Proof.
  intros n v m H Hg. unfold wfk in H. apply andb_true_iff in H. destruct H as [_ Hf].
  exact (forallb_get wf_val n v m Hf Hg).
Qed.

Lemma filter_true_id : forall {A} (f : A -> bool) l, (forall x, f x = true) -> filter f l = l.
Proof.
  intros A f l Hf. induction l as [|x l IH]; [reflexivity|].
  cbn [filter]. rewrite Hf, IH. reflexivity.
Qed.

Lemma filter_absent : forall {A} (f : string * A -> bool) n (m : list (string * A)),
  alist_get n m = None ->
  filter f m = filter (fun kv => negb (String.eqb (fst kv) n) && f kv) m.
Proof.
  intros A f n m. induction m as [|[k x] m IH]; intros H; [reflexivity|].
  cbn [alist_get] in H. destruct (String.eqb n k) eqn:E; [discriminate|].
  cbn [filter fst]. rewrite String.eqb_sym, E. cbn [negb andb].
  rewrite (IH H). reflexivity.
Qed.

Lemma filter_del : forall {A} (f : string * A -> bool) n (m : list (string * A)),
  keys_unique m = true ->
  filter f (alist_del n m) = filter (fun kv => negb (String.eqb (fst kv) n) && f kv) m.
Proof.
  intros A f n m. induction m as [|[k x] m IH]; intros H; [reflexivity|].
  cbn [keys_unique] in H. apply andb_true_iff in H. destruct H as [Hk Hm].
  cbn [alist_del]. destruct (String.eqb n k) eqn:E.
  - cbn [filter fst]. rewrite String.eqb_sym, E. cbn [negb andb].
    apply String.eqb_eq in E. subst k. apply filter_absent.
    unfold alist_mem in Hk. destruct (alist_get n m); [discriminate|reflexivity].
  - cbn [filter fst]. rewrite (String.eqb_sym k n), E. cbn [negb andb].
    rewrite (IH Hm). reflexivity.
Qed.

(* ---- the _ports dict ---- *)
Lemma ports_get_none : forall n ps,
  existsb (String.eqb n) (ports_names ps) = false -> ports_get n ps = None.
Proof.
  intros n ps. induction ps as [|n' p rest IH]; intros H; [reflexivity|].
  cbn [ports_names existsb] in H. apply orb_false_iff in H. destruct H as [Hn Hr].
  cbn [ports_get]. rewrite Hn. exact (IH Hr).
Qed.

Lemma names_unique_cons : forall n p rest,
  names_unique (PCons n p rest) = true ->
  existsb (String.eqb n) (ports_names rest) = false /\ names_unique rest = true.
Proof.
  intros n p rest H. cbn [names_unique] in H. apply andb_true_iff in H. destruct H as [Hn Hr].
  split; [|exact Hr]. destruct (existsb (String.eqb n) (ports_names rest)); [discriminate|reflexivity].
Qed.

Lemma wf_port_ns : forall a ps, wf_port (PNs a ps) = names_unique ps && wf_ports ps.
Proof. reflexivity. Qed.

Lemma wf_ports_cons : forall n p rest, wf_ports (PCons n p rest) = wf_port p && wf_ports rest.
Proof. reflexivity. Qed.

Lemma wf_defaults_port_ns : forall a ps,
  wf_defaults_port (PNs a ps) = wf_dflt (n_default a) && wf_defaults ps.
Proof. reflexivity. Qed.

Lemma wf_defaults_cons : forall n p rest,
  wf_defaults (PCons n p rest) = wf_defaults_port p && wf_defaults rest.
Proof. reflexivity. Qed.

(* ================= completion: pre_process, one declared name at a time ================= *)

(* what inputs[n] becomes for the declared port p at name n *)
Definition entry_of (n : string) (p : port) (m : list (string * val)) : option (exn + val) :=
  match p with
  | PLeaf a =>
      match alist_get n m with
      | Some v => Some (inr v)
      | None => option_map inr (dflt_value (l_default a))
      end
  | PNs a sub => expected_ns_entry a sub (alist_get n m)
  end.

Lemma pre_process_cons : forall n p rest m,
  pre_process (PCons n p rest) m =
  match entry_of n p m with
  | None => pre_process rest m
  | Some (inl e) => inl e
  | Some (inr v) => pre_process rest (alist_set n v m)
  end.
Proof.
  intros n p rest m. cbn [pre_process]. unfold entry_of, expected_ns_entry.
  destruct (alist_get n m) as [v|]; destruct p as [a|a sub].
  - reflexivity.
  - destruct v; try reflexivity. cbn [freeze]. destruct (pre_process sub kvs); reflexivity.
  - destruct (dflt_value (l_default a)); reflexivity.
  - destruct (negb (n_populate a)); [reflexivity|].
    destruct (dflt_value (n_default a)) as [v|].
    + destruct v; try reflexivity. destruct (pre_process sub kvs); reflexivity.
    + destruct (ports_empty sub); [reflexivity|]. destruct (pre_process sub []); reflexivity.
Qed.

Lemma expected_entry_head : forall n p rest m,
  expected_entry (PCons n p rest) m n = entry_of n p m.
Proof.
  intros n p rest m. unfold expected_entry. cbn [ports_get]. rewrite String.eqb_refl.
  destruct p; reflexivity.
Qed.

Lemma expected_entry_tail : forall n p rest m k,
  String.eqb k n = false -> expected_entry (PCons n p rest) m k = expected_entry rest m k.
Proof.
  intros n p rest m k H. unfold expected_entry. cbn [ports_get]. rewrite H. reflexivity.
Qed.

Lemma expected_entry_ext : forall ps m m' k,
  alist_get k m' = alist_get k m -> expected_entry ps m' k = expected_entry ps m k.
Proof. intros ps m m' k H. unfold expected_entry. rewrite H. reflexivity. Qed.

Lemma expected_entry_undeclared : forall ps m k,
  existsb (String.eqb k) (ports_names ps) = false ->
  expected_entry ps m k = option_map inr (alist_get k m).
Proof.
  intros ps m k H. unfold expected_entry. rewrite (ports_get_none _ _ H). reflexivity.
Qed.

Lemma entry_of_none : forall n p m, entry_of n p m = None -> alist_get n m = None.
Proof.
  intros n p m H. unfold entry_of, expected_ns_entry in H.
  destruct (alist_get n m) as [v|]; [|reflexivity].
  destruct p; [discriminate|]. destruct v; discriminate.
Qed.

(* a namespace entry is always a frozen, recursively completed mapping; its source is what was
   supplied, the namespace default, or nothing *)
Lemma entry_ns_inv : forall a sub g v,
  expected_ns_entry a sub g = Some (inr v) ->
  exists kvs r', pre_process sub kvs = inr r' /\ v = VFrozen r'
    /\ (g = Some (VDict kvs) \/ dflt_value (n_default a) = Some (VDict kvs) \/ kvs = []).
Proof.
  intros a sub g v H. unfold expected_ns_entry in H.
  assert (Hfz : forall kvs, Some (freeze (pre_process sub kvs)) = Some (inr v) ->
                exists r', pre_process sub kvs = inr r' /\ v = VFrozen r').
  { intros kvs Hf. destruct (pre_process sub kvs) as [e|r']; cbn [freeze] in Hf; [discriminate|].
    injection Hf as <-. exists r'. split; reflexivity. }
  destruct g as [gv|].
  - destruct gv; try discriminate. destruct (Hfz _ H) as [r' [Hp Hv]].
    exists kvs, r'. repeat split; try assumption. left. reflexivity.
  - destruct (negb (n_populate a)); [discriminate|].
    destruct (dflt_value (n_default a)) as [dv|] eqn:Ed.
    + destruct dv; try discriminate. destruct (Hfz _ H) as [r' [Hp Hv]].
      exists kvs, r'. repeat split; try assumption. right. left. reflexivity.
    + destruct (ports_empty sub); [discriminate|]. destruct (Hfz _ H) as [r' [Hp Hv]].
      exists [], r'. repeat split; try assumption. right. right. reflexivity.
Qed.

(* (2) completion with exactly the declared defaults, entry by entry *)
Theorem pre_process_entries : forall ps m r,
  names_unique ps = true -> pre_process ps m = inr r ->
  forall n, option_map (@inr exn val) (alist_get n r) = expected_entry ps m n.
Proof.
  intros ps. induction ps as [|n p rest IH]; intros m r Hnu Hpp k.
  - cbn [pre_process] in Hpp. injection Hpp as <-. reflexivity.
  - apply names_unique_cons in Hnu. destruct Hnu as [Hn Hnu].
    rewrite pre_process_cons in Hpp.
    destruct (String.eqb k n) eqn:Ekn.
    + apply String.eqb_eq in Ekn. subst k. rewrite expected_entry_head.
      destruct (entry_of n p m) as [[e|v]|] eqn:E.
      * discriminate.
      * rewrite (IH _ _ Hnu Hpp n), (expected_entry_undeclared _ _ _ Hn), alist_get_set_same.
        reflexivity.
      * rewrite (IH _ _ Hnu Hpp n), (expected_entry_undeclared _ _ _ Hn), (entry_of_none _ _ _ E).
        reflexivity.
    + rewrite (expected_entry_tail _ _ _ _ _ Ekn).
      destruct (entry_of n p m) as [[e|v]|] eqn:E.
      * discriminate.
      * rewrite (IH _ _ Hnu Hpp k). apply expected_entry_ext. apply alist_get_set_other, Ekn.
      * exact (IH _ _ Hnu Hpp k).
Qed.

(* (3) key-uniqueness (at every depth) is preserved *)
Lemma pre_process_wfk_mut :
  (forall p, wf_defaults_port p = true -> forall n m v,
     wfk m = true -> entry_of n p m = Some (inr v) -> wf_val v = true)
  /\ (forall ps, wf_defaults ps = true -> forall m r,
        wfk m = true -> pre_process ps m = inr r -> wfk r = true).
Proof.
  apply port_ports_mutind.
  - intros a Hd n m v Hm He. unfold entry_of in He.
    destruct (alist_get n m) as [x|] eqn:Eg.
    + injection He as <-. exact (wfk_get _ _ _ Hm Eg).
    + cbn [wf_defaults_port] in Hd. unfold wf_dflt in Hd.
      destruct (dflt_value (l_default a)) as [d|]; [|discriminate].
      cbn [option_map] in He. injection He as <-. exact Hd.
  - intros a sub IHsub Hd n m v Hm He. unfold entry_of in He.
    rewrite wf_defaults_port_ns in Hd. apply andb_true_iff in Hd. destruct Hd as [Hda Hds].
    apply entry_ns_inv in He. destruct He as [kvs [r' [Hp [Hv Hsrc]]]].
    subst v. rewrite wf_val_frozen. apply (IHsub Hds kvs r'); [|exact Hp].
    destruct Hsrc as [Hg | [Hdf | Hnil]].
    + rewrite <- wf_val_dict. exact (wfk_get _ _ _ Hm Hg).
    + unfold wf_dflt in Hda. rewrite Hdf in Hda. rewrite <- wf_val_dict. exact Hda.
    + subst kvs. reflexivity.
  - intros _ m r Hm Hpp. cbn [pre_process] in Hpp. injection Hpp as <-. exact Hm.
  - intros n p IHp rest IHrest Hd m r Hm Hpp.
    rewrite wf_defaults_cons in Hd. apply andb_true_iff in Hd. destruct Hd as [Hdp Hdr].
    rewrite pre_process_cons in Hpp.
    destruct (entry_of n p m) as [[e|v]|] eqn:E.
    + discriminate.
    + apply (IHrest Hdr (alist_set n v m) r); [|exact Hpp]. apply wfk_set; [|exact Hm].
      exact (IHp Hdp n m v Hm E).
    + exact (IHrest Hdr _ r Hm Hpp).
Qed.

Theorem pre_process_wf : forall ps m r,
  wf_defaults ps = true -> wf_kvs m = true -> pre_process ps m = inr r -> wf_kvs r = true.
Proof.
  intros ps m r Hd Hm Hpp. rewrite wf_kvs_wfk in *.
  exact (proj2 pre_process_wfk_mut ps Hd m r Hm Hpp).
Qed.

(* (4) read-only mappings at every declared namespace level *)
Lemma frozen_levels_ns : forall a ps v,
  frozen_levels (PNs a ps) v = match v with VFrozen m => frozen_levels_ports ps m | _ => false end.
Proof. intros a ps v. destruct v; reflexivity. Qed.

Lemma frozen_levels_ports_cons : forall n p rest m,
  frozen_levels_ports (PCons n p rest) m =
  match p, alist_get n m with
  | PNs _ _, Some v => frozen_levels p v
  | _, _ => true
  end && frozen_levels_ports rest m.
Proof. reflexivity. Qed.

Lemma pre_process_frozen_mut :
  (forall p, wf_port p = true -> forall a sub, p = PNs a sub -> forall kvs r',
     pre_process sub kvs = inr r' -> frozen_levels p (VFrozen r') = true)
  /\ (forall ps, names_unique ps = true -> wf_ports ps = true -> forall m r,
        pre_process ps m = inr r -> frozen_levels_ports ps r = true).
Proof.
  apply port_ports_mutind.
  - intros a _ a' sub Heq. discriminate.
  - intros a ps IHps Hwf a' sub Heq kvs r' Hp. injection Heq as <- <-.
    rewrite wf_port_ns in Hwf. apply andb_true_iff in Hwf. destruct Hwf as [Hnu Hwf].
    rewrite frozen_levels_ns. exact (IHps Hnu Hwf kvs r' Hp).
  - intros _ _ m r _. reflexivity.
  - intros n p IHp rest IHrest Hnu Hwf m r Hpp.
    pose proof (pre_process_entries _ _ _ Hnu Hpp n) as Hent.
    rewrite expected_entry_head in Hent.
    apply names_unique_cons in Hnu. destruct Hnu as [Hn Hnu].
    rewrite wf_ports_cons in Hwf. apply andb_true_iff in Hwf. destruct Hwf as [Hwfp Hwfr].
    rewrite pre_process_cons in Hpp.
    rewrite frozen_levels_ports_cons. apply andb_true_iff. split.
    + destruct p as [la|a sub]; [reflexivity|].
      destruct (alist_get n r) as [v|]; [|reflexivity].
      cbn [option_map] in Hent. symmetry in Hent. unfold entry_of in Hent.
      apply entry_ns_inv in Hent. destruct Hent as [kvs [r' [Hp [Hv _]]]]. subst v.
      exact (IHp Hwfp a sub eq_refl kvs r' Hp).
    + destruct (entry_of n p m) as [[e|v]|].
      * discriminate.
      * exact (IHrest Hnu Hwfr _ r Hpp).
      * exact (IHrest Hnu Hwfr _ r Hpp).
Qed.

Theorem pre_process_frozen : forall ps m r,
  names_unique ps = true -> wf_ports ps = true -> pre_process ps m = inr r ->
  frozen_levels_ports ps r = true.
Proof.
  intros ps m r Hnu Hwf Hpp. exact (proj2 pre_process_frozen_mut ps Hnu Hwf m r Hpp).
Qed.

Section C11.
  Variable veval : vid -> val -> bool.

  (* ---- unfolding lemmas ---- *)
  Lemma valid_port_leaf : forall a v, valid_port veval (PLeaf a) v = valid_leaf veval a v.
  Proof. reflexivity. Qed.

  Lemma valid_port_ns : forall a ps v,
    valid_port veval (PNs a ps) v =
    match mapping_items (if truthy v then v else VDict []) with
    | None => false
    | Some m =>
        if is_nil m && negb (n_required a) then true
        else match valid_ports veval ps m with
             | None => false
             | Some rest => valid_dynamic a rest && negb (run_validator veval (n_validator a) (VDict m))
             end
    end.
  Proof. reflexivity. Qed.

  Lemma valid_ports_cons : forall n p rest m,
    valid_ports veval (PCons n p rest) m =
    if valid_port veval p (match alist_get n m with Some x => x | None => UNSPEC end)
    then valid_ports veval rest (alist_del n m) else None.
  Proof. reflexivity. Qed.

  Lemma conforms_ns : forall a ps x,
    conforms veval (PNs a ps) x =
    match mapping_items (match x with Some v => if truthy v then v else VDict [] | None => VDict [] end) with
    | None => false
    | Some m =>
        (negb (n_required a) && is_nil m)
        || (conforms_all veval ps m
            && (is_nil (undeclared_items ps m) || n_dynamic a)
            && match n_vt a with
               | None => true
               | Some ts => forallb (fun kv => dyn_value_ok (n_dynamic a) ts (snd kv)) (undeclared_items ps m)
               end
            && negb (run_validator veval (n_validator a) (VDict m)))
    end.
  Proof. reflexivity. Qed.

  Lemma conforms_all_cons : forall n p rest m,
    conforms_all veval (PCons n p rest) m = conforms veval p (alist_get n m) && conforms_all veval rest m.
  Proof. reflexivity. Qed.

  (* an absent value and UNSPECIFIED are the same thing to a port *)
  Lemma conforms_none_unspec : forall p, conforms veval p None = conforms veval p (Some UNSPEC).
  Proof. intros p. destruct p; reflexivity. Qed.

  Lemma valid_dynamic_spec : forall a rest,
    valid_dynamic a rest =
    (is_nil rest || n_dynamic a)
    && match n_vt a with
       | None => true
       | Some ts => forallb (fun kv => dyn_value_ok (n_dynamic a) ts (snd kv)) rest
       end.
  Proof.
    intros a rest. unfold valid_dynamic. destruct rest; destruct (n_dynamic a); reflexivity.
  Qed.

  Lemma valid_leaf_spec : forall a v,
    valid_leaf veval a v = conforms veval (PLeaf a) (Some v).
  Proof.
    intros a v. cbn [conforms]. unfold valid_leaf.
    destruct (is_unspec v); destruct (l_required a); cbn [andb negb]; try reflexivity.
    - destruct (l_vt a) as [ts|]; [|reflexivity]. destruct (isinstance_any v ts); reflexivity.
    - destruct (l_vt a) as [ts|]; [|reflexivity]. destruct (isinstance_any v ts); reflexivity.
  Qed.

  (* popping a name that the remaining ports do not declare does not change what they see *)
  Lemma conforms_all_del : forall n rest m,
    existsb (String.eqb n) (ports_names rest) = false ->
    conforms_all veval rest (alist_del n m) = conforms_all veval rest m.
  Proof.
    intros n rest m. induction rest as [|n' p' rest IH]; intros H; [reflexivity|].
    cbn [ports_names existsb] in H. apply orb_false_iff in H. destruct H as [Hn Hr].
    rewrite !conforms_all_cons, (IH Hr), alist_get_del_other; [reflexivity|].
    rewrite String.eqb_sym. exact Hn.
  Qed.

  (* what remains after all pops is exactly what no port declares *)
  Lemma undeclared_del : forall n p rest m,
    keys_unique m = true ->
    undeclared_items rest (alist_del n m) = undeclared_items (PCons n p rest) m.
  Proof.
    intros n p rest m Hk. unfold undeclared_items. rewrite (filter_del _ n m Hk).
    apply filter_ext. intros [k x]. unfold declared. cbn [fst ports_get].
    destruct (String.eqb k n); reflexivity.
  Qed.

  Lemma valid_conforms_mut :
    (forall p, wf_port p = true -> forall v, wf_val v = true ->
       valid_port veval p v = conforms veval p (Some v))
    /\ (forall ps, names_unique ps = true -> wf_ports ps = true -> forall m, wfk m = true ->
          valid_ports veval ps m =
          if conforms_all veval ps m then Some (undeclared_items ps m) else None).
  Proof.
    apply port_ports_mutind.
    - intros a _ v _. rewrite valid_port_leaf. apply valid_leaf_spec.
    - intros a ps IHps Hwf v Hv.
      rewrite wf_port_ns in Hwf. apply andb_true_iff in Hwf. destruct Hwf as [Hnu Hwf].
      rewrite valid_port_ns, conforms_ns.
      assert (Hpv : wf_val (if truthy v then v else VDict []) = true).
      { destruct (truthy v); [exact Hv|reflexivity]. }
      remember (if truthy v then v else VDict []) as pv eqn:Epv. clear Epv.
      assert (Hgoal : forall m, wfk m = true ->
        (if is_nil m && negb (n_required a) then true
         else match valid_ports veval ps m with
              | None => false
              | Some rest => valid_dynamic a rest && negb (run_validator veval (n_validator a) (VDict m))
              end) =
        (negb (n_required a) && is_nil m)
        || (conforms_all veval ps m
            && (is_nil (undeclared_items ps m) || n_dynamic a)
            && match n_vt a with
               | None => true
               | Some ts => forallb (fun kv => dyn_value_ok (n_dynamic a) ts (snd kv)) (undeclared_items ps m)
               end
            && negb (run_validator veval (n_validator a) (VDict m)))).
      { intros m Hm. rewrite (IHps Hnu Hwf m Hm).
        destruct (conforms_all veval ps m).
        - rewrite valid_dynamic_spec.
          destruct (is_nil m); destruct (n_required a); cbn [andb negb orb]; reflexivity.
        - destruct (is_nil m); destruct (n_required a); reflexivity. }
      destruct pv; cbn [mapping_items]; try reflexivity.
      + apply Hgoal. rewrite <- wf_val_dict. exact Hpv.
      + apply Hgoal. rewrite <- wf_val_frozen. exact Hpv.
    - intros _ _ m _. cbn [valid_ports conforms_all]. unfold undeclared_items.
      rewrite filter_true_id; reflexivity.
    - intros n p IHp rest IHrest Hnu Hwf m Hm.
      apply names_unique_cons in Hnu. destruct Hnu as [Hn Hnu].
      rewrite wf_ports_cons in Hwf. apply andb_true_iff in Hwf. destruct Hwf as [Hwfp Hwfr].
      rewrite valid_ports_cons, conforms_all_cons.
      assert (Hv : wf_val (match alist_get n m with Some x => x | None => UNSPEC end) = true).
      { destruct (alist_get n m) as [x|] eqn:Eg; [exact (wfk_get _ _ _ Hm Eg)|reflexivity]. }
      rewrite (IHp Hwfp _ Hv).
      assert (Hc : conforms veval p (Some (match alist_get n m with Some x => x | None => UNSPEC end))
                   = conforms veval p (alist_get n m)).
      { destruct (alist_get n m); [reflexivity|]. symmetry. apply conforms_none_unspec. }
      rewrite Hc. destruct (conforms veval p (alist_get n m)); [|reflexivity].
      rewrite (IHrest Hnu Hwfr _ (wfk_del n m Hm)), (conforms_all_del _ _ _ Hn).
      cbn [andb]. destruct (conforms_all veval rest m); [|reflexivity].
      f_equal. apply undeclared_del.
      unfold wfk in Hm. apply andb_true_iff in Hm. exact (proj1 Hm).
  Qed.

  (* (1) the algorithm (pops each declared name, clones, validates the rest dynamically) decides
     the declarative reading *)
  Theorem valid_port_conforms : forall p v,
    wf_port p = true -> wf_val v = true -> valid_port veval p v = conforms veval p (Some v).
  Proof. intros p v Hp Hv. exact (proj1 valid_conforms_mut p Hp v Hv). Qed.

  (* (5) construction succeeds exactly on conforming completed inputs, and yields them *)
  Theorem construct_accept_iff : forall spec raw parsed,
    wf_port spec = true -> wf_defaults_port spec = true ->
    wf_kvs (match raw with Some m => m | None => [] end) = true ->
    (construct veval spec raw = inr parsed <->
     exists a ps r, spec = PNs a ps
       /\ pre_process ps (match raw with Some m => m | None => [] end) = inr r
       /\ parsed = VFrozen r
       /\ conforms veval spec (Some parsed) = true).
  Proof.
    intros spec raw parsed Hwf Hd Hraw.
    assert (Hvc : forall a ps r, spec = PNs a ps ->
              pre_process ps (match raw with Some m => m | None => [] end) = inr r ->
              valid_port veval spec (VFrozen r) = conforms veval spec (Some (VFrozen r))).
    { intros a ps r Hs Hpp. apply valid_port_conforms; [exact Hwf|].
      subst spec. rewrite wf_defaults_port_ns in Hd. apply andb_true_iff in Hd.
      destruct Hd as [_ Hd]. change (wf_kvs r = true). exact (pre_process_wf _ _ _ Hd Hraw Hpp). }
    split.
    - intros Hc. destruct spec as [la|a ps]; [discriminate|].
      unfold construct in Hc.
      destruct (pre_process ps (match raw with Some m => m | None => [] end)) as [e|r] eqn:Hpp;
        [discriminate|].
      destruct (valid_port veval (PNs a ps) (VFrozen r)) eqn:Hv; [|discriminate].
      injection Hc as <-. exists a, ps, r.
      split; [reflexivity|]. split; [exact Hpp|]. split; [reflexivity|].
      rewrite <- (Hvc a ps r eq_refl Hpp). exact Hv.
    - intros [a [ps [r [Hs [Hpp [Hpa Hc]]]]]].
      pose proof (Hvc a ps r Hs Hpp) as Hv. subst parsed. rewrite Hc in Hv.
      subst spec. unfold construct. rewrite Hpp, Hv. reflexivity.
  Qed.
End C11.

Print Assumptions valid_port_conforms.
Print Assumptions pre_process_entries.
Print Assumptions pre_process_wf.
Print Assumptions pre_process_frozen.
Print Assumptions construct_accept_iff.
