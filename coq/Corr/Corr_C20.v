(* Corr/Corr_C20.v — correspondence cases for the future adapters (M5). *)
From Coq Require Import List ZArith String Bool Arith.
From Plumpy Require Import Val Util Adapters.
Import ListNotations.

Definition term_eqb (a b : term) : bool :=
  match a, b with
  | TVal x, TVal y => val_eqb x y
  | TExn x, TExn y => exn_eqb x y
  | TCancel, TCancel => true
  | _, _ => false
  end.

Definition aret_eqb (a b : aret) : bool :=
  match a, b with
  | ARetNone, ARetNone => true
  | ARetBool x, ARetBool y => Bool.eqb x y
  | ARaised x, ARaised y => exn_eqb x y
  | _, _ => false
  end.

Inductive C20_case :=
| KUnwrap (k : nat) (t : term) (order : list nat) (observed : list (option term))   (* unwrap_kiwi_future, and plum_to_kiwi_future o unwrap *)
| KRpc (t : term) (observed : option term)                                          (* _schedule_rpc on a nested loop-future chain, after all levels completed *)
| KTask (coro : exn + val) (observed : term)                                        (* create_task *)
| KAction (f : exn + val) (ops : list aop) (rets : list aret) (final : option term) (calls : nat).

Definition c20_ok (c : C20_case) : bool :=
  match c with
  | KUnwrap k t order obs => list_eqb (option_eqb term_eqb) (u_trace k t (u_init k) order) obs
  | KRpc t obs => option_eqb term_eqb (rpc_final t) obs
  | KTask coro obs => term_eqb (create_task_outcome coro) obs
  | KAction f ops rets final calls =>
      let '(s, rs) := a_run f a_init ops in
      list_eqb aret_eqb rs rets && option_eqb term_eqb (a_fut s) final && Nat.eqb (a_calls s) calls
  end.

Definition mismatches (l : list C20_case) : list nat := mismatches_from c20_ok 0 l.

Definition c20_model (c : C20_case) :=
  match c with
  | KUnwrap k t order _ => (u_trace k t (u_init k) order, [], None, 0)
  | KRpc t _ => ([rpc_final t], [], None, 0)
  | KTask coro _ => ([Some (create_task_outcome coro)], [], None, 0)
  | KAction f ops _ _ _ => let '(s, rs) := a_run f a_init ops in ([], rs, a_fut s, a_calls s)
  end.
