(* Corr/Corr_C14.v — correspondence cases for the two persisters. *)
From Coq Require Import List ZArith String Bool.
From Plumpy Require Import Val Util Persister.
Import ListNotations.

(* canonical outputs: listings are compared as duplicate-free sets *)
Fixpoint key_mem (k : key) (l : list key) : bool :=
  match l with [] => false | k' :: r => key_eqb k k' || key_mem k r end.
Definition keys_subset (a b : list key) : bool := forallb (fun k => key_mem k b) a.
Fixpoint keys_nodup (l : list key) : bool :=
  match l with [] => true | k :: r => negb (key_mem k r) && keys_nodup r end.

Definition pout_eqb (a b : pout) : bool :=
  match a, b with
  | ONone, ONone | ONotFound, ONotFound => true
  | OSnap x, OSnap y => val_eqb x y
  | OKeys x, OKeys y => keys_subset x y && keys_subset y x && keys_nodup x && keys_nodup y
  | _, _ => false
  end.

Record C14_case := mk_c14 {
  c14_hist : list pop;
  c14_mem_obs : list pout;          (* outputs observed on the real InMemoryPersister *)
  c14_pickle_obs : list pout        (* outputs observed on the real PicklePersister *)
}.

Definition c14_ok (c : C14_case) : bool :=
  list_eqb pout_eqb (run_hist mem_step [] (c14_hist c)) (c14_mem_obs c)
  && list_eqb pout_eqb (run_hist pickle_step [] (c14_hist c)) (c14_pickle_obs c).

Definition mismatches (l : list C14_case) : list nat := mismatches_from c14_ok 0 l.
Definition c14_model (c : C14_case) :=
  (run_hist mem_step [] (c14_hist c), run_hist pickle_step [] (c14_hist c)).
