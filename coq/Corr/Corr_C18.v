(* Corr/Corr_C18.v — correspondence cases for the context-local process stack (Comms/Ctx.v).
   A case is a table of process definitions, the schedule the real run followed (which task ran each loop
   callback, where nested execute() calls returned, what the environment did between callbacks), and the
   chronological log the real plumpy produced: every sample (who, kind of code, Process.current()) interleaved
   with the schedule markers.  The model replays the schedule and must produce exactly that log. *)
From Coq Require Import List Bool Arith.
From Plumpy Require Import Val Util Ctx.
Import ListNotations.

Definition hook_eqb (a b : hook) : bool :=
  match a, b with
  | HCreate, HCreate | HRun, HRun | HRunning, HRunning | HExitRunning, HExitRunning | HWait, HWait
  | HWaiting, HWaiting | HExitWaiting, HExitWaiting | HFinish, HFinish | HFinished, HFinished
  | HKill, HKill | HKilled, HKilled | HExcept, HExcept | HExcepted, HExcepted | HTerminated, HTerminated
  | HClose, HClose | HPausing, HPausing | HPaused, HPaused | HPlaying, HPlaying => true
  | _, _ => false
  end.

Definition kind_eqb (a b : kind) : bool :=
  match a, b with
  | KStep, KStep | KCont, KCont | KOutEmitting, KOutEmitting | KOutEmitted, KOutEmitted
  | KCallback, KCallback => true
  | KHook x, KHook y => hook_eqb x y
  | _, _ => false
  end.

Definition obs_eqb (a b : obs) : bool :=
  match a, b with
  | OCode w k c, OCode w' k' c' => Nat.eqb w w' && kind_eqb k k' && option_eqb Nat.eqb c c'
  | ORun t, ORun t' => Nat.eqb t t'
  | ORet, ORet => true
  | OExt, OExt => true
  | OEnter t p s, OEnter t' p' s' => Nat.eqb t t' && Nat.eqb p p' && list_nat_eqb s s'
  | OExit t p s, OExit t' p' s' => Nat.eqb t t' && Nat.eqb p p' && list_nat_eqb s s'
  | _, _ => false
  end.

Record C18_case := mk_c18 {
  k_defs : list pdef;
  k_sched : list sitem;
  k_fuel : nat;
  k_log : list obs       (* observed on the implementation *)
}.

Definition c18_ok (k : C18_case) : bool :=
  let '(c, fin) := drive hooks_scoped_now (k_defs k) (k_fuel k) (init (k_defs k)) (k_sched k) in
  fin && Nat.eqb (length (c_running c)) 0 && Nat.eqb (c_bad c) 0 && Nat.eqb (c_assert c) 0
  && list_eqb obs_eqb (log_of c) (k_log k).

Definition mismatches (l : list C18_case) : list nat := mismatches_from c18_ok 0 l.

(* diagnosis: the model's log, whether the schedule was consumed, rejected schedule items, assertion failures,
   tasks still on the call stack *)
Definition c18_model (k : C18_case) :=
  let '(c, fin) := drive hooks_scoped_now (k_defs k) (k_fuel k) (init (k_defs k)) (k_sched k) in
  (log_of c, fin, c_bad c, c_assert c, c_running c).
