(* Corr/Corr_C07.v — correspondence for C07: the model of Persist/ProcSave.v against snapshots of real processes.
   A snapshot carries the persisted part of a real process / work chain read off its attributes ([s_proc]; the stepper is
   represented by the saved state the real stepper produced — it is opaque in this model), what the real
   Bundle(process) looked like after the serialisation medium ([s_bundle1]), what the public accessors of the
   process recreated from it showed ([s_obs2]) and Bundle(recreated process) ([s_bundle2]).  The model must predict
   all three; for a process that the real code refused to save it must predict that too. *)
From Coq Require Import List ZArith String Bool.
From Plumpy Require Import Val Util Savable ProcSave.
Import ListNotations.
Local Open Scope string_scope.

(* the stepper instance used for the correspondence: its saved state stands for the stepper *)
Definition sv_stepper (_ : loader) (_ : option loader) (s : node) : node := s.
Definition rc_stepper (n : node) : option node := Some n.

Definition cproc := proc node.
Definition csave := save_proc sv_stepper.
Definition cload := load_proc rc_stepper.

Record C07_snap := mk_snap {
  s_proc : cproc;
  s_unsavable : bool;
  s_bundle1 : node;
  s_obs2 : obs;
  s_bundle2 : option node      (* None: equal to [strip_traceback s_bundle1] (compared by the harness; keeps the cases files small) *)
}.

Record C07_case := mk_c07 {
  c_glob : loader;
  c_sctx : option loader;
  c_lctx : option loader;
  c_classes : cenv;
  c_snaps : list C07_snap
}.

Definition kvs_eqb (a b : list (string * val)) : bool := val_eqb (VDict a) (VDict b).
Definition vals_eqb (a b : list val) : bool := val_eqb (VTup a) (VTup b).

Definition sstate_eqb (a b : sstate) : bool :=
  match a, b with
  | StCreated f x k, StCreated f' x' k' | StRunning f x k, StRunning f' x' k' => String.eqb f f' && vals_eqb x x' && kvs_eqb k k'
  | StWaiting f m d, StWaiting f' m' d' => option_eqb String.eqb f f' && val_eqb m m' && val_eqb d d'
  | StFinished r o, StFinished r' o' => val_eqb r r' && Bool.eqb o o'
  | StExcepted e t, StExcepted e' t' => exn_eqb e e' && Bool.eqb t t'
  | StKilled m, StKilled m' => val_eqb m m'
  | _, _ => false
  end.

Definition fstate_eqb (a b : fstate) : bool :=
  match a, b with
  | FPending, FPending | FCancelled, FCancelled => true
  | FResult x, FResult y => val_eqb x y
  | FExn x, FExn y => exn_eqb x y
  | _, _ => false
  end.

Definition racc_eqb (a b : racc) : bool :=
  match a, b with
  | RaOk x, RaOk y | RaKilled x, RaKilled y => val_eqb x y
  | RaExn x, RaExn y => exn_eqb x y
  | RaInvalid, RaInvalid => true
  | _, _ => false
  end.

Definition obs_eqb (a b : obs) : bool :=
  val_eqb (o_pid a) (o_pid b) && val_eqb (o_ctime a) (o_ctime b) && String.eqb (o_label a) (o_label b) &&
  sstate_eqb (o_payload a) (o_payload b) &&
  option_eqb val_eqb (o_raw a) (o_raw b) && option_eqb val_eqb (o_parsed a) (o_parsed b) &&
  kvs_eqb (o_outputs a) (o_outputs b) && option_eqb kvs_eqb (o_ctx a) (o_ctx b) &&
  val_eqb (o_status a) (o_status b) && Bool.eqb (o_paused a) (o_paused b) && fstate_eqb (o_future a) (o_future b) &&
  racc_eqb (o_result a) (o_result b) && option_eqb Bool.eqb (o_successful a) (o_successful b) &&
  option_eqb exn_eqb (o_exception a) (o_exception b) && option_eqb val_eqb (o_killed_msg a) (o_killed_msg b).

Definition snap_ok (c : C07_case) (s : C07_snap) : bool :=
  match csave (c_glob c) (c_sctx c) (s_proc s) with
  | None => s_unsavable s
  | Some n =>
      negb (s_unsavable s) && node_eqm n (s_bundle1 s) &&
      match cload (c_classes c) (c_glob c) (c_lctx c) (s_bundle1 s) with
      | Some p' =>
          obs_eqb (observe p') (s_obs2 s) &&
          match csave (c_glob c) (c_sctx c) p' with
          | Some n2 => node_eqm n2 (match s_bundle2 s with Some b => b | None => strip_traceback (s_bundle1 s) end)
          | None => false
          end
      | None => false
      end
  end.

Definition c07_ok (c : C07_case) : bool := forallb (snap_ok c) (c_snaps c).

Definition mismatches (l : list C07_case) : list nat := mismatches_from c07_ok 0 l.

(* diagnosis: per snapshot (ok?, model bundle, model observation of the loaded process, model second bundle) *)
Definition c07_model (c : C07_case) :=
  map (fun s =>
         let n := csave (c_glob c) (c_sctx c) (s_proc s) in
         let p' := cload (c_classes c) (c_glob c) (c_lctx c) (s_bundle1 s) in
         (snap_ok c s, n, option_map (@observe node) p',
          match p' with Some q => csave (c_glob c) (c_sctx c) q | None => None end))
      (filter (fun s => negb (snap_ok c s)) (c_snaps c)).
