(* Corr/Corr_C17.v — correspondence cases for the process launcher (Comms/Launcher.v).

   The abstract environment of the model (classes, their constructors and run-to-completion behaviour) is
   instantiated with the three real classes of harness/c17_procs.py:
     Add   : plain Process, inputs a (required int), b (int, default 1); one step; outputs {sum: a + b}
     Steps : WorkChain with outline (s0, s1, s2); inputs n, fail, kill (ints, defaults 0, -1, -1); step k records
             itself in ctx.acc, raises UserError('f<k>') if fail = k (fail = 3: the on_finished hook raises UserError('f3')), kills itself with message 'k<k>' if kill = k;
             the last step outputs {acc: ctx.acc, n: n}
     Other : subclass of Steps whose result is n + 100
   A checkpoint is observed as (state label, ctx.acc, outputs so far).  The loader tables come with the case (they are read from the
   real loader classes by the harness). *)
From Coq Require Import List ZArith String Bool Ascii.
From Plumpy Require Import Val Util Persister Launcher.
Import ListNotations.
Local Open Scope string_scope.

Definition cAdd := "c17_procs:Add".
Definition cSteps := "c17_procs:Steps".
Definition cOther := "c17_procs:Other".
Definition c17_known : list string := [cAdd; cSteps; cOther].

(* ---------------- constructors: validation and defaults of the three classes ---------------- *)
Definition int_or (d : Z) (n : string) (kvs : list (string * val)) : option Z :=
  match alist_get n kvs with
  | None => Some d
  | Some (VInt z) => Some z
  | Some _ => None
  end.

Definition c17_construct (cls : string) (inputs : val) : exn + val :=
  let kvs := match inputs with VDict l => Some l | VNone => Some [] | _ => None end in
  match kvs with
  | None => inl EType
  | Some kvs =>
      if String.eqb cls cAdd then
        if negb (forallb (fun kv => mem_str (fst kv) ["a"; "b"]) kvs) then inl EValue
        else match alist_get "a" kvs, int_or 1 "b" kvs with
             | Some (VInt a), Some b => inr (VDict [("a", VInt a); ("b", VInt b)])
             | _, _ => inl EValue
             end
      else
        if negb (forallb (fun kv => mem_str (fst kv) ["n"; "fail"; "kill"]) kvs) then inl EValue
        else match int_or 0 "n" kvs, int_or (-1) "fail" kvs, int_or (-1) "kill" kvs with
             | Some n, Some f, Some k => inr (VDict [("fail", VInt f); ("kill", VInt k); ("n", VInt n)])
             | _, _, _ => inl EValue
             end
  end.

Definition c17_ckpt0 (cls : string) (parsed : val) : val := VTup [VStr "created"; VList []; VDict []].

(* ---------------- running to the end from a checkpoint ---------------- *)
Definition digit (k : nat) : string :=
  match k with 0 => "0" | 1 => "1" | 2 => "2" | 3 => "3" | _ => "?" end.

Definition zget (n : string) (parsed : val) : Z :=
  match parsed with
  | VDict kvs => match alist_get n kvs with Some (VInt z) => z | _ => 0%Z end
  | _ => 0%Z
  end.

Definition acc_of (ckpt : val) : list val := match ckpt with VTup [_; VList l; _] => l | _ => [] end.
Definition state_of (ckpt : val) : string := match ckpt with VTup [VStr s; _; _] => s | _ => "" end.
Definition outputs_of (ckpt : val) : val := match ckpt with VTup [_; _; o] => o | _ => VNone end.

(* steps [ks] still to do; [acc] = ctx.acc so far *)
Fixpoint steps_run (fail kill n : Z) (ks : list nat) (acc : list val) : list nat * outcome :=
  match ks with
  | [] => ([], if Z.eqb fail 3 then OExn (EUser "f3")      (* on_finished raises: FINISHED was entered, the outcome is the failure *)
               else ODone (VDict [("acc", VList acc); ("n", VInt n)]))
  | k :: rest =>
      let acc' := (acc ++ [VInt (Z.of_nat k)])%list in
      if Z.eqb fail (Z.of_nat k) then ([k], OExn (EUser ("f" ++ digit k)))
      else if Z.eqb kill (Z.of_nat k) then ([k], OKilled ("k" ++ digit k))
      else let '(ss, o) := steps_run fail kill n rest acc' in (k :: ss, o)
  end.

Definition c17_run (cls : string) (parsed ckpt : val) : run_result :=
  let st := state_of ckpt in
  if String.eqb st "finished" then mk_rr [] (ODone (outputs_of ckpt))        (* the saved outputs *)
  else if String.eqb cls cAdd then
    mk_rr [0] (ODone (VDict [("sum", VInt (zget "a" parsed + zget "b" parsed))]))
  else
    let n := (zget "n" parsed + if String.eqb cls cOther then 100 else 0)%Z in
    let f := zget "fail" parsed in
    let k := zget "kill" parsed in
    let acc := acc_of ckpt in
    if String.eqb st "excepted" then mk_rr [] (OExn (EUser ("f" ++ digit (Z.to_nat f))))
    else if String.eqb st "killed" then mk_rr [] (OKilled ("k" ++ digit (Z.to_nat k)))
    else let '(ss, o) := steps_run f k n (skipn (List.length acc) [0; 1; 2]) acc in mk_rr ss o.

(* ---------------- comparison ---------------- *)
Definition preply_eqb (a b : preply) : bool :=
  match a, b with
  | PPid x, PPid y => String.eqb x y
  | PVal x, PVal y => val_eqb x y
  | PExn x, PExn y => exn_eqb x y
  | PNone, PNone => true
  | _, _ => false
  end.

Definition event_eqb (a b : event) : bool :=
  match a, b with
  | EvInit c p, EvInit c' p' => String.eqb c c' && String.eqb p p'
  | EvStep p k, EvStep p' k' => String.eqb p p' && Nat.eqb k k'
  | _, _ => false
  end.

Definition entry_eqb (a b : key * snap) : bool := key_eqb (fst a) (fst b) && val_eqb (snd a) (snd b).
Definition entry_mem (e : key * snap) (l : list (key * snap)) : bool := existsb (entry_eqb e) l.
Fixpoint keys_nodup (l : list (key * snap)) : bool :=
  match l with [] => true | e :: r => negb (existsb (fun e' => key_eqb (fst e) (fst e')) r) && keys_nodup r end.
(* persister content, compared as a finite map *)
Definition store_eqb (a b : list (key * snap)) : bool :=
  forallb (fun e => entry_mem e b) a && forallb (fun e => entry_mem e a) b && keys_nodup a && keys_nodup b.

Record obs_item := mk_obs {
  ob_reply : preply;                 (* reply or exception of launcher(communicator, body) *)
  ob_before : list event;            (* what had happened when the reply was delivered *)
  ob_after : list event;             (* what happened afterwards, until the loop was idle *)
  ob_store : list (key * snap)       (* content of the real persister after the item (empty without persister) *)
}.

(* how a body was built on the sending side: create_*_body(class, ..., loader=sender's loader) *)
Inductive built :=
| BLaunch (sender : ltable) (cls : string) (a k : val) (persist nowait : bool)
| BCreate (sender : ltable) (cls : string) (a k : val) (persist : bool)
| BContinue (p : pid) (t : tag) (nowait : bool)
| BRaw.

Definition body_eqb (a b : body) : bool := val_eqb (VDict a) (VDict b).

Definition built_ok (bt : built) (h : hitem) : bool :=
  match bt, h with
  | BRaw, _ => true
  | BLaunch s c a k p n, HTask b => body_eqb (launch_body (identify s c) a k p n) b
  | BCreate s c a k p, HTask b => body_eqb (create_body (identify s c) a k p) b
  | BContinue p t n, HTask b => body_eqb (continue_body p t n) b
  | _, _ => false
  end.

Record C17_case := mk_c17 {
  k_cfg : config;
  k_loader_classes : list (string * ltable);
  k_hist : list hitem;
  k_built : list built;
  k_obs : list obs_item
}.

Definition c17_run_obs (c : C17_case) : list (iobs * amap) :=
  run_obs c17_known (k_loader_classes c) c17_construct c17_ckpt0 c17_run (k_cfg c) world0 (k_hist c).

Definition item_ok (m : iobs * amap) (o : obs_item) : bool :=
  preply_eqb (flatten (io_reply (fst m))) (ob_reply o)
  && list_eqb event_eqb (io_before (fst m)) (ob_before o)
  && list_eqb event_eqb (io_after (fst m)) (ob_after o)
  && store_eqb (snd m) (ob_store o).

Fixpoint all2 {A B} (f : A -> B -> bool) (l1 : list A) (l2 : list B) : bool :=
  match l1, l2 with
  | [], [] => true
  | x :: l1', y :: l2' => f x y && all2 f l1' l2'
  | _, _ => false
  end.

Definition c17_ok (c : C17_case) : bool :=
  all2 item_ok (c17_run_obs c) (k_obs c) && all2 built_ok (k_built c) (k_hist c).

Definition mismatches (l : list C17_case) : list nat := mismatches_from c17_ok 0 l.

Definition c17_model (c : C17_case) :=
  map (fun m => (flatten (io_reply (fst m)), io_before (fst m), io_after (fst m), snd m)) (c17_run_obs c).
