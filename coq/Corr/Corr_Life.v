(* Corr/Corr_Life.v — correspondence cases for M1 (shared by C01-C06, C13). *)
From Coq Require Import List ZArith String Bool Arith.
From Plumpy Require Import Val Util Mon PortModel Model Run.
Import ListNotations.

Definition olabel_eqb := option_eqb label_eqb.
Definition ostr_eqb := option_eqb String.eqb.
Definition kwargs_eqb := list_eqb (pair_eqb String.eqb val_eqb).

Definition ctl_eqb (a b : ctl) : bool :=
  match a, b with
  | CPause x, CPause y | CKill x, CKill y => ostr_eqb x y
  | CPlay, CPlay => true
  | CResume x, CResume y => option_eqb val_eqb x y
  | CFail x, CFail y | CRaise x, CRaise y => exn_eqb x y
  | _, _ => false
  end.

Definition cret_eqb (a b : cret) : bool :=
  match a, b with
  | CrBool x, CrBool y => Bool.eqb x y
  | CrAction x, CrAction y => Nat.eqb x y
  | CrNone, CrNone => true
  | CrRaised x, CrRaised y => exn_eqb x y
  | _, _ => false
  end.

Definition event_eqb (a b : event) : bool :=
  match a, b with
  | EvEntered f1 t1, EvEntered f2 t2 => olabel_eqb f1 f2 && label_eqb t1 t2
  | EvHook x, EvHook y | EvListener x, EvListener y => String.eqb x y
  | EvStep f1 a1 k1 p1, EvStep f2 a2 k2 p2 =>
      String.eqb f1 f2 && list_eqb val_eqb a1 a2 && kwargs_eqb k1 k2 && Bool.eqb p1 p2
  | EvOutput p1 v1 d1, EvOutput p2 v2 d2 => String.eqb p1 p2 && val_eqb v1 v2 && Bool.eqb d1 d2
  | EvObserve p1 s1, EvObserve p2 s2 => Bool.eqb p1 p2 && ostr_eqb s1 s2
  | EvCtl c1 r1, EvCtl c2 r2 => ctl_eqb c1 c2 && cret_eqb r1 r2
  | EvCleanup x, EvCleanup y | EvCallback x, EvCallback y => Nat.eqb x y
  | EvLoopError x, EvLoopError y => exn_eqb x y
  | _, _ => false
  end.

Definition afut_eqb (a b : afut) : bool :=
  match a, b with
  | AfPending, AfPending | AfCancelled, AfCancelled => true
  | AfVal x, AfVal y => Bool.eqb x y
  | AfExn x, AfExn y => exn_eqb x y
  | _, _ => false
  end.

Definition pfstate_eqb (a b : pfstate) : bool :=
  match a, b with
  | PfPending, PfPending | PfCancelled, PfCancelled => true
  | PfResult x, PfResult y => kwargs_eqb x y
  | PfExn x, PfExn y => exn_eqb x y
  | _, _ => false
  end.

(* what is observed on the real process when the schedule is over *)
Inductive t0status := T0Pending | T0Done | T0Failed.
Definition t0status_eqb (a b : t0status) : bool :=
  match a, b with T0Pending, T0Pending | T0Done, T0Done | T0Failed, T0Failed => true | _, _ => false end.

Record final_obs := mk_final {
  fo_state : label;
  fo_future : pfstate;
  fo_paused : bool;
  fo_status : option string;
  fo_t0 : t0status;
  fo_actions : list afut;
  fo_killing : bool;
  fo_closed : bool;
  fo_ready : nat                     (* callbacks still in the loop's ready queue *)
}.

Definition t0_of (p : pc) : t0status :=
  match p with PcDone => T0Done | PcFailed _ => T0Failed | _ => T0Pending end.

Definition final_of (w : world) : option final_obs :=
  match st w with
  | None => None
  | Some s =>
      Some (mk_final (label_of s) (pfut w) (match paused w with Some _ => true | None => false end) (status w)
                     (t0_of (t0 w)) (map a_fut (acts w)) (match killing w with Some _ => true | None => false end)
                     (closed w) (List.length (ready w)))
  end.

Definition final_eqb (a b : final_obs) : bool :=
  label_eqb (fo_state a) (fo_state b) && pfstate_eqb (fo_future a) (fo_future b)
  && Bool.eqb (fo_paused a) (fo_paused b) && ostr_eqb (fo_status a) (fo_status b)
  && t0status_eqb (fo_t0 a) (fo_t0 b) && list_eqb afut_eqb (fo_actions a) (fo_actions b)
  && Bool.eqb (fo_killing a) (fo_killing b) && Bool.eqb (fo_closed a) (fo_closed b)
  && Nat.eqb (fo_ready a) (fo_ready b).

Record Life_case := mk_life {
  lc_cfg : config;
  lc_events : list env_event;
  lc_trace : list event;              (* observed *)
  lc_final : option final_obs         (* observed; None: the constructor raised *)
}.

Definition life_ok (c : Life_case) : bool :=
  match run (lc_cfg c) (lc_events c), lc_final c with
  | None, None => true
  | Some w, Some f =>
      list_eqb event_eqb (trace w) (lc_trace c)
      && match final_of w with Some f' => final_eqb f' f | None => false end
  | _, _ => false
  end.

Definition mismatches (l : list Life_case) : list nat := mismatches_from life_ok 0 l.
Definition life_model (c : Life_case) :=
  match run (lc_cfg c) (lc_events c) with
  | None => None
  | Some w => Some (trace w, final_of w)
  end.
