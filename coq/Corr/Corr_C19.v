(* Corr/Corr_C19.v — correspondence cases for Savable round trips. *)
From Coq Require Import List ZArith String Bool.
From Plumpy Require Import Val Util Savable.
Import ListNotations.

Definition fstate_eqb (a b : fstate) : bool :=
  match a, b with
  | FPending, FPending | FCancelled, FCancelled => true
  | FResult x, FResult y => val_eqb x y
  | FExn x, FExn y => exn_eqb x y
  | _, _ => false
  end.

Fixpoint mval_eqb (a b : mval) : bool :=
  match a, b with
  | MPlain x, MPlain y => val_eqb x y
  | MMethod o1 n1, MMethod o2 n2 => Bool.eqb o1 o2 && String.eqb n1 n2
  | MObj x, MObj y => sobj_eqb x y
  | MFut x, MFut y => fstate_eqb x y
  | _, _ => false
  end
with sobj_eqb (a b : sobj) : bool :=
  match a, b with SObj c1 a1, SObj c2 a2 => String.eqb c1 c2 && mattrs_eqb a1 a2 end
with mattrs_eqb (a b : mattrs) : bool :=
  match a, b with
  | ANil, ANil => true
  | ACons n1 v1 r1, ACons n2 v2 r2 => String.eqb n1 n2 && mval_eqb v1 v2 && mattrs_eqb r1 r2
  | _, _ => false
  end.

(* saved states are dicts: compare up to key order *)
Fixpoint node_eqb (a b : node) : bool :=
  match a, b with
  | NVal x, NVal y => val_eqb x y
  | NExn x, NExn y => exn_eqb x y
  | NDict x, NDict y => nkvs_sub x y && nkvs_len_eqb x y
  | _, _ => false
  end
with nkvs_sub (a b : nkvs) : bool :=          (* every binding of a is in b *)
  match a with
  | KNil => true
  | KCons k n r => match nk_get k b with Some m => node_eqb n m | None => false end && nkvs_sub r b
  end
with nkvs_len_eqb (a b : nkvs) : bool :=
  match a, b with
  | KNil, KNil => true
  | KCons _ _ r, KCons _ _ s => nkvs_len_eqb r s
  | _, _ => false
  end.

Inductive obs_load := OLoaded (v : mval) | OValueError | OOtherError | ONotRun.

Record C19_case := mk_c19 {
  c19_ct : ctable;
  c19_obj : sobj;
  c19_glob : loader;
  c19_save_ctx : option loader;
  c19_load_ctx : option loader;
  c19_forget : option string;       (* a class made unloadable between save and load *)
  c19_saved : option node;          (* observed: the saved state (None: save raised) *)
  c19_loaded : obs_load             (* observed: result of Savable.load on it *)
}.

Definition load_fuel := 12.

Definition load_ct (c : C19_case) : ctable :=
  match c19_forget c with
  | None => c19_ct c
  | Some f => filter (fun e => negb (String.eqb (fst e) f)) (c19_ct c)
  end.

Definition c19_ok (c : C19_case) : bool :=
  match save_obj (c19_ct c) (c19_glob c) (c19_save_ctx c) (c19_obj c), c19_saved c with
  | None, None => match c19_loaded c with ONotRun => true | _ => false end
  | Some n, Some m =>
      node_eqb n m &&
      match load_obj (load_ct c) (c19_glob c) load_fuel (c19_load_ctx c) n, c19_loaded c with
      | inr v, OLoaded w => mval_eqb v w
      | inl LValueError, OValueError => true
      | inl LOther, OOtherError => true
      | _, _ => false
      end
  | _, _ => false
  end.

Definition mismatches (l : list C19_case) : list nat := mismatches_from c19_ok 0 l.
Definition c19_model (c : C19_case) :=
  match save_obj (c19_ct c) (c19_glob c) (c19_save_ctx c) (c19_obj c) with
  | None => (None, None)
  | Some n => (Some n, Some (load_obj (load_ct c) (c19_glob c) load_fuel (c19_load_ctx c) n))
  end.
