(* Corr/Corr_C10.v — correspondence cases for the ToContext barrier (Outline/Barrier.v).
   A case = a scripted workchain (outline, predicate stream, step scripts) + the list of environment events
   (Complete k outcome | Tick) the controlled scheduler performed + what the real plumpy showed:
   every _do_step entry (index, ctx, done futures), after every event the number of ready callbacks owned
   by the workchain and its state, the final state / exception / ctx, the exceptions reported to the loop,
   the ordered user-code calls. *)
From Coq Require Import List ZArith String Bool Arith.
From Plumpy Require Import Val Util OutlineModel Barrier.
Import ListNotations.

Definition corr_fuel := 60.

Definition ctx_eqb : ctx -> ctx -> bool := list_eqb (pair_eqb String.eqb val_eqb).

Definition call_eqb (a b : call) : bool :=
  match a, b with
  | CStep x, CStep y => String.eqb x y
  | CPred x, CPred y => String.eqb x y
  | _, _ => false
  end.

Definition step_obs := (nat * ctx * list nat)%type.
Definition step_obs_eqb (a b : step_obs) : bool :=
  let '(n1, c1, d1) := a in let '(n2, c2, d2) := b in
  Nat.eqb n1 n2 && ctx_eqb c1 c2 && list_eqb Nat.eqb d1 d2.

Record C10_rec := mk_c10 {
  c_outline : instr;
  c_preds : list bool;
  c_scripts : list script;
  c_events : list event;
  o_steps : list step_obs;
  o_after : list (option (nat * nat));      (* None: not observable at that point (two model events inside one real action) *)
  o_final : nat * option exn;               (* 0 created | 1 waiting | 2 finished | 3 excepted *)
  o_ctx : ctx;
  o_errs : list exn;
  o_calls : list call }.

(* KModel: the model runs the case and is compared with the implementation.
   KImplOnly: a case of the pause/play family (harness/props/c10.py: pause() / play() requests placed between
   completions and loop callbacks).  The barrier model has no pause / play events (C06's subject), so these cases
   are judged by the property oracle on the real implementation only; the model accepts them without comparing. *)
Inductive C10_case :=
| KModel (c : C10_rec)
| KImplOnly.

Definition st_code (s : pstate) : nat * option exn :=
  match s with
  | PCreated => (0, None)
  | PWaiting => (1, None)
  | PFinished _ => (2, None)
  | PExcepted e => (3, Some e)
  end.

Definition m_world := world wc_ps.

Definition m_init (c : C10_rec) : option m_world :=
  match create (c_outline c) with
  | inr sp => Some (init wc_ps (sp, (c_scripts c, c_preds c), []))
  | inl _ => None
  end.

Definition m_step (c : C10_rec) : m_world -> event -> m_world :=
  env_step wc_ps (wc_dostep (c_outline c)) corr_fuel.

Fixpoint m_run (c : C10_rec) (w : m_world) (es : list event) (acc : list (nat * nat)) : m_world * list (nat * nat) :=
  match es with
  | [] => (w, rev acc)
  | e :: es' => let w' := m_step c w e in m_run c w' es' ((List.length (ready w'), fst (st_code (st w'))) :: acc)
  end.

Fixpoint steps_of (t : list ev) (acc : list step_obs) : list step_obs :=
  match t with
  | [] => acc
  | EvStep n cx dn :: t' => steps_of t' ((n, cx, dn) :: acc)
  | _ :: t' => steps_of t' acc
  end.

Fixpoint errs_of (t : list ev) (acc : list exn) : list exn :=
  match t with
  | [] => acc
  | EvLoopErr e :: t' => errs_of t' (e :: acc)
  | EvStuck :: t' => errs_of t' (EOutOfFuel :: acc)        (* never: would show as a mismatch *)
  | _ :: t' => errs_of t' acc
  end.

Fixpoint after_eqb (m : list (nat * nat)) (o : list (option (nat * nat))) : bool :=
  match m, o with
  | [], [] => true
  | x :: m', None :: o' => after_eqb m' o'
  | x :: m', Some y :: o' => Nat.eqb (fst x) (fst y) && Nat.eqb (snd x) (snd y) && after_eqb m' o'
  | _, _ => false
  end.

Definition c10_model_rec (c : C10_rec) :=
  match m_init c with
  | None => None
  | Some w0 =>
      let '(w, after) := m_run c w0 (c_events c) [] in
      Some (steps_of (trace w) [], after, st_code (st w), cx w, errs_of (trace w) [],
            snd (prog w))
  end.

Definition c10_model (c : C10_case) :=
  match c with KModel r => c10_model_rec r | KImplOnly => None end.

Definition c10_ok_rec (c : C10_rec) : bool :=
  match c10_model_rec c with
  | None => false
  | Some (steps, after, final, cx, errs, calls) =>
      list_eqb step_obs_eqb steps (o_steps c)
      && after_eqb after (o_after c)
      && Nat.eqb (fst final) (fst (o_final c)) && option_eqb exn_eqb (snd final) (snd (o_final c))
      && ctx_eqb cx (o_ctx c)
      && list_eqb exn_eqb errs (o_errs c)
      && list_eqb call_eqb calls (o_calls c)
  end.

Definition c10_ok (c : C10_case) : bool :=
  match c with KModel r => c10_ok_rec r | KImplOnly => true end.

Definition mismatches (l : list C10_case) : list nat := mismatches_from c10_ok 0 l.
