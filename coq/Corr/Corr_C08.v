(* Corr/Corr_C08.v — executable instances of Outline/StepperPersist.v used by the correspondence
   check of C08.  Four kinds of cases, generated and run on the real plumpy by harness/props/c08.py:
     CaseWC   a generated WorkChain class (outline, scripted predicate / step streams whose positions
              live in the persisted ctx), run step by step with restores at the planned boundaries;
     CaseProc a generated plain Process (ContextMixin) program with Continue / Wait chains;
     CasePay  one CREATED / RUNNING / WAITING state object (optionally with a stored command),
              saved and loaded on a new instance;
     CaseRec  outline.recreate_stepper on an arbitrary saved-state tree (error paths included). *)
From Coq Require Import List ZArith String Ascii Bool.
From Plumpy Require Import Val Util OutlineModel StepperPersist.
Import ListNotations.
Local Open Scope string_scope.
Local Open Scope nat_scope.
Local Open Scope list_scope.

(* ---------------------------------------------------------------- decidable equalities *)
Definition kv_eqb : (string * val) -> (string * val) -> bool := pair_eqb String.eqb val_eqb.
Definition kvs_eqb : list (string * val) -> list (string * val) -> bool := list_eqb kv_eqb.
Definition vals_eqb : list val -> list val -> bool := list_eqb val_eqb.

Definition sclass_eqb (a b : sclass) : bool :=
  match a, b with
  | CFun, CFun | CRet, CRet | CBlock, CBlock | CIf, CIf | CWhile, CWhile => true
  | _, _ => false
  end.

Fixpoint node_eqb (a b : node) {struct a} : bool :=
  match a, b with
  | Node c1 p1 f1 ch1, Node c2 p2 f2 ch2 =>
      sclass_eqb c1 c2 && option_eqb Nat.eqb p1 p2 && option_eqb String.eqb f1 f2 &&
      match ch1, ch2 with
      | None, None => true
      | Some x, Some y => node_eqb x y
      | _, _ => false
      end
  end.

Fixpoint dnode_eqb (a b : dnode) {struct a} : bool :=
  match a, b with
  | DNode c1 p1 f1 l1 k1 ch1, DNode c2 p2 f2 l2 k2 ch2 =>
      sclass_eqb c1 c2 && option_eqb Nat.eqb p1 p2 && option_eqb String.eqb f1 f2 &&
      option_eqb Nat.eqb l1 l2 && option_eqb Z.eqb k1 k2 &&
      match ch1, ch2 with
      | None, None => true
      | Some x, Some y => dnode_eqb x y
      | _, _ => false
      end
  end.

Definition cclass_eqb (a b : cclass) : bool :=
  match a, b with
  | KContinue, KContinue | KWait, KWait | KStop, KStop | KKill, KKill => true
  | _, _ => false
  end.

Definition cnode_eqb (a b : cnode) : bool :=
  cclass_eqb (cn_class a) (cn_class b) &&
  option_eqb vals_eqb (cn_args a) (cn_args b) && option_eqb kvs_eqb (cn_kwargs a) (cn_kwargs b) &&
  option_eqb String.eqb (cn_continue_fn a) (cn_continue_fn b) &&
  option_eqb val_eqb (cn_msg a) (cn_msg b) && option_eqb val_eqb (cn_data a) (cn_data b) &&
  option_eqb val_eqb (cn_result a) (cn_result b).

Definition pclass_eqb (a b : pclass) : bool :=
  match a, b with
  | KCreated, KCreated | KRunning, KRunning | KWaiting, KWaiting => true
  | _, _ => false
  end.

Definition pnode_eqb (a b : pnode) : bool :=
  pclass_eqb (pn_class a) (pn_class b) &&
  option_eqb vals_eqb (pn_args a) (pn_args b) && option_eqb kvs_eqb (pn_kwargs a) (pn_kwargs b) &&
  option_eqb String.eqb (pn_run_fn a) (pn_run_fn b) &&
  option_eqb cnode_eqb (pn_command a) (pn_command b) &&
  option_eqb val_eqb (pn_msg a) (pn_msg b) && option_eqb val_eqb (pn_data a) (pn_data b) &&
  option_eqb String.eqb (pn_done_cb a) (pn_done_cb b).

Definition attr_eqb {X} (e : X -> X -> bool) (a b : attr X) : bool :=
  match a, b with
  | Absent, Absent => true
  | Present x, Present y => e x y
  | _, _ => false
  end.

Definition command_eqb (a b : command) : bool :=
  match a, b with
  | CmdContinue f1 a1 k1, CmdContinue f2 a2 k2 => String.eqb f1 f2 && vals_eqb a1 a2 && kvs_eqb k1 k2
  | CmdWait f1 m1 d1, CmdWait f2 m2 d2 =>
      attr_eqb (option_eqb String.eqb) f1 f2 && val_eqb m1 m2 && val_eqb d1 d2
  | CmdStop r1 s1, CmdStop r2 s2 => val_eqb r1 r2 && attr_eqb Bool.eqb s1 s2
  | CmdKill m1, CmdKill m2 => val_eqb m1 m2
  | _, _ => false
  end.

Definition payload_eqb (a b : payload) : bool :=
  match a, b with
  | PCreated f1 a1 k1, PCreated f2 a2 k2 => String.eqb f1 f2 && vals_eqb a1 a2 && kvs_eqb k1 k2
  | PRunning f1 a1 k1 c1, PRunning f2 a2 k2 c2 =>
      String.eqb f1 f2 && vals_eqb a1 a2 && kvs_eqb k1 k2 && option_eqb command_eqb c1 c2
  | PWaiting c1 m1 d1, PWaiting c2 m2 d2 =>
      option_eqb String.eqb c1 c2 && val_eqb m1 m2 && val_eqb d1 d2
  | _, _ => false
  end.

Definition call_eqb (a b : call) : bool :=
  match a, b with
  | CStep x, CStep y => String.eqb x y
  | CPred x, CPred y => String.eqb x y
  | _, _ => false
  end.

Definition mem (f : string) (l : list string) : bool := existsb (String.eqb f) l.

Definition plan_fn (plan : list (nat * nat)) (k : nat) : nat :=
  match find (fun p => Nat.eqb (fst p) k) plan with
  | Some p => snd p
  | None => 0
  end.

Definition sets (kvs : list (string * val)) (l : list (string * val)) : list (string * val) :=
  fold_left (fun c kv => alist_set (fst kv) (snd kv) c) kvs l.

Definition fuel := 300.

(* ---------------------------------------------------------------- WorkChain cases *)
Definition reg := (string * val)%type.

(* one scripted step: outputs emitted, registrations made through self.to_context, return value *)
Record sret := mk_sret { sr_out : list (string * val); sr_reg : list reg; sr_ret : exn + rv reg }.

(* The inputs of the process as its steps see them.  [i_raw] is self.raw_inputs (None when the
   process was created without inputs), [i_parsed] is self.inputs (always a mapping after on_create;
   None only if a restore lost it), [i_seen] is what the steps recorded (in ctx) when they looked:
   (self.raw_inputs is None, 'limit' in self.inputs, self.inputs.get('limit')). *)
Definition seen := (bool * bool * val)%type.
Record pins := mk_pins {
  i_raw : option (list (string * val)); i_parsed : option (list (string * val)); i_seen : list seen }.

Definition pins0 (inp : option (list (string * val))) : pins :=
  mk_pins inp (Some (match inp with None => [] | Some d => d end)) [].

(* a step consults its inputs: `'limit' in None` raises TypeError *)
Definition look (p : pins) : exn + pins :=
  match i_parsed p with
  | None => inl EType
  | Some d =>
      inr (mk_pins (i_raw p) (i_parsed p)
                   (i_seen p ++ [(match i_raw p with None => true | Some _ => false end, alist_mem "limit" d,
                                  match alist_get "limit" d with Some v => v | None => VNone end)]))
  end.

Definition seen_eqb (a b : seen) : bool :=
  Bool.eqb (fst (fst a)) (fst (fst b)) && Bool.eqb (snd (fst a)) (snd (fst b)) && val_eqb (snd a) (snd b).

(* the persisted user state: stream positions (kept in ctx on the Python side), ctx, outputs, inputs *)
Record uw := mk_uw { u_pi : nat; u_ri : nat; u_ctx : list (string * val); u_outs : list (string * val); u_in : pins }.
Definition uw0 (inp : option (list (string * val))) : uw := mk_uw 0 0 [] [] (pins0 inp).

Definition s_stepf (rets : list sret) (_ : fn) (w : uw) : uw * list reg * (exn + rv reg) :=
  match look (u_in w) with
  | inl e => (w, [], inl e)
  | inr i =>
      match nth_error rets (u_ri w) with
      | None => (mk_uw (u_pi w) (S (u_ri w)) (u_ctx w) (u_outs w) i, [], inr RNone)
      | Some r => (mk_uw (u_pi w) (S (u_ri w)) (u_ctx w) (sets (sr_out r) (u_outs w)) i, sr_reg r, sr_ret r)
      end
  end.

Definition s_predf (preds : list bool) (_ : string) (w : uw) : uw * (exn + bool) :=
  (mk_uw (S (u_pi w)) (u_ri w) (u_ctx w) (u_outs w) (u_in w),
   inr (match nth_error preds (u_pi w) with Some b => b | None => false end)).

Definition s_assign (aw : list reg) (w : uw) : uw :=
  mk_uw (u_pi w) (u_ri w) (sets aw (u_ctx w)) (u_outs w) (u_in w).

(* what the bundle holds of the user state: '_context' (ContextMixin: present iff ctx is not None)
   and BundleKeys.OUTPUTS (present iff the outputs are non-empty; missing = {}) *)
Record ub := mk_ub {
  ub_ctx : option (nat * nat * list (string * val) * list seen); ub_outs : option (list (string * val));
  (* BundleKeys.INPUTS_RAW / INPUTS_PARSED: present iff the attribute is not None; missing = None *)
  ub_raw : option (list (string * val)); ub_parsed : option (list (string * val)) }.

Definition u_save (w : uw) : ub :=
  mk_ub (Some (u_pi w, u_ri w, u_ctx w, i_seen (u_in w))) (match u_outs w with [] => None | l => Some l end)
        (i_raw (u_in w)) (i_parsed (u_in w)).

Definition u_load (b : ub) : exn + uw :=
  match ub_ctx b with
  | None => inl EAttribute
  | Some (p, r, c, sn) => inr (mk_uw p r c (match ub_outs b with None => [] | Some l => l end)
                                     (mk_pins (ub_raw b) (ub_parsed b) sn))
  end.

Fixpoint steps_of (i : instr) : list fn :=
  match i with
  | IStep f => [f]
  | IReturn _ => []
  | IBlock b => steps_of_block b
  | IIf brs => steps_of_branches brs
  | IWhile _ body => steps_of_block body
  end
with steps_of_block (b : block) : list fn :=
  match b with BNil => [] | BCons i b' => steps_of i ++ steps_of_block b' end
with steps_of_branches (brs : branches) : list fn :=
  match brs with BrNil => [] | BrCons _ body rest => steps_of_block body ++ steps_of_branches rest end.

(* Function objects are identified by an id: "s2" is the method s2 of the generated class,
   "s2@sub" the function with which a generated subclass overrides it, "foreign_step" a
   module-level function.  The __name__ of a function is its id up to the "@". *)
Fixpoint base_name (s : string) : string :=
  match s with
  | EmptyString => EmptyString
  | String c s' => if Ascii.eqb c "@"%char then EmptyString else String c (base_name s')
  end.

(* [attrs]: for every relevant name, the id of the function getattr(class or instance, name)
   returns — read off the real class by the harness *)
Definition mk_nm (attrs : list (string * fn)) : names :=
  mk_names base_name (fun name => alist_get name attrs).

Definition is_foreign (f : fn) : bool := String.prefix "foreign" f.

(* observation at a boundary, after the restores placed there *)
Inductive bobs :=
| BSaved (st : pnode) (stp : option node) (live : option dnode)
| BUnsavable.

Definition bobs_eqb (a b : bobs) : bool :=
  match a, b with
  | BSaved s1 n1 d1, BSaved s2 n2 d2 =>
      pnode_eqb s1 s2 && option_eqb node_eqb n1 n2 && option_eqb dnode_eqb d1 d2
  | BUnsavable, BUnsavable => true
  | _, _ => false
  end.

Definition rv_eqb (a b : rv reg) : bool :=
  match a, b with
  | RNone, RNone => true
  | RToCtx x, RToCtx y => kvs_eqb x y
  | ROther x, ROther y => val_eqb x y
  | _, _ => false
  end.

Inductive wres :=
| WResult (r : exn + rv reg)
| WRestoreFailed (k : nat) (e : exn)
| WFuel.

Definition wres_eqb (a b : wres) : bool :=
  match a, b with
  | WResult x, WResult y => sum_eqb exn_eqb rv_eqb x y
  | WRestoreFailed k1 e1, WRestoreFailed k2 e2 => Nat.eqb k1 k2 && exn_eqb e1 e2
  | WFuel, WFuel => true
  | _, _ => false
  end.

Record wc_case := mk_wc {
  w_outline : instr; w_preds : list bool; w_rets : list sret; w_plan : list (nat * nat);
  w_by_name : bool;               (* measured on the implementation: is a step function rebound by its saved name? *)
  w_attrs : list (string * fn);   (* read off the generated class *)
  w_inputs : option (list (string * val));   (* the inputs the process is created with *)
  (* observed on the implementation, run with restores: *)
  wo_bounds : list bobs; wo_result : wres;
  wo_calls : list call; wo_ctx : list (string * val); wo_outs : list (string * val);
  wo_pi : nat; wo_ri : nat; wo_seen : list seen }.

Definition wc_obsf (nm : names) (o : instr) (x : wcfg uw reg) : bobs :=
  match wc_save uw reg nm ub u_save o x with
  | inl _ => BUnsavable
  | inr b => BSaved (wb_state ub b) (wb_stepper ub b)
                    (match wc_sp uw reg x with
                     | Some sp => match obj o sp with Some s => Some (dump s) | None => None end
                     | None => None
                     end)
  end.

(* the model on a WorkChain case: boundary observations, result, final user state and trace *)
Definition wc_model (c : wc_case) :=
  let o := w_outline c in
  match create o with
  | inl _ => None
  | inr sp =>
      let w0 := uw0 (w_inputs c) in
      let '(obs, r) :=
        run_r_obs (wcfg uw reg) (wfinal uw reg)
                  (wc_step uw reg (s_stepf (w_rets c)) (s_predf (w_preds c)) s_assign o)
                  (wc_restore uw reg (mk_nm (w_attrs c)) (w_by_name c) ub u_save u_load o)
                  bobs (wc_obsf (mk_nm (w_attrs c)) o) (plan_fn (w_plan c)) fuel 0 (wc_init uw reg sp w0) in
      Some (obs, r)
  end.

Definition wc_ok (c : wc_case) : bool :=
  match wc_model c with
  | None => false
  | Some (obs, None) => list_eqb bobs_eqb obs (wo_bounds c) && wres_eqb WFuel (wo_result c)
  | Some (obs, Some (RRestoreFailed k e)) =>
      list_eqb bobs_eqb obs (wo_bounds c) && wres_eqb (WRestoreFailed k e) (wo_result c)
  | Some (obs, Some (RDone (s, _, r))) =>
      list_eqb bobs_eqb obs (wo_bounds c) && wres_eqb (WResult r) (wo_result c) &&
      list_eqb call_eqb (icalls _ _ s) (wo_calls c) &&
      kvs_eqb (u_ctx (iw _ _ s)) (wo_ctx c) && kvs_eqb (u_outs (iw _ _ s)) (wo_outs c) &&
      Nat.eqb (u_pi (iw _ _ s)) (wo_pi c) && Nat.eqb (u_ri (iw _ _ s)) (wo_ri c) &&
      list_eqb seen_eqb (i_seen (u_in (iw _ _ s))) (wo_seen c)
  end.

(* ---------------------------------------------------------------- plain Process cases *)
Inductive pret :=
| QContinue (f : fn) (args : list val) (kw : kwargs)
| QWait (f : option fn) (msg : val) (data : val)
| QValue (v : val)
| QUnsuccessful (v : val)
| QRaise (tag : string).

(* what a step method does on its n-th call: ctx assignments, outputs, return *)
Record variant := mk_variant { v_set : list (string * val); v_out : list (string * val); v_ret : pret }.

Definition program := list (fn * list variant).

Definition tentry := (fn * list val * kwargs)%type.

(* persisted user state of a generated process: per-method call counters and the trace (both kept
   in ctx on the Python side), ctx, outputs *)
Record pu := mk_pu {
  p_counts : list (string * nat); p_ctx : list (string * val); p_outs : list (string * val);
  p_trace : list tentry; p_in : pins }.
Definition pu0 (inp : option (list (string * val))) : pu := mk_pu [] [] [] [] (pins0 inp).

Fixpoint pick {X} (n : nat) (l : list X) : option X :=
  match l with
  | [] => None
  | [x] => Some x
  | x :: l' => match n with 0 => Some x | S n' => pick n' l' end
  end.

Definition count_of (f : fn) (u : pu) : nat :=
  match alist_get f (p_counts u) with Some n => n | None => 0 end.

Definition ret_command (r : pret) : exn + command :=
  match r with
  | QContinue f a kw => inr (CmdContinue f a kw)
  | QWait f msg data => inr (CmdWait (Present f) msg data)
  | QValue v => inr (CmdStop v (Present true))
  | QUnsuccessful v => inr (CmdStop v (Present false))
  | QRaise tag => inl (EUser tag)
  end.

Definition p_ufn (prog : program) (f : fn) (u : pu) (args : list val) (kw : kwargs)
    : pu * (exn + command) :=
  if is_foreign f then (u, inr (CmdStop (VInt 42) (Present true)))    (* module-level function *)
  else
    let n := count_of f u in
    let u0 := mk_pu (alist_set f (S n) (p_counts u)) (p_ctx u) (p_outs u)
                    (p_trace u ++ [(f, args, kw)]) (p_in u) in
    match look (p_in u) with
    | inl e => (u0, inl e)
    | inr i =>
        let u1 := mk_pu (p_counts u0) (p_ctx u0) (p_outs u0) (p_trace u0) i in
        match alist_get f prog with
        | None => (u1, inl EAttribute)
        | Some vs =>
            match pick n vs with
            | None => (u1, inr (CmdStop VNone (Present true)))
            | Some v =>
                (mk_pu (p_counts u1) (sets (v_set v) (p_ctx u1)) (sets (v_out v) (p_outs u1)) (p_trace u1) i,
                 ret_command (v_ret v))
            end
        end
    end.

Record pub := mk_pub {
  pub_ctx : option (list (string * nat) * list (string * val) * list tentry * list seen);
  pub_outs : option (list (string * val));
  pub_raw : option (list (string * val)); pub_parsed : option (list (string * val)) }.

Definition pu_save (u : pu) : pub :=
  mk_pub (Some (p_counts u, p_ctx u, p_trace u, i_seen (p_in u))) (match p_outs u with [] => None | l => Some l end)
         (i_raw (p_in u)) (i_parsed (p_in u)).

Definition pu_load (b : pub) : exn + pu :=
  match pub_ctx b with
  | None => inl EAttribute
  | Some (c, x, t, sn) => inr (mk_pu c x (match pub_outs b with None => [] | Some l => l end) t
                                     (mk_pins (pub_raw b) (pub_parsed b) sn))
  end.

Inductive pres :=
| PResult (o : outcome)
| PRestoreFailed (k : nat) (e : exn)
| PFuel.

Definition outcome_eqb (a b : outcome) : bool :=
  match a, b with
  | OFinished r1 s1, OFinished r2 s2 => val_eqb r1 r2 && Bool.eqb s1 s2
  | OExcepted e1, OExcepted e2 => exn_eqb e1 e2
  | OKilled m1, OKilled m2 => val_eqb m1 m2
  | _, _ => false
  end.

Definition pres_eqb (a b : pres) : bool :=
  match a, b with
  | PResult x, PResult y => outcome_eqb x y
  | PRestoreFailed k1 e1, PRestoreFailed k2 e2 => Nat.eqb k1 k2 && exn_eqb e1 e2
  | PFuel, PFuel => true
  | _, _ => false
  end.

Definition tentry_eqb (a b : tentry) : bool :=
  String.eqb (fst (fst a)) (fst (fst b)) && vals_eqb (snd (fst a)) (snd (fst b)) && kvs_eqb (snd a) (snd b).

Record proc_case := mk_pc {
  q_prog : program; q_resume : list (option val); q_plan : list (nat * nat);
  q_keep_kwargs : bool;           (* measured on the implementation: does Continue(f, **kw) reach f? *)
  q_attrs : list (string * fn);   (* read off the generated class *)
  q_inputs : option (list (string * val));
  (* observed, run with restores: *)
  qo_bounds : list pnode; qo_result : pres;
  qo_trace : list tentry; qo_ctx : list (string * val); qo_outs : list (string * val); qo_seen : list seen }.

Definition resume_fn (l : list (option val)) (k : nat) : option val :=
  match nth_error l k with Some v => v | None => None end.

Definition proc_model (c : proc_case) :=
  run_r_obs (pcfg pu) (outcome * pu)
            (proc_step pu (p_ufn (q_prog c)) (q_keep_kwargs c) (resume_fn (q_resume c)))
            (proc_restore pu (mk_nm (q_attrs c)) pub pu_save pu_load)
            pnode (fun x => save_payload (mk_nm (q_attrs c)) (fst x)) (plan_fn (q_plan c)) fuel 0
            (proc_init pu (pu0 (q_inputs c))).

Definition proc_ok (c : proc_case) : bool :=
  match proc_model c with
  | (obs, None) => list_eqb pnode_eqb obs (qo_bounds c) && pres_eqb PFuel (qo_result c)
  | (obs, Some (RRestoreFailed k e)) =>
      list_eqb pnode_eqb obs (qo_bounds c) && pres_eqb (PRestoreFailed k e) (qo_result c)
  | (obs, Some (RDone (o, u))) =>
      list_eqb pnode_eqb obs (qo_bounds c) && pres_eqb (PResult o) (qo_result c) &&
      list_eqb tentry_eqb (p_trace u) (qo_trace c) &&
      kvs_eqb (p_ctx u) (qo_ctx c) && kvs_eqb (p_outs u) (qo_outs c) &&
      list_eqb seen_eqb (i_seen (p_in u)) (qo_seen c)
  end.

(* ---------------------------------------------------------------- payload cases *)
Record pay_case := mk_pay {
  y_attrs : list (string * fn); y_payload : payload;
  (* observed: state.save(), then Savable.load on a new instance *)
  yo_saved : pnode; yo_loaded : exn + payload }.

Definition pay_model (c : pay_case) :=
  let n := save_payload (mk_nm (y_attrs c)) (y_payload c) in
  (n, load_payload (mk_nm (y_attrs c)) n).

Definition pay_ok (c : pay_case) : bool :=
  let '(n, l) := pay_model c in
  pnode_eqb n (yo_saved c) && sum_eqb exn_eqb payload_eqb l (yo_loaded c).

(* ---------------------------------------------------------------- recreate cases *)
Record rec_case := mk_rec {
  r_outline : instr; r_node : node; r_by_name : bool; r_attrs : list (string * fn);
  (* observed: outline.recreate_stepper(node, workchain): exception or a dump of the object tree *)
  ro_result : exn + dnode }.

Definition rec_model (c : rec_case) : exn + dnode :=
  match recreate (mk_nm (r_attrs c)) (r_by_name c) (r_outline c) (r_node c) with
  | inl e => inl e
  | inr s => inr (dump s)
  end.

Definition rec_ok (c : rec_case) : bool := sum_eqb exn_eqb dnode_eqb (rec_model c) (ro_result c).

(* ---------------------------------------------------------------- all kinds *)
Inductive C08_case :=
| CaseWC (c : wc_case)
| CaseProc (c : proc_case)
| CasePay (c : pay_case)
| CaseRec (c : rec_case).

Definition c08_ok (c : C08_case) : bool :=
  match c with
  | CaseWC c => wc_ok c
  | CaseProc c => proc_ok c
  | CasePay c => pay_ok c
  | CaseRec c => rec_ok c
  end.

Definition mismatches (l : list C08_case) : list nat := mismatches_from c08_ok 0 l.

(* what the model computes, for diagnosis *)
Inductive model_out :=
| MWC (x : option (list bobs * option (rres (wfinal uw reg))))
| MProc (x : list pnode * option (rres (outcome * pu)))
| MPay (x : pnode * (exn + payload))
| MRec (x : exn + dnode).

Definition c08_model (c : C08_case) : model_out :=
  match c with
  | CaseWC c => MWC (wc_model c)
  | CaseProc c => MProc (proc_model c)
  | CasePay c => MPay (pay_model c)
  | CaseRec c => MRec (rec_model c)
  end.
