(* Corr/Corr_Ports.v — executable instance of M3 for the correspondence checks of C11, C12, C15:
   the validator family of harness/portgen.py. *)
From Coq Require Import List ZArith String Bool.
From Plumpy Require Import Val Util PortModel.
Import ListNotations.
Local Open Scope string_scope.

Definition s_veval (i : vid) (v : val) : bool :=
  if String.eqb i "rej_all" then true
  else if String.eqb i "acc_all" then false
  else if String.eqb i "rej_3" then val_eqb v (VInt 3)
  else if String.eqb i "rej_has_x" then
    match mapping_items v with Some m => alist_mem "x" m | None => false end
  else if String.eqb i "rej_falsy" then negb (truthy v)
  else false.

(* ---------------- C11 ---------------- *)
Record C11_case := mk_c11 {
  c11_spec : port;
  c11_raw : option (list (string * val));
  c11_spec_rejected : bool;          (* observed: the spec itself was refused when declared *)
  c11_raised : bool;                 (* observed: the constructor raised *)
  c11_parsed : val                   (* observed: process.inputs (VNone when raised) *)
}.

Definition c11_ok (c : C11_case) : bool :=
  if negb (declared_defaults_ok s_veval (c11_spec c)) then c11_spec_rejected c
  else negb (c11_spec_rejected c) &&
  match construct s_veval (c11_spec c) (c11_raw c) with
  | inl _ => c11_raised c
  | inr v => negb (c11_raised c) && val_eqb v (c11_parsed c)
  end.

Definition c11_mismatches (l : list C11_case) : list nat := mismatches_from c11_ok 0 l.
Definition c11_model (c : C11_case) := construct s_veval (c11_spec c) (c11_raw c).

(* ---------------- structural equality of port trees ---------------- *)
Definition dflt_eqb (a b : dflt) : bool :=
  match a, b with
  | DNone, DNone => true
  | DVal x, DVal y | DCall x, DCall y => val_eqb x y
  | _, _ => false
  end.

Definition vt_eqb : option (list ty) -> option (list ty) -> bool := option_eqb (list_eqb ty_eqb).

Definition lattrs_eqb (a b : lattrs) : bool :=
  Bool.eqb (l_required a) (l_required b) && vt_eqb (l_vt a) (l_vt b) && dflt_eqb (l_default a) (l_default b)
  && option_eqb String.eqb (l_validator a) (l_validator b) && option_eqb String.eqb (l_help a) (l_help b).

Definition nattrs_eqb (a b : nattrs) : bool :=
  Bool.eqb (n_required a) (n_required b) && vt_eqb (n_vt a) (n_vt b) && dflt_eqb (n_default a) (n_default b)
  && option_eqb String.eqb (n_validator a) (n_validator b) && Bool.eqb (n_dynamic a) (n_dynamic b)
  && Bool.eqb (n_populate a) (n_populate b) && option_eqb String.eqb (n_help a) (n_help b).

Fixpoint port_eqb (p q : port) : bool :=
  match p, q with
  | PLeaf a, PLeaf b => lattrs_eqb a b
  | PNs a ps, PNs b qs => nattrs_eqb a b && ports_eqb ps qs
  | _, _ => false
  end
with ports_eqb (ps qs : ports) : bool :=
  match ps, qs with
  | PNil, PNil => true
  | PCons n p r, PCons m q s => String.eqb n m && port_eqb p q && ports_eqb r s
  | _, _ => false
  end.

(* ---------------- C15 ---------------- *)
Record C15_case := mk_c15 {
  c15_dst : port; c15_src : port;
  c15_namespace : option string;
  c15_exclude : option (list string); c15_include : option (list string);
  c15_opts : list (string * optval);
  c15_raised : bool;                 (* observed: expose_* raised *)
  c15_result : port                  (* observed: destination namespace afterwards (dst itself when raised) *)
}.

Definition c15_ok (c : C15_case) : bool :=
  match expose (c15_dst c) (c15_src c) (c15_namespace c) (c15_exclude c) (c15_include c) (c15_opts c) with
  | inl _ => c15_raised c
  | inr d => negb (c15_raised c) && port_eqb d (c15_result c)
  end.
Definition c15_mismatches (l : list C15_case) : list nat := mismatches_from c15_ok 0 l.
Definition c15_model (c : C15_case) :=
  expose (c15_dst c) (c15_src c) (c15_namespace c) (c15_exclude c) (c15_include c) (c15_opts c).

(* ---------------- C12 ---------------- *)
(* one emission: path, value, and what was observed: error kind (0 = stored, 1 = ValueError, 2 = other error),
   the dynamic flag reported to listeners, the outputs afterwards *)
Record emission := mk_em { em_path : string; em_val : val; em_obs : nat; em_dyn : bool; em_outs : list (string * val) }.

Record C12_case := mk_c12 {
  c12_spec : port;
  c12_ems : list emission;
  c12_returned_ok : bool;             (* the step returned normally / successfully *)
  c12_successful : bool               (* observed: process.successful() at FINISHED *)
}.

Definition kvs_eqb := list_eqb (pair_eqb String.eqb val_eqb).

Fixpoint run_ems (spec : port) (outs : list (string * val)) (ems : list emission) : option (port * list (string * val)) :=
  match ems with
  | [] => Some (spec, outs)
  | e :: rest =>
      let r := out s_veval spec outs (em_path e) (em_val e) in
      match or_result r with
      | inl EValue => if Nat.eqb (em_obs e) 1 && kvs_eqb outs (em_outs e) then run_ems (or_spec r) outs rest else None
      | inl _ => if Nat.eqb (em_obs e) 2 && kvs_eqb outs (em_outs e) then run_ems (or_spec r) outs rest else None
      | inr (outs', dyn) =>
          if Nat.eqb (em_obs e) 0 && Bool.eqb dyn (em_dyn e) && kvs_eqb outs' (em_outs e)
          then run_ems (or_spec r) outs' rest else None
      end
  end.

Definition c12_ok (c : C12_case) : bool :=
  match run_ems (c12_spec c) [] (c12_ems c) with
  | None => false
  | Some (spec', outs) => Bool.eqb (finish_successful s_veval spec' outs (c12_returned_ok c)) (c12_successful c)
  end.
Definition c12_mismatches (l : list C12_case) : list nat := mismatches_from c12_ok 0 l.
Fixpoint c12_model_run (spec : port) (outs : list (string * val)) (ems : list emission) :=
  match ems with
  | [] => []
  | e :: rest =>
      let r := out s_veval spec outs (em_path e) (em_val e) in
      match or_result r with
      | inl x => (or_result r) :: c12_model_run (or_spec r) outs rest
      | inr (outs', _) => (or_result r) :: c12_model_run (or_spec r) outs' rest
      end
  end.
Definition c12_model (c : C12_case) := c12_model_run (c12_spec c) [] (c12_ems c).
