(* Corr/Corr_C16.v — correspondence cases for remote control and state-change announcements (Comms/Rpc.v over M1).
   A case is what the harness saw on the REMOTELY controlled process: the model-level events in the order in which
   they really happened (which loop callback ran what), and the observations after them. *)
From Coq Require Import List ZArith String Bool Arith.
From Plumpy Require Import Val Util Mon PortModel Adapters Model Run Corr_Life Rpc.
Import ListNotations.

Definition reply_eqb (a b : reply) : bool :=
  match a, b with
  | RpPending, RpPending | RpUnroutable, RpUnroutable | RpErr, RpErr | RpCancelled, RpCancelled => true
  | RpStatus p1 l1, RpStatus p2 l2 => Bool.eqb p1 p2 && olabel_eqb l1 l2
  | RpVal x, RpVal y => Bool.eqb x y
  | RpAwait x, RpAwait y => Nat.eqb x y
  | _, _ => false
  end.

(* state label, paused, status after an event *)
Definition sample := (option label * bool * option string)%type.
Definition sample_of (w : world) : sample :=
  (cur_label w, match paused w with Some _ => true | None => false end, status w).
Definition sample_eqb (a b : sample) : bool :=
  olabel_eqb (fst (fst a)) (fst (fst b)) && Bool.eqb (snd (fst a)) (snd (fst b)) && ostr_eqb (snd a) (snd b).

(* the final observation of Corr_Life without the number of ready loop callbacks: the loop of the remotely controlled
   process also holds the communication plumbing, and the count is an internal of M1 that C16 says nothing about *)
Definition c16_final_eqb (a b : final_obs) : bool :=
  label_eqb (fo_state a) (fo_state b) && pfstate_eqb (fo_future a) (fo_future b)
  && Bool.eqb (fo_paused a) (fo_paused b) && ostr_eqb (fo_status a) (fo_status b)
  && t0status_eqb (fo_t0 a) (fo_t0 b) && list_eqb afut_eqb (fo_actions a) (fo_actions b)
  && Bool.eqb (fo_killing a) (fo_killing b) && Bool.eqb (fo_closed a) (fo_closed b).

(* an event that finds its queue empty did not happen the way the harness says *)
Definition stuck (xw : xworld) (e : xevent) : bool :=
  match e with
  | XRecv => match inflight xw with [] => true | _ => false end
  | XRunRpc => match pending xw with [] => true | _ => false end
  | _ => false
  end.

Fixpoint x_samples (xw : xworld) (es : list xevent) : list sample * bool * xworld :=
  match es with
  | [] => ([], false, xw)
  | e :: r =>
      let xw' := x_step xw e in
      let '(ss, st, fin) := x_samples xw' r in
      (sample_of (base xw') :: ss, stuck xw e || st, fin)
  end.

Record C16_case := mk_c16 {
  cc_cfg : config;
  cc_events : list xevent;
  cc_fails : list nat;                 (* indices of the announcements made to fail with a tolerated kind *)
  cc_trace : list event;               (* observed on the remotely controlled process *)
  cc_final : option final_obs;         (* None: the constructor raised *)
  cc_samples : list sample;            (* after each event *)
  cc_replies : list reply;             (* what the controller futures hold at the end, in the order of sending *)
  cc_attempted : list string;          (* subjects of the broadcasts the process tried to send *)
  cc_delivered : list string;          (* subjects an independent subscriber received from the process *)
  cc_subs : bool * bool                (* still subscribed at the end: RPC, broadcast *)
}.

Record C16_obs := mk_obs {
  o_trace : list event;
  o_final : option final_obs;
  o_samples : list sample;
  o_replies : list reply;
  o_attempted : list string;
  o_delivered : list string;
  o_subs : bool * bool;
  o_stuck : bool
}.

Definition c16_model (c : C16_case) : option C16_obs :=
  match x_start (cc_cfg c) with
  | None => None
  | Some xw0 =>
      let '(ss, st, xw) := x_samples xw0 (cc_events c) in
      let w := base xw in
      Some (mk_obs (trace w) (final_of w) ss (final_replies xw)
                   (map subject_of (announce (trace w))) (map subject_of (delivered (cc_fails c) (trace w)))
                   (subscribed_rpc w, subscribed_broadcast w) st)
  end.

Definition c16_ok (c : C16_case) : bool :=
  match c16_model c, cc_final c with
  | None, None => true
  | Some o, Some f =>
      list_eqb event_eqb (o_trace o) (cc_trace c)
      && match o_final o with Some f' => c16_final_eqb f' f | None => false end
      && list_eqb sample_eqb (o_samples o) (cc_samples c)
      && list_eqb reply_eqb (o_replies o) (cc_replies c)
      && list_eqb String.eqb (o_attempted o) (cc_attempted c)
      && list_eqb String.eqb (o_delivered o) (cc_delivered c)
      && Bool.eqb (fst (o_subs o)) (fst (cc_subs c)) && Bool.eqb (snd (o_subs o)) (snd (cc_subs c))
      && negb (o_stuck o)
  | _, _ => false
  end.

Definition mismatches (l : list C16_case) : list nat := mismatches_from c16_ok 0 l.
