(* Corr/Corr_C09.v — executable instance of M2 used by the correspondence check of C09:
   predicates and steps are scripted by streams, exactly as the generated Python WorkChain classes
   of harness/props/c09.py are. *)
From Coq Require Import List ZArith String Bool.
From Plumpy Require Import Val Util OutlineModel.
Import ListNotations.

(* a registration: context key and the value its (already completed) future carries *)
Definition reg := (string * val)%type.

Record sret := mk_sret { sr_reg : list reg; sr_ret : exn + rv reg }.

Record uw := mk_uw { preds : list bool; rets : list sret; ctx : list (string * val) }.

Definition s_stepf (_ : fn) (w : uw) : uw * list reg * (exn + rv reg) :=
  match rets w with
  | [] => (w, [], inr RNone)
  | r :: rest => (mk_uw (preds w) rest (ctx w), sr_reg r, sr_ret r)
  end.

Definition s_predf (_ : string) (w : uw) : uw * (exn + bool) :=
  match preds w with
  | [] => (w, inr false)
  | b :: rest => (mk_uw rest (rets w) (ctx w), inr b)
  end.

Definition s_assign (aw : list reg) (w : uw) : uw :=
  mk_uw (preds w) (rets w) (fold_left (fun c kv => alist_set (fst kv) (snd kv) c) aw (ctx w)).

Record C09_case := mk_c09 {
  c_outline : instr;
  c_preds : list bool;
  c_rets : list sret;
  (* observed on the implementation: *)
  o_calls : list call;
  o_result : exn + rv reg;
  o_ctx : list (string * val)
}.

Definition call_eqb (a b : call) : bool :=
  match a, b with
  | CStep x, CStep y => String.eqb x y
  | CPred x, CPred y => String.eqb x y
  | _, _ => false
  end.

Definition reg_eqb : reg -> reg -> bool := pair_eqb String.eqb val_eqb.

Definition rv_eqb (a b : rv reg) : bool :=
  match a, b with
  | RNone, RNone => true
  | RToCtx x, RToCtx y => list_eqb reg_eqb x y
  | ROther x, ROther y => val_eqb x y
  | _, _ => false
  end.

Definition fuel := 400.

Definition c09_ok (c : C09_case) : bool :=
  match run_outline uw reg s_stepf s_predf s_assign fuel (c_outline c)
          (mk_uw (c_preds c) (c_rets c) []) with
  | None => false
  | Some (s, r) =>
      list_eqb call_eqb (icalls _ _ s) (o_calls c)
      && sum_eqb exn_eqb rv_eqb r (o_result c)
      && list_eqb reg_eqb (ctx (iw _ _ s)) (o_ctx c)
  end.

Definition mismatches (l : list C09_case) : list nat := mismatches_from c09_ok 0 l.

(* what the model computes, for diagnosis *)
Definition c09_model (c : C09_case) :=
  match run_outline uw reg s_stepf s_predf s_assign fuel (c_outline c)
          (mk_uw (c_preds c) (c_rets c) []) with
  | None => None
  | Some (s, r) => Some (icalls _ _ s, r, ctx (iw _ _ s))
  end.
