(* Comms/CtxExamples.v — concrete runs of the model of Comms/Ctx.v, evaluated: the witnesses of finding D13
   (what does NOT hold for life-cycle hooks) and non-vacuity examples for the theorems of CtxProofs.v. *)
From Coq Require Import List Bool Arith.
From Plumpy Require Import Ctx CtxProofs.
Import ListNotations.
Set Default Timeout 15.

(* ================================================================== what does NOT hold (finding D13), witnesses *)
Ltac in_list := repeat (first [left; reflexivity | right]).

(* process 0 launches process 1 from its step and awaits; then the child runs *)
Definition d13_defs : list pdef :=
  [mk_pdef [([ASample; ALaunch 1; AYield; ASample], LkContinue)] [];
   mk_pdef [([ASample; AYield; ASample], LkContinue)] []].
Definition d13_sched : list sitem := [SExt [EStart 0]; SRun 1; SRun 2; SRun 1; SRun 2].

(* a hook of the child sees the PARENT as the current process ... *)
Theorem hooks_see_another_process :
  In (OCode 1 (KHook HRun) (Some 0)) (c_trace (run false d13_defs 200 d13_sched))
  /\ In (OCode 1 (KHook HCreate) (Some 0)) (c_trace (run false d13_defs 200 d13_sched))
  /\ In (OCode 1 (KHook HFinish) (Some 0)) (c_trace (run false d13_defs 200 d13_sched)).
Proof. vm_compute. repeat split; in_list. Qed.

(* ... and the hooks of a process started from outside see no current process at all *)
Theorem hooks_see_no_process :
  In (OCode 0 (KHook HCreate) None) (c_trace (run false d13_defs 200 d13_sched))
  /\ In (OCode 0 (KHook HRun) None) (c_trace (run false d13_defs 200 d13_sched))
  /\ In (OCode 0 (KHook HFinished) None) (c_trace (run false d13_defs 200 d13_sched)).
Proof. vm_compute. repeat split; in_list. Qed.

Theorem current_in_hooks_refuted :
  exists defs fuel s who h cur,
    In (OCode who (KHook h) cur) (c_trace (run false defs fuel s)) /\ cur <> Some who.
Proof.
  exists d13_defs, 200, d13_sched, 1, HRun, (Some 0). split.
  - exact (proj1 hooks_see_another_process).
  - discriminate.
Qed.

(* the same program once the hook dispatch enters the scope *)
Example hooks_scoped_example :
  In (OCode 1 (KHook HRun) (Some 1)) (c_trace (run true d13_defs 200 d13_sched))
  /\ In (OCode 0 (KHook HCreate) (Some 0)) (c_trace (run true d13_defs 200 d13_sched)).
Proof. vm_compute. repeat split; in_list. Qed.

(* ================================================================== the statements are not vacuous *)
(* three processes: 0 executes 2 re-entrantly from its step while 1 steps concurrently; 0 also schedules a
   callback on 1; the schedule interleaves them inside the nested loop. *)
Definition ex_defs : list pdef :=
  [mk_pdef [([ASample; AYield; ASample; ACallSoon 1 0; AExec 2; ASample], LkContinue); ([ASample], LkContinue)] [];
   mk_pdef [([ASample; AYield; ASample; AYield; AOut; ASample], LkContinue)] [[ASample; AYield; ASample]];
   mk_pdef [([ASample; AYield; ASample], LkContinue)] []].
Definition ex_sched : list sitem :=
  [SExt [EStart 0; EStart 1]; SRun 1; SRun 2; SRun 1; SRun 2; SRun 3; SRun 4; SRun 3; SRun 2; SRun 4; SRet].

Example example_run_is_complete :
  snd (drive false ex_defs 400 (init ex_defs) ex_sched) = true
  /\ c_bad (run false ex_defs 400 ex_sched) = 0
  /\ c_running (run false ex_defs 400 ex_sched) = [].
Proof. vm_compute. repeat split. Qed.

Example example_run_samples :
  let tr := c_trace (run false ex_defs 400 ex_sched) in
  In (OCode 0 KStep (Some 0)) tr /\ In (OCode 1 KStep (Some 1)) tr /\ In (OCode 2 KStep (Some 2)) tr
  /\ In (OCode 1 KCallback (Some 1)) tr /\ In (OCode 1 KOutEmitted (Some 1)) tr /\ In (OCode 0 KCont (Some 0)) tr
  /\ In ORet tr /\ In (OCode 2 (KHook HRun) (Some 0)) tr.
Proof. vm_compute. repeat split; in_list. Qed.

(* the scope events of the nested child (task 4, process 2, inherited stack [0]) and of the callback on process 1
   scheduled from process 0's step (task 3) *)
Example example_run_scope_events :
  let tr := c_trace (run false ex_defs 400 ex_sched) in
  In (OEnter 4 2 [0]) tr /\ In (OExit 4 2 [0]) tr /\ In (OEnter 3 1 [0]) tr /\ In (OExit 3 1 [0]) tr
  /\ In (OEnter 1 0 []) tr /\ In (OExit 1 0 []) tr.
Proof. vm_compute. repeat split; in_list. Qed.

(* the nested child really ran on the stack [0; 2], and every task is back to its inherited stack at the end *)
Example example_run_stacks :
  map (fun tk => (t_base tk, t_ctx tk)) (c_tasks (run false ex_defs 400 ex_sched))
  = [([], []); ([], []); ([], []); ([0], [0]); ([0], [0])].
Proof. vm_compute. reflexivity. Qed.

