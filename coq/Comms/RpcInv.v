(* Comms/RpcInv.v — proofs about Comms/Rpc.v (property C16).  Part 2: an invariant of EVERY run of M1 under the
   extended environment (all configurations, all schedules, all messages):
     - the two subscriptions are removed exactly when the process closes, exactly once, never before;
     - the state entries recorded in the trace are consecutive: each comes from the state entered before.
   M1 is walked function by function with the wp calculus of Base/Mon.v. *)
From Coq Require Import List ZArith String Bool Arith Lia.
From RecordUpdate Require Import RecordUpdate.
From Plumpy Require Import Val Mon PortModel Adapters Model Run Rpc RpcProofs.
Import ListNotations.
Local Open Scope string_scope.
Local Open Scope list_scope.
Local Open Scope mon_scope.

Arguments wp : simpl never.

(* ------------------------------------------------------------------ the invariant *)
Definition cleanup_of (e : event) : list nat := match e with EvCleanup n => [n] | _ => [] end.
Definition cleanup_events (tr : list event) : list nat := flat_map cleanup_of tr.

(* the chain of entries, read from the left: Some prev = consecutive so far and prev is the state entered last *)
Definition chain_step (acc : option (option label)) (e : event) : option (option label) :=
  match acc, e with
  | Some prev, EvEntered f t => if option_eqb label_eqb f prev then Some (Some t) else None
  | _, _ => acc
  end.
Definition chain_of (tr : list event) : option (option label) := fold_left chain_step tr (Some None).

Definition all_cleanups := [cleanup_rpc; cleanup_broadcast; 0].
Arguments chain_of : simpl never.
Arguments cleanup_events : simpl never.
Arguments cur_label : simpl never.

Definition Inv (w : world) : Prop :=
  ((closed w = false /\ cleanups w = all_cleanups /\ cleanup_events (trace w) = []) \/
   (closed w = true /\ cleanups w = [] /\ cleanup_events (trace w) = all_cleanups))
  /\ chain_of (trace w) = Some (cur_label w).

(* the invariant, optionally with the current label pinned (for the functions that do not change the state) *)
Definition InvL (l : option (option label)) (w : world) : Prop :=
  Inv w /\ match l with Some x => cur_label w = x | None => True end.

Definition IQ {A} (l : option (option label)) (r : result A) (w : world) : Prop := InvL l w.

Definition plain (e : event) : bool :=
  match e with EvEntered _ _ | EvCleanup _ => false | _ => true end.

Lemma InvL_weaken : forall l w, InvL l w -> InvL None w.
Proof. intros l w [H _]. split; [exact H | exact I]. Qed.

Lemma InvL_frame : forall l w w',
  closed w' = closed w -> cleanups w' = cleanups w -> trace w' = trace w -> cur_label w' = cur_label w ->
  InvL l w -> InvL l w'.
Proof.
  intros l w w' Hc Hcl Ht Hl [[HCI HL] Hp]. unfold InvL, Inv. rewrite Hc, Hcl, Ht, Hl.
  split; [split; assumption | assumption].
Qed.

Lemma cleanup_events_app : forall a b, cleanup_events (a ++ b) = cleanup_events a ++ cleanup_events b.
Proof. intros. unfold cleanup_events. apply flat_map_app. Qed.

Lemma chain_of_app : forall tr e, chain_of (tr ++ [e]) = chain_step (chain_of tr) e.
Proof. intros. unfold chain_of. rewrite fold_left_app. reflexivity. Qed.

Lemma InvL_emit : forall l w e, plain e = true -> InvL l w -> InvL l (w <| trace := trace w ++ [e] |>).
Proof.
  intros l w e Hp [[HCI HL] Hl]. unfold InvL, Inv. cbn.
  rewrite cleanup_events_app, chain_of_app, HL.
  replace (cleanup_events [e]) with (@nil nat) by (destruct e; cbn in *; try reflexivity; discriminate).
  rewrite app_nil_r.
  replace (chain_step (Some (cur_label w)) e) with (Some (cur_label w)) by (destruct e; cbn in *; try reflexivity; discriminate).
  split; [split; [exact HCI | reflexivity] | exact Hl].
Qed.

Lemma olabel_eqb_refl : forall x, option_eqb label_eqb x x = true.
Proof. intros [x|]; cbn; [destruct x|]; reflexivity. Qed.

(* entering a state: the state slot is replaced and the entry is recorded as coming from the current label *)
Lemma InvL_enter : forall w ns,
  InvL None w ->
  InvL None ((w <| st := Some ns |>) <| trace := trace w ++ [EvEntered (cur_label w) (label_of ns)] |>).
Proof.
  intros w ns [[HCI HL] _]. unfold InvL, Inv. cbn.
  rewrite cleanup_events_app, chain_of_app, HL. cbn. rewrite app_nil_r, olabel_eqb_refl.
  split; [split; [exact HCI | reflexivity] | exact I].
Qed.

(* ------------------------------------------------------------------ the walk *)
Lemma wp_call : forall l A (m : LM A) (Q : result A -> world -> Prop) w,
  wp m (IQ l) w -> (forall r w', InvL l w' -> Q r w') -> wp m Q w.
Proof. intros l A m Q w H HQ. eapply wp_mono; [|exact H]. intros r s' Hi. apply HQ. exact Hi. Qed.

Lemma wp_mapM_inv : forall A (f : A -> LM unit) l,
  (forall x w, InvL l w -> wp (f x) (IQ l) w) -> forall xs w, InvL l w -> wp (mapM_ f xs) (IQ l) w.
Proof.
  intros A f l Hf xs. induction xs as [|x xs IH]; intros w Hw; cbn [mapM_].
  - apply wp_ret. exact Hw.
  - apply wp_bind. eapply wp_call; [apply Hf; exact Hw|].
    intros r w' Hw'. destruct r; [apply IH; exact Hw' | exact Hw'].
Qed.

Create HintDb inv discriminated.
#[export] Hint Resolve InvL_weaken : inv.

(* side conditions of the frame lemma: the touched fields are not the ones the invariant reads; a rewritten state
   slot keeps its label *)
Ltac frame_side :=
  cbn;
  try reflexivity;
  unfold cur_label; cbn;
  repeat match goal with H : st _ = _ |- _ => rewrite H end;
  cbn; reflexivity.

Ltac solve_inv :=
  unfold IQ in *;
  first
    [ assumption
    | match goal with
      | H : InvL ?l ?w0 |- InvL ?l _ => exact H
      | H : InvL _ ?w0 |- InvL None _ => exact (InvL_weaken _ _ H)
      | H : InvL ?l ?w0 |- InvL ?l _ =>
          apply (InvL_frame l w0); [frame_side | frame_side | frame_side | frame_side | exact H]
      | H : InvL _ ?w0 |- InvL None _ =>
          apply (InvL_frame None w0); [frame_side | frame_side | frame_side | frame_side | exact (InvL_weaken _ _ H)]
      end ].

(* after a primitive state update: record that the new world satisfies the invariant *)
Ltac note_world neww :=
  first [ match goal with
          | H : InvL ?l _ |- _ => let Hn := fresh "Hn" in assert (Hn : InvL l neww) by solve_inv
          end
        | let Hn := fresh "Hn" in assert (Hn : InvL None neww) by solve_inv ].

(* from the invariant alone to the invariant with the current label pinned: a state slot rewritten later (after
   calls that keep the label) can then be shown to keep it *)
Ltac pin H :=
  lazymatch type of H with
  | InvL None ?w =>
      let Hp := fresh "Hp" in assert (Hp : InvL (Some (cur_label w)) w) by (split; [apply H | reflexivity])
  | _ => idtac
  end.

Ltac head_of t := lazymatch t with ?f _ => head_of f | _ => t end.

Ltac start := intros; try match goal with H : InvL None _ |- _ => pin H end.

Ltac wpi :=
  cbv beta iota;
  lazymatch goal with
  | |- wp (bind _ _) _ _ => apply wp_bind
  | |- wp (ret _) _ _ => apply wp_ret
  | |- wp (raise _) _ _ => apply wp_raise
  | |- wp get _ _ => apply wp_get
  | |- wp (put ?s) _ _ => apply wp_put; note_world s
  | |- wp (modify ?f) _ ?w0 => apply wp_modify; let nw := eval cbv beta in (f w0) in note_world nw
  | |- wp (try_catch _ _) _ _ => apply wp_try_catch
  | |- wp (finally _ _) _ _ => apply wp_finally
  | |- wp (attempt _) _ _ => apply wp_attempt
  | |- wp (when _ _) _ _ => unfold when
  | |- wp (emit ?e) _ _ =>
      match goal with
      | H : InvL ?l _ |- _ =>
          apply (wp_call l);
          [unfold emit; apply wp_modify; unfold IQ; cbv beta; apply InvL_emit; [reflexivity | solve_inv] | intros ? ? ?]
      end
  | |- wp (mapM_ _ _) _ _ =>
      apply (wp_call None);
      [apply wp_mapM_inv; [let H := fresh "H" in intros ? ? H; pin H | solve_inv] | let H := fresh "H" in intros ? ? H; pin H]
  | |- wp ?m _ _ =>
      lazymatch m with
      | match ?x with _ => _ end => destruct x eqn:?
      | _ =>
          (* a function with a proved specification; otherwise a (non-recursive) helper: look inside *)
          first [ eapply wp_call; [solve [eauto 3 with inv] | let H := fresh "H" in intros ? ? H; pin H]
                | let h := head_of m in unfold h ]
      end
  | |- match ?r with Ok _ => _ | Err _ => _ end => destruct r
  | |- IQ _ _ _ => solve_inv
  | |- InvL _ _ => solve_inv
  end.

Ltac walk := start; repeat wpi.

(* ------------------------------------------------------------------ leaf functions: the label is kept *)
Lemma schedule_inv : forall l r w, InvL l w -> wp (schedule r) (IQ l) w.
Proof. intros. unfold schedule. walk. Qed.
#[export] Hint Resolve schedule_inv : inv.

Lemma fresh_inv : forall l w, InvL l w -> wp fresh (IQ l) w.
Proof. intros. unfold fresh. walk. Qed.
#[export] Hint Resolve fresh_inv : inv.

Lemma hook_inv : forall l name w, InvL l w -> wp (hook name) (IQ l) w.
Proof. intros. unfold hook. walk. Qed.
#[export] Hint Resolve hook_inv : inv.

Lemma set_act_fut_inv : forall l id f w, InvL l w -> wp (set_act_fut id f) (IQ l) w.
Proof. intros. unfold set_act_fut. walk. Qed.
#[export] Hint Resolve set_act_fut_inv : inv.

Lemma cancel_act_inv : forall l id w, InvL l w -> wp (cancel_act id) (IQ l) w.
Proof. intros. unfold cancel_act. walk. Qed.
#[export] Hint Resolve cancel_act_inv : inv.

Lemma set_interrupt_action_inv : forall l new w, InvL l w -> wp (set_interrupt_action new) (IQ l) w.
Proof. intros. unfold set_interrupt_action. walk. Qed.
#[export] Hint Resolve set_interrupt_action_inv : inv.

Lemma set_interrupt_action_from_inv : forall l k c w, InvL l w -> wp (set_interrupt_action_from k c) (IQ l) w.
Proof. intros. unfold set_interrupt_action_from. walk. Qed.
#[export] Hint Resolve set_interrupt_action_from_inv : inv.

Lemma set_t0_inv : forall l p w, InvL l w -> wp (set_t0 p) (IQ l) w.
Proof. intros. unfold set_t0. walk. Qed.
#[export] Hint Resolve set_t0_inv : inv.

Lemma pfut_set_inv : forall l f w, InvL l w -> wp (pfut_set f) (IQ l) w.
Proof. intros. unfold pfut_set. walk. Qed.
#[export] Hint Resolve pfut_set_inv : inv.

Lemma on_entering_inv : forall l ns w, InvL l w -> wp (on_entering ns) (IQ l) w.
Proof. intros. unfold on_entering. destruct ns; walk. Qed.
#[export] Hint Resolve on_entering_inv : inv.

Ltac wprim :=
  cbv beta iota;
  lazymatch goal with
  | |- wp (bind _ _) _ _ => apply wp_bind
  | |- wp (ret _) _ _ => apply wp_ret
  | |- wp (modify _) _ _ => apply wp_modify
  | |- wp get _ _ => apply wp_get
  | |- wp (put _) _ _ => apply wp_put
  end.

(* ------------------------------------------------------------------ closing: the one place where the cleanups run *)
Lemma chain_step_cleanup : forall acc n, chain_step acc (EvCleanup n) = acc.
Proof. intros [x|] n; reflexivity. Qed.

Lemma on_close_inv : forall w, InvL None w -> wp on_close (IQ None) w.
Proof.
  intros w Hw. unfold on_close.
  apply wp_bind. eapply wp_call; [solve [eauto 3 with inv]|]. intros r w1 Hw1.
  destruct r as [u|e]; [|exact Hw1].
  apply wp_finally. apply wp_bind. apply wp_get. cbv beta iota.
  destruct Hw1 as [[[[Hc [Hcl Hev]] | [Hc [Hcl Hev]]] HL] _].
  - (* still open: the three cleanups run, then the process is closed *)
    rewrite Hcl. unfold all_cleanups. cbn [mapM_]. unfold emit.
    repeat wprim. cbv beta iota.
    unfold IQ, InvL, Inv. cbn.
    repeat rewrite cleanup_events_app. repeat rewrite chain_of_app. repeat rewrite chain_step_cleanup.
    rewrite Hev, HL. cbn.
    split; [split; [right; auto | reflexivity] | exact I].
  - (* already closed (not reachable through close()): nothing left to run *)
    rewrite Hcl. cbn [mapM_].
    repeat wprim. cbv beta iota.
    unfold IQ, InvL, Inv. cbn. rewrite Hev, HL.
    split; [split; [right; auto | reflexivity] | exact I].
Qed.
#[export] Hint Resolve on_close_inv : inv.

Lemma close_inv : forall w, InvL None w -> wp close (IQ None) w.
Proof. intros. unfold close. walk. Qed.
#[export] Hint Resolve close_inv : inv.

(* ------------------------------------------------------------------ everything that may call back into the process *)
Ltac label_side :=
  repeat match goal with H : InvL _ _ |- _ => destruct H as [_ H] end;
  unfold cur_label in *; cbn in *;
  repeat match goal with H : st _ = _ |- _ => rewrite H in * end;
  cbn in *; try reflexivity; congruence.

Ltac frame_side ::=
  cbn;
  try reflexivity;
  label_side.

Section Rec.
  Variable rc : ctl -> LM cret.
  Hypothesis Hrc : forall c w, InvL None w -> wp (rc c) (IQ None) w.
  Hint Resolve Hrc : inv.

  Lemma fire_inv : forall name w, InvL None w -> wp (fire rc name) (IQ None) w.
  Proof. intros. unfold fire. walk. Qed.
  Hint Resolve fire_inv : inv.

  Lemma on_entered_inv : forall w0 w, InvL None w -> wp (on_entered rc w0) (IQ None) w.
  Proof. intros. unfold on_entered. walk. Qed.
  Hint Resolve on_entered_inv : inv.

  Lemma on_terminated_inv : forall w, InvL None w -> wp on_terminated (IQ None) w.
  Proof. intros. unfold on_terminated. walk. Qed.
  Hint Resolve on_terminated_inv : inv.

  (* leaving a state: a pending wait is marked as released, the label stays *)
  Lemma exit_current_inv : forall ns w, InvL None w -> wp (exit_current ns) (IQ None) w.
  Proof.
    intros ns w Hw.
    assert (Hp : InvL (Some (cur_label w)) w) by (split; [apply Hw | reflexivity]).
    clear Hw. unfold exit_current. walk.
  Qed.
  Hint Resolve exit_current_inv : inv.

  (* entering a state: the entry is recorded as coming from the label current at that moment *)
  Lemma enter_next_inv : forall ns w, InvL None w -> wp (enter_next rc ns) (IQ None) w.
  Proof.
    intros ns w Hw.
    assert (Hp : InvL (Some (cur_label w)) w) by (split; [apply Hw | reflexivity]).
    clear Hw. unfold enter_next.
    apply wp_bind. apply wp_get. cbv beta iota.
    apply wp_bind.
    apply (wp_call (Some (cur_label w))).
    { destruct (hooks_alive w); [apply on_entering_inv; exact Hp | apply wp_ret; exact Hp]. }
    intros r w1 Hw1. destruct r as [[s'|]|e]; cbv beta iota.
    - apply wp_ret. solve_inv.
    - apply wp_bind. apply wp_get. cbv beta iota.
      apply wp_bind. apply wp_put. cbv beta iota.
      apply wp_bind. unfold emit. apply wp_modify. cbv beta iota.
      assert (Hw2 : InvL None ((w1 <| st := Some ns |>) <| trace := trace w1 ++ [EvEntered (cur_label w) (label_of ns)] |>)).
      { destruct Hw1 as [Hi Hl]. rewrite <- Hl. apply InvL_enter. split; [exact Hi | exact I]. }
      clear Hw1 Hp. walk.
    - solve_inv.
  Qed.
  Hint Resolve enter_next_inv : inv.

  Lemma transition_body_inv : forall ns w, InvL None w -> wp (transition_body rc ns) (IQ None) w.
  Proof. intros. unfold transition_body. walk. Qed.
  Hint Resolve transition_body_inv : inv.

  Lemma transition_to_failing_inv : forall ns w, InvL None w -> wp (transition_to_failing rc ns) (IQ None) w.
  Proof. intros. unfold transition_to_failing. walk. Qed.
  Hint Resolve transition_to_failing_inv : inv.

  Lemma transition_to_inv : forall ns w, InvL None w -> wp (transition_to rc ns) (IQ None) w.
  Proof. intros. unfold transition_to. walk. Qed.
  Hint Resolve transition_to_inv : inv.

  Lemma state_interrupt_inv : forall iid w, InvL None w -> wp (state_interrupt iid) (IQ None) w.
  Proof. intros. unfold state_interrupt. walk. Qed.
  Hint Resolve state_interrupt_inv : inv.

  Lemma do_pause_inv : forall msg next w, InvL None w -> wp (do_pause rc msg next) (IQ None) w.
  Proof. intros. unfold do_pause. walk. Qed.
  Hint Resolve do_pause_inv : inv.

  Lemma pause_inv : forall msg w, InvL None w -> wp (pause rc msg) (IQ None) w.
  Proof. intros. unfold pause. walk. Qed.

  Lemma play_inv : forall w, InvL None w -> wp (play rc) (IQ None) w.
  Proof. intros. unfold play. walk. Qed.

  Lemma kill_inv : forall msg w, InvL None w -> wp (kill rc msg) (IQ None) w.
  Proof. intros. unfold kill. walk. Qed.

  Lemma resume_inv : forall v w, InvL None w -> wp (resume v) (IQ None) w.
  Proof. intros. unfold resume. walk. Qed.

  Lemma fail_inv : forall e w, InvL None w -> wp (fail rc e) (IQ None) w.
  Proof. intros. unfold fail. walk. Qed.

  Lemma ctl_body_inv : forall c w, InvL None w -> wp (ctl_body rc c) (IQ None) w.
  Proof.
    intros c w Hw. destruct c; cbn [ctl_body];
      [apply pause_inv | apply play_inv | apply kill_inv | apply resume_inv | apply fail_inv | apply wp_raise]; exact Hw.
  Qed.
End Rec.

(* ------------------------------------------------------------------ tying the knot, steps, the loop *)
Lemma do_ctl_inv : forall fuel c w, InvL None w -> wp (do_ctl fuel c) (IQ None) w.
Proof.
  induction fuel as [|fuel IH]; intros c w Hw; cbn [do_ctl].
  - apply wp_raise. exact Hw.
  - apply ctl_body_inv; [exact IH | exact Hw].
Qed.
#[export] Hint Resolve do_ctl_inv : inv.

Lemma ctl_call_inv : forall c w, InvL None w -> wp (ctl_call c) (IQ None) w.
Proof. intros. unfold ctl_call. apply do_ctl_inv. assumption. Qed.
#[export] Hint Resolve ctl_call_inv : inv.

Lemma transition_inv : forall ns w, InvL None w -> wp (transition ns) (IQ None) w.
Proof. intros. unfold transition. apply transition_to_inv; [apply do_ctl_inv | assumption]. Qed.
#[export] Hint Resolve transition_inv : inv.

Lemma fire_top_inv : forall name w, InvL None w -> wp (fire (do_ctl reent_fuel) name) (IQ None) w.
Proof. intros. apply fire_inv; [apply do_ctl_inv | assumption]. Qed.
#[export] Hint Resolve fire_top_inv : inv.

Lemma do_pause_top_inv : forall msg next w, InvL None w -> wp (do_pause (do_ctl reent_fuel) msg next) (IQ None) w.
Proof. intros. apply do_pause_inv; [apply do_ctl_inv | assumption]. Qed.
#[export] Hint Resolve do_pause_top_inv : inv.

Lemma ctl_observed_inv : forall c w, InvL None w -> wp (ctl_observed c) (IQ None) w.
Proof. intros. unfold ctl_observed. walk. Qed.
#[export] Hint Resolve ctl_observed_inv : inv.

Lemma do_pause_deferred_inv : forall msg next w, InvL None w -> wp (do_pause_deferred msg next) (IQ None) w.
Proof. intros. unfold do_pause_deferred. walk. Qed.
#[export] Hint Resolve do_pause_deferred_inv : inv.

Lemma run_action_inv : forall id next w, InvL None w -> wp (run_action id next) (IQ None) w.
Proof. intros. unfold run_action. walk. Qed.
#[export] Hint Resolve run_action_inv : inv.

Lemma do_out_inv : forall path v w, InvL None w -> wp (do_out path v) (IQ None) w.
Proof. intros. unfold do_out. walk. Qed.
#[export] Hint Resolve do_out_inv : inv.

Lemma run_actions_inv : forall acts r w, InvL None w -> wp (run_actions acts r) (IQ None) w.
Proof.
  induction acts as [|a acts IH]; intros r w Hw; cbn [run_actions].
  - walk.
  - destruct a; walk.
Qed.
#[export] Hint Resolve run_actions_inv : inv.

Lemma after_run_fn_inv : forall o w, InvL None w -> wp (after_run_fn o) (IQ None) w.
Proof. intros. unfold after_run_fn. walk. Qed.
#[export] Hint Resolve after_run_fn_inv : inv.

Lemma execute_state_inv : forall w, InvL None w -> wp execute_state (IQ None) w.
Proof. intros. unfold execute_state. walk. Qed.
#[export] Hint Resolve execute_state_inv : inv.

Lemma run_armed_inv : forall fuel ran w, InvL None w -> wp (run_armed fuel ran) (IQ None) w.
Proof.
  induction fuel as [|fuel IH]; intros ran w Hw; cbn [run_armed].
  - apply wp_raise. exact Hw.
  - walk.
Qed.
#[export] Hint Resolve run_armed_inv : inv.

Lemma finish_step_inv : forall x w, InvL None w -> wp (finish_step x) (IQ None) w.
Proof. intros. unfold finish_step. walk. Qed.
#[export] Hint Resolve finish_step_inv : inv.

Lemma loop_head_inv : forall fuel w, InvL None w -> wp (loop_head fuel) (IQ None) w.
Proof.
  induction fuel as [|fuel IH]; intros w Hw; cbn [loop_head].
  - apply wp_raise. exact Hw.
  - walk.
Qed.
#[export] Hint Resolve loop_head_inv : inv.

Lemma resume_t0_inv : forall wk w, InvL None w -> wp (resume_t0 wk) (IQ None) w.
Proof. intros. unfold resume_t0. walk. Qed.
#[export] Hint Resolve resume_t0_inv : inv.

Lemma run_entry_inv : forall r w, InvL None w -> wp (run_entry r) (IQ None) w.
Proof. intros. unfold run_entry. destruct r; walk. Qed.
#[export] Hint Resolve run_entry_inv : inv.

Lemma tick_inv : forall w, InvL None w -> wp tick (IQ None) w.
Proof. intros. unfold tick. walk. Qed.
#[export] Hint Resolve tick_inv : inv.

Lemma drain_inv : forall n w, InvL None w -> wp (drain n) (IQ None) w.
Proof.
  induction n as [|n IH]; intros w Hw; cbn [drain].
  - apply wp_ret. exact Hw.
  - walk.
Qed.
#[export] Hint Resolve drain_inv : inv.

Lemma env_step_m_inv : forall e w, InvL None w -> wp (env_step_m e) (IQ None) w.
Proof. intros. unfold env_step_m. destruct e; walk. Qed.

Lemma env_step_inv : forall e w, Inv w -> Inv (env_step w e).
Proof.
  intros e w Hw. unfold env_step.
  pose proof (env_step_m_inv e w (conj Hw I)) as H. unfold wp, IQ in H. apply H.
Qed.

(* ------------------------------------------------------------------ the extended environment *)
Lemma x_step_inv : forall e xw, Inv (base xw) -> Inv (base (x_step xw e)).
Proof.
  intros e xw Hw. rewrite x_step_base.
  destruct e as [ev|m|b| |]; try exact Hw.
  - apply env_step_inv. exact Hw.
  - destruct (pending xw) as [|[oid c] rest]; [exact Hw | apply env_step_inv; exact Hw].
Qed.

Lemma x_run_from_inv : forall es xw, Inv (base xw) -> Inv (base (x_run_from xw es)).
Proof.
  induction es as [|e es IH]; intros xw Hw; [exact Hw|].
  cbn [x_run_from fold_left]. change (fold_left x_step es (x_step xw e)) with (x_run_from (x_step xw e) es).
  apply IH. apply x_step_inv. exact Hw.
Qed.

Lemma x_init_inv : forall c, Inv (x_init_world c).
Proof.
  intro c. unfold Inv. cbn. split; [left; auto | reflexivity].
Qed.

Lemma x_start_inv : forall c xw, x_start c = Some xw -> Inv (base xw).
Proof.
  intros c xw H. unfold x_start in H.
  assert (Hw : wp (transition (Some SCreated) ;;; schedule (RWakeT0 WkNone)) (IQ None) (x_init_world c)).
  { pose proof (x_init_inv c) as Hi. assert (Hl : InvL None (x_init_world c)) by (split; [exact Hi | exact I]). walk. }
  unfold wp, IQ in Hw. unfold x_construct in H.
  destruct ((transition (Some SCreated) ;;; schedule (RWakeT0 WkNone)) (x_init_world c)) as [[u|e] w]; [|discriminate].
  inversion H; subst. cbn in *. apply Hw.
Qed.

(* for every configuration, every schedule of the extended environment: the invariant holds at the end *)
Theorem reachable_inv : forall c es xw, x_run c es = Some xw -> Inv (base xw).
Proof.
  intros c es xw H. unfold x_run in H.
  destruct (x_start c) as [xw0|] eqn:Hs; [|discriminate].
  inversion H; subst. apply x_run_from_inv. eapply x_start_inv. eassumption.
Qed.

(* ------------------------------------------------------------------ what the invariant says about subscriptions *)
Lemma removals_count : forall n tr,
  List.length (filter (is_cleanup n) tr) = count_occ Nat.eq_dec (cleanup_events tr) n.
Proof.
  intros n tr. induction tr as [|e tr IH]; [reflexivity|].
  change (cleanup_events (e :: tr)) with (cleanup_of e ++ cleanup_events tr).
  rewrite count_occ_app, <- IH. cbn [filter].
  destruct e; cbn; try reflexivity.
  destruct (Nat.eq_dec n0 n) as [->|Hne].
  - rewrite Nat.eqb_refl. reflexivity.
  - apply Nat.eqb_neq in Hne. rewrite Hne. reflexivity.
Qed.

Lemma inv_subscriptions : forall w, Inv w ->
  (closed w = false /\ removals cleanup_rpc w = 0 /\ removals cleanup_broadcast w = 0 /\
   subscribed_rpc w = true /\ subscribed_broadcast w = true) \/
  (closed w = true /\ removals cleanup_rpc w = 1 /\ removals cleanup_broadcast w = 1 /\
   subscribed_rpc w = false /\ subscribed_broadcast w = false).
Proof.
  intros w [[[Hc [_ Hev]] | [Hc [_ Hev]]] _]; [left | right];
    unfold subscribed_rpc, subscribed_broadcast, removals; rewrite !removals_count, Hev; cbn; auto.
Qed.

(* ------------------------------------------------------------------ ... and about the entries *)
Lemma chain_from_none : forall tr, fold_left chain_step tr None = None.
Proof. induction tr as [|e tr IH]; [reflexivity | exact IH]. Qed.

Lemma chain_chained : forall tr p x, fold_left chain_step tr (Some p) = Some x -> chained p (entered tr) = true.
Proof.
  induction tr as [|e tr IH]; intros p x H; [reflexivity|].
  destruct e; cbn in H |- *; try (eapply IH; exact H).
  destruct (option_eqb label_eqb from p) eqn:E.
  - cbn. eapply IH. exact H.
  - rewrite chain_from_none in H. discriminate.
Qed.

Lemma chain_last : forall tr p x, fold_left chain_step tr (Some p) = Some x ->
  x = match rev (entered tr) with b :: _ => Some (bc_to b) | [] => p end.
Proof.
  induction tr as [|e tr IH]; intros p x H; [cbn in *; congruence|].
  destruct e; cbn in H |- *; try (eapply IH; exact H).
  destruct (option_eqb label_eqb from p) eqn:E.
  - rewrite (IH _ _ H). destruct (rev (entered tr)) as [|b r] eqn:Hr; cbn; reflexivity.
  - rewrite chain_from_none in H. discriminate.
Qed.

Lemma inv_entries : forall w, Inv w ->
  chained None (entered (trace w)) = true /\
  cur_label w = match rev (entered (trace w)) with b :: _ => Some (bc_to b) | [] => None end.
Proof.
  intros w [_ HL]. unfold chain_of in HL. split.
  - eapply chain_chained. exact HL.
  - symmetry. rewrite <- (chain_last _ _ _ HL). reflexivity.
Qed.

Theorem reachable_subscriptions : forall c es xw, x_run c es = Some xw ->
  let w := base xw in
  (closed w = false /\ removals cleanup_rpc w = 0 /\ removals cleanup_broadcast w = 0 /\
   subscribed_rpc w = true /\ subscribed_broadcast w = true) \/
  (closed w = true /\ removals cleanup_rpc w = 1 /\ removals cleanup_broadcast w = 1 /\
   subscribed_rpc w = false /\ subscribed_broadcast w = false).
Proof. intros c es xw H. apply inv_subscriptions. eapply reachable_inv. exact H. Qed.

Theorem reachable_entries : forall c es xw, x_run c es = Some xw ->
  let w := base xw in
  chained None (entered (trace w)) = true /\
  cur_label w = match rev (entered (trace w)) with b :: _ => Some (bc_to b) | [] => None end.
Proof. intros c es xw H. apply inv_entries. eapply reachable_inv. exact H. Qed.

(* the announcements of every run: a subsequence of a consecutive chain of entries that ends in the current state *)
Theorem reachable_announcements : forall c es xw, x_run c es = Some xw ->
  let tr := trace (base xw) in
  sublist (announce tr) (entered tr) /\ chained None (entered tr) = true /\
  (entries_complete tr = true -> announce tr = entered tr /\ chained None (announce tr) = true).
Proof.
  intros c es xw H tr. destruct (reachable_entries c es xw H) as [Hc _].
  split; [apply announce_sublist_entered|]. split; [exact Hc|].
  intro Hcomp. rewrite (announce_complete _ Hcomp). split; [reflexivity | exact Hc].
Qed.

(* ------------------------------------------------------------------ a non-trivial instance (hypotheses are satisfiable) *)
Definition ex_ospec := PNs (mk_nattrs true None DNone None true true None) PNil.
Definition ex_cfg : config := mk_config [("run", mk_script [AYield; AYield] (RValue (VInt 1)))] [] [] None ex_ospec.
(* pause arrives while the first step is in flight (an action), status twice, play cancels the pause, pause_all and
   play_all, the process finishes and closes, a last kill finds nobody *)
Definition ex_events : list xevent :=
  [XSendRpc (msg_pause (Some "p")); XBase ETick; XRecv; XRunRpc; XSendRpc msg_status; XRecv; XBase ETick;
   XSendRpc msg_status; XRecv; XSendRpc msg_play; XRecv; XRunRpc;
   XSendBc (mk_bmsg (Some "pause") (BDict None)); XRecv; XRunRpc; XSendBc (mk_bmsg (Some "play") BNone); XRecv; XRunRpc;
   XBase (EDrain 20); XSendRpc (msg_kill None)].

Example example_run :
  match x_run ex_cfg ex_events, x_start ex_cfg with
  | Some xw, Some xw0 =>
      final_replies xw = [RpCancelled; RpStatus false (Some LRunning); RpStatus false (Some LRunning); RpVal true; RpUnroutable]
      /\ map subject_of (announce (trace (base xw))) =
           ["state_changed.None.created"; "state_changed.created.running"; "state_changed.running.finished"]
      /\ entries_complete (trace (base xw)) = true
      /\ closed (base xw) = true
      /\ direct_schedule xw0 ex_events = [ETick; ECtl (CPause (Some "p")); ETick; ECtl CPlay; ECtl (CPause None); ECtl CPlay; EDrain 20]
  | _, _ => False
  end.
Proof. vm_compute. repeat split; reflexivity. Qed.

(* a closed process no longer receives anything, in every run: an RPC is unroutable, a broadcast is not delivered *)
Theorem closed_receives_nothing : forall c es xw, x_run c es = Some xw -> closed (base xw) = true ->
  (forall m, x_step xw (XSendRpc m) = xw <| replies := replies xw ++ [RpUnroutable] |>) /\
  (forall b, x_step xw (XSendBc b) = xw).
Proof.
  intros c es xw H Hc.
  destruct (reachable_subscriptions c es xw H) as [[Hf _] | [_ [_ [_ [Hr Hb]]]]]; [congruence|].
  split; intros; [apply send_rpc_unsubscribed | apply send_bc_unsubscribed]; assumption.
Qed.

(* ... and an open one receives everything that is not one of the state-change announcements *)
Theorem open_receives : forall c es xw, x_run c es = Some xw -> closed (base xw) = false ->
  (forall m, x_step xw (XSendRpc m) =
             xw <| inflight := inflight xw ++ [XmRpc (List.length (replies xw)) m] |> <| replies := replies xw ++ [RpPending] |>) /\
  (forall b, bc_filtered (b_subject b) = false -> x_step xw (XSendBc b) = xw <| inflight := inflight xw ++ [XmBc b] |>).
Proof.
  intros c es xw H Hc.
  destruct (reachable_subscriptions c es xw H) as [[_ [_ [_ [Hr Hb]]]] | [Hf _]]; [|congruence].
  split; intros; cbn; [rewrite Hr | rewrite Hb, H0]; reflexivity.
Qed.
