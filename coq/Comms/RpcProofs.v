(* Comms/RpcProofs.v — proofs about Comms/Rpc.v (property C16).  Part 1: dispatch, the scheduled callback versus the
   direct call, replies, announcements as a function of the trace, tolerated broadcast failures. *)
From Coq Require Import List ZArith String Bool Arith Lia.
From RecordUpdate Require Import RecordUpdate.
From Plumpy Require Import Val Mon PortModel Adapters AdaptersProofs Model Run Rpc Facts.
Import ListNotations.
Local Open Scope string_scope.
Local Open Scope list_scope.

(* ------------------------------------------------------------------ dispatch *)
(* the constants are the ones extracted from /repo on this run *)
Lemma intents_match_repo : x_intents = intent_table.
Proof. reflexivity. Qed.

Lemma dispatch_play : forall m, m_intent m = intent_play -> dispatch m = Some CPlay.
Proof. intros m H. unfold dispatch. rewrite H. reflexivity. Qed.

Lemma dispatch_pause : forall m, m_intent m = intent_pause -> dispatch m = Some (CPause (m_text m)).
Proof. intros m H. unfold dispatch. rewrite H. reflexivity. Qed.

Lemma dispatch_kill : forall m, m_intent m = intent_kill -> dispatch m = Some (CKill (m_text m)).
Proof. intros m H. unfold dispatch. rewrite H. reflexivity. Qed.

Lemma dispatch_none : forall m,
  m_intent m <> intent_play -> m_intent m <> intent_pause -> m_intent m <> intent_kill -> dispatch m = None.
Proof.
  intros m H1 H2 H3. unfold dispatch.
  apply String.eqb_neq in H1, H2, H3. rewrite H1, H2, H3. reflexivity.
Qed.

(* each intent maps to exactly the documented call with exactly the message text, and nothing else does *)
Lemma dispatch_spec : forall m c,
  dispatch m = Some c <->
  (m_intent m = intent_play /\ c = CPlay) \/
  (m_intent m = intent_pause /\ c = CPause (m_text m)) \/
  (m_intent m = intent_kill /\ c = CKill (m_text m)).
Proof.
  intros m c. unfold dispatch. split.
  - destruct (String.eqb (m_intent m) intent_play) eqn:E1.
    { apply String.eqb_eq in E1. intro H; inversion H; auto. }
    destruct (String.eqb (m_intent m) intent_pause) eqn:E2.
    { apply String.eqb_eq in E2. intro H; inversion H; auto. }
    destruct (String.eqb (m_intent m) intent_kill) eqn:E3.
    { apply String.eqb_eq in E3. intro H; inversion H; auto. }
    discriminate.
  - intros [[H ->] | [[H ->] | [H ->]]]; rewrite H; reflexivity.
Qed.

Lemma handle_rpc_spec : forall m,
  handle_rpc m =
    match dispatch m with
    | Some c => HCall c
    | None => if String.eqb (m_intent m) intent_status then HStatus else HError
    end.
Proof. reflexivity. Qed.

Lemma handle_rpc_status : forall m, m_intent m = intent_status -> handle_rpc m = HStatus.
Proof. intros m H. unfold handle_rpc, dispatch. rewrite H. reflexivity. Qed.

Lemma handle_rpc_unknown : forall m,
  m_intent m <> intent_play -> m_intent m <> intent_pause -> m_intent m <> intent_kill -> m_intent m <> intent_status ->
  handle_rpc m = HError.
Proof.
  intros m H1 H2 H3 H4. unfold handle_rpc. rewrite (dispatch_none m H1 H2 H3).
  apply String.eqb_neq in H4. rewrite H4. reflexivity.
Qed.

(* the MessageBuilder messages mean what their names say *)
Lemma builder_messages : forall t,
  handle_rpc msg_play = HCall CPlay /\ handle_rpc (msg_pause t) = HCall (CPause t) /\
  handle_rpc (msg_kill t) = HCall (CKill t) /\ handle_rpc msg_status = HStatus.
Proof. intro t. repeat split. Qed.

(* broadcasts: the subject selects the call, the text comes from the body; anything else is ignored *)
Lemma handle_bc_spec : forall b c,
  handle_bc b = BCall c <->
  (b_subject b = Some intent_play /\ c = CPlay) \/
  (exists t, b_subject b = Some intent_pause /\ b_body b = BDict t /\ c = CPause t) \/
  (exists t, b_subject b = Some intent_kill /\ b_body b = BDict t /\ c = CKill t).
Proof.
  intros [subj bd] c. unfold handle_bc; cbn. split.
  - destruct subj as [s|]; [|discriminate].
    destruct (String.eqb s intent_play) eqn:E1.
    { apply String.eqb_eq in E1; subst. intro H; inversion H; auto. }
    destruct (String.eqb s intent_pause) eqn:E2.
    { apply String.eqb_eq in E2; subst. destruct bd; try discriminate. intro H; inversion H; subst. right; left; eauto. }
    destruct (String.eqb s intent_kill) eqn:E3.
    { apply String.eqb_eq in E3; subst. destruct bd; try discriminate. intro H; inversion H; subst. right; right; eauto. }
    discriminate.
  - intros [[H ->] | [[t [H [Hb ->]]] | [t [H [Hb ->]]]]]; inversion H; subst; cbn; try rewrite Hb; reflexivity.
Qed.

Lemma handle_bc_unknown_subject : forall b,
  b_subject b <> Some intent_play -> b_subject b <> Some intent_pause -> b_subject b <> Some intent_kill ->
  handle_bc b = BIgnore.
Proof.
  intros [subj bd] H1 H2 H3; cbn in *. unfold handle_bc; cbn.
  destruct subj as [s|]; [|reflexivity].
  assert (E1 : String.eqb s intent_play = false) by (apply String.eqb_neq; congruence).
  assert (E2 : String.eqb s intent_pause = false) by (apply String.eqb_neq; congruence).
  assert (E3 : String.eqb s intent_kill = false) by (apply String.eqb_neq; congruence).
  rewrite E1, E2, E3. reflexivity.
Qed.

(* the control broadcasts are never filtered, the process's own announcements always are *)
Lemma control_subjects_not_filtered :
  bc_filtered (Some intent_play) = false /\ bc_filtered (Some intent_pause) = false /\ bc_filtered (Some intent_kill) = false
  /\ bc_filtered None = false.
Proof. repeat split. Qed.

Lemma str_prefix_app : forall p s, str_prefix p (p ++ s)%string = true.
Proof.
  induction p as [|a p IH]; intro s; cbn; [reflexivity|].
  rewrite Ascii.eqb_refl. apply IH.
Qed.

Lemma announcements_filtered : forall b, bc_filtered (Some (subject_of b)) = true.
Proof.
  intros [[f|] t]; destruct t; try destruct f; reflexivity.
Qed.

(* ------------------------------------------------------------------ receiving never touches the process *)
Lemma recv_base : forall xw, base (recv xw) = base xw.
Proof.
  intro xw. unfold recv.
  destruct (inflight xw) as [|[id m|b] rest]; [reflexivity| |].
  - destruct (handle_rpc m); reflexivity.
  - destruct (handle_bc b); reflexivity.
Qed.

Lemma recv_rpc_call : forall xw id m rest c,
  inflight xw = XmRpc id m :: rest -> dispatch m = Some c ->
  recv xw = xw <| inflight := rest |> <| pending := pending xw ++ [(Some id, c)] |>.
Proof. intros xw id m rest c Hi Hd. unfold recv, handle_rpc. rewrite Hi, Hd. reflexivity. Qed.

(* status is answered on the spot from the current state; nothing is scheduled *)
Lemma recv_rpc_status : forall xw id m rest,
  inflight xw = XmRpc id m :: rest -> m_intent m = intent_status ->
  recv xw = xw <| inflight := rest |> <| replies := set_reply id (status_of (base xw)) (replies xw) |>.
Proof. intros xw id m rest Hi Hs. unfold recv. rewrite Hi, (handle_rpc_status m Hs). reflexivity. Qed.

(* an unknown intent is an error reply; nothing is scheduled *)
Lemma recv_rpc_unknown : forall xw id m rest,
  inflight xw = XmRpc id m :: rest -> handle_rpc m = HError ->
  recv xw = xw <| inflight := rest |> <| replies := set_reply id RpErr (replies xw) |>.
Proof. intros xw id m rest Hi Hh. unfold recv. rewrite Hi, Hh. reflexivity. Qed.

Lemma recv_pending_only_calls : forall xw,
  pending (recv xw) = pending xw \/
  exists oid c, pending (recv xw) = pending xw ++ [(oid, c)] /\
    match inflight xw with
    | XmRpc id m :: _ => oid = Some id /\ dispatch m = Some c
    | XmBc b :: _ => oid = None /\ handle_bc b = BCall c
    | [] => False
    end.
Proof.
  intro xw. unfold recv.
  destruct (inflight xw) as [|[id m|b] rest]; [left; reflexivity| |].
  - unfold handle_rpc. destruct (dispatch m) as [c|] eqn:Hd.
    + right. exists (Some id), c. cbn. auto.
    + left. destruct (String.eqb (m_intent m) intent_status); reflexivity.
  - destruct (handle_bc b) as [c| |] eqn:Hb.
    + right. exists None, c. cbn. auto.
    + left; reflexivity.
    + left; reflexivity.
Qed.

Lemma send_rpc_unsubscribed : forall xw m, subscribed_rpc (base xw) = false ->
  x_step xw (XSendRpc m) = xw <| replies := replies xw ++ [RpUnroutable] |>.
Proof. intros xw m H. cbn. rewrite H. reflexivity. Qed.

Lemma send_bc_unsubscribed : forall xw b, subscribed_broadcast (base xw) = false -> x_step xw (XSendBc b) = xw.
Proof. intros xw b H. cbn. rewrite H. reflexivity. Qed.

(* ------------------------------------------------------------------ the scheduled callback is the direct call *)
Lemma rpc_call_is_direct : forall c w, snd (rpc_call c w) = env_step w (ECtl c).
Proof.
  intros c w. unfold rpc_call, env_step, env_step_m, bind.
  destruct (ctl_observed c w) as [[r|e] w1]; [|reflexivity].
  unfold emit, modify, ret. reflexivity.
Qed.

Lemma ctl_observed_ok : forall c w, exists r, fst (ctl_observed c w) = Ok r.
Proof.
  intros c w. unfold ctl_observed, bind, attempt.
  destruct (ctl_call c w) as [[x|e] w1]; cbn; eauto.
Qed.

Lemma rpc_call_result : forall c w, fst (rpc_call c w) = fst (ctl_observed c w).
Proof.
  intros c w. unfold rpc_call, bind.
  destruct (ctl_observed_ok c w) as [r Hr].
  destruct (ctl_observed c w) as [[r'|e] w1]; cbn in *; [|discriminate].
  reflexivity.
Qed.

(* what the direct caller gets back *)
Definition direct_result (c : ctl) (w : world) : cret :=
  match fst (ctl_observed c w) with Ok r => r | Err e => CrRaised e end.

Lemma run_rpc_base : forall xw oid c rest,
  pending xw = (oid, c) :: rest -> base (run_rpc xw) = env_step (base xw) (ECtl c).
Proof.
  intros xw oid c rest Hp. unfold run_rpc. rewrite Hp.
  rewrite <- rpc_call_is_direct.
  destruct (rpc_call c (base xw)) as [r w']. reflexivity.
Qed.

Lemma run_rpc_pending : forall xw oid c rest, pending xw = (oid, c) :: rest -> pending (run_rpc xw) = rest.
Proof.
  intros xw oid c rest Hp. unfold run_rpc. rewrite Hp.
  destruct (rpc_call c (base xw)) as [r w']. reflexivity.
Qed.

Lemma nth_upd_nth_eq : forall A (l : list A) n f d, n < List.length l -> nth n (upd_nth n f l) d = f (nth n l d).
Proof.
  intros A l. induction l as [|x r IH]; intros n f d Hn; cbn in Hn; [lia|].
  destruct n as [|n]; cbn; [reflexivity|]. apply IH. lia.
Qed.

Lemma nth_upd_nth_neq : forall A (l : list A) n m f d, m <> n -> nth m (upd_nth n f l) d = nth m l d.
Proof.
  intros A l. induction l as [|x r IH]; intros n m f d Hne.
  - destruct n; reflexivity.
  - destruct n as [|n]; destruct m as [|m]; cbn; auto; try lia.
Qed.

Lemma upd_nth_length : forall A (l : list A) n f, List.length (upd_nth n f l) = List.length l.
Proof. intros A l. induction l as [|x r IH]; intros n f; destruct n; cbn; auto. Qed.

(* the reply future of the RPC gets the outcome of that very call; no other reply is touched *)
Lemma run_rpc_reply : forall xw id c rest,
  pending xw = (Some id, c) :: rest -> id < List.length (replies xw) ->
  nth id (replies (run_rpc xw)) RpPending = reply_of_cret (direct_result c (base xw)) /\
  forall j, j <> id -> nth j (replies (run_rpc xw)) RpPending = nth j (replies xw) RpPending.
Proof.
  intros xw id c rest Hp Hid. unfold run_rpc. rewrite Hp.
  pose proof (rpc_call_result c (base xw)) as Hr. unfold direct_result.
  destruct (rpc_call c (base xw)) as [r w']. cbn in Hr. rewrite <- Hr. cbn.
  split.
  - unfold set_reply. rewrite nth_upd_nth_eq by assumption. destruct r; reflexivity.
  - intros j Hj. unfold set_reply. apply nth_upd_nth_neq. assumption.
Qed.

Lemma run_rpc_broadcast_no_reply : forall xw c rest,
  pending xw = (None, c) :: rest -> replies (run_rpc xw) = replies xw.
Proof.
  intros xw c rest Hp. unfold run_rpc. rewrite Hp.
  destruct (rpc_call c (base xw)) as [r w']. reflexivity.
Qed.

(* nested futures: what the caller finally reads is the outcome of the action the call handed back (C20) *)
Lemma resolve_await : forall w a ac,
  get_act w a = Some ac ->
  resolve w (RpAwait a) =
    match Model.a_fut ac with
    | AfPending => RpPending
    | AfVal b => RpVal b
    | AfExn _ => RpErr
    | AfCancelled => RpCancelled
    end.
Proof.
  intros w a ac H. unfold resolve. rewrite H.
  destruct (Model.a_fut ac); cbn; reflexivity.
Qed.

Lemma resolve_not_await : forall w r, (forall a, r <> RpAwait a) -> resolve w r = r.
Proof. intros w r H. destruct r; try reflexivity. exfalso. eapply H. reflexivity. Qed.

(* ------------------------------------------------------------------ the whole run: remote schedule = direct schedule *)
Lemma run_from_app : forall es1 es2 w, run_from w (es1 ++ es2) = run_from (run_from w es1) es2.
Proof. intros. unfold run_from. apply fold_left_app. Qed.

Lemma x_step_base : forall xw e,
  base (x_step xw e) =
    match e with
    | XBase ev => env_step (base xw) ev
    | XRunRpc => match pending xw with (_, c) :: _ => env_step (base xw) (ECtl c) | [] => base xw end
    | _ => base xw
    end.
Proof.
  intros xw e. destruct e as [ev|m|b| |]; cbn.
  - reflexivity.
  - destruct (subscribed_rpc (base xw)); reflexivity.
  - destruct (subscribed_broadcast (base xw) && negb (bc_filtered (b_subject b))); reflexivity.
  - apply recv_base.
  - destruct (pending xw) as [|[oid c] rest] eqn:Hp.
    + unfold run_rpc. rewrite Hp. reflexivity.
    + eapply run_rpc_base. eassumption.
Qed.

Theorem remote_run_is_direct_run : forall es xw,
  base (x_run_from xw es) = run_from (base xw) (direct_schedule xw es).
Proof.
  induction es as [|e es IH]; intro xw; [reflexivity|].
  cbn [x_run_from fold_left direct_schedule].
  change (fold_left x_step es (x_step xw e)) with (x_run_from (x_step xw e) es).
  rewrite IH, run_from_app. f_equal.
  rewrite x_step_base.
  destruct e as [ev|m|b| |]; try reflexivity.
  destruct (pending xw) as [|[oid c] rest]; reflexivity.
Qed.

(* the calls of the direct schedule are exactly the calls scheduled by message_receive / broadcast_receive *)
Fixpoint calls_of (es : list env_event) : list ctl :=
  match es with
  | [] => []
  | ECtl c :: r => c :: calls_of r
  | _ :: r => calls_of r
  end.

Fixpoint base_calls (es : list xevent) : list ctl :=
  match es with
  | [] => []
  | XBase (ECtl c) :: r => c :: base_calls r
  | _ :: r => base_calls r
  end.

(* ------------------------------------------------------------------ announcements as a function of the trace *)
Inductive sublist {A} : list A -> list A -> Prop :=
| sub_nil : sublist [] []
| sub_skip : forall x l1 l2, sublist l1 l2 -> sublist l1 (x :: l2)
| sub_take : forall x l1 l2, sublist l1 l2 -> sublist (x :: l1) (x :: l2).

Lemma sublist_refl : forall A (l : list A), sublist l l.
Proof. induction l; [apply sub_nil | apply sub_take; assumption]. Qed.

Lemma sublist_length : forall A (l1 l2 : list A), sublist l1 l2 -> List.length l1 <= List.length l2.
Proof. induction 1; cbn; lia. Qed.

(* never an announcement without the entry, never two for one entry, never out of order: for ANY trace the
   announcements are a subsequence of the entries; a pending entry adds at most itself in front *)
Lemma announce_from_sublist : forall tr pend,
  match pend with
  | None => sublist (announce_from None tr) (entered tr)
  | Some b => sublist (announce_from (Some b) tr) (b :: entered tr)
  end.
Proof.
  induction tr as [|e tr IH]; intro pend.
  - destruct pend; cbn; repeat constructor.
  - destruct e; cbn;
      try (destruct pend as [b|]; [apply (IH (Some b)) | apply (IH None)]).
    + (* EvEntered *)
      destruct (entered_mark to) eqn:Em.
      * pose proof (IH (Some (mk_bc from to))) as H. cbn in H.
        destruct pend as [b|]; [apply sub_skip|]; exact H.
      * pose proof (IH None) as H.
        destruct pend as [b|]; [apply sub_skip|]; apply sub_take; exact H.
    + (* EvListener *)
      destruct pend as [b|].
      * destruct (option_eqb String.eqb (entered_mark (bc_to b)) (Some name)).
        -- apply sub_take. apply (IH None).
        -- apply (IH (Some b)).
      * apply (IH None).
Qed.

Theorem announce_sublist_entered : forall tr, sublist (announce tr) (entered tr).
Proof. intro tr. apply (announce_from_sublist tr None). Qed.

(* when every entry reached its broadcast, the announcements are exactly the entries, once each, in order *)
Lemma announce_from_complete : forall tr pend,
  entries_complete_from pend tr = true ->
  announce_from pend tr = match pend with Some b => b :: entered tr | None => entered tr end.
Proof.
  induction tr as [|e tr IH]; intros pend H.
  - destruct pend; cbn in *; [discriminate|reflexivity].
  - destruct e; cbn in *; try (apply IH; exact H).
    + destruct pend as [b|]; [discriminate|].
      destruct (entered_mark to) eqn:Em.
      * rewrite (IH _ H). reflexivity.
      * rewrite (IH _ H). reflexivity.
    + destruct pend as [b|].
      * destruct (option_eqb String.eqb (entered_mark (bc_to b)) (Some name)).
        -- rewrite (IH _ H). reflexivity.
        -- apply (IH _ H).
      * apply (IH _ H).
Qed.

Theorem announce_complete : forall tr, entries_complete tr = true -> announce tr = entered tr.
Proof. intros tr H. apply (announce_from_complete tr None H). Qed.

(* the subject spells the two labels; different transitions have different subjects *)
Definition all_labels := [LCreated; LRunning; LWaiting; LFinished; LExcepted; LKilled].
Definition all_bcs : list broadcast :=
  flat_map (fun t => mk_bc None t :: map (fun f => mk_bc (Some f) t) all_labels) all_labels.

Definition bc_eqb (a b : broadcast) : bool :=
  option_eqb label_eqb (bc_from a) (bc_from b) && label_eqb (bc_to a) (bc_to b).

Lemma label_eqb_eq : forall a b, label_eqb a b = true <-> a = b.
Proof. intros a b; split; [destruct a, b; cbn; congruence | intros ->; destruct b; reflexivity]. Qed.

Lemma bc_eqb_eq : forall a b, bc_eqb a b = true <-> a = b.
Proof.
  intros [f1 t1] [f2 t2]. unfold bc_eqb; cbn. rewrite andb_true_iff, label_eqb_eq. split.
  - intros [Hf ->]. destruct f1 as [x|], f2 as [y|]; cbn in Hf; try discriminate; [apply label_eqb_eq in Hf; subst|]; reflexivity.
  - intro H; inversion H; subst. split; [|reflexivity]. destruct f2; cbn; [apply label_eqb_eq|]; reflexivity.
Qed.

Lemma all_bcs_complete : forall b, In b all_bcs.
Proof. intros [[f|] t]; destruct t; try destruct f; cbn; tauto. Qed.

Lemma subject_of_injective : forall a b, subject_of a = subject_of b -> a = b.
Proof.
  assert (H : forallb (fun a => forallb (fun b => implb (String.eqb (subject_of a) (subject_of b)) (bc_eqb a b)) all_bcs) all_bcs = true)
    by (vm_compute; reflexivity).
  intros a b Hs. rewrite forallb_forall in H. specialize (H a (all_bcs_complete a)).
  rewrite forallb_forall in H. specialize (H b (all_bcs_complete b)).
  rewrite Hs, String.eqb_refl in H. cbn in H. apply bc_eqb_eq. exact H.
Qed.

Lemma subject_examples :
  subject_of (mk_bc None LCreated) = "state_changed.None.created" /\
  subject_of (mk_bc (Some LRunning) LKilled) = "state_changed.running.killed".
Proof. split; reflexivity. Qed.

(* ------------------------------------------------------------------ tolerated failures of the broadcast *)
Lemma send_ok : forall b sent, send_announcement b None sent = (Ok tt, sent ++ [b]).
Proof. reflexivity. Qed.

(* a failure of a tolerated kind: on_entered goes on normally, nothing was sent, nothing else changed *)
Lemma send_tolerated : forall b f sent, tolerated f = true -> send_announcement b (Some f) sent = (Ok tt, sent).
Proof. intros b f sent H. destruct f; cbn in *; try reflexivity; discriminate. Qed.

(* any other exception escapes from on_entered (and fails the transition) *)
Lemma send_other : forall b e sent, send_announcement b (Some (BfOther e)) sent = (Err e, sent).
Proof. reflexivity. Qed.

Lemma drop_indices_sublist : forall l i fails, sublist (drop_indices i fails l) l.
Proof.
  induction l as [|b l IH]; intros i fails; cbn; [constructor|].
  destruct (existsb (Nat.eqb i) fails); [apply sub_skip | apply sub_take]; apply IH.
Qed.

Lemma drop_indices_nil : forall l i, drop_indices i [] l = l.
Proof. induction l as [|b l IH]; intro i; cbn; [reflexivity|]. rewrite IH. reflexivity. Qed.

Lemma drop_indices_length : forall l i fails,
  List.length (drop_indices i fails l) =
  List.length (filter (fun k => negb (existsb (Nat.eqb k) fails)) (seq i (List.length l))).
Proof.
  induction l as [|b l IH]; intros i fails; cbn; [reflexivity|].
  destruct (existsb (Nat.eqb i) fails); cbn; rewrite IH; reflexivity.
Qed.

(* the announcement with index k is lost iff it is one of those that failed; the others arrive, in order *)
Lemma drop_indices_nth : forall l i fails k d,
  existsb (Nat.eqb (i + k)) fails = false -> (forall j, j < k -> existsb (Nat.eqb (i + j)) fails = false) ->
  nth k (drop_indices i fails l) d = nth k l d.
Proof.
  induction l as [|b l IH]; intros i fails k d Hk Hlt; cbn; [reflexivity|].
  destruct k as [|k].
  - replace (i + 0) with i in Hk by lia. rewrite Hk. reflexivity.
  - pose proof (Hlt 0 ltac:(lia)) as H0. replace (i + 0) with i in H0 by lia. rewrite H0. cbn.
    apply IH.
    + replace (S i + k) with (i + S k) by lia. exact Hk.
    + intros j Hj. replace (S i + j) with (i + S j) by lia. apply Hlt. lia.
Qed.

Theorem delivered_sublist : forall fails tr, sublist (delivered fails tr) (announce tr).
Proof. intros. apply drop_indices_sublist. Qed.

Theorem delivered_no_failure : forall tr, delivered [] tr = announce tr.
Proof. intros. apply drop_indices_nil. Qed.

Theorem delivered_spec : forall fails tr, sublist (delivered fails tr) (announce tr) /\ delivered [] tr = announce tr.
Proof. intros; split; [apply delivered_sublist | apply delivered_no_failure]. Qed.

(* the announcement with index k arrives (at the same place) when neither it nor an earlier one failed *)
Theorem delivered_nth : forall fails tr k d,
  (forall j, j <= k -> existsb (Nat.eqb j) fails = false) -> nth k (delivered fails tr) d = nth k (announce tr) d.
Proof.
  intros fails tr k d H. unfold delivered. apply drop_indices_nth.
  - apply H. lia.
  - intros j Hj. apply H. cbn. lia.
Qed.

Theorem recv_rpc_unknown_intent : forall xw id m rest,
  inflight xw = XmRpc id m :: rest ->
  m_intent m <> intent_play -> m_intent m <> intent_pause -> m_intent m <> intent_kill -> m_intent m <> intent_status ->
  recv xw = xw <| inflight := rest |> <| replies := set_reply id RpErr (replies xw) |>.
Proof.
  intros xw id m rest Hi H1 H2 H3 H4. exact (recv_rpc_unknown xw id m rest Hi (handle_rpc_unknown m H1 H2 H3 H4)).
Qed.
