(* Comms/CtxProofs.v — proofs about the context-local process stack model (Comms/Ctx.v), property C18. *)
From Coq Require Import List Bool Arith Lia.
From RecordUpdate Require Import RecordUpdate.
From Plumpy Require Import Ctx.
Import ListNotations.

(* ------------------------------------------------------------------ lists *)
Lemma top_app_last : forall s p, top (s ++ [p]) = Some p.
Proof.
  induction s as [|a s IH]; intro p; cbn; auto.
  specialize (IH p). destruct s; cbn in *; auto.
Qed.

Lemma top_is_app_last : forall s p, top_is p (s ++ [p]) = true.
Proof. intros; unfold top_is; rewrite top_app_last; apply Nat.eqb_refl. Qed.

Lemma nth_error_upd_same : forall A (l : list A) n x y, nth_error l n = Some y -> nth_error (upd n x l) n = Some x.
Proof. induction l; destruct n; cbn; intros; try discriminate; eauto. Qed.

Lemma nth_error_upd_other : forall A (l : list A) n m x, n <> m -> nth_error (upd n x l) m = nth_error l m.
Proof. induction l; destruct n, m; cbn; intros; auto; try congruence. Qed.

Lemma length_upd : forall A (l : list A) n x, length (upd n x l) = length l.
Proof. induction l; destruct n; cbn; intros; auto. Qed.

Lemma Forall_upd : forall A (P : A -> Prop) l n x, Forall P l -> P x -> Forall P (upd n x l).
Proof.
  induction l; destruct n; cbn; intros x HF Hx; auto; inversion HF; subst; constructor; auto.
Qed.

Lemma Forall_nth_error : forall A (P : A -> Prop) l n x, Forall P l -> nth_error l n = Some x -> P x.
Proof. intros A P l n x HF H. rewrite Forall_forall in HF. apply HF. eapply nth_error_In; eauto. Qed.

(* ------------------------------------------------------------------ the invariant *)
Definition instr_ok (fl : bool) (cur : option pid) (i : instr) : Prop :=
  match i with
  | IObs p k => must_hold fl k = true -> cur = Some p
  | _ => True
  end.

Fixpoint frames_ok (fl : bool) (base : list pid) (frs : list frame) : Prop :=
  match frs with
  | [] => True
  | fr :: r =>
      Forall (instr_ok fl (top (stack_of base (fr :: r)))) (f_code fr)
      /\ f_saved fr = stack_of base r
      /\ frames_ok fl base r
  end.

Definition task_ok (fl : bool) (tk : task) : Prop :=
  t_ctx tk = stack_of (t_base tk) (t_frames tk) /\ frames_ok fl (t_base tk) (t_frames tk).

Definition obs_ok (fl : bool) (o : obs) : Prop :=
  match o with
  | OCode w k c => must_hold fl k = true -> c = Some w
  | _ => True
  end.

Definition Inv (fl : bool) (c : cfg) : Prop :=
  Forall (task_ok fl) (c_tasks c) /\ Forall (obs_ok fl) (c_trace c) /\ c_assert c = 0.

Definition is_scope_ev (o : obs) : bool :=
  match o with OEnter _ _ _ | OExit _ _ _ => true | _ => false end.

Definition eff_ok (fl : bool) (cur : option pid) (e : effect) : Prop :=
  Forall (instr_ok fl cur) (e_code e)
  /\ (forall p body, e_push e = Some (p, body) -> Forall (instr_ok fl (Some p)) body)
  /\ Forall (obs_ok fl) (e_emit e)
  /\ Forall (fun code => forall cur', Forall (instr_ok fl cur') code) (e_spawn e)
  /\ Forall (fun o => is_scope_ev o = false) (e_emit e).

Lemma stack_of_scope : forall base sv p body frs,
  stack_of base (mk_frame (Some p) sv body :: frs) = stack_of base frs ++ [p].
Proof. intros; unfold stack_of; cbn. rewrite app_assoc. reflexivity. Qed.

Lemma stack_of_same_scope : forall base fr fr' frs,
  f_scope fr = f_scope fr' -> stack_of base (fr :: frs) = stack_of base (fr' :: frs).
Proof. intros base fr fr' frs H; unfold stack_of; cbn; rewrite H; reflexivity. Qed.

Lemma stack_of_none : forall base sv code frs, stack_of base (mk_frame None sv code :: frs) = stack_of base frs.
Proof. reflexivity. Qed.

(* ------------------------------------------------------------------ every effect is well-formed *)
Lemma compile_ok : forall fl p k acts, Forall (instr_ok fl (Some p)) (compile p k acts).
Proof.
  intros fl p k acts; unfold compile. induction acts as [|a acts IH]; cbn; auto.
  apply Forall_app; split; auto.
  destruct a; cbn; repeat constructor; cbn; auto.
Qed.

Lemma hook_obs_in_scope : forall fl p hs, Forall (instr_ok fl (Some p)) (hook_obs p hs).
Proof. intros; unfold hook_obs; induction hs; cbn; constructor; cbn; auto. Qed.

Lemma hook_obs_unscoped : forall cur p hs, Forall (instr_ok false cur) (hook_obs p hs).
Proof.
  intros; unfold hook_obs; induction hs; cbn; constructor; cbn; auto.
  unfold must_hold; cbn; discriminate.
Qed.

Lemma eff0_ok : forall fl cur ps, eff_ok fl cur (eff0 ps).
Proof. intros; unfold eff_ok, eff0; cbn; repeat split; auto; intros; discriminate. Qed.

Ltac eff_tac :=
  unfold eff_ok, eff0; cbn;
  repeat match goal with |- context [if ?b then _ else _] => destruct b end;
  repeat split; auto; try (intros; discriminate);
  repeat constructor; cbn; auto.

Ltac split_eff :=
  repeat match goal with
  | |- eff_ok _ _ (if ?b then _ else _) => destruct b
  | |- eff_ok _ _ (match ?x with _ => _ end) => destruct x
  end.

Lemma do_kill_ok : forall fl cur ps q, eff_ok fl cur (do_kill ps q).
Proof.
  intros; unfold do_kill.
  destruct (ps_life (getp ps q)); try apply eff0_ok;
  destruct (ps_killing (getp ps q)); try apply eff0_ok;
  destruct (ps_stepping (getp ps q)); try destruct (ps_wfut (getp ps q)); eff_tac.
Qed.

Lemma do_resume_ok : forall fl cur ps q, eff_ok fl cur (do_resume ps q).
Proof.
  intros; unfold do_resume.
  destruct (ps_life (getp ps q)); try apply eff0_ok; destruct (ps_wfut (getp ps q)); eff_tac.
Qed.

Lemma do_pause_ok : forall fl cur ps q, eff_ok fl cur (do_pause ps q).
Proof.
  intros; unfold do_pause.
  destruct (ps_life (getp ps q)); try apply eff0_ok;
  destruct (ps_paused (getp ps q)); try apply eff0_ok;
  destruct (ps_pausing (getp ps q)); try apply eff0_ok;
  destruct (ps_stepping (getp ps q)); try destruct (ps_wfut (getp ps q)); eff_tac.
Qed.

Lemma do_play_ok : forall fl cur ps q, eff_ok fl cur (do_play ps q).
Proof. intros; unfold do_play. destruct (ps_paused (getp ps q)); eff_tac. Qed.

Lemma do_fail_ok : forall fl cur ps q, eff_ok fl cur (do_fail ps q).
Proof. intros; unfold do_fail. destruct (ps_life (getp ps q)); eff_tac. Qed.

Lemma effect_of_ok : forall fl defs ps n cur i,
  instr_ok fl cur i -> eff_ok fl cur (effect_of fl defs ps n cur i).
Proof.
  intros fl defs ps n cur i Hi.
  destruct i; cbn [effect_of].
  - (* IObs *) eff_tac.
  - eff_tac.
  - eff_tac.
  - (* ISpawnCallback *) split_eff; eff_tac.
  - (* IRunCb *) unfold eff_ok, eff0; cbn. repeat split; auto.
    + intros p0 body H; inversion H; subst. apply compile_ok.
  - (* ICbDone *)
    destruct (ps_raised (getp ps q)); try apply eff0_ok.
    destruct (ps_life (getp ps q)); try apply eff0_ok; apply do_fail_ok.
  - eff_tac.
  - eff_tac.
  - destruct c; [apply do_kill_ok | apply do_resume_ok | apply do_pause_ok | apply do_play_ok].
  - (* IStepLoop *)
    split_eff; eff_tac.
  - (* IStep *)
    destruct (body_of defs p (ps_life (getp ps p))) as [body next] eqn:E.
    unfold eff_ok, eff0; cbn. repeat split; auto.
    intros p0 b H; inversion H; subst.
    unfold body_of in E. destruct (ps_life (getp ps p0)); inversion E; subst; auto.
    destruct (nth_error (d_steps (get_def defs p0)) k) as [[acts lk]|]; auto. apply compile_ok.
  - (* IEndStep *)
    cbv zeta. split_eff; eff_tac.
  - (* IWaitResume *) destruct (ps_wfut (getp ps p)); eff_tac.
  - (* IAwaitPaused *) split_eff; eff_tac.
  - eff_tac.
  - (* IGuardOpen *) destruct (terminated (ps_life (getp ps p))); eff_tac.
  - (* IFire *)
    destruct fl.
    + unfold eff_ok, eff0; cbn. repeat split; auto.
      intros p0 b H; inversion H; subst. apply hook_obs_in_scope.
    + unfold eff_ok, eff0; cbn. repeat split; auto; try (intros; discriminate).
      apply hook_obs_unscoped.
Qed.

(* ------------------------------------------------------------------ the machine preserves the invariant *)
Lemma wake_task_ok : forall fl ws tk, task_ok fl tk -> task_ok fl (wake_task ws tk).
Proof.
  intros fl ws tk H; unfold wake_task. destruct (t_status tk); auto.
  destruct (woken ws p paused); auto.
Qed.

Lemma wake_task_fields : forall ws tk,
  t_ctx (wake_task ws tk) = t_ctx tk /\ t_base (wake_task ws tk) = t_base tk /\ t_frames (wake_task ws tk) = t_frames tk.
Proof.
  intros ws tk; unfold wake_task. destruct (t_status tk); auto.
  destruct (woken ws p paused); auto.
Qed.

Lemma new_task_ok : forall fl ctx code,
  (forall cur', Forall (instr_ok fl cur') code) -> task_ok fl (new_task ctx code).
Proof.
  intros fl ctx code H; unfold new_task, task_ok; cbn.
  unfold stack_of; cbn. rewrite app_nil_r. repeat split; auto.
Qed.

Lemma apply_effect_inv : forall fl c t tk fr frs e,
  Inv fl c ->
  t_ctx tk = stack_of (t_base tk) (fr :: frs) ->
  frames_ok fl (t_base tk) (fr :: frs) ->
  eff_ok fl (top (t_ctx tk)) e ->
  Inv fl (apply_effect c t tk fr frs e).
Proof.
  intros fl c t tk fr frs e (HT & HO & HA) Hctx Hfr (Hcode & Hpush & Hemit & Hspawn & _).
  cbn in Hfr. destruct Hfr as (Hcur & Hsaved & Hrest).
  unfold Inv, apply_effect; cbn [c_tasks c_trace c_assert]. repeat split; auto.
  - rewrite Forall_map. eapply Forall_impl; [intros a Ha; apply wake_task_ok; exact Ha|].
    apply Forall_app; split.
    + apply Forall_upd; auto.
      unfold task_ok; cbn [t_ctx t_base t_frames t_status].
      set (fr1 := mk_frame (f_scope fr) (f_saved fr) (e_code e ++ (if e_unwind e then [] else f_code fr))).
      assert (Hsame : stack_of (t_base tk) (fr1 :: frs) = stack_of (t_base tk) (fr :: frs))
        by (apply stack_of_same_scope; reflexivity).
      assert (Hfr1 : Forall (instr_ok fl (top (stack_of (t_base tk) (fr1 :: frs)))) (f_code fr1)).
      { rewrite Hsame. subst fr1; cbn. apply Forall_app; split.
        - rewrite <- Hctx; auto.
        - destruct (e_unwind e); auto. }
      destruct (e_push e) as [[p body]|] eqn:Ep.
      * split.
        -- rewrite stack_of_scope. rewrite Hsame, <- Hctx. reflexivity.
        -- cbn [frames_ok f_code f_saved]. repeat split; auto.
           all: try (rewrite stack_of_scope, top_app_last; eapply Hpush; reflexivity).
           all: try (rewrite Hsame; auto).
      * split.
        -- rewrite Hsame; auto.
        -- cbn [frames_ok]. repeat split; auto.
    + rewrite Forall_map. eapply Forall_impl; [|exact Hspawn].
      intros code Hc. apply new_task_ok; auto.
  - assert (Forall (obs_ok fl) (rev (e_emit e) ++ c_trace c))
      by (apply Forall_app; split; auto; apply Forall_rev; auto).
    destruct (e_push e) as [[p body]|]; auto. constructor; cbn; auto.
Qed.

Lemma micro_inv : forall fl defs c t, Inv fl c -> Inv fl (micro fl defs c t).
Proof.
  intros fl defs c t HI. pose proof HI as (HT & HO & HA).
  unfold micro. destruct (nth_error (c_tasks c) t) as [tk|] eqn:Et.
  2: { unfold Inv; cbn; auto. }
  pose proof (Forall_nth_error _ _ _ _ _ HT Et) as (Hctx & Hfr).
  destruct (t_frames tk) as [|fr frs] eqn:Ef.
  { unfold Inv; cbn; repeat split; auto. apply Forall_upd; auto.
    unfold task_ok; cbn. rewrite Ef; auto. }
  destruct (f_code fr) as [|i code'] eqn:Ec.
  - (* the frame is finished *)
    cbn in Hfr. destruct Hfr as (Hcur & Hsaved & Hrest).
    destruct (f_scope fr) as [p|] eqn:Es.
    + assert (Hst : stack_of (t_base tk) (fr :: frs) = stack_of (t_base tk) frs ++ [p]).
      { unfold stack_of; cbn; rewrite Es; cbn. rewrite app_assoc; reflexivity. }
      rewrite Hctx, Hst, top_is_app_last.
      unfold Inv; cbn; repeat split; auto.
      * apply Forall_upd; auto.
        unfold task_ok; cbn. rewrite removelast_last. split; auto.
      * constructor; cbn; auto.
    + unfold Inv; cbn; repeat split; auto. apply Forall_upd; auto.
      unfold task_ok; cbn. split; auto.
      rewrite Hctx. unfold stack_of; cbn; rewrite Es; reflexivity.
  - (* an instruction *)
    assert (Hfr' := Hfr). cbn in Hfr'. destruct Hfr' as (Hcur & Hsaved & Hrest).
    rewrite Ec in Hcur. inversion Hcur as [|? ? Hi Hcode']; subst.
    set (fr' := mk_frame (f_scope fr) (f_saved fr) code').
    assert (Hsame : stack_of (t_base tk) (fr' :: frs) = stack_of (t_base tk) (fr :: frs))
      by (apply stack_of_same_scope; reflexivity).
    apply apply_effect_inv; auto.
    + cbn [frames_ok]. repeat split; auto.
    + apply effect_of_ok. rewrite Hctx. exact Hi.

Qed.

Lemma task_ok_status : forall fl tk s, task_ok fl tk -> task_ok fl (tk <| t_status := s |>).
Proof. intros fl tk s H; exact H. Qed.

Lemma compile_env_ok : forall fl cur acts, Forall (instr_ok fl cur) (compile_env acts).
Proof.
  intros fl cur acts; unfold compile_env. induction acts as [|a acts IH]; cbn; auto.
  apply Forall_app; split; auto. destruct a; cbn; repeat constructor.
Qed.

Lemma sched_step_inv : forall fl c it, Inv fl c -> Inv fl (sched_step c it).
Proof.
  intros fl c it HI. pose proof HI as (HT & HO & HA).
  destruct it as [t| |acts]; cbn.
  - destruct (nth_error (c_tasks c) t) as [tk|] eqn:Et; [|exact HI].
    destruct (t_status tk); try exact HI.
    unfold Inv; cbn; repeat split; auto.
    + apply Forall_upd; auto. apply task_ok_status. eapply Forall_nth_error; eauto.
    + constructor; cbn; auto.
  - destruct (c_running c) as [|t r]; [exact HI|].
    destruct (nth_error (c_tasks c) t) as [tk|] eqn:Et; [|exact HI].
    destruct (t_status tk); try exact HI.
    destruct (nth_error (c_tasks c) child) as [tch|]; [|exact HI].
    destruct (t_status tch); try exact HI.
    unfold Inv; cbn; repeat split; auto.
    + apply Forall_upd; auto. apply task_ok_status. eapply Forall_nth_error; eauto.
    + constructor; cbn; auto.
  - destruct (c_running c); [|exact HI].
    unfold Inv; cbn; repeat split; auto.
    + apply Forall_app; split; auto. constructor; auto.
      unfold task_ok; cbn. repeat split; auto. apply compile_env_ok.
    + constructor; cbn; auto.
Qed.

Lemma init_inv : forall fl defs, Inv fl (init defs).
Proof. intros; unfold Inv, init; cbn; auto. Qed.

Lemma drive_inv : forall fl defs fuel c s, Inv fl c -> Inv fl (fst (drive fl defs fuel c s)).
Proof.
  intros fl defs fuel; induction fuel as [|f IH]; intros c s HI; cbn; auto.
  destruct (active c) as [t|].
  - apply IH. apply micro_inv; auto.
  - destruct s as [|it s']; cbn; auto.
    apply IH. apply sched_step_inv; auto.
Qed.

Lemma run_inv : forall fl defs fuel s, Inv fl (run fl defs fuel s).
Proof. intros; unfold run. apply drive_inv. apply init_inv. Qed.

(* ================================================================== the theorems *)

(* C18, first half.  Whenever code of process [who] of kind [k] samples Process.current() — in any run of any
   table of processes under any schedule, with any amount of fuel (so: in every reachable configuration) — it
   sees [who], for every kind of code that the implementation runs inside the scope. *)
Theorem current_is_running_process : forall fl defs fuel s who k cur,
  In (OCode who k cur) (c_trace (run fl defs fuel s)) -> must_hold fl k = true -> cur = Some who.
Proof.
  intros fl defs fuel s who k cur HIn Hk.
  destruct (run_inv fl defs fuel s) as (_ & HO & _).
  rewrite Forall_forall in HO. exact (HO _ HIn Hk).
Qed.

(* the assertion in the finally clause of _process_scope never fails *)
Theorem scope_assert_never_fails : forall fl defs fuel s, c_assert (run fl defs fuel s) = 0.
Proof. intros. destruct (run_inv fl defs fuel s) as (_ & _ & HA). exact HA. Qed.

(* C18, second half.  Push and pop are balanced: at every moment the stack of every task is the stack the task
   was created with (a copy of its creator's stack at that moment) followed by the scopes it is inside of. *)
Theorem stack_is_base_plus_open_scopes : forall fl defs fuel s t tk,
  nth_error (c_tasks (run fl defs fuel s)) t = Some tk ->
  t_ctx tk = t_base tk ++ rev (scopes (t_frames tk)).
Proof.
  intros fl defs fuel s t tk Ht.
  destruct (run_inv fl defs fuel s) as (HT & _ & _).
  destruct (Forall_nth_error _ _ _ _ _ HT Ht) as (H & _). exact H.
Qed.

Corollary outside_every_scope_the_stack_is_the_inherited_one : forall fl defs fuel s t tk,
  nth_error (c_tasks (run fl defs fuel s)) t = Some tk ->
  scopes (t_frames tk) = [] -> t_ctx tk = t_base tk.
Proof.
  intros fl defs fuel s t tk Ht Hs.
  rewrite (stack_is_base_plus_open_scopes _ _ _ _ _ _ Ht), Hs. cbn. apply app_nil_r.
Qed.

(* leaving a scope (the code returned, or an exception unwound it) restores exactly the stack that was there
   when the scope was entered ([f_saved] is written once, by [apply_effect], when the frame is pushed) *)
Theorem scope_exit_restores_entry_stack : forall fl defs fuel s t tk fr frs p,
  let c := run fl defs fuel s in
  nth_error (c_tasks c) t = Some tk ->
  t_frames tk = fr :: frs -> f_code fr = [] -> f_scope fr = Some p ->
  t_ctx tk = f_saved fr ++ [p]
  /\ micro fl defs c t = c <| c_tasks := upd t (tk <| t_frames := frs |> <| t_ctx := f_saved fr |>) (c_tasks c) |>
                           <| c_trace ::= cons (OExit t p (f_saved fr)) |>.
Proof.
  intros fl defs fuel s t tk fr frs p c Ht Hf Hc Hs.
  destruct (run_inv fl defs fuel s) as (HT & _ & _). fold c in HT.
  destruct (Forall_nth_error _ _ _ _ _ HT Ht) as (Hctx & Hfr).
  rewrite Hf in Hctx, Hfr. cbn in Hfr. destruct Hfr as (_ & Hsaved & _).
  assert (Hst : stack_of (t_base tk) (fr :: frs) = stack_of (t_base tk) frs ++ [p]).
  { unfold stack_of; cbn; rewrite Hs; cbn. rewrite app_assoc; reflexivity. }
  rewrite Hst, <- Hsaved in Hctx. split; auto.
  unfold micro. rewrite Ht, Hf, Hc, Hs, Hctx, top_is_app_last, removelast_last. reflexivity.
Qed.

(* entering a scope appends the process and remembers the stack *)
Theorem scope_entry_pushes : forall fl defs c t tk fr frs i code' p body,
  nth_error (c_tasks c) t = Some tk ->
  t_frames tk = fr :: frs -> f_code fr = i :: code' ->
  e_push (effect_of fl defs (c_procs c) (length (c_tasks c)) (top (t_ctx tk)) i) = Some (p, body) ->
  exists tk' fr1,
    nth_error (c_tasks (micro fl defs c t)) t = Some tk'
    /\ t_ctx tk' = t_ctx tk ++ [p] /\ t_base tk' = t_base tk
    /\ t_frames tk' = mk_frame (Some p) (t_ctx tk) body :: fr1 :: frs
    /\ f_scope fr1 = f_scope fr /\ f_saved fr1 = f_saved fr.
Proof.
  intros fl defs c t tk fr frs i code' p body Ht Hf Hc Hp.
  unfold micro. rewrite Ht, Hf, Hc.
  set (e := effect_of fl defs (c_procs c) (length (c_tasks c)) (top (t_ctx tk)) i) in *.
  unfold apply_effect. rewrite Hp. cbn [c_tasks f_scope f_saved f_code].
  set (fr1 := mk_frame (f_scope fr) (f_saved fr) (e_code e ++ (if e_unwind e then [] else code'))).
  set (tk1 := mk_task (t_ctx tk ++ [p]) (t_base tk) (mk_frame (Some p) (t_ctx tk) body :: fr1 :: frs) (e_stat e)).
  exists (wake_task (e_wake e) tk1), fr1. split.
  - rewrite nth_error_map, nth_error_app1.
    + erewrite nth_error_upd_same; eauto.
    + rewrite length_upd. apply nth_error_Some. congruence.
  - destruct (wake_task_fields (e_wake e) tk1) as (-> & -> & ->). cbn; auto.
Qed.

(* a task's context is changed only by code running inside that task: a step of task t leaves the stack
   (and the frames) of every other task alone ... *)
Theorem micro_leaves_other_tasks_alone : forall fl defs c t t' tk',
  t' <> t -> nth_error (c_tasks c) t' = Some tk' ->
  exists tk'', nth_error (c_tasks (micro fl defs c t)) t' = Some tk''
               /\ t_ctx tk'' = t_ctx tk' /\ t_base tk'' = t_base tk' /\ t_frames tk'' = t_frames tk'.
Proof.
  intros fl defs c t t' tk' Hne Ht'.
  unfold micro. destruct (nth_error (c_tasks c) t) as [tk|] eqn:Et.
  2: { exists tk'; cbn; auto. }
  destruct (t_frames tk) as [|fr frs].
  { exists tk'; cbn. rewrite nth_error_upd_other; auto. }
  destruct (f_code fr) as [|i code'].
  - destruct (f_scope fr) as [p|]; [destruct (top_is p (t_ctx tk))|];
      exists tk'; cbn; rewrite nth_error_upd_other; auto.
  - unfold apply_effect; cbn [c_tasks].
    exists (wake_task (e_wake (effect_of fl defs (c_procs c) (length (c_tasks c)) (top (t_ctx tk)) i)) tk').
    split.
    + rewrite nth_error_map, nth_error_app1.
      * rewrite nth_error_upd_other; auto. rewrite Ht'. reflexivity.
      * rewrite length_upd. apply nth_error_Some. congruence.
    + unfold wake_task. destruct (t_status tk'); auto.
      match goal with |- context [if ?b then _ else _] => destruct b end; auto.
Qed.

(* ... and so does the scheduler *)
Theorem sched_step_leaves_stacks_alone : forall c it t' tk',
  nth_error (c_tasks c) t' = Some tk' ->
  exists tk'', nth_error (c_tasks (sched_step c it)) t' = Some tk''
               /\ t_ctx tk'' = t_ctx tk' /\ t_base tk'' = t_base tk' /\ t_frames tk'' = t_frames tk'.
Proof.
  intros c it t' tk' Ht'.
  assert (Hself : exists tk'', nth_error (c_tasks c) t' = Some tk''
             /\ t_ctx tk'' = t_ctx tk' /\ t_base tk'' = t_base tk' /\ t_frames tk'' = t_frames tk')
    by (exists tk'; auto).
  assert (Hupd : forall t tk s, nth_error (c_tasks c) t = Some tk ->
             exists tk'', nth_error (upd t (tk <| t_status := s |>) (c_tasks c)) t' = Some tk''
             /\ t_ctx tk'' = t_ctx tk' /\ t_base tk'' = t_base tk' /\ t_frames tk'' = t_frames tk').
  { intros t tk s Ht. destruct (Nat.eq_dec t t') as [->|Hne].
    - rewrite Ht' in Ht; inversion Ht; subst. eexists; split; [eapply nth_error_upd_same; eauto|]. cbn; auto.
    - rewrite nth_error_upd_other; auto. }
  destruct it as [t| |acts]; cbn.
  - destruct (nth_error (c_tasks c) t) as [tk|] eqn:Et; auto.
    destruct (t_status tk); auto. cbn. eapply Hupd; eauto.
  - destruct (c_running c) as [|t r]; auto.
    destruct (nth_error (c_tasks c) t) as [tk|] eqn:Et; auto.
    destruct (t_status tk); auto.
    destruct (nth_error (c_tasks c) child) as [tch|]; auto.
    destruct (t_status tch); auto. cbn. eapply Hupd; eauto.
  - destruct (c_running c); auto. cbn.
    exists tk'. rewrite nth_error_app1; auto. apply nth_error_Some. congruence.
Qed.

(* the frames below the innermost one of the running task are not touched *)
Theorem micro_keeps_enclosing_frames : forall fl defs c t tk fr frs,
  nth_error (c_tasks c) t = Some tk -> t_frames tk = fr :: frs ->
  exists tk', nth_error (c_tasks (micro fl defs c t)) t = Some tk' /\ t_base tk' = t_base tk
    /\ (t_frames tk' = frs
        \/ exists fr1, f_scope fr1 = f_scope fr /\ f_saved fr1 = f_saved fr
                       /\ (t_frames tk' = fr1 :: frs \/ exists fr2, t_frames tk' = fr2 :: fr1 :: frs)).
Proof.
  intros fl defs c t tk fr frs Ht Hf.
  unfold micro. rewrite Ht, Hf.
  destruct (f_code fr) as [|i code'].
  - destruct (f_scope fr) as [p|]; [destruct (top_is p (t_ctx tk))|];
      (eexists; split; [cbn; eapply nth_error_upd_same; eauto|]; cbn; auto).
  - unfold apply_effect; cbn [c_tasks].
    eexists; split.
    + rewrite nth_error_map, nth_error_app1.
      * erewrite nth_error_upd_same; eauto. cbn [option_map]. reflexivity.
      * rewrite length_upd. apply nth_error_Some. congruence.
    + assert (Hw : forall ws tk0, t_base (wake_task ws tk0) = t_base tk0 /\ t_frames (wake_task ws tk0) = t_frames tk0).
      { intros ws tk0; unfold wake_task. destruct (t_status tk0); auto.
        match goal with |- context [if ?b then _ else _] => destruct b end; auto. }
      match goal with |- t_base (wake_task ?ws ?x) = _ /\ _ => destruct (Hw ws x) as (-> & ->) end.
      cbn [t_base t_frames]. split; auto. right.
      eexists (mk_frame (f_scope fr) (f_saved fr) _). cbn [f_scope f_saved]. repeat split.
      match goal with |- context [match ?o with _ => _ end] => destruct o as [[p b]|] end; eauto.
Qed.

(* loop.create_task copies the creator's context: a task created by a step of task t starts with t's stack *)
Theorem spawned_task_inherits_creator_stack : forall fl defs c t tk n tk',
  nth_error (c_tasks c) t = Some tk -> length (c_tasks c) <= n ->
  nth_error (c_tasks (micro fl defs c t)) n = Some tk' ->
  t_ctx tk' = t_ctx tk /\ t_base tk' = t_ctx tk.
Proof.
  intros fl defs c t tk n tk' Ht Hn Hn'.
  assert (Hnone : forall x, nth_error (upd t x (c_tasks c)) n = Some tk' -> False).
  { intros x H. assert (n < length (upd t x (c_tasks c))) by (apply nth_error_Some; congruence).
    rewrite length_upd in *. lia. }
  unfold micro in Hn'. rewrite Ht in Hn'.
  destruct (t_frames tk) as [|fr frs].
  { cbn in Hn'. exfalso; eauto. }
  destruct (f_code fr) as [|i code'].
  - destruct (f_scope fr) as [p|]; [destruct (top_is p (t_ctx tk))|]; cbn in Hn'; exfalso; eauto.
  - unfold apply_effect in Hn'; cbn [c_tasks] in Hn'.
    rewrite nth_error_map in Hn'.
    rewrite nth_error_app2 in Hn' by (rewrite length_upd; auto).
    rewrite nth_error_map in Hn'.
    match type of Hn' with context [nth_error ?l ?k] => destruct (nth_error l k) as [code|] end;
      cbn in Hn'; inversion Hn'; subst. cbn; auto.
Qed.

(* ================================================================== instances used by Props/C18.v *)
Lemma current_now : forall defs fuel s who k cur,
  In (OCode who k cur) (c_trace (run hooks_scoped_now defs fuel s)) -> scoped k = true -> cur = Some who.
Proof.
  intros defs fuel s who k cur HIn Hk. eapply current_is_running_process; eauto.
  unfold must_hold; rewrite Hk; reflexivity.
Qed.

Lemma current_all_kinds_when_hooks_scoped : forall defs fuel s who k cur,
  In (OCode who k cur) (c_trace (run true defs fuel s)) -> cur = Some who.
Proof.
  intros defs fuel s who k cur HIn. eapply current_is_running_process; eauto.
  unfold must_hold. apply orb_true_r.
Qed.

(* ================================================================== scope events are well bracketed *)
(* the scope frames of a task with the stacks recorded at their entry, innermost first *)
Fixpoint frame_entries (frs : list frame) : list (pid * list pid) :=
  match frs with
  | [] => []
  | fr :: r => match f_scope fr with Some p => (p, f_saved fr) :: frame_entries r | None => frame_entries r end
  end.

Fixpoint proj_t (t : tid) (open : list (tid * (pid * list pid))) : list (pid * list pid) :=
  match open with
  | [] => []
  | (t', e) :: r => if Nat.eqb t' t then e :: proj_t t r else proj_t t r
  end.

Definition entries_of (c : cfg) (t : tid) : list (pid * list pid) :=
  match nth_error (c_tasks c) t with Some tk => frame_entries (t_frames tk) | None => [] end.

(* the unmatched entries of the log are exactly the scope frames that exist *)
Definition BInv (c : cfg) : Prop :=
  exists open, run_open [] (rev (c_trace c)) = Some open /\ forall t, proj_t t open = entries_of c t.

Lemma run_open_app : forall l o ev,
  run_open o (l ++ [ev]) = match run_open o l with Some o' => step_open o' ev | None => None end.
Proof.
  induction l as [|a l IH]; intros o ev; cbn.
  - destruct (step_open o ev); reflexivity.
  - destruct (step_open o a); auto.
Qed.

Lemma run_open_plain : forall l o, Forall (fun x => is_scope_ev x = false) l -> run_open o l = Some o.
Proof.
  induction l as [|a l IH]; intros o H; cbn; auto.
  inversion H as [|? ? Ha Hl]; subst. destruct a; cbn in *; try discriminate; auto.
Qed.

Lemma run_open_app_plain : forall l l' o,
  Forall (fun x => is_scope_ev x = false) l' -> run_open o (l ++ l') = run_open o l.
Proof.
  induction l as [|a l IH]; intros l' o H; cbn.
  - rewrite run_open_plain; auto.
  - destruct (step_open o a); auto.
Qed.

Lemma list_nat_eqb_refl : forall l, list_nat_eqb l l = true.
Proof. induction l; cbn; auto. rewrite Nat.eqb_refl; auto. Qed.

Lemma take_first_spec : forall t open e rest,
  proj_t t open = e :: rest ->
  exists open', take_first t open = Some (e, open')
                /\ proj_t t open' = rest
                /\ forall t', t' <> t -> proj_t t' open' = proj_t t' open.
Proof.
  induction open as [|[t0 e0] r IH]; intros e rest H; cbn in *; try discriminate.
  destruct (Nat.eqb t0 t) eqn:E.
  - inversion H; subst. exists r. repeat split; auto.
    intros t' Hne. apply Nat.eqb_eq in E; subst.
    destruct (Nat.eqb t t') eqn:E'; auto. apply Nat.eqb_eq in E'. congruence.
  - destruct (IH _ _ H) as (open' & Htf & Hp & Ho). rewrite Htf.
    exists ((t0, e0) :: open'). repeat split; cbn.
    + rewrite E; auto.
    + intros t' Hne. rewrite (Ho _ Hne). reflexivity.
Qed.

Lemma entries_upd_status : forall c t tk s t',
  nth_error (c_tasks c) t = Some tk ->
  entries_of (c <| c_tasks := upd t (tk <| t_status := s |>) (c_tasks c) |>) t' = entries_of c t'.
Proof.
  intros c t tk s t' Ht; unfold entries_of; cbn.
  destruct (Nat.eq_dec t t') as [->|Hne].
  - erewrite nth_error_upd_same; eauto. rewrite Ht. reflexivity.
  - rewrite nth_error_upd_other; auto.
Qed.

Lemma entries_upd : forall (tasks : list task) t tk tk' t',
  nth_error tasks t = Some tk ->
  match nth_error (upd t tk' tasks) t' with Some x => frame_entries (t_frames x) | None => [] end
  = if Nat.eqb t' t then frame_entries (t_frames tk')
    else match nth_error tasks t' with Some x => frame_entries (t_frames x) | None => [] end.
Proof.
  intros tasks t tk tk' t' Ht.
  destruct (Nat.eqb t' t) eqn:E.
  - apply Nat.eqb_eq in E; subst. erewrite nth_error_upd_same; eauto.
  - apply Nat.eqb_neq in E. rewrite nth_error_upd_other; auto.
Qed.

Lemma entries_apply_effect : forall c t tk fr frs e t',
  nth_error (c_tasks c) t = Some tk ->
  entries_of (apply_effect c t tk fr frs e) t'
  = if Nat.eqb t' t
    then match e_push e with
         | Some (p, _) => (p, t_ctx tk) :: frame_entries (fr :: frs)
         | None => frame_entries (fr :: frs)
         end
    else entries_of c t'.
Proof.
  intros c t tk fr frs e t' Ht. unfold entries_of, apply_effect; cbn [c_tasks].
  rewrite nth_error_map.
  assert (Hlen : t < length (c_tasks c)) by (apply nth_error_Some; congruence).
  destruct (Nat.lt_ge_cases t' (length (c_tasks c))) as [Hlt|Hge].
  - rewrite nth_error_app1 by (rewrite length_upd; auto).
    destruct (Nat.eqb t' t) eqn:E.
    + apply Nat.eqb_eq in E; subst. erewrite nth_error_upd_same; eauto. cbn [option_map].
      destruct (wake_task_fields (e_wake e)
                  (mk_task match e_push e with None => t_ctx tk | Some (p, _) => t_ctx tk ++ [p] end (t_base tk)
                     match e_push e with
                     | None => mk_frame (f_scope fr) (f_saved fr) (e_code e ++ (if e_unwind e then [] else f_code fr)) :: frs
                     | Some (p, body) => mk_frame (Some p) (t_ctx tk) body
                         :: mk_frame (f_scope fr) (f_saved fr) (e_code e ++ (if e_unwind e then [] else f_code fr)) :: frs
                     end (e_stat e))) as (_ & _ & ->).
      cbn [t_frames]. destruct (e_push e) as [[p body]|]; cbn; reflexivity.
    + apply Nat.eqb_neq in E. rewrite nth_error_upd_other; auto.
      destruct (nth_error (c_tasks c) t') as [x|]; cbn; auto.
      destruct (wake_task_fields (e_wake e) x) as (_ & _ & ->). reflexivity.
  - assert (E : Nat.eqb t' t = false) by (apply Nat.eqb_neq; lia). rewrite E.
    rewrite nth_error_app2 by (rewrite length_upd; auto).
    rewrite nth_error_map.
    assert (Hn : nth_error (c_tasks c) t' = None) by (apply nth_error_None; auto). rewrite Hn.
    destruct (nth_error (e_spawn e) (t' - length (upd t _ (c_tasks c)))); cbn; auto.
Qed.

Lemma effect_emit_plain : forall fl defs ps n cur i,
  instr_ok fl cur i -> Forall (fun o => is_scope_ev o = false) (e_emit (effect_of fl defs ps n cur i)).
Proof. intros. apply (effect_of_ok fl defs ps n cur i H). Qed.

Lemma micro_binv : forall fl defs c t, Inv fl c -> BInv c -> BInv (micro fl defs c t).
Proof.
  intros fl defs c t HI (open & Hrun & Hopen). pose proof HI as (HT & _ & _).
  unfold micro. destruct (nth_error (c_tasks c) t) as [tk|] eqn:Et.
  2: { exists open; split; auto. }
  pose proof (Forall_nth_error _ _ _ _ _ HT Et) as (Hctx & Hfr).
  assert (Hent : entries_of c t = frame_entries (t_frames tk)) by (unfold entries_of; rewrite Et; reflexivity).
  destruct (t_frames tk) as [|fr frs] eqn:Ef.
  { exists open; split; auto. intro t'. rewrite Hopen. symmetry. apply entries_upd_status; auto. }
  destruct (f_code fr) as [|i code'] eqn:Ec.
  - cbn in Hfr. destruct Hfr as (_ & Hsaved & _).
    destruct (f_scope fr) as [p|] eqn:Es.
    + assert (Hst : stack_of (t_base tk) (fr :: frs) = stack_of (t_base tk) frs ++ [p]).
      { unfold stack_of; cbn; rewrite Es; cbn. rewrite app_assoc; reflexivity. }
      rewrite Hctx, Hst, top_is_app_last, removelast_last, <- Hsaved.
      assert (Hp : proj_t t open = (p, f_saved fr) :: frame_entries frs).
      { rewrite Hopen, Hent. cbn. rewrite Es. reflexivity. }
      destruct (take_first_spec _ _ _ _ Hp) as (open' & Htf & Hp' & Ho).
      exists open'. split.
      * cbn. rewrite run_open_app, Hrun. cbn. rewrite Htf, Nat.eqb_refl, list_nat_eqb_refl. reflexivity.
      * intro t'. unfold entries_of; cbn. erewrite entries_upd; eauto.
        destruct (Nat.eqb t' t) eqn:E.
        -- apply Nat.eqb_eq in E; subst. cbn. exact Hp'.
        -- apply Nat.eqb_neq in E. rewrite (Ho _ E). apply Hopen.
    + exists open; split; auto. intro t'. unfold entries_of; cbn. erewrite entries_upd; eauto.
      destruct (Nat.eqb t' t) eqn:E.
      * apply Nat.eqb_eq in E; subst. cbn. rewrite Hopen, Hent. cbn. rewrite Es. reflexivity.
      * apply Hopen.
  - (* an instruction *)
    cbn in Hfr. destruct Hfr as (Hcur & _ & _). rewrite Ec in Hcur. inversion Hcur as [|? ? Hi _]; subst.
    set (e := effect_of fl defs (c_procs c) (length (c_tasks c)) (top (t_ctx tk)) i).
    assert (Hplain : Forall (fun o => is_scope_ev o = false) (rev (e_emit e))).
    { apply Forall_rev. apply effect_emit_plain. rewrite Hctx. exact Hi. }
    assert (Hfe : frame_entries (mk_frame (f_scope fr) (f_saved fr) code' :: frs) = frame_entries (fr :: frs))
      by reflexivity.
    destruct (e_push e) as [[p body]|] eqn:Ep.
    + exists ((t, (p, t_ctx tk)) :: open). split.
      * unfold apply_effect; cbn [c_trace]. rewrite Ep. cbn [rev].
        rewrite run_open_app. rewrite rev_app_distr, rev_involutive.
        rewrite run_open_app_plain by (rewrite <- (rev_involutive (e_emit e)); apply Forall_rev; exact Hplain).
        rewrite Hrun. reflexivity.
      * intro t'. rewrite entries_apply_effect by auto. rewrite Ep, Hfe. cbn [proj_t].
        destruct (Nat.eqb t t') eqn:E.
        -- apply Nat.eqb_eq in E; subst. rewrite Nat.eqb_refl. rewrite Hopen, Hent. reflexivity.
        -- rewrite Nat.eqb_sym, E. apply Hopen.
    + exists open. split.
      * unfold apply_effect; cbn [c_trace]. rewrite Ep.
        rewrite rev_app_distr, rev_involutive.
        rewrite run_open_app_plain by (rewrite <- (rev_involutive (e_emit e)); apply Forall_rev; exact Hplain).
        exact Hrun.
      * intro t'. rewrite entries_apply_effect by auto. rewrite Ep, Hfe.
        destruct (Nat.eqb t' t) eqn:E.
        -- apply Nat.eqb_eq in E; subst. rewrite Hopen, Hent. reflexivity.
        -- apply Hopen.
Qed.

Lemma sched_step_binv : forall c it, BInv c -> BInv (sched_step c it).
Proof.
  intros c it (open & Hrun & Hopen).
  assert (Hself : BInv c) by (exists open; auto).
  destruct it as [t| |acts]; cbn.
  - destruct (nth_error (c_tasks c) t) as [tk|] eqn:Et; auto.
    destruct (t_status tk); auto.
    exists open; split.
    + cbn. rewrite run_open_app, Hrun. reflexivity.
    + intro t'. rewrite Hopen. unfold entries_of; cbn. erewrite entries_upd; eauto.
      destruct (Nat.eqb t' t) eqn:E; auto. apply Nat.eqb_eq in E; subst. rewrite Et. reflexivity.
  - destruct (c_running c) as [|t r]; auto.
    destruct (nth_error (c_tasks c) t) as [tk|] eqn:Et; auto.
    destruct (t_status tk); auto.
    destruct (nth_error (c_tasks c) child) as [tch|]; auto.
    destruct (t_status tch); auto.
    exists open; split.
    + cbn. rewrite run_open_app, Hrun. reflexivity.
    + intro t'. rewrite Hopen. unfold entries_of; cbn. erewrite entries_upd; eauto.
      destruct (Nat.eqb t' t) eqn:E; auto. apply Nat.eqb_eq in E; subst. rewrite Et. reflexivity.
  - destruct (c_running c); auto.
    exists open; split.
    + cbn. rewrite run_open_app, Hrun. reflexivity.
    + intro t'. rewrite Hopen. unfold entries_of; cbn.
      destruct (Nat.lt_ge_cases t' (length (c_tasks c))) as [Hlt|Hge].
      * rewrite nth_error_app1; auto.
      * rewrite nth_error_app2; auto.
        assert (Hn : nth_error (c_tasks c) t' = None) by (apply nth_error_None; auto). rewrite Hn.
        destruct (t' - length (c_tasks c)) as [|k]; cbn; auto. destruct k; reflexivity.
Qed.

Lemma drive_binv : forall fl defs fuel c s, Inv fl c -> BInv c -> BInv (fst (drive fl defs fuel c s)).
Proof.
  intros fl defs fuel; induction fuel as [|f IH]; intros c s HI HB; cbn; auto.
  destruct (active c) as [t|].
  - apply IH; [apply micro_inv | apply micro_binv]; auto.
  - destruct s as [|it s']; cbn; auto.
    apply IH; [apply sched_step_inv | apply sched_step_binv]; auto.
Qed.

(* In the chronological log of any run, the scope events of every task are well bracketed (an exit matches the
   most recent unmatched entry of the same task, and it is for the same process), and every exit leaves exactly
   the stack that the matching entry found. *)
Theorem scope_events_bracketed : forall fl defs fuel s, bracketed (log_of (run fl defs fuel s)).
Proof.
  intros fl defs fuel s. unfold bracketed, log_of, run.
  destruct (drive_binv fl defs fuel (init defs) s (init_inv fl defs)) as (open & Hrun & _).
  - exists []. split; auto. intro t. unfold entries_of, init; cbn. destruct t; reflexivity.
  - rewrite Hrun. discriminate.
Qed.
