(* Comms/Launcher.v — model of plumpy.process_comms.ProcessLauncher (task dispatch, _launch, _continue,
   _create), of the task bodies built by create_launch_body / create_continue_body / create_create_body,
   and of the object loaders of loaders.py as far as the launcher uses them.  Executable, no proofs.

   Python                                           model
   task body (a dict)                               [body] = the dict's items, values are [val]s
   ProcessLauncher(persister=, loader=,             [config]: c_persister (None = no persister; Some sl = a persister
       load_context=LoadSaveContext(loader=))           whose own save loader is sl), c_loader, c_lcloader
   ObjectLoader                                     [ltable]: finite map identifier -> class consulted first, then the
                                                    default scheme (identifier = the class's own name, [known]);
                                                    identify = first entry naming the class, else the default name
   persister (either one; C14 proves both refine    the abstract (pid, tag) -> snapshot map [amap] of Persist/Persister.v,
       the map)                                     driven through [spec_step] (Save / Load)
   a Bundle of a process                            [snapshot] encoded as a [val]: class identifier as written by the
                                                    SAVING loader, the loader class recorded in the meta block, pid,
                                                    parsed inputs, checkpoint (state label + whatever the class keeps)
   Process subclass                                 a name; its behaviour is the Section variables [construct]
                                                    (constructor: input validation / defaults), [ckpt0] (checkpoint of a
                                                    fresh instance) and [run_to_end] (steps executed and final outcome
                                                    when stepped until terminated from a checkpoint) — process internals
                                                    are the business of C01-C13
   pid chosen by the process (uuid4)                [fresh_pid n], n = number of pids chosen so far
   await proc.step_until_terminated();              reply [ROutcome (rr_outcome r)] — outputs, or the process's exception,
       return proc.future().result()                or KilledError
   asyncio.ensure_future(...); return proc.pid      reply [RPid p]; the steps happen after the reply ([io_after])
*)
From Coq Require Import List ZArith String Bool Ascii.
From Plumpy Require Import Val Persister.
Import ListNotations.
Local Open Scope string_scope.

(* ------------------------------------------------------------------ loaders *)
Definition ltable := list (string * string).     (* identifier -> class name *)

Definition mem_str (s : string) (l : list string) : bool := existsb (String.eqb s) l.

Fixpoint rfind (c : string) (t : ltable) : option string :=
  match t with
  | [] => None
  | (id, c') :: r => if String.eqb c c' then Some id else rfind c r
  end.

(* ------------------------------------------------------------------ process outcomes, replies, events *)
Inductive outcome :=
| ODone (outputs : val)          (* FINISHED: future().result() = outputs *)
| OExn (e : exn)                 (* EXCEPTED: future().result() raises the process's exception *)
| OKilled (msg : string).        (* KILLED: future().result() raises KilledError(msg) *)

Record run_result := mk_rr { rr_steps : list nat; rr_outcome : outcome }.

Inductive reply :=
| RPid (p : pid)                 (* create / nowait: the process id *)
| ROutcome (o : outcome)         (* awaited: what the process ended with *)
| RErr (e : exn)                 (* the launcher itself raised: TaskRejected, KeyError, TypeError, ValueError *)
| RNone.                         (* an environment operation on the persister (no task) *)

Inductive event :=
| EvInit (cls : string) (p : pid)            (* a new instance was constructed (on_create ran) *)
| EvStep (p : pid) (k : nat).                (* user step k of process p executed *)

Record iobs := mk_io { io_reply : reply; io_before : list event; io_after : list event }.

(* what python sees: both launcher errors and process failures are exceptions raised by the coroutine *)
Inductive preply := PPid (p : pid) | PVal (v : val) | PExn (e : exn) | PNone.
Definition flatten (r : reply) : preply :=
  match r with
  | RPid p => PPid p
  | ROutcome (ODone v) => PVal v
  | ROutcome (OExn e) => PExn e
  | ROutcome (OKilled m) => PExn (EKilled m)
  | RErr e => PExn e
  | RNone => PNone
  end.

(* ------------------------------------------------------------------ snapshots *)
Record snapshot := mk_snap {
  s_cls : string;              (* !!meta.class_name — written by the loader of the SAVING side *)
  s_ldr : option string;       (* !!meta.user.object_loader — class of that loader, if one was configured *)
  s_pid : pid;
  s_inputs : val;              (* parsed inputs *)
  s_ckpt : val                 (* state label, context, stepper position ... *)
}.

Definition encode (s : snapshot) : snap :=
  VTup [VStr (s_cls s); match s_ldr s with None => VNone | Some n => VStr n end; VStr (s_pid s); s_inputs s; s_ckpt s].

Definition decode (v : snap) : option snapshot :=
  match v with
  | VTup [VStr c; VNone; VStr p; i; k] => Some (mk_snap c None p i k)
  | VTup [VStr c; VStr n; VStr p; i; k] => Some (mk_snap c (Some n) p i k)
  | _ => None
  end.

(* ------------------------------------------------------------------ configuration and world *)
Record config := mk_cfg {
  c_persister : option (option (string * ltable));   (* persister; its own save loader (class name, table) *)
  c_loader : option ltable;                          (* ProcessLauncher(loader=...) *)
  c_lcloader : option ltable                         (* ProcessLauncher(load_context=LoadSaveContext(loader=...)) *)
}.

Inductive origin := FromNew | FromCkpt (k : key).

Record prec := mk_prec {
  p_pid : pid; p_cls : string; p_inputs : val; p_ckpt : val;   (* the checkpoint it was started from *)
  p_origin : origin; p_ran : bool
}.

Record world := mk_world { w_pm : amap; w_procs : list prec; w_next : nat }.

Definition fresh_pid (n : nat) : pid := String "#"%char (string_of_list_ascii (repeat "i"%char n)).

(* ------------------------------------------------------------------ task bodies *)
Definition body := list (string * val).

(* create_launch_body / create_create_body / create_continue_body; [ident] = loader.identify_object(process_class)
   computed on the sending side *)
Definition launch_body (ident : string) (init_args init_kwargs : val) (persist nowait : bool) : body :=
  [("task", VStr "launch");
   ("args", VDict [("process_class", VStr ident); ("persist", VBool persist); ("nowait", VBool nowait);
                   ("init_args", init_args); ("init_kwargs", init_kwargs)])].

Definition create_body (ident : string) (init_args init_kwargs : val) (persist : bool) : body :=
  [("task", VStr "create");
   ("args", VDict [("process_class", VStr ident); ("persist", VBool persist);
                   ("init_args", init_args); ("init_kwargs", init_kwargs)])].

Definition continue_body (p : pid) (t : tag) (nowait : bool) : body :=
  [("task", VStr "continue");
   ("args", VDict [("pid", VStr p); ("nowait", VBool nowait);
                   ("tag", match t with None => VNone | Some s => VStr s end)])].

(* python keyword binding of **task['args'] to a handler: every required name present, no unknown name *)
Definition bind_kw (required optional : list string) (kvs : list (string * val)) : bool :=
  forallb (fun r => alist_mem r kvs) required
  && forallb (fun kv => mem_str (fst kv) (required ++ optional)) kvs.

Definition arg (n : string) (kvs : list (string * val)) : val :=
  match alist_get n kvs with Some v => v | None => VNone end.

(* Process.__init__(self, inputs=None, pid=None, logger=None, loop=None, communicator=None) called as
   proc_class( *init_args, **init_kwargs): (inputs, pid) or None = TypeError.  Only inputs and pid are modelled:
   the other three parameters are bound but their values ignored. *)
Definition init_params : list string := ["inputs"; "pid"; "logger"; "loop"; "communicator"].

Definition bind_init (args : list val) (kw : list (string * val)) : option (val * val) :=
  if Nat.ltb (List.length init_params) (List.length args) then None
  else
    let pos := combine init_params args in
    if existsb (fun kv => negb (mem_str (fst kv) init_params) || alist_mem (fst kv) pos) kw then None
    else
      let get n := match alist_get n pos with Some v => v | None => arg n kw end in
      Some (get "inputs", get "pid").

Inductive hitem :=
| HTask (b : body)              (* launcher(communicator, body) *)
| HEnv (op : pop).              (* somebody else uses the persister: a process saving itself, a clean-up ... *)

Section Launcher.
  Variable known : list string.                         (* class names the default loader can load *)
  Variable loader_classes : list (string * ltable).      (* loader classes the default loader can load (by name) *)
  Variable construct : string -> val -> exn + val.       (* class, raw inputs (VNone | VDict) -> parsed inputs *)
  Variable ckpt0 : string -> val -> val.                 (* checkpoint of a fresh instance *)
  Variable run_to_end : string -> val -> val -> run_result.   (* class, parsed inputs, checkpoint *)

  (* ObjectLoader.load_object / identify_object; the default loader is the empty table *)
  Definition load_object (t : ltable) (id : string) : option string :=
    match alist_get id t with
    | Some c => Some c
    | None => if mem_str id known then Some id else None
    end.

  Definition identify (t : ltable) (c : string) : string :=
    match rfind c t with Some id => id | None => c end.

  (* self._loader : loader given to the launcher, else loaders.get_object_loader() *)
  Definition launcher_loader (cfg : config) : ltable :=
    match c_loader cfg with Some t => t | None => [] end.

  (* the loader that resolves class names of a bundle in _continue: self._load_context.loader — the launcher's loader if
     given, else the load context's; failing both _ensure_object_loader takes the one recorded in the saved state, else
     the default one.  None = the recorded loader class cannot be loaded (ValueError). *)
  Definition continue_loader (cfg : config) (recorded : option string) : option ltable :=
    match c_loader cfg with
    | Some t => Some t
    | None =>
        match c_lcloader cfg with
        | Some t => Some t
        | None =>
            match recorded with
            | None => Some []
            | Some n => alist_get n loader_classes
            end
        end
    end.

  Definition has_persister (cfg : config) : bool :=
    match c_persister cfg with Some _ => true | None => false end.

  (* what persister.save_checkpoint(proc) stores for a process: Bundle(proc, persister's save context) *)
  Definition snapshot_of (cfg : config) (cls : string) (p : pid) (inputs ckpt : val) : snapshot :=
    match c_persister cfg with
    | Some (Some (n, t)) => mk_snap (identify t cls) (Some n) p inputs ckpt
    | _ => mk_snap (identify [] cls) None p inputs ckpt
    end.

  Definition steps_events (p : pid) (r : run_result) : list event := map (EvStep p) (rr_steps r).

  (* init_args / init_kwargs of a body -> the constructor's (inputs, pid); None = TypeError *)
  Definition unpack_init (a k : val) : option (val * val) :=
    let oargs := match a with VNone => Some [] | VList l => Some l | VTup l => Some l | _ => None end in
    let okw := match k with VNone => Some [] | VDict l => Some l | _ => None end in
    match oargs, okw with
    | Some a', Some k' => bind_init a' k'
    | _, _ => None
    end.

  (* the pid of a new process: the one given, else chosen by the process; None = a pid outside the modelled domain *)
  Definition choose_pid (next : nat) (pidv : val) : option (pid * nat) :=
    match pidv with
    | VNone => Some (fresh_pid next, S next)
    | VStr s => Some (s, next)
    | _ => None
    end.

  (* the common part of _launch and _create.  [kvs] = the handler's keyword arguments (already bound). *)
  Definition make_proc (cfg : config) (w : world) (kvs : list (string * val)) : exn + (world * prec) :=
    let persist := truthy (arg "persist" kvs) in
    if persist && negb (has_persister cfg) then inl ERejected
    else
      match arg "process_class" kvs with
      | VStr id =>
          match load_object (launcher_loader cfg) id with
          | None => inl EValue
          | Some cls =>
              match unpack_init (arg "init_args" kvs) (arg "init_kwargs" kvs) with
              | None => inl EType
              | Some (inputs, pidv) =>
                  match choose_pid (w_next w) pidv with
                  | None => inl EOutOfFuel          (* pid of another type: outside the modelled domain *)
                  | Some (p, next') =>
                      match construct cls inputs with
                      | inl e => inl e
                      | inr parsed =>
                          let c0 := ckpt0 cls parsed in
                          let pr := mk_prec p cls parsed c0 FromNew false in
                          let pm' := if persist
                                     then fst (spec_step (w_pm w) (Save p None (encode (snapshot_of cfg cls p parsed c0))))
                                     else w_pm w in
                          inr (mk_world pm' (w_procs w ++ [pr]) next', pr)
                      end
                  end
              end
          end
      | _ => inl EAttribute       (* identifier.split(':') on a non-string *)
      end.

  Definition set_ran (pr : prec) : prec :=
    mk_prec (p_pid pr) (p_cls pr) (p_inputs pr) (p_ckpt pr) (p_origin pr) true.

  Definition mark_last_ran (w : world) : world :=
    mk_world (w_pm w) (match rev (w_procs w) with [] => [] | pr :: r => rev (set_ran pr :: r) end) (w_next w).

  Definition err (w : world) (e : exn) : world * iobs := (w, mk_io (RErr e) [] []).

  Definition do_create (cfg : config) (w : world) (kvs : list (string * val)) : world * iobs :=
    if negb (bind_kw ["process_class"; "persist"] ["init_args"; "init_kwargs"] kvs) then err w EType
    else
      match make_proc cfg w kvs with
      | inl e => err w e
      | inr (w', pr) => (w', mk_io (RPid (p_pid pr)) [EvInit (p_cls pr) (p_pid pr)] [])
      end.

  Definition do_launch (cfg : config) (w : world) (kvs : list (string * val)) : world * iobs :=
    if negb (bind_kw ["process_class"; "persist"; "nowait"] ["init_args"; "init_kwargs"] kvs) then err w EType
    else
      match make_proc cfg w kvs with
      | inl e => err w e
      | inr (w', pr) =>
          let r := run_to_end (p_cls pr) (p_inputs pr) (p_ckpt pr) in
          let ini := EvInit (p_cls pr) (p_pid pr) in
          if truthy (arg "nowait" kvs)
          then (mark_last_ran w', mk_io (RPid (p_pid pr)) [ini] (steps_events (p_pid pr) r))
          else (mark_last_ran w', mk_io (ROutcome (rr_outcome r)) (ini :: steps_events (p_pid pr) r) [])
      end.

  Definition do_continue (cfg : config) (w : world) (kvs : list (string * val)) : world * iobs :=
    if negb (bind_kw ["pid"; "nowait"] ["tag"] kvs) then err w EType
    else if negb (has_persister cfg) then err w ERejected
    else
      let otag := match arg "tag" kvs with VNone => Some None | VStr s => Some (Some s) | _ => None end in
      match arg "pid" kvs, otag with
      | VStr p, Some t =>
          match snd (spec_step (w_pm w) (Load p t)) with
          | OSnap v =>
              match decode v with
              | None => err w EValue
              | Some s =>
                  match continue_loader cfg (s_ldr s) with
                  | None => err w EValue
                  | Some tbl =>
                      match load_object tbl (s_cls s) with
                      | None => err w EValue
                      | Some cls =>
                          let pr := mk_prec (s_pid s) cls (s_inputs s) (s_ckpt s) (FromCkpt (p, t)) true in
                          let r := run_to_end cls (s_inputs s) (s_ckpt s) in
                          let w' := mk_world (w_pm w) (w_procs w ++ [pr]) (w_next w) in
                          if truthy (arg "nowait" kvs)
                          then (w', mk_io (RPid (s_pid s)) [] (steps_events (s_pid s) r))
                          else (w', mk_io (ROutcome (rr_outcome r)) (steps_events (s_pid s) r) [])
                      end
                  end
              end
          | _ => err w EKey          (* KeyError (in memory) / FileNotFoundError (pickle): canonicalised as in C14 *)
          end
      | _, _ => err w EOutOfFuel     (* pid / tag of another type: outside the modelled domain *)
      end.

  (* ProcessLauncher.__call__ *)
  Definition task_step (cfg : config) (w : world) (b : body) : world * iobs :=
    match alist_get "task" b with
    | None => err w EKey                                   (* task[TASK_KEY] *)
    | Some ty =>
        let is s := val_eqb ty (VStr s) in
        if is "launch" || is "continue" || is "create" then
          match alist_get "args" b with                    (* **task.get(TASK_ARGS, {}) *)
          | None | Some (VDict _) =>
              let kvs := match alist_get "args" b with Some (VDict kvs) => kvs | _ => [] end in
              if is "launch" then do_launch cfg w kvs
              else if is "continue" then do_continue cfg w kvs
              else do_create cfg w kvs
          | Some _ => err w EType                          (* argument after ** must be a mapping *)
          end
        else err w ERejected                               (* raise communications.TaskRejected *)
    end.

  Definition step (cfg : config) (w : world) (h : hitem) : world * iobs :=
    match h with
    | HTask b => task_step cfg w b
    | HEnv op =>
        if has_persister cfg
        then (mk_world (fst (spec_step (w_pm w) op)) (w_procs w) (w_next w), mk_io RNone [] [])
        else (w, mk_io RNone [] [])
    end.

  Fixpoint run (cfg : config) (w : world) (h : list hitem) : world * list iobs :=
    match h with
    | [] => (w, [])
    | x :: rest =>
        let '(w1, o) := step cfg w x in
        let '(w2, os) := run cfg w1 rest in
        (w2, o :: os)
    end.

  (* the same, also recording the persister content after every item (what the harness observes) *)
  Fixpoint run_obs (cfg : config) (w : world) (h : list hitem) : list (iobs * amap) :=
    match h with
    | [] => []
    | x :: rest => let '(w1, o) := step cfg w x in (o, w_pm w1) :: run_obs cfg w1 rest
    end.

  Definition world0 : world := mk_world [] [] 0.

  (* ---------------- the property's vocabulary ---------------- *)
  (* a task the launcher cannot honour: unknown task type; persist without persister; continue without persister *)
  Definition rejectable (cfg : config) (b : body) : bool :=
    match alist_get "task" b with
    | None => false
    | Some ty =>
        let is s := val_eqb ty (VStr s) in
        if is "launch" || is "continue" || is "create" then
          match alist_get "args" b with
          | None | Some (VDict _) =>
              let kvs := match alist_get "args" b with Some (VDict kvs) => kvs | _ => [] end in
              if is "launch" then
                bind_kw ["process_class"; "persist"; "nowait"] ["init_args"; "init_kwargs"] kvs
                && truthy (arg "persist" kvs) && negb (has_persister cfg)
              else if is "continue" then bind_kw ["pid"; "nowait"] ["tag"] kvs && negb (has_persister cfg)
              else bind_kw ["process_class"; "persist"] ["init_args"; "init_kwargs"] kvs
                   && truthy (arg "persist" kvs) && negb (has_persister cfg)
          | Some _ => false
          end
        else true
    end.

  Definition is_err (o : iobs) : bool := match io_reply o with RErr _ => true | _ => false end.
End Launcher.
