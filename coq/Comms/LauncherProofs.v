(* Comms/LauncherProofs.v — proofs about the launcher model (Comms/Launcher.v). *)
From Coq Require Import List ZArith String Bool Ascii Lia.
From Plumpy Require Import Val Persister PersisterProofs Launcher.
Import ListNotations.
Local Open Scope string_scope.
Local Open Scope list_scope.

Lemma decode_encode : forall s, decode (encode s) = Some s.
Proof. intros [c [n|] p i k]; reflexivity. Qed.

Section Proofs.
  Variable known : list string.
  Variable loader_classes : list (string * ltable).
  Variable construct : string -> val -> exn + val.
  Variable ckpt0 : string -> val -> val.
  Variable run_to_end : string -> val -> val -> run_result.

  Notation load_object := (load_object known).
  Notation continue_loader := (continue_loader loader_classes).
  Notation make_proc := (make_proc known construct ckpt0).
  Notation do_create := (do_create known construct ckpt0).
  Notation do_launch := (do_launch known construct ckpt0 run_to_end).
  Notation do_continue := (do_continue known loader_classes run_to_end).
  Notation task_step := (task_step known loader_classes construct ckpt0 run_to_end).
  Notation step := (step known loader_classes construct ckpt0 run_to_end).
  Notation run := (run known loader_classes construct ckpt0 run_to_end).

  (* ---------------------------------------------------------------- errors have no effect *)
  Lemma do_create_err : forall cfg w kvs w' o,
    do_create cfg w kvs = (w', o) -> is_err o = true -> w' = w /\ io_before o = [] /\ io_after o = [].
  Proof.
    intros cfg w kvs w' o H E. unfold Launcher.do_create, err in H.
    destruct (negb (bind_kw _ _ kvs)).
    - inversion H; subst; auto.
    - destruct (make_proc cfg w kvs) as [e|[w1 pr]].
      + inversion H; subst; auto.
      + inversion H; subst. discriminate E.
  Qed.

  Lemma do_launch_err : forall cfg w kvs w' o,
    do_launch cfg w kvs = (w', o) -> is_err o = true -> w' = w /\ io_before o = [] /\ io_after o = [].
  Proof.
    intros cfg w kvs w' o H E. unfold Launcher.do_launch, err in H.
    destruct (negb (bind_kw _ _ kvs)).
    - inversion H; subst; auto.
    - destruct (make_proc cfg w kvs) as [e|[w1 pr]].
      + inversion H; subst; auto.
      + destruct (truthy (arg "nowait" kvs)); inversion H; subst; discriminate E.
  Qed.

  Lemma do_continue_err : forall cfg w kvs w' o,
    do_continue cfg w kvs = (w', o) -> is_err o = true -> w' = w /\ io_before o = [] /\ io_after o = [].
  Proof.
    intros cfg w kvs w' o H E. unfold Launcher.do_continue, err in H.
    repeat match type of H with
    | (if ?c then _ else _) = _ => destruct c
    | (match ?c with _ => _ end) = _ => destruct c
    | (let (_, _) := ?c in _) = _ => destruct c
    end; inversion H; subst; auto; discriminate E.
  Qed.

  Theorem task_error_no_effect : forall cfg w b w' o,
    task_step cfg w b = (w', o) -> is_err o = true -> w' = w /\ io_before o = [] /\ io_after o = [].
  Proof.
    intros cfg w b w' o H E. unfold Launcher.task_step, err in H.
    destruct (alist_get "task" b) as [ty|]; [|inversion H; subst; auto].
    destruct (val_eqb ty (VStr "launch") || val_eqb ty (VStr "continue") || val_eqb ty (VStr "create"));
      [|inversion H; subst; auto].
    destruct (alist_get "args" b) as [[]|];
      try (inversion H; subst; auto; fail);
      (destruct (val_eqb ty (VStr "launch")); [eapply do_launch_err; eauto|];
       destruct (val_eqb ty (VStr "continue")); [eapply do_continue_err; eauto|];
       eapply do_create_err; eauto).
  Qed.

  (* ---------------------------------------------------------------- rejection *)
  Lemma make_proc_reject : forall cfg w kvs,
    truthy (arg "persist" kvs) = true -> has_persister cfg = false -> make_proc cfg w kvs = inl ERejected.
  Proof. intros cfg w kvs Hp Hn. unfold Launcher.make_proc. rewrite Hp, Hn. reflexivity. Qed.

  Theorem reject_spec : forall cfg w b,
    rejectable cfg b = true -> task_step cfg w b = (w, mk_io (RErr ERejected) [] []).
  Proof.
    intros cfg w b R. unfold rejectable in R. unfold Launcher.task_step, err.
    destruct (alist_get "task" b) as [ty|]; [|discriminate R].
    destruct (val_eqb ty (VStr "launch") || val_eqb ty (VStr "continue") || val_eqb ty (VStr "create")); [|reflexivity].
    assert (HL : forall kvs, bind_kw ["process_class"; "persist"; "nowait"] ["init_args"; "init_kwargs"] kvs
                   && truthy (arg "persist" kvs) && negb (has_persister cfg) = true ->
                 do_launch cfg w kvs = (w, mk_io (RErr ERejected) [] [])).
    { intros kvs H. apply andb_prop in H as [H H3]. apply andb_prop in H as [H1 H2].
      unfold Launcher.do_launch, err. rewrite H1. cbn [negb].
      rewrite make_proc_reject; auto. now destruct (has_persister cfg). }
    assert (HC : forall kvs, bind_kw ["process_class"; "persist"] ["init_args"; "init_kwargs"] kvs
                   && truthy (arg "persist" kvs) && negb (has_persister cfg) = true ->
                 do_create cfg w kvs = (w, mk_io (RErr ERejected) [] [])).
    { intros kvs H. apply andb_prop in H as [H H3]. apply andb_prop in H as [H1 H2].
      unfold Launcher.do_create, err. rewrite H1. cbn [negb].
      rewrite make_proc_reject; auto. now destruct (has_persister cfg). }
    assert (HK : forall kvs, bind_kw ["pid"; "nowait"] ["tag"] kvs && negb (has_persister cfg) = true ->
                 do_continue cfg w kvs = (w, mk_io (RErr ERejected) [] [])).
    { intros kvs H. apply andb_prop in H as [H1 H2].
      unfold Launcher.do_continue, err. rewrite H1, H2. reflexivity. }
    destruct (alist_get "args" b) as [[]|]; try discriminate R;
      (destruct (val_eqb ty (VStr "launch")); [apply HL; exact R|];
       destruct (val_eqb ty (VStr "continue")); [apply HK; exact R|];
       apply HC; exact R).
  Qed.

  (* ---------------------------------------------------------------- functional specifications *)
  (* the world after a successful creation *)
  Definition new_prec (cls : string) (p : pid) (parsed : val) (ran : bool) : prec :=
    mk_prec p cls parsed (ckpt0 cls parsed) FromNew ran.

  Definition stored (cfg : config) (cls : string) (p : pid) (parsed : val) : snap :=
    encode (snapshot_of cfg cls p parsed (ckpt0 cls parsed)).

  Definition created_world (cfg : config) (w : world) (persist : bool) (cls : string) (p : pid) (parsed : val)
                           (next' : nat) (ran : bool) : world :=
    mk_world (if persist then am_set (p, None) (stored cfg cls p parsed) (w_pm w) else w_pm w)
             (w_procs w ++ [new_prec cls p parsed ran]) next'.

  Lemma make_proc_ok : forall cfg w kvs id cls inputs pidv p next' parsed,
    arg "process_class" kvs = VStr id ->
    (truthy (arg "persist" kvs) = true -> has_persister cfg = true) ->
    load_object (launcher_loader cfg) id = Some cls ->
    unpack_init (arg "init_args" kvs) (arg "init_kwargs" kvs) = Some (inputs, pidv) ->
    choose_pid (w_next w) pidv = Some (p, next') ->
    construct cls inputs = inr parsed ->
    make_proc cfg w kvs =
      inr (created_world cfg w (truthy (arg "persist" kvs)) cls p parsed next' false, new_prec cls p parsed false).
  Proof.
    intros cfg w kvs id cls inputs pidv p next' parsed Hid Hp Hl Hu Hc Hk.
    unfold Launcher.make_proc. rewrite Hid, Hl, Hu, Hc, Hk.
    destruct (truthy (arg "persist" kvs)) eqn:P.
    - rewrite Hp by reflexivity. reflexivity.
    - reflexivity.
  Qed.

  Lemma mark_last_ran_app : forall pm ps pr n,
    mark_last_ran (mk_world pm (ps ++ [pr]) n) = mk_world pm (ps ++ [set_ran pr]) n.
  Proof.
    intros. unfold mark_last_ran. cbn [w_pm w_procs w_next]. rewrite rev_app_distr. cbn [rev app].
    rewrite rev_involutive. reflexivity.
  Qed.

  (* create: constructs, persists iff asked, replies the pid, runs nothing *)
  Theorem create_spec : forall cfg w id a k persist cls inputs pidv p next' parsed,
    (persist = true -> has_persister cfg = true) ->
    load_object (launcher_loader cfg) id = Some cls ->
    unpack_init a k = Some (inputs, pidv) ->
    choose_pid (w_next w) pidv = Some (p, next') ->
    construct cls inputs = inr parsed ->
    task_step cfg w (create_body id a k persist) =
      (created_world cfg w persist cls p parsed next' false, mk_io (RPid p) [EvInit cls p] []).
  Proof.
    intros cfg w id a k persist cls inputs pidv p next' parsed Hp Hl Hu Hc Hk.
    unfold Launcher.task_step, create_body. cbn [alist_get String.eqb Ascii.eqb Bool.eqb val_eqb orb].
    unfold Launcher.do_create.
    match goal with |- context [bind_kw ?r ?o ?kvs] => replace (bind_kw r o kvs) with true by reflexivity end.
    cbn [negb].
    rewrite (make_proc_ok cfg w _ id cls inputs pidv p next' parsed); try reflexivity; try assumption.
  Qed.

  (* launch: the same creation, then the fresh instance is run from its initial checkpoint; the reply is the pid at once
     (nowait) or the process's own outcome *)
  Theorem launch_spec : forall cfg w id a k persist nowait cls inputs pidv p next' parsed,
    (persist = true -> has_persister cfg = true) ->
    load_object (launcher_loader cfg) id = Some cls ->
    unpack_init a k = Some (inputs, pidv) ->
    choose_pid (w_next w) pidv = Some (p, next') ->
    construct cls inputs = inr parsed ->
    let r := run_to_end cls parsed (ckpt0 cls parsed) in
    task_step cfg w (launch_body id a k persist nowait) =
      (created_world cfg w persist cls p parsed next' true,
       if nowait then mk_io (RPid p) [EvInit cls p] (steps_events p r)
       else mk_io (ROutcome (rr_outcome r)) (EvInit cls p :: steps_events p r) []).
  Proof.
    intros cfg w id a k persist nowait cls inputs pidv p next' parsed Hp Hl Hu Hc Hk r.
    unfold Launcher.task_step, launch_body. cbn [alist_get String.eqb Ascii.eqb Bool.eqb val_eqb orb].
    unfold Launcher.do_launch.
    match goal with |- context [bind_kw ?r ?o ?kvs] => replace (bind_kw r o kvs) with true by reflexivity end.
    cbn [negb].
    rewrite (make_proc_ok cfg w _ id cls inputs pidv p next' parsed); try reflexivity; try assumption.
    cbn [arg alist_get String.eqb Ascii.eqb Bool.eqb truthy p_cls p_pid p_inputs p_ckpt new_prec].
    unfold created_world. rewrite !mark_last_ran_app. destruct nowait; reflexivity.
  Qed.

  (* every way a create / launch task can fail, in the order the code checks; nothing happens in any of them *)
  Theorem create_launch_failures : forall cfg w id a k persist (b : body),
    (exists nowait, b = launch_body id a k persist nowait) \/ b = create_body id a k persist ->
    task_step cfg w b =
      (w, mk_io (RErr
        (if persist && negb (has_persister cfg) then ERejected
         else match load_object (launcher_loader cfg) id with
              | None => EValue
              | Some cls =>
                  match unpack_init a k with
                  | None => EType
                  | Some (inputs, pidv) =>
                      match choose_pid (w_next w) pidv with
                      | None => EOutOfFuel
                      | Some _ => match construct cls inputs with inl e => e | inr _ => EOutOfFuel end
                      end
                  end
              end)) [] [])
    \/ (exists cls inputs pidv p next' parsed,
          (persist = true -> has_persister cfg = true) /\
          load_object (launcher_loader cfg) id = Some cls /\ unpack_init a k = Some (inputs, pidv) /\
          choose_pid (w_next w) pidv = Some (p, next') /\ construct cls inputs = inr parsed).
  Proof.
    intros cfg w id a k persist b Hb.
    destruct (persist && negb (has_persister cfg)) eqn:PR.
    { left. apply andb_prop in PR as [P1 P2]. subst persist.
      destruct Hb as [[nowait ->]| ->]; apply reject_spec; unfold rejectable; cbn; rewrite P2; reflexivity. }
    assert (HP : persist = true -> has_persister cfg = true).
    { intros ->. cbn in PR. now destruct (has_persister cfg). }
    destruct (load_object (launcher_loader cfg) id) as [cls|] eqn:L.
    2:{ left. destruct Hb as [[nowait ->]| ->];
        unfold Launcher.task_step, launch_body, create_body; cbn [alist_get String.eqb Ascii.eqb Bool.eqb val_eqb orb];
        unfold Launcher.do_launch, Launcher.do_create;
        match goal with |- context [bind_kw ?r ?o ?kvs] => replace (bind_kw r o kvs) with true by reflexivity end;
        cbn [negb]; unfold Launcher.make_proc; cbn [arg alist_get String.eqb Ascii.eqb Bool.eqb truthy];
        rewrite PR, L; reflexivity. }
    destruct (unpack_init a k) as [[inputs pidv]|] eqn:U.
    2:{ left. destruct Hb as [[nowait ->]| ->];
        unfold Launcher.task_step, launch_body, create_body; cbn [alist_get String.eqb Ascii.eqb Bool.eqb val_eqb orb];
        unfold Launcher.do_launch, Launcher.do_create;
        match goal with |- context [bind_kw ?r ?o ?kvs] => replace (bind_kw r o kvs) with true by reflexivity end;
        cbn [negb]; unfold Launcher.make_proc; cbn [arg alist_get String.eqb Ascii.eqb Bool.eqb truthy];
        rewrite PR, L, U; reflexivity. }
    destruct (choose_pid (w_next w) pidv) as [[p next']|] eqn:C.
    2:{ left. destruct Hb as [[nowait ->]| ->];
        unfold Launcher.task_step, launch_body, create_body; cbn [alist_get String.eqb Ascii.eqb Bool.eqb val_eqb orb];
        unfold Launcher.do_launch, Launcher.do_create;
        match goal with |- context [bind_kw ?r ?o ?kvs] => replace (bind_kw r o kvs) with true by reflexivity end;
        cbn [negb]; unfold Launcher.make_proc; cbn [arg alist_get String.eqb Ascii.eqb Bool.eqb truthy];
        rewrite PR, L, U, C; reflexivity. }
    destruct (construct cls inputs) as [e|parsed] eqn:K.
    { left. destruct Hb as [[nowait ->]| ->];
        unfold Launcher.task_step, launch_body, create_body; cbn [alist_get String.eqb Ascii.eqb Bool.eqb val_eqb orb];
        unfold Launcher.do_launch, Launcher.do_create;
        match goal with |- context [bind_kw ?r ?o ?kvs] => replace (bind_kw r o kvs) with true by reflexivity end;
        cbn [negb]; unfold Launcher.make_proc; cbn [arg alist_get String.eqb Ascii.eqb Bool.eqb truthy];
        rewrite PR, L, U, C, K; reflexivity. }
    right. exists cls, inputs, pidv, p, next', parsed. auto.
  Qed.

  (* the complete behaviour of create / launch in one equation each: [creation] = the checks of _create/_launch in the
     order of the code, giving the first error or the class, pid, next pid counter and parsed inputs of the new instance *)
  Definition creation (cfg : config) (w : world) (id : string) (a k : val) (persist : bool)
    : exn + (string * pid * nat * val) :=
    if persist && negb (has_persister cfg) then inl ERejected
    else match load_object (launcher_loader cfg) id with
         | None => inl EValue
         | Some cls =>
             match unpack_init a k with
             | None => inl EType
             | Some (inputs, pidv) =>
                 match choose_pid (w_next w) pidv with
                 | None => inl EOutOfFuel
                 | Some (p, next') =>
                     match construct cls inputs with
                     | inl e => inl e
                     | inr parsed => inr (cls, p, next', parsed)
                     end
                 end
             end
         end.

  Lemma creation_cases : forall cfg w id a k persist,
    match creation cfg w id a k persist with
    | inl e =>
        e = (if persist && negb (has_persister cfg) then ERejected
             else match load_object (launcher_loader cfg) id with
                  | None => EValue
                  | Some cls =>
                      match unpack_init a k with
                      | None => EType
                      | Some (inputs, pidv) =>
                          match choose_pid (w_next w) pidv with
                          | None => EOutOfFuel
                          | Some _ => match construct cls inputs with inl e => e | inr _ => EOutOfFuel end
                          end
                      end
                  end)
        /\ ~ (exists cls inputs pidv p next' parsed,
               (persist = true -> has_persister cfg = true) /\
               load_object (launcher_loader cfg) id = Some cls /\ unpack_init a k = Some (inputs, pidv) /\
               choose_pid (w_next w) pidv = Some (p, next') /\ construct cls inputs = inr parsed)
    | inr (cls, p, next', parsed) =>
        exists inputs pidv,
          (persist = true -> has_persister cfg = true) /\
          load_object (launcher_loader cfg) id = Some cls /\ unpack_init a k = Some (inputs, pidv) /\
          choose_pid (w_next w) pidv = Some (p, next') /\ construct cls inputs = inr parsed
    end.
  Proof.
    intros cfg w id a k persist. unfold creation.
    destruct (persist && negb (has_persister cfg)) eqn:PR.
    { split; [reflexivity|]. intros [cls [i [pv [p [n [ps [H _]]]]]]].
      apply andb_prop in PR as [-> P2]. rewrite H in P2 by reflexivity. discriminate P2. }
    assert (HP : persist = true -> has_persister cfg = true).
    { intros ->. cbn in PR. now destruct (has_persister cfg). }
    destruct (load_object (launcher_loader cfg) id) as [cls|] eqn:L.
    2:{ split; [reflexivity|]. intros [cls [i [pv [p [n [ps [_ [H _]]]]]]]]. discriminate H. }
    destruct (unpack_init a k) as [[inputs pidv]|] eqn:U.
    2:{ split; [reflexivity|]. intros [cls' [i [pv [p [n [ps [_ [_ [H _]]]]]]]]]. discriminate H. }
    destruct (choose_pid (w_next w) pidv) as [[p next']|] eqn:C.
    2:{ split; [reflexivity|]. intros [cls' [i [pv [p [n [ps [_ [_ [H [H' _]]]]]]]]]]. inversion H; subst. congruence. }
    destruct (construct cls inputs) as [e|parsed] eqn:K.
    { split; [reflexivity|]. intros [cls' [i [pv [p' [n [ps [_ [H0 [H [_ H']]]]]]]]]]. inversion H; subst.
      assert (cls' = cls) by congruence. subst. congruence. }
    exists inputs, pidv. auto.
  Qed.

  Theorem create_total : forall cfg w id a k persist,
    task_step cfg w (create_body id a k persist) =
      match creation cfg w id a k persist with
      | inl e => (w, mk_io (RErr e) [] [])
      | inr (cls, p, next', parsed) =>
          (created_world cfg w persist cls p parsed next' false, mk_io (RPid p) [EvInit cls p] [])
      end.
  Proof.
    intros cfg w id a k persist.
    pose proof (creation_cases cfg w id a k persist) as CC.
    destruct (creation cfg w id a k persist) as [e|[[[cls p] next'] parsed]].
    - destruct CC as [-> N].
      destruct (create_launch_failures cfg w id a k persist (create_body id a k persist) (or_intror eq_refl)) as [E|E];
        [exact E|contradiction].
    - destruct CC as [inputs [pidv [H1 [H2 [H3 [H4 H5]]]]]]. eapply create_spec; eauto.
  Qed.

  Theorem launch_total : forall cfg w id a k persist nowait,
    task_step cfg w (launch_body id a k persist nowait) =
      match creation cfg w id a k persist with
      | inl e => (w, mk_io (RErr e) [] [])
      | inr (cls, p, next', parsed) =>
          let r := run_to_end cls parsed (ckpt0 cls parsed) in
          (created_world cfg w persist cls p parsed next' true,
           if nowait then mk_io (RPid p) [EvInit cls p] (steps_events p r)
           else mk_io (ROutcome (rr_outcome r)) (EvInit cls p :: steps_events p r) [])
      end.
  Proof.
    intros cfg w id a k persist nowait.
    pose proof (creation_cases cfg w id a k persist) as CC.
    destruct (creation cfg w id a k persist) as [e|[[[cls p] next'] parsed]].
    - destruct CC as [-> N].
      destruct (create_launch_failures cfg w id a k persist (launch_body id a k persist nowait)
                  (or_introl (ex_intro _ nowait eq_refl))) as [E|E]; [exact E|contradiction].
    - destruct CC as [inputs [pidv [H1 [H2 [H3 [H4 H5]]]]]]. eapply launch_spec; eauto.
  Qed.

  (* the same for continue *)
  Definition resumption (cfg : config) (w : world) (p : pid) (t : tag) : exn + (string * snapshot) :=
    if negb (has_persister cfg) then inl ERejected
    else match am_get (p, t) (w_pm w) with
         | None => inl EKey
         | Some v =>
             match decode v with
             | None => inl EValue
             | Some s =>
                 match continue_loader cfg (s_ldr s) with
                 | None => inl EValue
                 | Some tbl =>
                     match load_object tbl (s_cls s) with
                     | None => inl EValue
                     | Some cls => inr (cls, s)
                     end
                 end
             end
         end.

  (* continue: exactly the checkpoint stored under the requested (pid, tag), class resolved by the loader in force,
     run from that checkpoint; the persister is only read *)
  Definition loaded_prec (k : key) (cls : string) (s : snapshot) : prec :=
    mk_prec (s_pid s) cls (s_inputs s) (s_ckpt s) (FromCkpt k) true.

  Lemma continue_body_step : forall cfg w p t nowait,
    task_step cfg w (continue_body p t nowait) =
      do_continue cfg w [("pid", VStr p); ("nowait", VBool nowait); ("tag", match t with None => VNone | Some s => VStr s end)].
  Proof. intros. reflexivity. Qed.

  Theorem continue_spec : forall cfg w p t nowait v s tbl cls,
    has_persister cfg = true ->
    am_get (p, t) (w_pm w) = Some v ->
    decode v = Some s ->
    continue_loader cfg (s_ldr s) = Some tbl ->
    load_object tbl (s_cls s) = Some cls ->
    let r := run_to_end cls (s_inputs s) (s_ckpt s) in
    task_step cfg w (continue_body p t nowait) =
      (mk_world (w_pm w) (w_procs w ++ [loaded_prec (p, t) cls s]) (w_next w),
       if nowait then mk_io (RPid (s_pid s)) [] (steps_events (s_pid s) r)
       else mk_io (ROutcome (rr_outcome r)) (steps_events (s_pid s) r) []).
  Proof.
    intros cfg w p t nowait v s tbl cls Hp Hg Hd Hl Ho r.
    rewrite continue_body_step. unfold Launcher.do_continue.
    match goal with |- context [bind_kw ?r ?o ?kvs] => replace (bind_kw r o kvs) with true by reflexivity end.
    rewrite Hp. cbn [negb].
    replace (arg "pid" _) with (VStr p) by reflexivity.
    replace (arg "nowait" _) with (VBool nowait) by reflexivity.
    replace (arg "tag" _) with (match t with None => VNone | Some s0 => VStr s0 end) by reflexivity.
    assert (T : match (match t with None => VNone | Some s0 => VStr s0 end) with
                | VNone => Some None | VStr s0 => Some (Some s0) | _ => None end = Some t) by (destruct t; reflexivity).
    rewrite T. cbn [spec_step snd]. rewrite Hg, Hd, Hl, Ho.
    destruct nowait; reflexivity.
  Qed.

  Theorem continue_failures : forall cfg w p t nowait,
    task_step cfg w (continue_body p t nowait) =
      (w, mk_io (RErr
        (if negb (has_persister cfg) then ERejected
         else match am_get (p, t) (w_pm w) with
              | None => EKey
              | Some v => EValue       (* unreadable checkpoint, unloadable recorded loader, unknown class identifier *)
              end)) [] [])
    \/ (exists v s tbl cls,
          has_persister cfg = true /\ am_get (p, t) (w_pm w) = Some v /\ decode v = Some s /\
          continue_loader cfg (s_ldr s) = Some tbl /\ load_object tbl (s_cls s) = Some cls).
  Proof.
    intros cfg w p t nowait.
    destruct (has_persister cfg) eqn:Hp; cbn [negb].
    2:{ left. apply reject_spec. unfold rejectable. cbn. rewrite Hp. reflexivity. }
    assert (T : match (match t with None => VNone | Some s0 => VStr s0 end) with
                | VNone => Some None | VStr s0 => Some (Some s0) | _ => None end = Some t) by (destruct t; reflexivity).
    rewrite continue_body_step. unfold Launcher.do_continue.
    match goal with |- context [bind_kw ?r ?o ?kvs] => replace (bind_kw r o kvs) with true by reflexivity end.
    rewrite Hp. cbn [negb].
    replace (arg "pid" _) with (VStr p) by reflexivity.
    replace (arg "tag" _) with (match t with None => VNone | Some s0 => VStr s0 end) by reflexivity.
    rewrite T. cbn [spec_step snd].
    destruct (am_get (p, t) (w_pm w)) as [v|] eqn:G; [|left; reflexivity].
    destruct (decode v) as [s|] eqn:D; [|left; reflexivity].
    destruct (continue_loader cfg (s_ldr s)) as [tbl|] eqn:L; [|left; reflexivity].
    destruct (load_object tbl (s_cls s)) as [cls|] eqn:O; [|left; reflexivity].
    right. exists v, s, tbl, cls. auto.
  Qed.

  Theorem continue_total : forall cfg w p t nowait,
    task_step cfg w (continue_body p t nowait) =
      match resumption cfg w p t with
      | inl e => (w, mk_io (RErr e) [] [])
      | inr (cls, s) =>
          let r := run_to_end cls (s_inputs s) (s_ckpt s) in
          (mk_world (w_pm w) (w_procs w ++ [loaded_prec (p, t) cls s]) (w_next w),
           if nowait then mk_io (RPid (s_pid s)) [] (steps_events (s_pid s) r)
           else mk_io (ROutcome (rr_outcome r)) (steps_events (s_pid s) r) [])
      end.
  Proof.
    intros cfg w p t nowait. unfold resumption.
    destruct (has_persister cfg) eqn:Hp; cbn [negb].
    2:{ apply reject_spec. unfold rejectable. cbn. rewrite Hp. reflexivity. }
    destruct (continue_failures cfg w p t nowait) as [F|[v [s [tbl [cls [H1 [H2 [H3 [H4 H5]]]]]]]]].
    - rewrite F, Hp. cbn [negb].
      destruct (am_get (p, t) (w_pm w)) as [v|] eqn:G; [|reflexivity].
      destruct (decode v) as [s|] eqn:D; [|reflexivity].
      destruct (continue_loader cfg (s_ldr s)) as [tbl|] eqn:L; [|reflexivity].
      destruct (load_object tbl (s_cls s)) as [cls|] eqn:O; [|reflexivity].
      (* all checks pass: then the task is honoured, so F cannot be its result *)
      exfalso.
      rewrite (continue_spec cfg w p t nowait v s tbl cls Hp G D L O) in F.
      destruct nowait; inversion F.
    - rewrite H2, H3, H4, H5. eapply continue_spec; eauto.
  Qed.

  (* the reply and the steps of a continue task depend on the persister only through the requested entry *)
  Theorem continue_exact : forall cfg w1 w2 p t nowait,
    am_get (p, t) (w_pm w1) = am_get (p, t) (w_pm w2) ->
    snd (task_step cfg w1 (continue_body p t nowait)) = snd (task_step cfg w2 (continue_body p t nowait)).
  Proof.
    intros cfg w1 w2 p t nowait H.
    rewrite !continue_body_step. unfold Launcher.do_continue, err.
    match goal with |- context [bind_kw ?r ?o ?kvs] => replace (bind_kw r o kvs) with true by reflexivity end.
    cbn [negb]. destruct (has_persister cfg); cbn [negb]; [|reflexivity].
    replace (arg "pid" _) with (VStr p) by reflexivity.
    replace (arg "tag" _) with (match t with None => VNone | Some s0 => VStr s0 end) by reflexivity.
    assert (T : match (match t with None => VNone | Some s0 => VStr s0 end) with
                | VNone => Some None | VStr s0 => Some (Some s0) | _ => None end = Some t) by (destruct t; reflexivity).
    rewrite T. cbn [spec_step snd]. rewrite H.
    destruct (am_get (p, t) (w_pm w2)) as [v|]; [|reflexivity].
    destruct (decode v) as [s|]; [|reflexivity].
    destruct (continue_loader cfg (s_ldr s)) as [tbl|]; [|reflexivity].
    destruct (load_object tbl (s_cls s)) as [cls|]; [|reflexivity].
    destruct (truthy _); reflexivity.
  Qed.

  (* ---------------------------------------------------------------- loaders *)
  Theorem load_object_table_first : forall t id c, alist_get id t = Some c -> load_object t id = Some c.
  Proof. intros t id c H. unfold Launcher.load_object. now rewrite H. Qed.

  Theorem load_object_default : forall t id,
    alist_get id t = None -> load_object t id = if mem_str id known then Some id else None.
  Proof. intros t id H. unfold Launcher.load_object. now rewrite H. Qed.

  Theorem continue_loader_precedence : forall cfg recorded,
    continue_loader cfg recorded =
      match c_loader cfg, c_lcloader cfg, recorded with
      | Some t, _, _ => Some t                       (* the launcher's own loader *)
      | None, Some t, _ => Some t                    (* the load context's *)
      | None, None, Some n => alist_get n loader_classes   (* the loader class recorded in the checkpoint *)
      | None, None, None => Some []                  (* the default loader *)
      end.
  Proof. intros cfg r. unfold Launcher.continue_loader. destruct (c_loader cfg), (c_lcloader cfg), r; reflexivity. Qed.

  Lemma In_steps_events_init : forall c p p' r, ~ In (EvInit c p) (steps_events p' r).
  Proof. intros c p p' r H. unfold steps_events in H. apply in_map_iff in H as [k [H _]]. discriminate H. Qed.

  (* whenever a create / launch task constructs an instance, its class is the one the launcher's loader gives for the
     identifier in the body — never another one — and the reply / persister entry are about that same instance *)
  Theorem loader_create_launch : forall cfg w id a k persist (b : body) c p,
    (exists nowait, b = launch_body id a k persist nowait) \/ b = create_body id a k persist ->
    In (EvInit c p) (io_before (snd (task_step cfg w b))) ->
    load_object (launcher_loader cfg) id = Some c.
  Proof.
    intros cfg w id a k persist b c p Hb Hin.
    destruct (create_launch_failures cfg w id a k persist b Hb) as [E|[cls [inputs [pidv [p0 [next' [parsed [H1 [H2 [H3 [H4 H5]]]]]]]]]]].
    - rewrite E in Hin. destruct Hin.
    - destruct Hb as [[nowait ->]| ->].
      + rewrite (launch_spec cfg w id a k persist nowait cls inputs pidv p0 next' parsed H1 H2 H3 H4 H5) in Hin.
        destruct nowait; cbn in Hin.
        * destruct Hin as [Hin|[]]. inversion Hin; subst. exact H2.
        * destruct Hin as [Hin|Hin]; [inversion Hin; subst; exact H2|]. now apply In_steps_events_init in Hin.
      + rewrite (create_spec cfg w id a k persist cls inputs pidv p0 next' parsed H1 H2 H3 H4 H5) in Hin.
        cbn in Hin. destruct Hin as [Hin|[]]. inversion Hin; subst. exact H2.
  Qed.

  Theorem loader_unknown_identifier : forall cfg w id a k persist (b : body),
    (exists nowait, b = launch_body id a k persist nowait) \/ b = create_body id a k persist ->
    (persist = true -> has_persister cfg = true) ->
    load_object (launcher_loader cfg) id = None ->
    task_step cfg w b = (w, mk_io (RErr EValue) [] []).
  Proof.
    intros cfg w id a k persist b Hb Hp Hl.
    destruct (create_launch_failures cfg w id a k persist b Hb) as [E|[cls [inputs [pidv [p0 [next' [parsed [H1 [H2 _]]]]]]]]].
    - rewrite E, Hl. destruct persist; cbn [andb]; [rewrite Hp by reflexivity|]; reflexivity.
    - rewrite Hl in H2. discriminate H2.
  Qed.

  (* a continue task that was honoured ran an instance of exactly the class that the loader in force gives for the
     class name stored in the requested checkpoint *)
  Theorem loader_continue : forall cfg w p t nowait w' o,
    task_step cfg w (continue_body p t nowait) = (w', o) -> is_err o = false ->
    exists v s tbl cls,
      am_get (p, t) (w_pm w) = Some v /\ decode v = Some s /\
      continue_loader cfg (s_ldr s) = Some tbl /\ load_object tbl (s_cls s) = Some cls /\
      w_procs w' = w_procs w ++ [loaded_prec (p, t) cls s] /\ w_pm w' = w_pm w.
  Proof.
    intros cfg w p t nowait w' o H E.
    destruct (continue_failures cfg w p t nowait) as [F|[v [s [tbl [cls [H1 [H2 [H3 [H4 H5]]]]]]]]].
    - rewrite F in H. inversion H; subst. discriminate E.
    - rewrite (continue_spec cfg w p t nowait v s tbl cls H1 H2 H3 H4 H5) in H.
      exists v, s, tbl, cls. inversion H; subst. cbn. repeat split; auto.
  Qed.

  (* coherence of a table loader with itself: what it writes it reads back *)
  Lemma rfind_get : forall c t id, NoDup (map fst t) -> rfind c t = Some id -> alist_get id t = Some c.
  Proof.
    intros c t. induction t as [|[id' c'] t IH]; intros id ND H; [discriminate H|].
    cbn in H. inversion ND as [|x l Hnin ND']; subst. cbn [alist_get].
    destruct (String.eqb c c') eqn:E.
    - inversion H; subst. rewrite String.eqb_refl. apply String.eqb_eq in E. now subst.
    - specialize (IH id ND' H).
      destruct (String.eqb id id') eqn:E2; [|exact IH].
      apply String.eqb_eq in E2; subst. exfalso. apply Hnin.
      clear -IH. induction t as [|[a b] t IHt]; [discriminate IH|].
      cbn in *. destruct (String.eqb id' a) eqn:E; [left; now apply String.eqb_eq in E|right; auto].
  Qed.

  Theorem identify_load_roundtrip : forall t c,
    NoDup (map fst t) ->
    (rfind c t <> None \/ (alist_get c t = None /\ mem_str c known = true)) ->
    load_object t (identify t c) = Some c.
  Proof.
    intros t c ND H. unfold Launcher.load_object, identify.
    destruct (rfind c t) as [id|] eqn:R.
    - now rewrite (rfind_get c t id ND R).
    - destruct H as [H|[H1 H2]]; [congruence|]. now rewrite H1, H2.
  Qed.

  (* ---------------------------------------------------------------- create(persist) ; continue  ==  launch(persist) *)
  Theorem create_continue_equiv_launch : forall cfg w id a k nowait cls inputs pidv p next' parsed tbl,
    has_persister cfg = true ->
    load_object (launcher_loader cfg) id = Some cls ->
    unpack_init a k = Some (inputs, pidv) ->
    choose_pid (w_next w) pidv = Some (p, next') ->
    construct cls inputs = inr parsed ->
    (* the loader in force for continue reads back the class name the persister's loader wrote *)
    continue_loader cfg (s_ldr (snapshot_of cfg cls p parsed (ckpt0 cls parsed))) = Some tbl ->
    load_object tbl (s_cls (snapshot_of cfg cls p parsed (ckpt0 cls parsed))) = Some cls ->
    forall w1 oc w2 ok w3 ol,
      task_step cfg w (create_body id a k true) = (w1, oc) ->
      task_step cfg w1 (continue_body p None nowait) = (w2, ok) ->
      task_step cfg w (launch_body id a k true nowait) = (w3, ol) ->
      io_reply oc = RPid p /\
      io_reply ok = io_reply ol /\
      io_before oc ++ io_before ok = io_before ol /\
      io_after oc ++ io_after ok = io_after ol /\
      w_pm w2 = w_pm w3 /\ w_next w2 = w_next w3 /\
      w_procs w2 = w_procs w ++ [new_prec cls p parsed false;
                                 loaded_prec (p, None) cls (snapshot_of cfg cls p parsed (ckpt0 cls parsed))] /\
      w_procs w3 = w_procs w ++ [new_prec cls p parsed true].
  Proof.
    intros cfg w id a k nowait cls inputs pidv p next' parsed tbl Hp Hl Hu Hc Hk Ht Ho w1 oc w2 ok w3 ol S1 S2 S3.
    rewrite (create_spec cfg w id a k true cls inputs pidv p next' parsed (fun _ => Hp) Hl Hu Hc Hk) in S1.
    rewrite (launch_spec cfg w id a k true nowait cls inputs pidv p next' parsed (fun _ => Hp) Hl Hu Hc Hk) in S3.
    inversion S1; subst w1 oc; clear S1. inversion S3; subst w3 ol; clear S3.
    rewrite (continue_spec cfg _ p None nowait (stored cfg cls p parsed)
               (snapshot_of cfg cls p parsed (ckpt0 cls parsed)) tbl cls) in S2; auto.
    - inversion S2; subst w2 ok; clear S2. unfold created_world. cbn [w_pm w_procs w_next].
      rewrite <- app_assoc. cbn [app].
      assert (SI : s_inputs (snapshot_of cfg cls p parsed (ckpt0 cls parsed)) = parsed)
        by (unfold snapshot_of; destruct (c_persister cfg) as [[[n t]|]|]; reflexivity).
      assert (SC : s_ckpt (snapshot_of cfg cls p parsed (ckpt0 cls parsed)) = ckpt0 cls parsed)
        by (unfold snapshot_of; destruct (c_persister cfg) as [[[n t]|]|]; reflexivity).
      assert (SP : s_pid (snapshot_of cfg cls p parsed (ckpt0 cls parsed)) = p)
        by (unfold snapshot_of; destruct (c_persister cfg) as [[[n t]|]|]; reflexivity).
      rewrite SI, SC, SP. destruct nowait; cbn; auto 10.
    - unfold created_world. cbn [w_pm]. rewrite am_get_set, key_eqb_refl. reflexivity.
    - unfold stored. apply decode_encode.
  Qed.

  (* ---------------------------------------------------------------- histories *)
  Lemma make_proc_inv : forall cfg w kvs w' pr,
    make_proc cfg w kvs = inr (w', pr) ->
    exists cls p parsed next',
      pr = new_prec cls p parsed false /\
      w' = created_world cfg w (truthy (arg "persist" kvs)) cls p parsed next' false /\
      (truthy (arg "persist" kvs) = true -> has_persister cfg = true).
  Proof.
    intros cfg w kvs w' pr H. unfold Launcher.make_proc in H.
    destruct (truthy (arg "persist" kvs) && negb (has_persister cfg)) eqn:PR; [discriminate H|].
    destruct (arg "process_class" kvs); try discriminate H.
    destruct (load_object _ _) as [cls|]; try discriminate H.
    destruct (unpack_init _ _) as [[i pv]|]; try discriminate H.
    destruct (choose_pid _ _) as [[p n']|]; try discriminate H.
    destruct (construct cls i) as [e|parsed]; try discriminate H.
    exists cls, p, parsed, n'. split; [|split].
    - inversion H; reflexivity.
    - unfold created_world. destruct (truthy (arg "persist" kvs)); inversion H; reflexivity.
    - intros P. rewrite P in PR. cbn in PR. now destruct (has_persister cfg).
  Qed.

  (* one task: either an error (nothing changed) or exactly one more process; the persister gains at most the entry
     (pid, None) of that process, and only with a persister *)
  Theorem task_step_shape : forall cfg w b w' o,
    task_step cfg w b = (w', o) ->
    (is_err o = true /\ w' = w)
    \/ (is_err o = false /\ exists pr,
          w_procs w' = w_procs w ++ [pr] /\
          (w_pm w' = w_pm w \/
           (has_persister cfg = true /\ p_origin pr = FromNew /\ exists v, w_pm w' = am_set (p_pid pr, None) v (w_pm w)))).
  Proof.
    intros cfg w b w' o H.
    destruct (is_err o) eqn:E.
    { left. split; auto. eapply task_error_no_effect; eauto. }
    right. split; auto.
    unfold Launcher.task_step, err in H.
    destruct (alist_get "task" b) as [ty|]; [|inversion H; subst; discriminate E].
    destruct (val_eqb ty (VStr "launch") || val_eqb ty (VStr "continue") || val_eqb ty (VStr "create"));
      [|inversion H; subst; discriminate E].
    assert (HM : forall kvs w1 pr (ran : bool), make_proc cfg w kvs = inr (w1, pr) ->
              exists pr', w_procs (if ran then mark_last_ran w1 else w1) = w_procs w ++ [pr'] /\
                (w_pm (if ran then mark_last_ran w1 else w1) = w_pm w \/
                 (has_persister cfg = true /\ p_origin pr' = FromNew /\
                  exists v, w_pm (if ran then mark_last_ran w1 else w1) = am_set (p_pid pr', None) v (w_pm w)))).
    { intros kvs w1 pr ran M. apply make_proc_inv in M as [cls [p [parsed [n' [-> [-> HP]]]]]].
      unfold created_world.
      exists (new_prec cls p parsed ran). destruct ran.
      - rewrite mark_last_ran_app. cbn [w_procs w_pm set_ran new_prec p_pid p_cls p_inputs p_ckpt p_origin]. split; [reflexivity|].
        destruct (truthy (arg "persist" kvs)); [right|left; reflexivity].
        split; [auto|]. split; [reflexivity|]. eexists; reflexivity.
      - cbn [w_procs w_pm new_prec p_pid p_origin]. split; [reflexivity|].
        destruct (truthy (arg "persist" kvs)); [right|left; reflexivity].
        split; [auto|]. split; [reflexivity|]. eexists; reflexivity. }
    assert (HL : forall kvs, do_launch cfg w kvs = (w', o) -> exists pr, w_procs w' = w_procs w ++ [pr] /\
              (w_pm w' = w_pm w \/ (has_persister cfg = true /\ p_origin pr = FromNew /\
                                    exists v, w_pm w' = am_set (p_pid pr, None) v (w_pm w)))).
    { intros kvs H0. unfold Launcher.do_launch, err in H0.
      destruct (negb (bind_kw _ _ kvs)); [inversion H0; subst; discriminate E|].
      destruct (make_proc cfg w kvs) as [e|[w1 pr]] eqn:M; [inversion H0; subst; discriminate E|].
      destruct (truthy (arg "nowait" kvs)); inversion H0; subst; exact (HM kvs w1 pr true M). }
    assert (HC : forall kvs, do_create cfg w kvs = (w', o) -> exists pr, w_procs w' = w_procs w ++ [pr] /\
              (w_pm w' = w_pm w \/ (has_persister cfg = true /\ p_origin pr = FromNew /\
                                    exists v, w_pm w' = am_set (p_pid pr, None) v (w_pm w)))).
    { intros kvs H0. unfold Launcher.do_create, err in H0.
      destruct (negb (bind_kw _ _ kvs)); [inversion H0; subst; discriminate E|].
      destruct (make_proc cfg w kvs) as [e|[w1 pr]] eqn:M; [inversion H0; subst; discriminate E|].
      inversion H0; subst; exact (HM kvs w' pr false M). }
    assert (HK : forall kvs, do_continue cfg w kvs = (w', o) -> exists pr, w_procs w' = w_procs w ++ [pr] /\
              (w_pm w' = w_pm w \/ (has_persister cfg = true /\ p_origin pr = FromNew /\
                                    exists v, w_pm w' = am_set (p_pid pr, None) v (w_pm w)))).
    { intros kvs H0. unfold Launcher.do_continue, err in H0.
      repeat match type of H0 with
      | (if ?c then _ else _) = _ => destruct c
      | (match ?c with _ => _ end) = _ => destruct c
      end; inversion H0; subst; try discriminate E; eexists; (split; [reflexivity|left; reflexivity]). }
    destruct (alist_get "args" b) as [[]|];
      try (inversion H; subst; discriminate E);
      (destruct (val_eqb ty (VStr "launch")); [apply (HL _ H)|];
       destruct (val_eqb ty (VStr "continue")); [apply (HK _ H)|];
       apply (HC _ H)).
  Qed.

  Definition is_task (h : hitem) : bool := match h with HTask _ => true | HEnv _ => false end.

  Lemma run_cons : forall cfg w x rest,
    run cfg w (x :: rest) =
      (fst (run cfg (fst (step cfg w x)) rest), snd (step cfg w x) :: snd (run cfg (fst (step cfg w x)) rest)).
  Proof.
    intros. cbn [Launcher.run]. destruct (step cfg w x) as [w1 o]. cbn [fst snd].
    destruct (Launcher.run known loader_classes construct ckpt0 run_to_end cfg w1 rest). reflexivity.
  Qed.

  (* over ANY history: the launcher never removes or rewrites a tagged checkpoint and never deletes anything; what
     changes is at most the untagged entries of processes it created *)
  Theorem history_tasks_preserve_checkpoints : forall cfg h w,
    forallb is_task h = true ->
    forall k, (snd k <> None -> am_get k (w_pm (fst (run cfg w h))) = am_get k (w_pm w))
           /\ (am_get k (w_pm w) <> None -> am_get k (w_pm (fst (run cfg w h))) <> None).
  Proof.
    intros cfg h. induction h as [|x rest IH]; intros w HT k; [cbn; auto|].
    cbn [forallb] in HT. apply andb_prop in HT as [Hx Hr].
    rewrite run_cons. cbn [fst].
    destruct x as [b|op]; [|discriminate Hx]. cbn [Launcher.step].
    destruct (Launcher.task_step known loader_classes construct ckpt0 run_to_end cfg w b) as [w1 o] eqn:S. cbn [fst].
    specialize (IH w1 Hr k). destruct IH as [IH1 IH2].
    apply task_step_shape in S as [[_ ->]|[_ [pr [_ [Hpm|[_ [_ [v Hpm]]]]]]]]; auto; rewrite Hpm in *.
    - auto.
    - split.
      + intros Hk. rewrite IH1 by exact Hk. rewrite am_get_set.
        destruct (key_eqb k (p_pid pr, None)) eqn:E; [|reflexivity].
        apply key_eqb_eq in E. subst k. now contradiction Hk.
      + intros Hk. apply IH2. rewrite am_get_set. destruct (key_eqb k (p_pid pr, None)); [discriminate|exact Hk].
  Qed.

  (* without a persister nothing is ever stored, whatever is asked *)
  Theorem history_no_persister : forall cfg h w,
    has_persister cfg = false -> w_pm (fst (run cfg w h)) = w_pm w.
  Proof.
    intros cfg h. induction h as [|x rest IH]; intros w HP; [reflexivity|].
    rewrite run_cons. cbn [fst]. rewrite IH by exact HP.
    destruct x as [b|op]; cbn [Launcher.step].
    - destruct (Launcher.task_step known loader_classes construct ckpt0 run_to_end cfg w b) as [w1 o] eqn:S. cbn [fst].
      apply task_step_shape in S as [[_ ->]|[_ [pr [_ [Hpm|[HP' _]]]]]]; auto. congruence.
    - rewrite HP. reflexivity.
  Qed.

  (* the processes that exist after a history: one per honoured task, in order; nothing for a failed one *)
  Fixpoint honoured (os : list iobs) : nat :=
    match os with
    | [] => 0
    | o :: r => (match io_reply o with RErr _ | RNone => 0 | _ => 1 end) + honoured r
    end.

  Lemma task_reply_not_none : forall cfg w b, io_reply (snd (task_step cfg w b)) <> RNone.
  Proof.
    intros cfg w b. unfold Launcher.task_step, err, Launcher.do_launch, Launcher.do_create, Launcher.do_continue, err.
    repeat match goal with
    | |- io_reply (snd (if ?c then _ else _)) <> _ => destruct c
    | |- io_reply (snd (match ?c with _ => _ end)) <> _ => destruct c
    | |- io_reply (snd (let (_, _) := ?c in _)) <> _ => destruct c
    end; cbn; discriminate.
  Qed.

  Theorem history_processes : forall cfg h w,
    exists new, w_procs (fst (run cfg w h)) = w_procs w ++ new /\ List.length new = honoured (snd (run cfg w h)).
  Proof.
    intros cfg h. induction h as [|x rest IH]; intros w.
    - exists []. cbn. now rewrite app_nil_r.
    - rewrite run_cons. cbn [fst snd honoured].
      destruct x as [b|op]; cbn [Launcher.step].
      + pose proof (task_reply_not_none cfg w b) as NN.
        destruct (Launcher.task_step known loader_classes construct ckpt0 run_to_end cfg w b) as [w1 o] eqn:S. cbn [fst snd] in *.
        destruct (IH w1) as [new [H1 H2]].
        apply task_step_shape in S as [[E ->]|[E [pr [Hp _]]]].
        * exists new. split; [exact H1|]. unfold is_err in E. destruct (io_reply o); try discriminate E. exact H2.
        * exists (pr :: new). rewrite H1, Hp, <- app_assoc. split; [reflexivity|].
          unfold is_err in E. cbn [List.length]. destruct (io_reply o) eqn:R; try discriminate E; try (rewrite H2; reflexivity).
          now contradiction NN.
      + destruct (IH (fst (if has_persister cfg
                           then (mk_world (fst (spec_step (w_pm w) op)) (w_procs w) (w_next w), mk_io RNone [] [])
                           else (w, mk_io RNone [] [])))) as [new [H1 H2]].
        exists new. destruct (has_persister cfg); cbn [fst snd io_reply] in *; auto.
  Qed.

  (* a failed task is as if it had never been sent: dropping the failed items of a history changes neither the final
     world nor any other reply *)
  Fixpoint keep {A} (os : list iobs) (l : list A) : list A :=
    match os, l with
    | o :: os', x :: l' => if is_err o then keep os' l' else x :: keep os' l'
    | _, _ => []
    end.

  Theorem history_errors_inert : forall cfg h w,
    run cfg w (keep (snd (run cfg w h)) h) = (fst (run cfg w h), keep (snd (run cfg w h)) (snd (run cfg w h))).
  Proof.
    intros cfg h. induction h as [|x rest IH]; intros w; [reflexivity|].
    rewrite run_cons. cbn [fst snd keep].
    destruct (Launcher.step known loader_classes construct ckpt0 run_to_end cfg w x) as [w1 o] eqn:S. cbn [fst snd].
    destruct (is_err o) eqn:E.
    - assert (w1 = w) as ->.
      { destruct x as [b|op]; cbn [Launcher.step] in S.
        - eapply task_error_no_effect; eauto.
        - destruct (has_persister cfg); inversion S; subst; discriminate E. }
      apply IH.
    - rewrite run_cons, S. cbn [fst snd]. rewrite IH. reflexivity.
  Qed.

  (* conversely: TaskRejected comes from nowhere else (given that constructors do not raise it themselves) *)
  Hypothesis construct_not_rejected : forall c i, construct c i <> inl ERejected.

  Lemma make_proc_rejected_inv : forall cfg w kvs,
    make_proc cfg w kvs = inl ERejected -> truthy (arg "persist" kvs) && negb (has_persister cfg) = true.
  Proof.
    intros cfg w kvs H. unfold Launcher.make_proc in H.
    destruct (truthy (arg "persist" kvs) && negb (has_persister cfg)); [reflexivity|].
    exfalso.
    destruct (arg "process_class" kvs); try discriminate H.
    destruct (load_object _ _); try discriminate H.
    destruct (unpack_init _ _) as [[i pv]|]; try discriminate H.
    destruct (choose_pid _ _) as [[p n']|]; try discriminate H.
    destruct (construct s0 i) eqn:C; try discriminate H.
    inversion H; subst. eapply construct_not_rejected; eauto.
  Qed.

  Theorem reject_only : forall cfg w b,
    io_reply (snd (task_step cfg w b)) = RErr ERejected -> rejectable cfg b = true.
  Proof.
    intros cfg w b H. unfold rejectable. unfold Launcher.task_step, err in H.
    destruct (alist_get "task" b) as [ty|]; [|discriminate H].
    destruct (val_eqb ty (VStr "launch") || val_eqb ty (VStr "continue") || val_eqb ty (VStr "create")); [|reflexivity].
    assert (HL : forall kvs, io_reply (snd (do_launch cfg w kvs)) = RErr ERejected ->
                 bind_kw ["process_class"; "persist"; "nowait"] ["init_args"; "init_kwargs"] kvs
                   && truthy (arg "persist" kvs) && negb (has_persister cfg) = true).
    { intros kvs H0. unfold Launcher.do_launch, err in H0.
      destruct (bind_kw _ _ kvs); cbn [negb] in H0; [|discriminate H0].
      destruct (make_proc cfg w kvs) as [e|[w1 pr]] eqn:M.
      - cbn in H0. inversion H0; subst. apply make_proc_rejected_inv in M. cbn. exact M.
      - destruct (truthy (arg "nowait" kvs)); discriminate H0. }
    assert (HC : forall kvs, io_reply (snd (do_create cfg w kvs)) = RErr ERejected ->
                 bind_kw ["process_class"; "persist"] ["init_args"; "init_kwargs"] kvs
                   && truthy (arg "persist" kvs) && negb (has_persister cfg) = true).
    { intros kvs H0. unfold Launcher.do_create, err in H0.
      destruct (bind_kw _ _ kvs); cbn [negb] in H0; [|discriminate H0].
      destruct (make_proc cfg w kvs) as [e|[w1 pr]] eqn:M.
      - cbn in H0. inversion H0; subst. apply make_proc_rejected_inv in M. cbn. exact M.
      - discriminate H0. }
    assert (HK : forall kvs, io_reply (snd (do_continue cfg w kvs)) = RErr ERejected ->
                 bind_kw ["pid"; "nowait"] ["tag"] kvs && negb (has_persister cfg) = true).
    { intros kvs H0. unfold Launcher.do_continue, err in H0.
      destruct (bind_kw _ _ kvs); cbn [negb] in H0; [|discriminate H0].
      destruct (has_persister cfg); cbn [negb] in *; [|reflexivity].
      exfalso.
      repeat match type of H0 with
      | io_reply (snd (if ?c then _ else _)) = _ => destruct c
      | io_reply (snd (match ?c with _ => _ end)) = _ => destruct c
      end; discriminate H0. }
    destruct (alist_get "args" b) as [[]|]; try discriminate H;
      (destruct (val_eqb ty (VStr "launch")); [apply HL; exact H|];
       destruct (val_eqb ty (VStr "continue")); [apply HK; exact H|];
       apply HC; exact H).
  Qed.
End Proofs.
