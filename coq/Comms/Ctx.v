(* Comms/Ctx.v — the context-local process stack (property C18).  Definitions only, no proofs.

   Executable model of
     processes.py : PROCESS_STACK (a ContextVar holding a list), Process.current, Process._process_scope
                    (copy; append; set ... assert current() is self; copy; pop; set), Process._run_task,
                    Process.call_soon, Process.launch, Process.execute (re-entrant run_until_complete),
                    Process.step / step_until_terminated (where the scope is entered and where it is NOT:
                    the transition after the step, hence every life-cycle hook, runs outside the scope),
                    Process.kill / resume / fail / pause / play as far as they decide in WHICH context hooks run
     events.py    : ProcessCallback.run
     base/state_machine.py : transition_to and the order in which it dispatches the hooks
   and of the facts of CPython/asyncio it leans on: every Task owns a COPY of the context of its creator
   taken when the task is created; a task's context is only ever changed by code running inside that task;
   a nested run_until_complete (nest_asyncio) runs other tasks' callbacks while the caller's step is suspended.

   Shape.  A finite table of process definitions (pid = index).  Asyncio tasks, each with its own value of
   PROCESS_STACK ([t_ctx]) and a stack of frames of instructions; a frame with [f_scope = Some p] is the body
   of a `with p._process_scope():` block.  The machine executes one instruction of the running task at a time
   ([micro]); when no task is running the next item of the schedule — an arbitrary list, the quantifier of the
   theorems — says which ready task runs its next segment (up to its next await), that the innermost nested
   loop returns, or that the environment performs control calls from outside any process. *)
From Coq Require Import List Bool Arith.
From RecordUpdate Require Import RecordUpdate.
Import ListNotations.

Definition pid := nat.
Definition tid := nat.

(* ------------------------------------------------------------------ programs (the data the harness generates) *)
Inductive hook :=
| HCreate | HRun | HRunning | HExitRunning | HWait | HWaiting | HExitWaiting
| HFinish | HFinished | HKill | HKilled | HExcept | HExcepted | HTerminated | HClose
| HPausing | HPaused | HPlaying.

(* the kinds of user code of a process in which Process.current() is sampled *)
Inductive kind :=
| KStep                  (* the run() function *)
| KCont                  (* a continuation: the function named by Continue(...) / Wait(...) *)
| KOutEmitting           (* on_output_emitting, called by out() *)
| KOutEmitted            (* on_output_emitted, called by out() *)
| KCallback              (* a callback scheduled with call_soon *)
| KHook (h : hook).      (* a life-cycle hook on_xxx *)

(* the kinds that the code runs inside `_process_scope` by construction *)
Definition scoped (k : kind) : bool := match k with KHook _ => false | _ => true end.

Inductive ctl := CKill | CResume | CPause | CPlay.

Inductive action :=
| ASample                          (* record (self, kind of this code, Process.current()) *)
| AYield                           (* await asyncio.sleep(0) *)
| AOut                             (* self.out(...): on_output_emitting, on_output_emitted *)
| ACallSoon (q : pid) (cb : nat)   (* q.call_soon(callback number cb of q) *)
| ALaunch (c : pid)                (* self.launch(C): constructor, loop.create_task(c.step_until_terminated()) *)
| AExec (c : pid)                  (* C(...).execute(): constructor, nested run_until_complete *)
| ACtl (q : pid) (c : ctl)         (* q.kill() / q.resume() / q.pause() / q.play() *)
| ARaise.                          (* raise: the rest of the body is not executed *)

Inductive link := LkContinue | LkWait.   (* how a step hands over to the next: Continue(next) / Wait(next) *)

Record pdef := mk_pdef {
  d_steps : list (list action * link);   (* run, then the continuations; the link of the last step is unused: it returns a value *)
  d_cbs : list (list action)             (* bodies of the callbacks this process may be asked to call_soon *)
}.

(* what the environment (code outside any process: the harness) does between two loop callbacks *)
Inductive eact :=
| EStart (p : pid)                 (* P(...); loop.create_task(p.step_until_terminated()) *)
| ECtl (q : pid) (c : ctl)
| ECallSoon (q : pid) (cb : nat).

Inductive sitem :=
| SRun (t : tid)                   (* the (innermost) loop runs the next callback of task t *)
| SRet                             (* the innermost nested run_until_complete returns *)
| SExt (acts : list eact).         (* environment actions, in a fresh context *)

(* ------------------------------------------------------------------ run-time data *)
Inductive life :=
| LfNone | LfCreated | LfRunning (k : nat) | LfWaiting (k : nat) | LfFinished | LfKilled | LfExcepted.

Inductive wfut := WPending | WResolved | WInterrupted.     (* Waiting._waiting_future *)

Record pstate := mk_ps {
  ps_life : life;
  ps_stepping : bool;        (* Process._stepping *)
  ps_killing : bool;         (* an interrupt action that kills is pending *)
  ps_wfut : wfut;
  ps_raised : bool;          (* the step body in flight raised *)
  ps_paused : bool;          (* Process._paused is a pending future *)
  ps_pausing : bool          (* an interrupt action that pauses is pending *)
}.

Definition ps_none : pstate := mk_ps LfNone false false WPending false false false.
Definition ps_fresh : pstate := mk_ps LfCreated false false WPending false false false.

Inductive instr :=
| IObs (p : pid) (k : kind)            (* user code of p of kind k samples Process.current() *)
| IYield
| ISpawnStepper (p : pid)              (* loop.create_task(p.step_until_terminated()) *)
| ISpawnCallback (q : pid) (cb : nat)  (* loop.create_task(ProcessCallback(q, q._run_task, cb).run()) *)
| IRunCb (q : pid) (cb : nat)          (* ProcessCallback.run: await q._run_task(cb) *)
| ICbDone (q : pid)                    (* ... except Exception: q.callback_excepted(...) *)
| ICreate (p : pid)                    (* the constructor: transition to CREATED *)
| INest (p : pid)                      (* p.execute() *)
| ICtl (q : pid) (c : ctl)
| IStepLoop (p : pid)                  (* head of the loop of step_until_terminated *)
| IStep (p : pid)                      (* Process.step up to and including `with self._process_scope()` *)
| IEndStep (p : pid) (next : life)     (* the rest of Process.step, after _run_task returned *)
| IWaitResume (p : pid)                (* await self._waiting_future *)
| IAwaitPaused (p : pid)               (* await self._paused *)
| IRaised (p : pid)                    (* the body raised: unwind to the scope exit *)
| IGuardOpen (p : pid)                 (* @ensure_not_closed: raises ClosedError when p was closed (terminated) *)
| IFire (p : pid) (hs : list hook).    (* dispatch of the hooks of one transition / control call of p *)

Inductive tstatus :=
| TReady                  (* a callback of the task is in the loop's ready queue *)
| TRunning                (* on the (Python) call stack, executing *)
| TNest (child : tid)     (* on the call stack, inside run_until_complete(child) *)
| TBlocked (p : pid) (paused : bool)   (* suspended on p._waiting_future (false) / p._paused (true) *)
| TDone.

Record frame := mk_frame {
  f_scope : option pid;          (* Some p: this frame is the body of `with p._process_scope()` *)
  f_saved : list pid;            (* ghost: the value of PROCESS_STACK when the frame was entered *)
  f_code : list instr
}.

Record task := mk_task {
  t_ctx : list pid;              (* the value of PROCESS_STACK in this task's context *)
  t_base : list pid;             (* ghost: its value when the task was created *)
  t_frames : list frame;         (* head = innermost *)
  t_status : tstatus
}.

Inductive obs :=
| OCode (who : pid) (k : kind) (cur : option pid)
| ORun (t : tid)
| ORet
| OExt
| OEnter (t : tid) (p : pid) (before : list pid)   (* task t enters `with p._process_scope()`; PROCESS_STACK just before *)
| OExit (t : tid) (p : pid) (after : list pid).    (* task t has left that block; PROCESS_STACK just after *)

Record cfg := mk_cfg {
  c_procs : list pstate;
  c_tasks : list task;
  c_running : list tid;          (* tasks on the call stack, head = innermost *)
  c_trace : list obs;            (* newest first *)
  c_bad : nat;                   (* schedule items that were not applicable *)
  c_assert : nat                 (* failures of `assert Process.current() is self` in _process_scope *)
}.

#[export] Instance eta_task : Settable _ := settable! mk_task <t_ctx; t_base; t_frames; t_status>.
#[export] Instance eta_cfg : Settable _ := settable! mk_cfg <c_procs; c_tasks; c_running; c_trace; c_bad; c_assert>.
#[export] Instance eta_ps : Settable _ :=
  settable! mk_ps <ps_life; ps_stepping; ps_killing; ps_wfut; ps_raised; ps_paused; ps_pausing>.

(* ------------------------------------------------------------------ helpers *)
Fixpoint upd {A} (n : nat) (x : A) (l : list A) : list A :=
  match l, n with
  | [], _ => []
  | _ :: r, 0 => x :: r
  | y :: r, S m => y :: upd m x r
  end.

(* Process.current(): the last element of the stack, None when it is empty *)
Fixpoint top (s : list pid) : option pid :=
  match s with
  | [] => None
  | [x] => Some x
  | _ :: r => top r
  end.

Definition getp (ps : list pstate) (p : pid) : pstate := nth p ps ps_none.
Definition setp (ps : list pstate) (p : pid) (s : pstate) : list pstate := upd p s ps.

Definition empty_def : pdef := mk_pdef [] [].
Definition get_def (defs : list pdef) (p : pid) : pdef := nth p defs empty_def.

Definition terminated (l : life) : bool :=
  match l with LfFinished | LfKilled | LfExcepted => true | _ => false end.

(* StateMachine.transition_to: EXITING hook of the state left ... *)
Definition exit_hooks (l : life) : list hook :=
  match l with LfRunning _ => [HExitRunning] | LfWaiting _ => [HExitWaiting] | _ => [] end.

(* ... ENTERING, ENTERED hooks of the state entered, on_terminated (which calls close -> on_close) *)
Definition enter_hooks (l : life) : list hook :=
  match l with
  | LfRunning _ => [HRun; HRunning]
  | LfWaiting _ => [HWait; HWaiting]
  | LfFinished => [HFinish; HFinished; HTerminated; HClose]
  | LfKilled => [HKill; HKilled; HTerminated; HClose]
  | LfExcepted => [HExcept; HExcepted; HTerminated; HClose]
  | LfCreated => [HCreate]
  | LfNone => []
  end.

Definition transition_hooks (from to : life) : list hook := exit_hooks from ++ enter_hooks to.

(* ------------------------------------------------------------------ user code -> instructions *)
Definition compile_action (p : pid) (k : kind) (a : action) : list instr :=
  match a with
  | ASample => [IObs p k]
  | AYield => [IYield]
  | AOut => [IGuardOpen p; IObs p KOutEmitting; IObs p KOutEmitted]
  | ACallSoon q cb => [ISpawnCallback q cb]
  | ALaunch c => [IGuardOpen p; ICreate c; ISpawnStepper c]
  | AExec c => [ICreate c; INest c]
  | ACtl q c => [ICtl q c]
  | ARaise => [IRaised p]
  end.

Definition compile (p : pid) (k : kind) (acts : list action) : list instr :=
  flat_map (compile_action p k) acts.

Definition compile_eact (a : eact) : list instr :=
  match a with
  | EStart p => [ICreate p; ISpawnStepper p]
  | ECtl q c => [ICtl q c]
  | ECallSoon q cb => [ISpawnCallback q cb]
  end.

Definition compile_env (acts : list eact) : list instr := flat_map compile_eact acts.

Definition step_kind (k : nat) : kind := match k with 0 => KStep | _ => KCont end.

(* the state the step function number k asks for when it returns normally *)
Definition next_after (d : pdef) (k : nat) : life :=
  match nth_error (d_steps d) k with
  | Some (_, lk) =>
      if S k <? length (d_steps d)
      then match lk with LkContinue => LfRunning (S k) | LkWait => LfWaiting (S k) end
      else LfFinished
  | None => LfFinished
  end.

(* State.execute of the current state: the code run inside the scope, and the next state it computes *)
Definition body_of (defs : list pdef) (p : pid) (l : life) : list instr * life :=
  match l with
  | LfCreated => ([], LfRunning 0)
  | LfRunning k =>
      let d := get_def defs p in
      (match nth_error (d_steps d) k with Some (acts, _) => compile p (step_kind k) acts | None => [] end,
       next_after d k)
  | LfWaiting k => ([IWaitResume p], LfRunning k)
  | _ => ([], l)
  end.

Definition cb_body (defs : list pdef) (q : pid) (cb : nat) : list action :=
  nth cb (d_cbs (get_def defs q)) [].

(* ------------------------------------------------------------------ the effect of one instruction *)
Record effect := mk_eff {
  e_code : list instr;                      (* prepended to the rest of the current frame *)
  e_push : option (pid * list instr);       (* enter `with p._process_scope():` with this body *)
  e_unwind : bool;                          (* an exception propagates: drop the rest of the current frame *)
  e_emit : list obs;
  e_spawn : list (list instr);              (* loop.create_task: new tasks with a copy of the current context *)
  e_stat : tstatus;                         (* TRunning: the task keeps running *)
  e_procs : list pstate;
  e_wake : list (pid * bool)                (* the futures p._waiting_future (false) / p._paused (true) that were resolved *)
}.

#[export] Instance eta_eff : Settable _ :=
  settable! mk_eff <e_code; e_push; e_unwind; e_emit; e_spawn; e_stat; e_procs; e_wake>.

Definition eff0 (ps : list pstate) : effect := mk_eff [] None false [] [] TRunning ps [].

Definition hook_obs (p : pid) (hs : list hook) : list instr := map (fun h => IObs p (KHook h)) hs.

(* Process.kill *)
Definition do_kill (ps : list pstate) (q : pid) : effect :=
  let s := getp ps q in
  match ps_life s with
  | LfNone | LfFinished | LfKilled | LfExcepted => eff0 ps
  | l =>
      if ps_killing s then eff0 ps
      else if ps_stepping s then
        let s' := s <| ps_killing := true |> <| ps_pausing := false |> in
        match l, ps_wfut s with
        | LfWaiting _, WPending =>      (* Waiting.interrupt: the waiting future is failed with the interruption *)
            eff0 (setp ps q (s' <| ps_wfut := WInterrupted |>)) <| e_wake := [(q, false)] |>
        | _, _ => eff0 (setp ps q s')
        end
      else
        (* not stepping: the transition happens here, in the caller's context.  on_terminated releases _paused *)
        eff0 (setp ps q (s <| ps_life := LfKilled |>))
          <| e_code := [IFire q (transition_hooks l LfKilled)] |>
          <| e_wake := [(q, true)] |>
  end.

(* Process.resume (an `event` valid in the WAITING state only) *)
Definition do_resume (ps : list pstate) (q : pid) : effect :=
  let s := getp ps q in
  match ps_life s, ps_wfut s with
  | LfWaiting _, WPending => eff0 (setp ps q (s <| ps_wfut := WResolved |>)) <| e_wake := [(q, false)] |>
  | _, _ => eff0 ps
  end.

(* Process.pause *)
Definition do_pause (ps : list pstate) (q : pid) : effect :=
  let s := getp ps q in
  match ps_life s with
  | LfNone | LfFinished | LfKilled | LfExcepted => eff0 ps
  | l =>
      if ps_paused s then eff0 ps
      else if ps_pausing s then eff0 ps
      else if ps_stepping s then
        let s' := s <| ps_pausing := true |> <| ps_killing := false |> in
        match l, ps_wfut s with
        | LfWaiting _, WPending =>
            eff0 (setp ps q (s' <| ps_wfut := WInterrupted |>)) <| e_wake := [(q, false)] |>
        | _, _ => eff0 (setp ps q s')
        end
      else
        eff0 (setp ps q (s <| ps_paused := true |>)) <| e_code := [IFire q [HPausing; HPaused]] |>
  end.

(* Process.play *)
Definition do_play (ps : list pstate) (q : pid) : effect :=
  let s := getp ps q in
  if ps_paused s then
    eff0 (setp ps q (s <| ps_paused := false |>))
      <| e_code := [IFire q [HPlaying]] |> <| e_wake := [(q, true)] |>
  else eff0 (setp ps q (s <| ps_pausing := false |>)).

(* Process.fail, reached from callback_excepted *)
Definition do_fail (ps : list pstate) (q : pid) : effect :=
  let s := getp ps q in
  match ps_life s with
  | LfNone | LfFinished | LfKilled | LfExcepted => eff0 ps
  | l =>
      (* Waiting.exit resolves a still pending waiting future; on_terminated releases _paused *)
      eff0 (setp ps q (s <| ps_life := LfExcepted |> <| ps_wfut := WResolved |>))
        <| e_code := [IFire q (transition_hooks l LfExcepted)] |> <| e_wake := [(q, false); (q, true)] |>
  end.

(* [fl]: do the hook dispatches run inside `_process_scope`?  false = the code as it is. *)
Definition effect_of (fl : bool) (defs : list pdef) (ps : list pstate) (ntasks : nat) (cur : option pid)
    (i : instr) : effect :=
  match i with
  | IObs p k => eff0 ps <| e_emit := [OCode p k cur] |>
  | IYield => eff0 ps <| e_stat := TReady |>
  | ISpawnStepper p => eff0 ps <| e_spawn := [[IStepLoop p]] |>
  | ISpawnCallback q cb =>
      match ps_life (getp ps q) with
      | LfNone => eff0 ps                 (* no such process (yet): the harness skips the call *)
      | _ => eff0 ps <| e_spawn := [[IRunCb q cb]] |>
      end
  | IRunCb q cb =>
      eff0 (setp ps q (getp ps q <| ps_raised := false |>))
        <| e_code := [ICbDone q] |> <| e_push := Some (q, compile q KCallback (cb_body defs q cb)) |>
  | ICbDone q =>
      if ps_raised (getp ps q) then
        let ps' := setp ps q (getp ps q <| ps_raised := false |>) in
        match ps_life (getp ps q) with
        | LfExcepted => eff0 ps'
        | _ => do_fail ps' q
        end
      else eff0 ps
  | ICreate p => eff0 (setp ps p ps_fresh) <| e_code := [IFire p [HCreate]] |>
  | INest p => eff0 ps <| e_spawn := [[IStepLoop p]] |> <| e_stat := TNest ntasks |>
  | ICtl q CKill => do_kill ps q
  | ICtl q CResume => do_resume ps q
  | ICtl q CPause => do_pause ps q
  | ICtl q CPlay => do_play ps q
  | IStepLoop p =>
      if terminated (ps_life (getp ps p)) then eff0 ps
      else eff0 ps <| e_code := [IAwaitPaused p; IStep p; IStepLoop p] |>
  | IAwaitPaused p =>
      (* while self._paused is not None and not self._paused.done(): await self._paused
         (a terminated process has its _paused future resolved by on_terminated) *)
      if ps_paused (getp ps p) && negb (terminated (ps_life (getp ps p)))
      then eff0 ps <| e_code := [IAwaitPaused p] |> <| e_stat := TBlocked p true |>
      else eff0 ps
  | IStep p =>
      let s := getp ps p in
      let '(body, next) := body_of defs p (ps_life s) in
      eff0 (setp ps p (s <| ps_stepping := true |> <| ps_raised := false |>))
        <| e_code := [IEndStep p next] |> <| e_push := Some (p, body) |>
  | IEndStep p next =>
      let s := getp ps p in
      let s0 := s <| ps_stepping := false |> <| ps_raised := false |> <| ps_killing := false |> <| ps_pausing := false |> in
      let l := ps_life s in
      let next' := if ps_raised s then LfExcepted else next in
      if terminated l then eff0 (setp ps p s0)
      else if ps_killing s then
        (* do_kill: a step that failed ends EXCEPTED, the failure is not replaced by the kill *)
        let k := if ps_raised s then LfExcepted else LfKilled in
        eff0 (setp ps p (s0 <| ps_life := k |>)) <| e_code := [IFire p (transition_hooks l k)] |>
      else if ps_pausing s then
        (* _do_pause(next_state): the transition, if the step produced a next state, then on_pausing, on_paused *)
        match ps_wfut s, l with
        | WInterrupted, LfWaiting _ =>
            eff0 (setp ps p (s0 <| ps_wfut := WPending |> <| ps_paused := true |>))
              <| e_code := [IFire p [HPausing; HPaused]] |>
        | _, _ =>
            (* also when next' is terminal: the process then reports `paused` although terminated (D20) *)
            eff0 (setp ps p (s0 <| ps_life := next' |> <| ps_wfut := WPending |> <| ps_paused := true |>))
              <| e_code := [IFire p (transition_hooks l next'); IFire p [HPausing; HPaused]] |>
        end
      else
        eff0 (setp ps p (s0 <| ps_life := next' |> <| ps_wfut := WPending |>))
          <| e_code := [IFire p (transition_hooks l next')] |>
  | IWaitResume p =>
      match ps_wfut (getp ps p) with
      | WPending => eff0 ps <| e_stat := TBlocked p false |>
      | _ => eff0 ps
      end
  | IRaised p => eff0 (setp ps p (getp ps p <| ps_raised := true |>)) <| e_unwind := true |>
  | IGuardOpen p =>
      if terminated (ps_life (getp ps p))
      then eff0 (setp ps p (getp ps p <| ps_raised := true |>)) <| e_unwind := true |>
      else eff0 ps
  | IFire p hs =>
      if fl then eff0 ps <| e_push := Some (p, hook_obs p hs) |>
      else eff0 ps <| e_code := hook_obs p hs |>
  end.

(* ------------------------------------------------------------------ the machine *)
Definition keeps_running (s : tstatus) : bool :=
  match s with TRunning | TNest _ => true | _ => false end.

Definition woken (ws : list (pid * bool)) (p : pid) (b : bool) : bool :=
  existsb (fun w => Nat.eqb p (fst w) && Bool.eqb b (snd w)) ws.

Definition wake_task (ws : list (pid * bool)) (tk : task) : task :=
  match t_status tk with
  | TBlocked p b => if woken ws p b then tk <| t_status := TReady |> else tk
  | _ => tk
  end.

Definition new_task (ctx : list pid) (code : list instr) : task :=
  mk_task ctx ctx [mk_frame None ctx code] TReady.

(* [fr]: the current frame with the instruction already consumed; [frs]: the frames below *)
Definition apply_effect (c : cfg) (t : tid) (tk : task) (fr : frame) (frs : list frame) (e : effect) : cfg :=
  let fr1 := mk_frame (f_scope fr) (f_saved fr) (e_code e ++ (if e_unwind e then [] else f_code fr)) in
  let frames1 := match e_push e with
                 | None => fr1 :: frs
                 | Some (p, body) => mk_frame (Some p) (t_ctx tk) body :: fr1 :: frs
                 end in
  let ctx1 := match e_push e with None => t_ctx tk | Some (p, _) => t_ctx tk ++ [p] end in
  let tk1 := mk_task ctx1 (t_base tk) frames1 (e_stat e) in
  let tasks1 := upd t tk1 (c_tasks c) ++ map (new_task (t_ctx tk)) (e_spawn e) in
  let tasks2 := map (wake_task (e_wake e)) tasks1 in
  mk_cfg (e_procs e) tasks2
         (if keeps_running (e_stat e) then c_running c else tl (c_running c))
         (match e_push e with
          | None => rev (e_emit e) ++ c_trace c
          | Some (p, _) => OEnter t p (t_ctx tk) :: rev (e_emit e) ++ c_trace c
          end) (c_bad c) (c_assert c).

Definition top_is (p : pid) (s : list pid) : bool :=
  match top s with Some q => Nat.eqb q p | None => false end.

(* one step of the running task t *)
Definition micro (fl : bool) (defs : list pdef) (c : cfg) (t : tid) : cfg :=
  match nth_error (c_tasks c) t with
  | None => c <| c_bad ::= S |> <| c_running ::= @tl tid |>
  | Some tk =>
      match t_frames tk with
      | [] =>      (* the coroutine returned: the task is done *)
          c <| c_tasks := upd t (tk <| t_status := TDone |>) (c_tasks c) |> <| c_running ::= @tl tid |>
      | fr :: frs =>
          match f_code fr with
          | [] =>
              match f_scope fr with
              | None => c <| c_tasks := upd t (tk <| t_frames := frs |>) (c_tasks c) |>
              | Some p =>      (* the finally clause of _process_scope *)
                  if top_is p (t_ctx tk)
                  then c <| c_tasks := upd t (tk <| t_frames := frs |> <| t_ctx := removelast (t_ctx tk) |>) (c_tasks c) |>
                         <| c_trace ::= cons (OExit t p (removelast (t_ctx tk))) |>
                  else c <| c_tasks := upd t (tk <| t_frames := frs |>) (c_tasks c) |> <| c_assert ::= S |>
              end
          | i :: code' =>
              apply_effect c t tk (mk_frame (f_scope fr) (f_saved fr) code') frs
                (effect_of fl defs (c_procs c) (length (c_tasks c)) (top (t_ctx tk)) i)
          end
      end
  end.

Definition bad (c : cfg) : cfg := c <| c_bad ::= S |>.

Definition sched_step (c : cfg) (it : sitem) : cfg :=
  match it with
  | SRun t =>
      match nth_error (c_tasks c) t with
      | Some tk =>
          match t_status tk with
          | TReady => c <| c_tasks := upd t (tk <| t_status := TRunning |>) (c_tasks c) |>
                        <| c_running ::= cons t |> <| c_trace ::= cons (ORun t) |>
          | _ => bad c
          end
      | None => bad c
      end
  | SRet =>
      match c_running c with
      | t :: _ =>
          match nth_error (c_tasks c) t with
          | Some tk =>
              match t_status tk with
              | TNest ch =>
                  match nth_error (c_tasks c) ch with
                  | Some tch =>
                      match t_status tch with
                      | TDone => c <| c_tasks := upd t (tk <| t_status := TRunning |>) (c_tasks c) |>
                                   <| c_trace ::= cons ORet |>
                      | _ => bad c
                      end
                  | None => bad c
                  end
              | _ => bad c
              end
          | None => bad c
          end
      | [] => bad c
      end
  | SExt acts =>
      match c_running c with
      | [] => c <| c_tasks := c_tasks c ++ [mk_task [] [] [mk_frame None [] (compile_env acts)] TRunning] |>
                <| c_running := [length (c_tasks c)] |> <| c_trace ::= cons OExt |>
      | _ => bad c
      end
  end.

(* the task that is executing right now, if any *)
Definition active (c : cfg) : option tid :=
  match c_running c with
  | t :: _ =>
      match nth_error (c_tasks c) t with
      | Some tk => match t_status tk with TRunning => Some t | _ => None end
      | None => Some t
      end
  | [] => None
  end.

(* [drive fuel c s]: run; the boolean says that the schedule was consumed completely (fuel sufficed) *)
Fixpoint drive (fl : bool) (defs : list pdef) (fuel : nat) (c : cfg) (s : list sitem) : cfg * bool :=
  match fuel with
  | 0 => (c, false)
  | S f =>
      match active c with
      | Some t => drive fl defs f (micro fl defs c t) s
      | None =>
          match s with
          | [] => (c, true)
          | it :: s' => drive fl defs f (sched_step c it) s'
          end
      end
  end.

Definition init (defs : list pdef) : cfg := mk_cfg (repeat ps_none (length defs)) [] [] [] 0 0.

Definition run (fl : bool) (defs : list pdef) (fuel : nat) (s : list sitem) : cfg :=
  fst (drive fl defs fuel (init defs) s).

(* THE SWITCH.  false: life-cycle hooks are dispatched outside `_process_scope` (plumpy as it is, finding D13).
   With the proposed patch (notes/C18-D13.patch: Process.transition_to, _do_pause and play enter the scope)
   this becomes true; nothing else in the model changes. *)
Definition hooks_scoped_now : bool := true.

(* ------------------------------------------------------------------ vocabulary of the theorems *)
(* the scopes a task is inside of, innermost first *)
Fixpoint scopes (frs : list frame) : list pid :=
  match frs with
  | [] => []
  | fr :: r => match f_scope fr with Some p => p :: scopes r | None => scopes r end
  end.

(* the stack a task must have: what it was created with, plus the scopes it is inside of *)
Definition stack_of (base : list pid) (frs : list frame) : list pid := base ++ rev (scopes frs).

(* for which kinds of code the property is claimed: the scoped kinds, and all kinds once hooks are dispatched in scope *)
Definition must_hold (fl : bool) (k : kind) : bool := scoped k || fl.

(* the scope events of a chronological log are well bracketed per task, and every exit restores the stack that
   the matching entry found: [open] holds the entries not yet matched, most recent first *)
Fixpoint take_first (t : tid) (open : list (tid * (pid * list pid))) : option ((pid * list pid) * list (tid * (pid * list pid))) :=
  match open with
  | [] => None
  | (t', e) :: r =>
      if Nat.eqb t' t then Some (e, r)
      else match take_first t r with
           | Some (e', r') => Some (e', (t', e) :: r')
           | None => None
           end
  end.

Fixpoint list_nat_eqb (a b : list nat) : bool :=
  match a, b with
  | [], [] => true
  | x :: a', y :: b' => Nat.eqb x y && list_nat_eqb a' b'
  | _, _ => false
  end.

Definition step_open (open : list (tid * (pid * list pid))) (o : obs) : option (list (tid * (pid * list pid))) :=
  match o with
  | OEnter t p s => Some ((t, (p, s)) :: open)
  | OExit t p s =>
      match take_first t open with
      | Some ((p', s'), open') => if Nat.eqb p p' && list_nat_eqb s s' then Some open' else None
      | None => None
      end
  | _ => Some open
  end.

Fixpoint run_open (open : list (tid * (pid * list pid))) (l : list obs) : option (list (tid * (pid * list pid))) :=
  match l with
  | [] => Some open
  | o :: r => match step_open open o with Some open' => run_open open' r | None => None end
  end.

Definition bracketed (l : list obs) : Prop := run_open [] l <> None.

(* what the correspondence compares: the chronological log *)
Definition log_of (c : cfg) : list obs := rev (c_trace c).
