(* Comms/Rpc.v — remote control of one process and the announcement of its transitions (property C16).
   Executable model, definitions only.  A thin layer around M1 (Life/Model.v, Life/Run.v), which is imported
   unchanged: the extended world carries the M1 world plus what the communicator side adds.

   Python                                                   model
   process_comms.MessageBuilder / Intent                    message, intent_* (constants checked against Gen/Facts.v)
   Process.message_receive                                  handle_rpc (pure) / recv of an XmRpc
   Process.broadcast_receive + kiwipy.BroadcastFilter       bc_filtered, handle_bc (pure) / recv of an XmBc
   Process._schedule_rpc (run_callback)                     an entry of [pending]; run_rpc performs exactly ctl_call
   reply future of _schedule_rpc, nested futures            reply, reply_of_cret, resolve (through Adapters.rpc_final, C20)
   Process.get_status_info                                  status_of
   Process.init: two subscriptions + their cleanups         cleanups 1 (remove_rpc_subscriber), 2 (remove_broadcast_subscriber)
                                                            registered before the harness' own cleanup 0; subscribed_*
   Process.on_entered: broadcast_send(state_changed...)     announce (a function of M1's trace), delivered (tolerated failures)
     with the tolerated failures                            send_announcement (the try/except itself)
   communications.LoopCommunicator / convert_to_comm /      a message accepted by the communicator is [inflight] until the loop
     create_task / plum_to_kiwi_future                      runs the subscriber coroutine (XRecv); the callbacks that only move
                                                            futures around change nothing of the process and are not modelled

   M1 cannot be extended from outside with new ready-queue entries or new trace events, so
   - the in-flight messages and the scheduled rpc callbacks live in two FIFO queues beside M1's ready queue and the
     environment says which queue the loop serves next (XBase ETick / XRecv / XRunRpc).  Every interleaving the real
     FIFO loop can produce is one of these schedules; the theorems hold for all of them;
   - the announcements are a function of M1's trace: on_entered sends the broadcast after the state's user hook and the
     listener notification, which are in the trace. *)
From Coq Require Import List ZArith String Bool Arith Ascii.
From RecordUpdate Require Import RecordUpdate.
From Plumpy Require Import Val Mon PortModel Adapters Model Run.
Import ListNotations.
Local Open Scope string_scope.
Local Open Scope list_scope.
Local Open Scope mon_scope.

(* ------------------------------------------------------------------ messages *)
(* process_comms.Intent *)
Definition intent_play := "play".
Definition intent_pause := "pause".
Definition intent_kill := "kill".
Definition intent_status := "status".
Definition intent_table : list (string * string) :=
  [("PLAY", intent_play); ("PAUSE", intent_pause); ("KILL", intent_kill); ("STATUS", intent_status)].

(* an RPC body {intent: ..., message: text?}: msg.get(MESSAGE_TEXT_KEY, None) makes an absent key and None the same *)
Record message := mk_msg { m_intent : string; m_text : option string }.

(* MessageBuilder *)
Definition msg_play : message := mk_msg intent_play None.
Definition msg_pause (t : option string) : message := mk_msg intent_pause t.
Definition msg_kill (t : option string) : message := mk_msg intent_kill t.
Definition msg_status : message := mk_msg intent_status None.

(* the control call a message stands for *)
Definition dispatch (m : message) : option ctl :=
  if String.eqb (m_intent m) intent_play then Some CPlay
  else if String.eqb (m_intent m) intent_pause then Some (CPause (m_text m))
  else if String.eqb (m_intent m) intent_kill then Some (CKill (m_text m))
  else None.

(* Process.message_receive *)
Inductive handling :=
| HCall (c : ctl)          (* return self._schedule_rpc(self.<call>, ...) *)
| HStatus                  (* answered synchronously *)
| HError.                  (* raise RuntimeError('Unknown intent') *)

Definition handle_rpc (m : message) : handling :=
  match dispatch m with
  | Some c => HCall c
  | None => if String.eqb (m_intent m) intent_status then HStatus else HError
  end.

(* a broadcast: subject and body; the sender is never looked at by the process *)
Inductive body :=
| BNone                            (* body=None (play_all) *)
| BDict (text : option string)     (* a MessageBuilder dict *)
| BOther.                          (* anything without .get *)
Record bmsg := mk_bmsg { b_subject : option string; b_body : body }.

Fixpoint str_prefix (p s : string) : bool :=
  match p, s with
  | EmptyString, _ => true
  | String a p', String b s' => Ascii.eqb a b && str_prefix p' s'
  | String _ _, EmptyString => false
  end.

(* kiwipy.BroadcastFilter(self.broadcast_receive, subject=re.compile(r'^(?!state_changed).*')): a subject that is not
   None and starts with state_changed never reaches the process (convert_to_comm's _passthrough) *)
Definition bc_filtered (subject : option string) : bool :=
  match subject with
  | Some s => str_prefix "state_changed" s
  | None => false
  end.

(* Process.broadcast_receive *)
Inductive bhandling :=
| BCall (c : ctl)
| BIgnore                  (* return None *)
| BError.                  (* msg.get on something that is not a dict: the subscriber coroutine fails, nothing is scheduled *)

Definition handle_bc (b : bmsg) : bhandling :=
  match b_subject b with
  | None => BIgnore
  | Some s =>
      if String.eqb s intent_play then BCall CPlay
      else if String.eqb s intent_pause then
        match b_body b with BDict t => BCall (CPause t) | _ => BError end
      else if String.eqb s intent_kill then
        match b_body b with BDict t => BCall (CKill t) | _ => BError end
      else BIgnore
  end.

(* ------------------------------------------------------------------ replies *)
Inductive reply :=
| RpPending                        (* not resolved (yet) *)
| RpUnroutable                     (* no such RPC subscriber *)
| RpStatus (paused_flag : bool) (l : option label)
| RpVal (b : bool)
| RpErr                            (* the reply future holds an exception *)
| RpCancelled
| RpAwait (a : nat).               (* run_callback is in `result = await result` on action a *)

(* what the reply future of _schedule_rpc gets once the call has been made *)
Definition reply_of_cret (r : cret) : reply :=
  match r with
  | CrBool b => RpVal b
  | CrAction a => RpAwait a
  | CrNone => RpErr                (* not produced by pause / play / kill *)
  | CrRaised _ => RpErr            (* RuntimeError("Error invoking callback ...") from exc *)
  end.

Definition term_of_afut (f : afut) : option term :=
  match f with
  | AfPending => None
  | AfVal b => Some (TVal (VBool b))
  | AfExn e => Some (TExn e)
  | AfCancelled => Some TCancel
  end.

Definition reply_of_term (t : term) : reply :=
  match t with
  | TVal (VBool b) => RpVal b
  | TVal _ => RpErr
  | TExn _ => RpErr
  | TCancel => RpCancelled
  end.

(* the reply as the caller sees it in world w: `while isfuture(result): result = await result` (Adapters.rpc_final) *)
Definition resolve (w : world) (r : reply) : reply :=
  match r with
  | RpAwait a =>
      match get_act w a with
      | Some ac =>
          match term_of_afut (a_fut ac) with
          | Some t => match rpc_final t with Some t' => reply_of_term t' | None => RpPending end
          | None => RpPending
          end
      | None => RpPending
      end
  | _ => r
  end.

(* Process.get_status_info: 'paused' and 'state' (ctime and the process string add nothing) *)
Definition status_of (w : world) : reply :=
  RpStatus (match paused w with Some _ => true | None => false end) (cur_label w).

(* ------------------------------------------------------------------ subscriptions *)
Definition cleanup_rpc := 1.         (* functools.partial(communicator.remove_rpc_subscriber, identifier) *)
Definition cleanup_broadcast := 2.   (* functools.partial(communicator.remove_broadcast_subscriber, identifier) *)

Definition is_cleanup (n : nat) (e : event) : bool :=
  match e with EvCleanup k => Nat.eqb k n | _ => false end.

(* how many times the subscriber was removed *)
Definition removals (n : nat) (w : world) : nat := List.length (filter (is_cleanup n) (trace w)).

Definition subscribed_rpc (w : world) : bool := Nat.eqb (removals cleanup_rpc w) 0.
Definition subscribed_broadcast (w : world) : bool := Nat.eqb (removals cleanup_broadcast w) 0.

(* ------------------------------------------------------------------ announcements *)
(* state_changed.<from>.<to>, sender = pid, body None *)
Record broadcast := mk_bc { bc_from : option label; bc_to : label }.

Definition label_str (l : label) : string :=
  match l with
  | LCreated => "created" | LRunning => "running" | LWaiting => "waiting"
  | LFinished => "finished" | LExcepted => "excepted" | LKilled => "killed"
  end.

Definition subject_of (b : broadcast) : string :=
  "state_changed." ++ (match bc_from b with Some l => label_str l | None => "None" end) ++ "." ++ label_str (bc_to b).

(* Process.on_entered calls the user hook of the state (on_running ...), which notifies the listeners
   (on_process_running ...), and only then broadcasts; CREATED has no hook.  The listener notification in the trace is
   therefore the mark that on_entered reached the broadcast for the entry made last. *)
Definition entered_mark (l : label) : option string :=
  match l with
  | LCreated => None
  | LRunning => Some "on_process_running"
  | LWaiting => Some "on_process_waiting"
  | LFinished => Some "on_process_finished"
  | LExcepted => Some "on_process_excepted"
  | LKilled => Some "on_process_killed"
  end.

Fixpoint announce_from (pend : option broadcast) (tr : list event) : list broadcast :=
  match tr with
  | [] => []
  | EvEntered f t :: r =>
      match entered_mark t with
      | None => mk_bc f t :: announce_from None r
      | Some _ => announce_from (Some (mk_bc f t)) r
      end
  | EvListener n :: r =>
      match pend with
      | Some b =>
          if option_eqb String.eqb (entered_mark (bc_to b)) (Some n)
          then b :: announce_from None r
          else announce_from pend r
      | None => announce_from None r
      end
  | _ :: r => announce_from pend r
  end.

(* the broadcasts the process tries to send, in order *)
Definition announce (tr : list event) : list broadcast := announce_from None tr.

(* the state entries recorded in the trace *)
Fixpoint entered (tr : list event) : list broadcast :=
  match tr with
  | [] => []
  | EvEntered f t :: r => mk_bc f t :: entered r
  | _ :: r => entered r
  end.

(* every entry reached its broadcast: the mark of each entered state comes before the next entry *)
Fixpoint entries_complete_from (pend : option broadcast) (tr : list event) : bool :=
  match tr with
  | [] => match pend with None => true | Some _ => false end
  | EvEntered f t :: r =>
      match pend with
      | Some _ => false
      | None => match entered_mark t with
                | None => entries_complete_from None r
                | Some _ => entries_complete_from (Some (mk_bc f t)) r
                end
      end
  | EvListener n :: r =>
      match pend with
      | Some b =>
          if option_eqb String.eqb (entered_mark (bc_to b)) (Some n)
          then entries_complete_from None r
          else entries_complete_from pend r
      | None => entries_complete_from None r
      end
  | _ :: r => entries_complete_from pend r
  end.
Definition entries_complete (tr : list event) : bool := entries_complete_from None tr.

(* consecutive: the first entry comes from nowhere, every later one from the state entered before *)
Fixpoint chained (prev : option label) (l : list broadcast) : bool :=
  match l with
  | [] => true
  | b :: r => option_eqb label_eqb (bc_from b) prev && chained (Some (bc_to b)) r
  end.

(* which announcements the environment makes fail, and how *)
Inductive bfailure :=
| BfClosed           (* aio_pika ConnectionClosed *)
| BfChannel          (* aio_pika ChannelInvalidStateError *)
| BfTimeout          (* kiwipy.TimeoutError *)
| BfOther (e : exn). (* anything else *)

Definition tolerated (f : bfailure) : bool :=
  match f with BfOther _ => false | _ => true end.

(* the try/except around broadcast_send in on_entered: what the rest of on_entered / the transition sees.
   [sent] is the list of broadcasts that reached the communicator's subscribers. *)
Definition send_announcement (b : broadcast) (fail : option bfailure) : M (list broadcast) unit :=
  try_catch
    (match fail with
     | None => modify (fun sent => sent ++ [b])                  (* broadcast_send delivers *)
     | Some BfClosed => raise EClosed
     | Some BfChannel => raise EInvalidState
     | Some BfTimeout => raise ECancelled
     | Some (BfOther e) => raise e
     end)
    (fun e =>
       match fail with
       | Some f => if tolerated f then ret tt else raise e       (* except (ConnectionClosed, ChannelInvalidStateError) / except TimeoutError: log *)
       | None => raise e
       end).

(* the announcements that reach an independent subscriber when those with an index in [fails] fail (tolerated) *)
Fixpoint drop_indices (i : nat) (fails : list nat) (l : list broadcast) : list broadcast :=
  match l with
  | [] => []
  | b :: r => if existsb (Nat.eqb i) fails then drop_indices (S i) fails r else b :: drop_indices (S i) fails r
  end.
Definition delivered (fails : list nat) (tr : list event) : list broadcast := drop_indices 0 fails (announce tr).

(* ------------------------------------------------------------------ the extended world *)
Inductive xmsg :=
| XmRpc (id : nat) (m : message)
| XmBc (b : bmsg).

Record xworld := mk_x {
  base : world;                           (* M1 *)
  inflight : list xmsg;                   (* accepted by the communicator; the subscriber coroutine has not run yet *)
  pending : list (option nat * ctl);      (* scheduled by _schedule_rpc, not run yet; the RPC whose reply it resolves *)
  replies : list reply                    (* one per RPC sent, in the order of sending *)
}.

#[export] Instance eta_xworld : Settable _ := settable! mk_x <base; inflight; pending; replies>.

Inductive xevent :=
| XBase (e : env_event)                   (* anything M1's environment can do, the loop running a callback of the process included *)
| XSendRpc (m : message)                  (* communicator.rpc_send(pid, m) *)
| XSendBc (b : bmsg)                      (* communicator.broadcast_send(body, subject=...) by somebody else *)
| XRecv                                   (* the loop runs the subscriber coroutine of the oldest in-flight message *)
| XRunRpc.                                (* the loop runs the oldest scheduled rpc callback *)

Definition set_reply (id : nat) (r : reply) (l : list reply) : list reply := upd_nth id (fun _ => r) l.

(* message_receive / broadcast_receive: the process itself is not touched *)
Definition recv (xw : xworld) : xworld :=
  match inflight xw with
  | [] => xw
  | XmRpc id m :: rest =>
      match handle_rpc m with
      | HCall c => xw <| inflight := rest |> <| pending := pending xw ++ [(Some id, c)] |>
      | HStatus => xw <| inflight := rest |> <| replies := set_reply id (status_of (base xw)) (replies xw) |>
      | HError => xw <| inflight := rest |> <| replies := set_reply id RpErr (replies xw) |>
      end
  | XmBc b :: rest =>
      match handle_bc b with
      | BCall c => xw <| inflight := rest |> <| pending := pending xw ++ [(None, c)] |>
      | _ => xw <| inflight := rest |>
      end
  end.

(* run_callback: result = callback(..), the outcome goes to the reply future.
   [EvCtl c r] is the record of the call (the harness instruments pause / play / kill), as for a direct call. *)
Definition rpc_call (c : ctl) : LM cret :=
  r <- ctl_observed c ;; emit (EvCtl c r) ;;; ret r.

Definition run_rpc (xw : xworld) : xworld :=
  match pending xw with
  | [] => xw
  | (oid, c) :: rest =>
      let '(r, w') := rpc_call c (base xw) in
      let rp := match r with Ok x => reply_of_cret x | Err _ => RpErr end in
      xw <| base := w' |> <| pending := rest |>
         <| replies := match oid with Some id => set_reply id rp (replies xw) | None => replies xw end |>
  end.

Definition x_step (xw : xworld) (e : xevent) : xworld :=
  match e with
  | XBase ev => xw <| base := env_step (base xw) ev |>
  | XSendRpc m =>
      if subscribed_rpc (base xw)
      then xw <| inflight := inflight xw ++ [XmRpc (List.length (replies xw)) m] |> <| replies := replies xw ++ [RpPending] |>
      else xw <| replies := replies xw ++ [RpUnroutable] |>
  | XSendBc b =>
      if subscribed_broadcast (base xw) && negb (bc_filtered (b_subject b))
      then xw <| inflight := inflight xw ++ [XmBc b] |>
      else xw
  | XRecv => recv xw
  | XRunRpc => run_rpc xw
  end.

Definition x_run_from (xw : xworld) (es : list xevent) : xworld := fold_left x_step es xw.

(* Process.init registers the two cleanups before anybody else can add one *)
Definition x_init_world (c : config) : world :=
  (init_world c) <| cleanups := [cleanup_rpc; cleanup_broadcast; 0] |>.

Definition x_construct (c : config) : result unit * world :=
  (transition (Some SCreated) ;;; schedule (RWakeT0 WkNone)) (x_init_world c).

Definition x_start (c : config) : option xworld :=
  match x_construct c with
  | (Ok _, w) => Some (mk_x w [] [] [])
  | (Err _, _) => None
  end.

Definition x_run (c : config) (es : list xevent) : option xworld :=
  match x_start c with
  | Some xw => Some (x_run_from xw es)
  | None => None
  end.

(* the replies as the callers see them at the end *)
Definition final_replies (xw : xworld) : list reply := map (resolve (base xw)) (replies xw).

(* ------------------------------------------------------------------ the directly controlled twin *)
(* the schedule of direct calls that corresponds to a remote schedule: the base events stay, every run of a scheduled
   rpc callback becomes the direct call of what was scheduled, sending and receiving disappear *)
Fixpoint direct_schedule (xw : xworld) (es : list xevent) : list env_event :=
  match es with
  | [] => []
  | e :: r =>
      let here := match e with
                  | XBase ev => [ev]
                  | XRunRpc => match pending xw with (_, c) :: _ => [ECtl c] | [] => [] end
                  | _ => []
                  end in
      here ++ direct_schedule (x_step xw e) r
  end.
