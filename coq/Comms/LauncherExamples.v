(* Comms/LauncherExamples.v — the hypotheses of the C17 theorems are satisfiable: instances on the concrete
   environment of Corr/Corr_C17.v (the three real classes of harness/c17_procs.py, validated against the
   implementation by the correspondence run), plus the counter-example showing that the loader-coherence
   hypothesis of [create_continue_equiv_launch] cannot be dropped. *)
From Coq Require Import List ZArith String Bool Ascii.
From Plumpy Require Import Val Persister PersisterProofs Launcher LauncherProofs Corr_C17.
Import ListNotations.
Local Open Scope string_scope.
Local Open Scope list_scope.

Definition nick : ltable := [("alpha", cAdd); ("beta", cSteps); ("gamma", cOther)].
Definition swap : ltable := [(cSteps, cOther); ("beta", cOther); ("delta", cSteps)].
Definition lcs : list (string * ltable) := [("c17_procs:NickLoader", nick); ("c17_procs:SwapLoader", swap)].

Definition tstep := task_step c17_known lcs c17_construct c17_ckpt0 c17_run.
Definition trun := run c17_known lcs c17_construct c17_ckpt0 c17_run.

(* in-memory persister saving with NickLoader, launcher configured with the same loader (as in the upstream test) *)
Definition cfg_nick := mk_cfg (Some (Some ("c17_procs:NickLoader", nick))) (Some nick) None.
(* launcher with SwapLoader, persister with the default loader: NOT coherent for the class Steps *)
Definition cfg_swap := mk_cfg (Some None) (Some swap) None.
Definition cfg_none := mk_cfg None None None.

Definition kw (inputs : list (string * val)) (p : string) : val := VDict [("inputs", VDict inputs); ("pid", VStr p)].

(* ---- create_spec / launch_spec: all five hypotheses hold, the conclusion is what one expects *)
Example ex_create_hyps :
  load_object c17_known (launcher_loader cfg_nick) "beta" = Some cSteps
  /\ unpack_init VNone (kw [("n", VInt 5)] "P1") = Some (VDict [("n", VInt 5)], VStr "P1")
  /\ choose_pid 0 (VStr "P1") = Some ("P1", 0)
  /\ c17_construct cSteps (VDict [("n", VInt 5)]) = inr (VDict [("fail", VInt (-1)); ("kill", VInt (-1)); ("n", VInt 5)]).
Proof. repeat split; reflexivity. Qed.

Example ex_create :
  tstep cfg_nick world0 (create_body "beta" VNone (kw [("n", VInt 5)] "P1") true) =
    (mk_world [(("P1", None),
                VTup [VStr "beta"; VStr "c17_procs:NickLoader"; VStr "P1";
                      VDict [("fail", VInt (-1)); ("kill", VInt (-1)); ("n", VInt 5)];
                      VTup [VStr "created"; VList []; VDict []]])]
              [mk_prec "P1" cSteps (VDict [("fail", VInt (-1)); ("kill", VInt (-1)); ("n", VInt 5)])
                       (VTup [VStr "created"; VList []; VDict []]) FromNew false] 0,
     mk_io (RPid "P1") [EvInit cSteps "P1"] []).
Proof. vm_compute. reflexivity. Qed.

(* a launched process that fails in its second step: the reply is the process's own exception *)
Example ex_launch_fail :
  snd (tstep cfg_nick world0 (launch_body "beta" VNone (kw [("fail", VInt 1)] "P1") false false)) =
    mk_io (ROutcome (OExn (EUser "f1"))) [EvInit cSteps "P1"; EvStep "P1" 0; EvStep "P1" 1] [].
Proof. vm_compute. reflexivity. Qed.

(* nowait, process-chosen pid: the pid at once, the steps afterwards *)
Example ex_launch_nowait :
  snd (tstep cfg_nick world0 (launch_body "gamma" (VList [VDict [("n", VInt 1)]]) VNone true true)) =
    mk_io (RPid "#") [EvInit cOther "#"] [EvStep "#" 0; EvStep "#" 1; EvStep "#" 2].
Proof. vm_compute. reflexivity. Qed.

(* ---- continue_spec: a checkpoint taken mid-outline (after step 0) resumes with the remaining steps only *)
Definition mid : snap :=
  VTup [VStr cSteps; VNone; VStr "P1"; VDict [("fail", VInt (-1)); ("kill", VInt (-1)); ("n", VInt 7)];
        VTup [VStr "running"; VList [VInt 0]; VDict []]].
Definition w_mid := mk_world [(("P1", Some "t1"), mid); (("P1", None), VNone)] [] 0.

Example ex_continue_hyps :
  exists s tbl,
    am_get ("P1", Some "t1") (w_pm w_mid) = Some mid /\ decode mid = Some s /\
    continue_loader lcs (mk_cfg (Some None) None None) (s_ldr s) = Some tbl /\ load_object c17_known tbl (s_cls s) = Some cSteps.
Proof. eexists; eexists; repeat split; reflexivity. Qed.

Example ex_continue_mid :
  snd (tstep (mk_cfg (Some None) None None) w_mid (continue_body "P1" (Some "t1") false)) =
    mk_io (ROutcome (ODone (VDict [("acc", VList [VInt 0; VInt 1; VInt 2]); ("n", VInt 7)])))
          [EvStep "P1" 1; EvStep "P1" 2] [].
Proof. vm_compute. reflexivity. Qed.

(* the untagged entry of the same pid is another checkpoint (here an unreadable one): requested tag only *)
Example ex_continue_other_tag :
  snd (tstep (mk_cfg (Some None) None None) w_mid (continue_body "P1" None false)) = mk_io (RErr EValue) [] [].
Proof. vm_compute. reflexivity. Qed.

(* ---- rejection *)
Example ex_rejectable :
  rejectable cfg_none (launch_body cAdd VNone VNone true false) = true
  /\ rejectable cfg_none (continue_body "P1" None false) = true
  /\ rejectable cfg_nick [("task", VStr "bogus")] = true
  /\ rejectable cfg_nick [("task", VNone); ("args", VDict [])] = true
  /\ rejectable cfg_none (launch_body cAdd VNone VNone false false) = false
  /\ rejectable cfg_nick (launch_body cAdd VNone VNone true false) = false
  /\ rejectable cfg_nick [("args", VDict [])] = false.        (* no task key: KeyError, not a rejection *)
Proof. repeat split; reflexivity. Qed.

(* the hypothesis of [reject_only] holds for the real classes: their constructors never raise TaskRejected *)
Lemma c17_construct_not_rejected : forall c i, c17_construct c i <> inl ERejected.
Proof.
  intros c i H. unfold c17_construct in H.
  destruct i; try discriminate H;
  repeat match type of H with
  | (if ?c then _ else _) = _ => destruct c
  | (match ?c with _ => _ end) = _ => destruct c
  end; discriminate H.
Qed.

(* ---- create ; continue == launch: the hypotheses (incl. loader coherence) are satisfiable ... *)
Example ex_equiv_hyps :
  let snapshot := snapshot_of cfg_nick cSteps "P1" (VDict [("fail", VInt (-1)); ("kill", VInt (-1)); ("n", VInt 5)])
                              (c17_ckpt0 cSteps VNone) in
  has_persister cfg_nick = true
  /\ continue_loader lcs cfg_nick (s_ldr snapshot) = Some nick
  /\ load_object c17_known nick (s_cls snapshot) = Some cSteps.
Proof. repeat split; reflexivity. Qed.

(* ... and coherence cannot be dropped: with a launcher loader that resolves the DEFAULT name of Steps to Other and a
   persister that writes default names, "delta" is launched as Steps (n = 0) but create + continue runs Other (n = 100) *)
Theorem equiv_needs_coherent_loaders :
  exists cfg id k,
    has_persister cfg = true /\
    io_reply (snd (tstep cfg world0 (launch_body id VNone k true false))) <>
    io_reply (nth 1 (snd (trun cfg world0 [HTask (create_body id VNone k true); HTask (continue_body "P1" None false)]))
                  (mk_io RNone [] [])).
Proof.
  exists cfg_swap, "delta", (kw [] "P1"). split; [reflexivity|]. vm_compute. discriminate.
Qed.

(* ---- histories: the hypotheses-free theorems on a concrete history with failures in it *)
Example ex_history :
  let h := [HTask (create_body "beta" VNone (kw [] "P1") true);
            HTask [("task", VStr "bogus")];
            HTask (continue_body "P9" None false);
            HTask (continue_body "P1" None true)] in
  map (fun o => flatten (io_reply o)) (snd (trun cfg_nick world0 h)) = [PPid "P1"; PExn ERejected; PExn EKey; PPid "P1"]
  /\ keep (snd (trun cfg_nick world0 h)) h = [HTask (create_body "beta" VNone (kw [] "P1") true); HTask (continue_body "P1" None true)]
  /\ honoured (snd (trun cfg_nick world0 h)) = 2.
Proof. vm_compute. repeat split; reflexivity. Qed.
