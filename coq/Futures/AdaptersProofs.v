(* Futures/AdaptersProofs.v — proofs about M5 (Adapters.v). *)
From Coq Require Import List ZArith String Bool Arith Lia.
From Plumpy Require Import Val Adapters.
Import ListNotations.

(* every level is completed exactly once *)
Definition valid_order (k : nat) (order : list nat) : Prop :=
  NoDup order /\ (forall i, In i order <-> i < k).
(* some levels completed, each at most once *)
Definition partial_order (k : nat) (order : list nat) : Prop :=
  NoDup order /\ (forall i, In i order -> i < k).

Definition later_ret (o : aop) : aret :=
  match o with ARun => ARaised EInvalidState | ACancel => ARetBool false end.

(* ---------------- list helpers ---------------- *)
Lemma set_nth_length : forall A (l : list A) n x, List.length (set_nth n x l) = List.length l.
Proof.
  intros A l. induction l as [|y r IH]; intros n x; destruct n; simpl; auto.
Qed.

Lemma nth_set_nth_eq : forall A (l : list A) n x d,
  n < List.length l -> nth n (set_nth n x l) d = x.
Proof.
  intros A l. induction l as [|y r IH]; intros n x d Hn; simpl in Hn; [lia|].
  destruct n as [|n]; simpl; auto. apply IH. lia.
Qed.

Lemma nth_set_nth_neq : forall A (l : list A) n m x d,
  m <> n -> nth m (set_nth n x l) d = nth m l d.
Proof.
  intros A l. induction l as [|y r IH]; intros n m x d Hne.
  - destruct n; reflexivity.
  - destruct n as [|n]; destruct m as [|m]; simpl; auto; try lia.
Qed.

Lemma nth_repeat_false : forall k j, nth j (repeat false k) false = false.
Proof.
  induction k as [|k IH]; intros j; destruct j; simpl; auto.
Qed.

Lemma valid_order_length : forall k order, valid_order k order -> List.length order = k.
Proof.
  intros k order [Hnd Hin].
  assert (Hle1 : List.length order <= List.length (seq 0 k)).
  { apply NoDup_incl_length; [exact Hnd|]. intros i Hi. apply in_seq. apply Hin in Hi. lia. }
  assert (Hle2 : List.length (seq 0 k) <= List.length order).
  { apply NoDup_incl_length; [apply seq_NoDup|]. intros i Hi. apply in_seq in Hi. apply Hin. lia. }
  rewrite seq_length in Hle1, Hle2. lia.
Qed.

(* ---------------- the unwrap invariant ---------------- *)
Definition dn (s : ustate) (j : nat) : bool := nth j (u_done s) false.

Definition Inv (k : nat) (t : term) (s : ustate) : Prop :=
  List.length (u_done s) = k /\
  u_watch s < k /\
  (forall j, j < u_watch s -> dn s j = true) /\
  ((u_result s = None /\ u_sets s = 0 /\ dn s (u_watch s) = false) \/
   (u_result s = Some t /\ u_sets s = 1 /\ forall j, j < k -> dn s j = true)).

Lemma Inv_init : forall k t, 1 <= k -> Inv k t (u_init k).
Proof.
  intros k t Hk. unfold Inv, dn, u_init; simpl.
  split; [apply repeat_length|]. split; [lia|]. split; [intros j Hj; lia|].
  left. split; [reflexivity|]. split; [reflexivity|]. apply nth_repeat_false.
Qed.

(* walk stops on the first level that is not done, or delivers at level k-1 *)
Lemma walk_spec : forall k t fuel done j j2 r2 n2,
  j < k -> k - j <= fuel ->
  (forall j', j' < j -> nth j' done false = true) ->
  walk fuel k t done j None 0 = (j2, r2, n2) ->
  j2 < k /\
  (forall j', j' < j2 -> nth j' done false = true) /\
  ((r2 = None /\ n2 = 0 /\ nth j2 done false = false) \/
   (r2 = Some t /\ n2 = 1 /\ forall j', j' < k -> nth j' done false = true)).
Proof.
  intros k t fuel. induction fuel as [|fuel IH]; intros done j j2 r2 n2 Hj Hf Hpre Hw.
  - lia.
  - cbn [walk] in Hw. destruct (nth j done false) eqn:Hd.
    + destruct (Nat.eqb (S j) k) eqn:He.
      * apply Nat.eqb_eq in He.
        injection Hw as Hj2 Hr2 Hn2. rewrite <- Hj2, <- Hr2, <- Hn2.
        split; [exact Hj|]. split; [exact Hpre|]. right.
        split; [reflexivity|]. split; [reflexivity|].
        intros j' Hj'. destruct (Nat.eq_dec j' j) as [Heq|Hne].
        -- rewrite Heq. exact Hd.
        -- apply Hpre. lia.
      * apply Nat.eqb_neq in He.
        apply (IH done (S j) j2 r2 n2); [lia|lia| |exact Hw].
        intros j' Hj'. destruct (Nat.eq_dec j' j) as [Heq|Hne].
        -- rewrite Heq. exact Hd.
        -- apply Hpre. lia.
    + injection Hw as Hj2 Hr2 Hn2. rewrite <- Hj2, <- Hr2, <- Hn2.
      split; [exact Hj|]. split; [exact Hpre|]. left. auto.
Qed.

Lemma u_complete_done : forall k t s i,
  u_done (u_complete k t s i) = set_nth i true (u_done s).
Proof.
  intros k t s i. unfold u_complete.
  destruct (Nat.eqb i (u_watch s)).
  - destruct (walk k k t (set_nth i true (u_done s)) (u_watch s) (u_result s) (u_sets s))
      as [[j r] n]. reflexivity.
  - reflexivity.
Qed.

Lemma dn_complete : forall k t s i j,
  i < List.length (u_done s) ->
  dn (u_complete k t s i) j = if Nat.eqb j i then true else dn s j.
Proof.
  intros k t s i j Hi. unfold dn. rewrite u_complete_done.
  destruct (Nat.eqb j i) eqn:He.
  - apply Nat.eqb_eq in He. rewrite He. apply nth_set_nth_eq. exact Hi.
  - apply Nat.eqb_neq in He. apply nth_set_nth_neq. exact He.
Qed.

Lemma Inv_step : forall k t s i,
  Inv k t s -> i < k -> dn s i = false -> Inv k t (u_complete k t s i).
Proof.
  intros k t s i (Hlen & Hw & Hpre & Hdisj) Hi Hdi.
  destruct Hdisj as [(Hr & Hn & Hdw) | (Hr & Hn & Hall)].
  2:{ rewrite (Hall i Hi) in Hdi. discriminate. }
  assert (Hmono : forall j, dn s j = true -> nth j (set_nth i true (u_done s)) false = true).
  { intros j Hdj. destruct (Nat.eq_dec j i) as [Heq|Hne].
    - rewrite Heq. apply nth_set_nth_eq. lia.
    - rewrite nth_set_nth_neq by exact Hne. exact Hdj. }
  unfold Inv. unfold dn at 1 2 3. unfold u_complete.
  destruct (Nat.eqb i (u_watch s)) eqn:He.
  - apply Nat.eqb_eq in He.
    destruct (walk k k t (set_nth i true (u_done s)) (u_watch s) (u_result s) (u_sets s))
      as [[j2 r2] n2] eqn:Hwalk.
    rewrite Hr, Hn in Hwalk.
    apply walk_spec in Hwalk; [|exact Hw|lia|].
    + destruct Hwalk as (Hj2 & Hpre2 & Hd2). simpl.
      split; [rewrite set_nth_length; exact Hlen|].
      split; [exact Hj2|]. split; [exact Hpre2|]. exact Hd2.
    + intros j' Hj'. apply Hmono. apply Hpre. exact Hj'.
  - apply Nat.eqb_neq in He. simpl.
    split; [rewrite set_nth_length; exact Hlen|].
    split; [exact Hw|].
    split; [intros j Hj; apply Hmono; apply Hpre; exact Hj|].
    left. split; [exact Hr|]. split; [exact Hn|].
    rewrite nth_set_nth_neq by (intro Hc; apply He; symmetry; exact Hc). exact Hdw.
Qed.

Lemma Inv_fold : forall k t order s,
  Inv k t s -> NoDup order ->
  (forall i, In i order -> i < k /\ dn s i = false) ->
  Inv k t (fold_left (u_complete k t) order s) /\
  (forall j, dn (fold_left (u_complete k t) order s) j = true <-> dn s j = true \/ In j order).
Proof.
  intros k t order. induction order as [|i rest IH]; intros s HI Hnd Hord.
  - simpl. split; [exact HI|]. intros j. split; [intros Hd; left; exact Hd|].
    intros [Hd|[]]. exact Hd.
  - simpl. inversion Hnd as [|i' rest' Hni Hnd']; subst i' rest'.
    destruct (Hord i (or_introl eq_refl)) as [Hi Hdi].
    assert (Hlen : i < List.length (u_done s)).
    { destruct HI as (Hlen & _). rewrite Hlen. exact Hi. }
    assert (HI' : Inv k t (u_complete k t s i)) by (apply Inv_step; assumption).
    destruct (IH (u_complete k t s i) HI' Hnd') as [HIf Hdf].
    { intros i' Hi'. split; [apply Hord; right; exact Hi'|].
      rewrite dn_complete by exact Hlen.
      destruct (Nat.eqb i' i) eqn:He.
      - apply Nat.eqb_eq in He. subst i'. contradiction.
      - apply Hord. right. exact Hi'. }
    split; [exact HIf|].
    intros j. rewrite Hdf. rewrite dn_complete by exact Hlen.
    destruct (Nat.eqb j i) eqn:He.
    + apply Nat.eqb_eq in He. split; intros _; [right; left; symmetry; exact He | left; reflexivity].
    + apply Nat.eqb_neq in He. split.
      * intros [Hd|Hin]; [left; exact Hd | right; right; exact Hin].
      * intros [Hd|[Heq|Hin]]; [left; exact Hd | exfalso; apply He; symmetry; exact Heq | right; exact Hin].
Qed.

Lemma dn_init : forall k j, dn (u_init k) j = false.
Proof. intros k j. unfold dn, u_init; simpl. apply nth_repeat_false. Qed.

Lemma Inv_run : forall k t order, 1 <= k -> partial_order k order ->
  Inv k t (u_run k t order) /\ (forall j, dn (u_run k t order) j = true <-> In j order).
Proof.
  intros k t order Hk [Hnd Hin].
  destruct (Inv_fold k t order (u_init k) (Inv_init k t Hk) Hnd) as [HI Hd].
  { intros i Hi. split; [apply Hin; exact Hi | apply dn_init]. }
  split; [exact HI|].
  intros j. unfold u_run. rewrite Hd. rewrite dn_init. split.
  - intros [Hc|Hj]; [discriminate | exact Hj].
  - intros Hj; right; exact Hj.
Qed.

Theorem unwrap_final : forall k t order, 1 <= k -> valid_order k order ->
  u_result (u_run k t order) = Some t /\ u_sets (u_run k t order) = 1.
Proof.
  intros k t order Hk [Hnd Hin].
  destruct (Inv_run k t order Hk) as [HI Hd].
  { split; [exact Hnd|]. intros i Hi. apply Hin. exact Hi. }
  destruct HI as (_ & Hw & _ & [(_ & _ & Hdw) | (Hr & Hn & _)]).
  - exfalso. assert (Ht : dn (u_run k t order) (u_watch (u_run k t order)) = true).
    { apply Hd. apply Hin. exact Hw. }
    rewrite Ht in Hdw. discriminate.
  - split; assumption.
Qed.
Print Assumptions unwrap_final.

Theorem unwrap_not_early : forall k t order, 1 <= k -> partial_order k order ->
  (exists i, i < k /\ ~ In i order) ->
  u_result (u_run k t order) = None /\ u_sets (u_run k t order) = 0.
Proof.
  intros k t order Hk Hpo (i & Hi & Hni).
  destruct (Inv_run k t order Hk Hpo) as [HI Hd].
  destruct HI as (_ & _ & _ & [(Hr & Hn & _) | (_ & _ & Hall)]).
  - split; assumption.
  - exfalso. apply Hni. apply Hd. apply Hall. exact Hi.
Qed.
Print Assumptions unwrap_not_early.

(* the trace: None until the last event, then Some t *)
Lemma trace_gen : forall k t order s,
  Inv k t s -> NoDup order ->
  (forall i, In i order -> i < k /\ dn s i = false) ->
  (forall i, i < k -> dn s i = true \/ In i order) ->
  order <> [] ->
  u_trace k t s order = repeat None (List.length order - 1) ++ [Some t].
Proof.
  intros k t order. induction order as [|i rest IH]; intros s HI Hnd Hord Hcov Hne.
  - contradiction.
  - simpl u_trace.
    inversion Hnd as [|i' rest' Hni Hnd']; subst i' rest'.
    destruct (Hord i (or_introl eq_refl)) as [Hi Hdi].
    assert (Hlen : i < List.length (u_done s)).
    { destruct HI as (Hlen & _). rewrite Hlen. exact Hi. }
    assert (HI' : Inv k t (u_complete k t s i)) by (apply Inv_step; assumption).
    destruct rest as [|r rest2].
    + simpl. f_equal.
      destruct HI' as (_ & Hw & _ & [(_ & _ & Hdw) | (Hr & _ & _)]); [|exact Hr].
      exfalso. rewrite dn_complete in Hdw by exact Hlen.
      destruct (Nat.eqb (u_watch (u_complete k t s i)) i) eqn:He; [discriminate|].
      apply Nat.eqb_neq in He.
      destruct (Hcov _ Hw) as [Hc|[Hc|[]]].
      * rewrite Hc in Hdw. discriminate.
      * apply He. symmetry. exact Hc.
    + assert (Hrn : r <> i).
      { intro Hc. apply Hni. left. exact Hc. }
      assert (Hres : u_result (u_complete k t s i) = None).
      { destruct HI' as (_ & _ & _ & [(Hr & _ & _) | (_ & _ & Hall)]); [exact Hr|].
        exfalso. destruct (Hord r (or_intror (or_introl eq_refl))) as [Hrk Hdr].
        specialize (Hall r Hrk). rewrite dn_complete in Hall by exact Hlen.
        apply Nat.eqb_neq in Hrn. rewrite Hrn in Hall. rewrite Hdr in Hall. discriminate. }
      rewrite Hres.
      rewrite (IH (u_complete k t s i) HI' Hnd').
      * simpl List.length. replace (S (S (List.length rest2)) - 1) with (S (S (List.length rest2) - 1)) by lia.
        reflexivity.
      * intros i' Hi'. split; [apply Hord; right; exact Hi'|].
        rewrite dn_complete by exact Hlen.
        destruct (Nat.eqb i' i) eqn:He.
        -- apply Nat.eqb_eq in He. subst i'. contradiction.
        -- apply Hord. right. exact Hi'.
      * intros j Hj. rewrite dn_complete by exact Hlen.
        destruct (Nat.eqb j i) eqn:He; [left; reflexivity|].
        apply Nat.eqb_neq in He.
        destruct (Hcov j Hj) as [Hc|[Hc|Hc]]; [left; exact Hc | exfalso; apply He; symmetry; exact Hc | right; exact Hc].
      * discriminate.
Qed.

Theorem unwrap_trace : forall k t order, 1 <= k -> valid_order k order ->
  u_trace k t (u_init k) order = repeat None (k - 1) ++ [Some t].
Proof.
  intros k t order Hk Hvo.
  pose proof (valid_order_length k order Hvo) as Hlen.
  destruct Hvo as [Hnd Hin].
  replace (k - 1) with (List.length order - 1) by (rewrite Hlen; reflexivity).
  apply trace_gen.
  - apply Inv_init. exact Hk.
  - exact Hnd.
  - intros i Hi. split; [apply Hin; exact Hi | apply dn_init].
  - intros i Hi. right. apply Hin. exact Hi.
  - intro Hc. rewrite Hc in Hlen. simpl in Hlen. lia.
Qed.
Print Assumptions unwrap_trace.

(* ---------------- CancellableAction ---------------- *)
Lemma a_run_set : forall f ops s x,
  a_fut s = Some x -> a_run f s ops = (s, map later_ret ops).
Proof.
  intros f ops. induction ops as [|op rest IH]; intros s x Hs.
  - reflexivity.
  - simpl. destruct op; simpl; rewrite Hs; rewrite (IH s x Hs); reflexivity.
Qed.

Theorem action_spec : forall f ops,
  let '(s, rs) := a_run f a_init ops in
  match ops with
  | [] => s = a_init /\ rs = []
  | ARun :: rest =>
      a_fut s = Some (create_task_outcome f) /\ a_calls s = 1 /\ rs = ARetNone :: map later_ret rest
  | ACancel :: rest =>
      a_fut s = Some TCancel /\ a_calls s = 0 /\ rs = ARetBool true :: map later_ret rest
  end.
Proof.
  intros f ops. destruct ops as [|op rest].
  - simpl. split; reflexivity.
  - destruct op; simpl.
    + erewrite a_run_set by reflexivity. simpl. auto.
    + erewrite a_run_set by reflexivity. simpl. auto.
Qed.
Print Assumptions action_spec.

Theorem action_at_most_once : forall f ops, a_calls (fst (a_run f a_init ops)) <= 1.
Proof.
  intros f ops. pose proof (action_spec f ops) as H.
  destruct (a_run f a_init ops) as [s rs]. simpl.
  destruct ops as [|op rest].
  - destruct H as [Hs _]. rewrite Hs. simpl. lia.
  - destruct op; destruct H as (_ & Hc & _); rewrite Hc; lia.
Qed.
Print Assumptions action_at_most_once.
