(* Futures/Adapters.v — M5: the future adapters of futures.py / communications.py / Process._schedule_rpc.
   Executable model, no proofs.

   A *nested computation* is a chain of k >= 1 futures f_0 .. f_{k-1}: f_i (i < k-1) resolves to the
   future f_{i+1}; the innermost f_{k-1} ends with a terminal outcome (value, exception, cancellation).
   The environment completes the levels in any order (one event per level).

   Python                                   model
   futures.unwrap_kiwi_future               unwrap machine (u_* below): `watch` is the level the `unwrap`
                                            done-callback is currently registered on
   communications.plum_to_kiwi_future       same chain walk (each conversion registers on the next level);
     followed by unwrap_kiwi_future         callbacks run on loop ticks, observed after draining the loop
   Process._schedule_rpc.run_callback       rpc_final: `while isfuture(result): result = await result`
   futures.create_task                      create_task_outcome
   futures.CancellableAction                action machine (a_* below)
*)
From Coq Require Import List ZArith String Bool Arith.
From Plumpy Require Import Val.
Import ListNotations.

Inductive term :=
| TVal (v : val)
| TExn (e : exn)
| TCancel.

(* ---------------- unwrapping ---------------- *)
Record ustate := mk_u {
  u_done : list bool;          (* per level: has the environment completed it? *)
  u_watch : nat;               (* level on which the unwrap callback is registered *)
  u_result : option term;      (* state of the unwrapping future: None = pending *)
  u_sets : nat                 (* how many times a set_result / set_exception / cancel reached it *)
}.

Definition u_init (k : nat) : ustate := mk_u (repeat false k) 0 None 0.

Fixpoint set_nth {A} (n : nat) (x : A) (l : list A) : list A :=
  match l, n with
  | [], _ => []
  | _ :: r, 0 => x :: r
  | y :: r, S n' => y :: set_nth n' x r
  end.

(* unwrap(fut) at level j with `fuel` levels left to look at: if f_j is the innermost level deliver its
   outcome; otherwise its result is the future f_{j+1}: `result.add_done_callback(unwrap)`, which calls
   unwrap at once when f_{j+1} is already done. *)
Fixpoint walk (fuel : nat) (k : nat) (t : term) (done : list bool) (j : nat) (res : option term) (sets : nat)
    : nat * option term * nat :=
  match fuel with
  | 0 => (j, res, sets)
  | S fuel' =>
      if nth j done false then
        if Nat.eqb (S j) k then (j, Some t, S sets)
        else walk fuel' k t done (S j) res sets
      else (j, res, sets)
  end.

(* the environment completes level i *)
Definition u_complete (k : nat) (t : term) (s : ustate) (i : nat) : ustate :=
  let done' := set_nth i true (u_done s) in
  if Nat.eqb i (u_watch s) then
    let '(j, res, sets) := walk k k t done' (u_watch s) (u_result s) (u_sets s) in
    mk_u done' j res sets
  else mk_u done' (u_watch s) (u_result s) (u_sets s).

Definition u_run (k : nat) (t : term) (order : list nat) : ustate :=
  fold_left (u_complete k t) order (u_init k).

(* the state of the unwrapping future after each event *)
Fixpoint u_trace (k : nat) (t : term) (s : ustate) (order : list nat) : list (option term) :=
  match order with
  | [] => []
  | i :: rest => let s' := u_complete k t s i in u_result s' :: u_trace k t s' rest
  end.

(* ---------------- _schedule_rpc: `while isfuture(result): result = await result` ----------------
   Awaiting a cancelled loop future raises asyncio.CancelledError, a BaseException that
   kiwipy.capture_exceptions (except Exception) does not catch; run_callback catches it and cancels
   the reply future (before the fix recorded in KNOWN_FINDINGS.txt the reply stayed pending for ever). *)
Definition rpc_final (t : term) : option term := Some t.

(* ---------------- create_task ---------------- *)
(* the coroutine returns a value or raises an Exception; the future gets exactly that *)
Definition create_task_outcome (coro : exn + val) : term :=
  match coro with inr v => TVal v | inl e => TExn e end.

(* ---------------- CancellableAction ---------------- *)
Inductive aop := ARun | ACancel.

Record astate := mk_a {
  a_fut : option term;         (* the action future itself: None = pending *)
  a_calls : nat                (* how many times the wrapped function has been called *)
}.

Inductive aret :=
| ARetNone                     (* run() returned *)
| ARetBool (b : bool)          (* cancel() returned b *)
| ARaised (e : exn).           (* run() raised *)

(* [f] = what the wrapped function does when called: returns a value or raises *)
Definition a_step (f : exn + val) (s : astate) (op : aop) : astate * aret :=
  match op with
  | ARun =>
      match a_fut s with
      | Some _ => (s, ARaised EInvalidState)               (* 'Action has already been ran' *)
      | None => (mk_a (Some (create_task_outcome f)) (S (a_calls s)), ARetNone)
      end
  | ACancel =>
      match a_fut s with
      | None => (mk_a (Some TCancel) (a_calls s), ARetBool true)
      | Some _ => (s, ARetBool false)
      end
  end.

Fixpoint a_run (f : exn + val) (s : astate) (ops : list aop) : astate * list aret :=
  match ops with
  | [] => (s, [])
  | op :: rest =>
      let '(s1, r) := a_step f s op in
      let '(s2, rs) := a_run f s1 rest in
      (s2, r :: rs)
  end.

Definition a_init : astate := mk_a None 0.
