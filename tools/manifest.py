#!/usr/bin/env python3
"""Regenerate MANIFEST.json from the table below (run after adding / changing a check)."""
import json
import os

ROOT = os.path.dirname(os.path.dirname(os.path.abspath(__file__)))
props = [json.loads(l) for l in open(os.path.join(ROOT, 'properties.jsonl'))]

COMMON_NOTE = ('Trusted: Coq 8.16.1 kernel + vm_compute; the hand-written Gallina model (tied to /repo on every run by executing model and '
               'implementation on the same generated cases and by regenerated facts tables proved equal to the model\'s); the harness '
               '(scheduler, term printer, oracle). Modelled, not verified: CPython/asyncio/kiwipy semantics named in DESIGN.md section 7. ')

# id -> (text, design_ref, note, technique)
CLAIMS = {
    'C09': ('Machine-checked proof (Coq) that the stepper machine of workchains.py (model Outline/OutlineModel.v) is sound and complete with '
            'respect to an inductive big-step semantics of the structured program, for every well-formed outline, arbitrary user state and '
            'arbitrary step/predicate functions, no bound on nesting, loop count or length; the model is tied to the code by running real '
            'generated WorkChain classes and the model on the same ~12k (quick) outlines x streams, bounded-exhaustive up to 4 instruction nodes.',
            'DESIGN.md section 4 C09', COMMON_NOTE + 'Awaited futures are already complete (the barrier is C10). Empty bodies are outside the theorem (wf_outline), their behaviour is still compared.',
            'Coq proof: stepper machine = big-step semantics (sound+complete) + vm_compute correspondence'),
    'C11': ('Machine-checked proof (Coq) that the validation algorithm of ports.py (pops, clone, dynamic check, validators; model Ports/PortModel.v) '
            'decides exactly the declarative conformance relation of Ports/PortSpec.v, that construction succeeds iff the inputs completed with the '
            'declared defaults conform, that every entry of the completed inputs is exactly the supplied value / declared default / frozen completion, '
            'and that every declared namespace level is a frozen mapping — for every port tree, every validator and every nested input, no bound on '
            'size or depth. Model tied to the code by constructing real Process subclasses on ~14k generated (spec, inputs) pairs per quick run.',
            'DESIGN.md section 4 C11', COMMON_NOTE + 'The aliasing half (raw_inputs / caller dictionary untouched) is outside the functional model and is checked on the implementation by the oracle on every case. Domain guard: values at declared namespace keys are dicts or non-iterable scalars.',
            'Coq proof: validate = declarative conformance, completion spec, frozenness + vm_compute correspondence'),
    'C12': ('Machine-checked proof (Coq) over the model of Process.out / on_finish: an emission to a declared, undeclared or nested (dynamically created) '
            'port is stored iff the located port/namespace accepts the value and is a ValueError otherwise; an accepted value is found under its path '
            'and nothing outside the first path component changes; success <-> returned successfully and the collected outputs conform to the output '
            'spec (via the C11 conformance theorem). For every spec, validator, path and value. Tied to the code by ~2.8k real executions per quick run.',
            'DESIGN.md section 4 C12', COMMON_NOTE + 'Path components non-empty. Listener/future agreement is checked on the implementation by the oracle.',
            'Coq proof: out/accept characterisation, frame, success iff conformance + vm_compute correspondence'),
    'C20': ('Machine-checked proof (Coq) over the model of the future adapters: for every nesting depth, every terminal outcome and every completion order '
            '(any permutation, no bound) the unwrapping future ends with exactly the innermost outcome, set exactly once, and is untouched before the last '
            'level completes; a CancellableAction satisfies a complete functional specification over every run/cancel sequence (function called at most once, '
            'iff the first op is run; later runs raise, later cancels return False). Tied to the code by running real concurrent.futures/asyncio futures '
            'through unwrap_kiwi_future, plum_to_kiwi_future, Process._schedule_rpc, create_task and CancellableAction on all orders up to depth 4.',
            'DESIGN.md section 4 C20', COMMON_NOTE + 'PARTIAL: single thread only (levels completed by the harness thread, loop drained after each event); no theorem about completion from a second OS thread; the consumer does not cancel the adapter future.',
            'Coq proof: invariant over completion sequences (unwrap), functional spec of CancellableAction + vm_compute correspondence'),
    'C14': ('Machine-checked proof (Coq) that both persister models refine the abstract (pid, tag) -> snapshot map operation by operation over every '
            'history (in-memory: unconditionally; pickle: for separator-free ids/tags, using injectivity of pickle_filename, also proved), hence are '
            'observationally equivalent; and that the map has the snapshot-store laws the property names (latest save wins, list = stored keys, delete '
            'idempotent and local, delete-by-pid exact). Tied to the code by running both real persisters with real, progressing WorkChains on '
            'generated histories, including mutation of loaded bundles/processes between operations.',
            'DESIGN.md section 4 C14', COMMON_NOTE + 'PARTIAL: pickle, os.walk/fnmatch and the file system are a finite map from file name to content (hypothesis); missing key canonicalised to NotFound for KeyError and FileNotFoundError.',
            'Coq proof: refinement of both persisters to an abstract map + vm_compute correspondence'),
    'C15': ('Machine-checked proof (Coq) that the string-level absorb algorithm (startswith / strip first level / recurse) computes exactly the '
            'component-level selection by include/exclude rules for every source tree with separator-free names and every antichain rule set, with a '
            'pointwise characterisation (leaf exposed iff selected; namespace iff it and its ancestors are selected, with the source properties), that '
            'other destination ports stay, that include+exclude is rejected and that namespace options override exactly the named properties. Tied to '
            'the code by real ProcessSpec.expose_inputs/outputs on ~2k generated cases with prefix-sharing names (a/ab/abc).',
            'DESIGN.md section 4 C15', COMMON_NOTE + 'Independence of the copy (no shared objects) is outside the functional model: checked on the implementation by identity and mutate-and-compare probes in the oracle.',
            'Coq proof: string-level absorb = component-level selection + vm_compute correspondence'),
    'C19': ('Machine-checked proof (Coq) over the model of Savable.save/load: for every class table (inheritance chains of auto_persist declarations), '
            'every object (plain values, own bound methods, nested Savables to any depth, futures in the four states) and every loader configuration in '
            'which the loading side resolves classes with the loader that saved (no load context => the loader recorded in the saved state, else the global '
            'one; or the same loader), load(save(o)) is exactly the projection of o on its declared members; saving is defined exactly on savable objects; '
            'another identifier scheme or an unloadable class is a ValueError, never an object; loader precedence context > recorded > global. Tied to the code '
            'by creating real Savable class hierarchies per case (~870 per quick run) and comparing saved states and loaded objects.',
            'DESIGN.md section 4 C19', COMMON_NOTE + 'copy.deepcopy faithful on plain data (hypothesis). "Copied at save time" is checked on the implementation by the oracle (the original is mutated after save; identity probes).',
            'Coq proof: load(save o) = declared-member projection under compatible loaders + vm_compute correspondence'),
}

NOT_YET = 'check under construction in this build session (model/theorems not committed yet); see DESIGN.md section 4'


def main():
    checks, na = [], []
    for p in props:
        i = p['id']
        if i in CLAIMS:
            text, ref, note, tech = CLAIMS[i]
            checks.append({
                'property_id': i,
                'quick_cmd': './check %s --tier quick' % i,
                'thorough_cmd': './check %s --tier thorough' % i,
                'evidence_file': '/verif/evidence/%s.json' % i,
                'replay_cmd_template': './check %s --replay {path}' % i,
                'engine': 'coq-model+correspondence',
                'level_claimed': {'category': 'proof', 'text': text, 'design_ref': ref},
                'level_note': note,
                'technique': tech,
            })
        else:
            na.append({'property_id': i, 'reason': NOT_YET})
    m = {
        'version': 1,
        'setup_cmd': './setup.sh',
        'hooks': {
            'guard': 'PLUMPY_VERIF',
            'enable': 'no source hooks are needed: the harness subclasses Process/WorkChain, registers public callbacks and drives the asyncio loop from outside',
            'baseline_off_cmd': 'cd /repo && /venv/bin/python -m pytest -ra -q -p no:cacheprovider --timeout=900 --continue-on-collection-errors',
            'source_commits': [],
            'add_only': True,
        },
        'engines': [{
            'name': 'coq-model+correspondence', 'path': '/verif/check', 'serves_properties': sorted(CLAIMS),
            'kind_free_text': 'Coq 8.16.1 theorems over hand-written Gallina models (coq/), tied to /repo on every run by vm_compute correspondence on generated cases + regenerated facts tables',
        }],
        'checks': checks,
        'not_applicable': na,
        'notes': 'see DESIGN.md; KNOWN_FINDINGS.txt lists fixed and open findings',
    }
    json.dump(m, open(os.path.join(ROOT, 'MANIFEST.json'), 'w'), indent=1)
    try:
        import jsonschema
        jsonschema.validate(m, json.load(open(os.path.join(ROOT, 'schemas', 'MANIFEST.schema.json'))))
        print('MANIFEST.json valid: %d checks, %d not claimed' % (len(checks), len(na)))
    except ImportError:
        print('written (jsonschema not available)')


if __name__ == '__main__':
    main()
