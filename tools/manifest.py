#!/usr/bin/env python3
"""Regenerate MANIFEST.json from the table below (run after adding / changing a check)."""
import json
import os

ROOT = os.path.dirname(os.path.dirname(os.path.abspath(__file__)))
props = [json.loads(l) for l in open(os.path.join(ROOT, 'properties.jsonl'))]

COMMON_NOTE = ('Trusted: Coq 8.16.1 kernel + vm_compute; the hand-written Gallina model (tied to /repo on every run by executing model and '
               'implementation on the same generated cases and by regenerated facts tables proved equal to the model\'s); the harness '
               '(scheduler, term printer, oracle). Modelled, not verified: CPython/asyncio/kiwipy semantics named in DESIGN.md section 7. ')

# id -> (text, design_ref, note, technique)
CLAIMS = {
    'C09': ('Machine-checked proof (Coq) that the stepper machine of workchains.py (model Outline/OutlineModel.v) is sound and complete with '
            'respect to an inductive big-step semantics of the structured program, for every well-formed outline, arbitrary user state and '
            'arbitrary step/predicate functions, no bound on nesting, loop count or length; the model is tied to the code by running real '
            'generated WorkChain classes and the model on the same ~12k (quick) outlines x streams, bounded-exhaustive up to 4 instruction nodes.',
            'DESIGN.md section 4 C09', COMMON_NOTE + 'Awaited futures are already complete (the barrier is C10). Empty bodies are outside the theorem (wf_outline), their behaviour is still compared.',
            'Coq proof: stepper machine = big-step semantics (sound+complete) + vm_compute correspondence'),
    'C11': ('Machine-checked proof (Coq) that the validation algorithm of ports.py (pops, clone, dynamic check, validators; model Ports/PortModel.v) '
            'decides exactly the declarative conformance relation of Ports/PortSpec.v, that construction succeeds iff the inputs completed with the '
            'declared defaults conform, that every entry of the completed inputs is exactly the supplied value / declared default / frozen completion, '
            'and that every declared namespace level is a frozen mapping — for every port tree, every validator and every nested input, no bound on '
            'size or depth. Model tied to the code by constructing real Process subclasses on ~14k generated (spec, inputs) pairs per quick run.',
            'DESIGN.md section 4 C11', COMMON_NOTE + 'The aliasing half (raw_inputs / caller dictionary untouched) is outside the functional model and is checked on the implementation by the oracle on every case. Domain guard: values at declared namespace keys are dicts or non-iterable scalars.',
            'Coq proof: validate = declarative conformance, completion spec, frozenness + vm_compute correspondence'),
    'C12': ('Machine-checked proof (Coq) over the model of Process.out / on_finish: an emission to a declared, undeclared or nested (dynamically created) '
            'port is stored iff the located port/namespace accepts the value and is a ValueError otherwise; an accepted value is found under its path '
            'and nothing outside the first path component changes; success <-> returned successfully and the collected outputs conform to the output '
            'spec (via the C11 conformance theorem). For every spec, validator, path and value. Tied to the code by ~2.8k real executions per quick run.',
            'DESIGN.md section 4 C12', COMMON_NOTE + 'Path components non-empty. Listener/future agreement is checked on the implementation by the oracle.',
            'Coq proof: out/accept characterisation, frame, success iff conformance + vm_compute correspondence'),
    'C20': ('Machine-checked proof (Coq) over the model of the future adapters: for every nesting depth, every terminal outcome and every completion order '
            '(any permutation, no bound) the unwrapping future ends with exactly the innermost outcome, set exactly once, and is untouched before the last '
            'level completes; a CancellableAction satisfies a complete functional specification over every run/cancel sequence (function called at most once, '
            'iff the first op is run; later runs raise, later cancels return False). Tied to the code by running real concurrent.futures/asyncio futures '
            'through unwrap_kiwi_future, plum_to_kiwi_future, Process._schedule_rpc, create_task and CancellableAction on all orders up to depth 4.',
            'DESIGN.md section 4 C20', COMMON_NOTE + 'PARTIAL: single thread only (levels completed by the harness thread, loop drained after each event); no theorem about completion from a second OS thread; the consumer does not cancel the adapter future.',
            'Coq proof: invariant over completion sequences (unwrap), functional spec of CancellableAction + vm_compute correspondence'),
    'C14': ('Machine-checked proof (Coq) that both persister models refine the abstract (pid, tag) -> snapshot map operation by operation over every '
            'history (in-memory: unconditionally; pickle: for separator-free ids/tags, using injectivity of pickle_filename, also proved), hence are '
            'observationally equivalent; and that the map has the snapshot-store laws the property names (latest save wins, list = stored keys, delete '
            'idempotent and local, delete-by-pid exact). Tied to the code by running both real persisters with real, progressing WorkChains on '
            'generated histories, including mutation of loaded bundles/processes between operations.',
            'DESIGN.md section 4 C14', COMMON_NOTE + 'PARTIAL: pickle, os.walk/fnmatch and the file system are a finite map from file name to content (hypothesis); missing key canonicalised to NotFound for KeyError and FileNotFoundError.',
            'Coq proof: refinement of both persisters to an abstract map + vm_compute correspondence'),
    'C15': ('Machine-checked proof (Coq) that the string-level absorb algorithm (startswith / strip first level / recurse) computes exactly the '
            'component-level selection by include/exclude rules for every source tree with separator-free names and every antichain rule set, with a '
            'pointwise characterisation (leaf exposed iff selected; namespace iff it and its ancestors are selected, with the source properties), that '
            'other destination ports stay, that include+exclude is rejected and that namespace options override exactly the named properties. Tied to '
            'the code by real ProcessSpec.expose_inputs/outputs on ~2k generated cases with prefix-sharing names (a/ab/abc).',
            'DESIGN.md section 4 C15', COMMON_NOTE + 'Independence of the copy (no shared objects) is outside the functional model: checked on the implementation by identity and mutate-and-compare probes in the oracle.',
            'Coq proof: string-level absorb = component-level selection + vm_compute correspondence'),
    'C19': ('Machine-checked proof (Coq) over the model of Savable.save/load: for every class table (inheritance chains of auto_persist declarations), '
            'every object (plain values, own bound methods, nested Savables to any depth, futures in the four states) and every loader configuration in '
            'which the loading side resolves classes with the loader that saved (no load context => the loader recorded in the saved state, else the global '
            'one; or the same loader), load(save(o)) is exactly the projection of o on its declared members; saving is defined exactly on savable objects; '
            'another identifier scheme or an unloadable class is a ValueError, never an object; loader precedence context > recorded > global. Tied to the code '
            'by creating real Savable class hierarchies per case (~870 per quick run) and comparing saved states and loaded objects.',
            'DESIGN.md section 4 C19', COMMON_NOTE + 'copy.deepcopy faithful on plain data (hypothesis). "Copied at save time" is checked on the implementation by the oracle (the original is mutated after save; identity probes).',
            'Coq proof: load(save o) = declared-member projection under compatible loaders + vm_compute correspondence'),

    'C01': ('Machine-checked proof (Coq) over the life-cycle model M1 (Life/Model.v, Life/Run.v: state machine, hooks, pause/play/kill/resume/fail, interrupt '
            'actions, the stepping coroutine defunctionalised, the event loop as a FIFO of callbacks): in EVERY run -- any program, any listener scripts calling '
            'back into the process re-entrantly, any list of environment events (control calls, late callbacks incl. raising ones, cancellation of the future, '
            'completions, ticks) placed anywhere between loop callbacks, no bound -- the recorded state entries form a history of the documented life-cycle graph '
            'starting at CREATED, every entry leaves exactly the current state, and once a terminal state is entered no later event changes the state or enters '
            'any state. State.ALLOWED is proved equal to the documented graph and to the table re-extracted from /repo on every run. Tied to the code by running '
            'real scripted processes under a controlled scheduler on ~3.2k (program, schedule) cases per quick run.',
            'DESIGN.md section 4 C01', COMMON_NOTE + 'Hooks that raise are excluded (cf_fault = None), as the property says; they are C03\'s subject.',
            'Coq proof: two-world legality relation preserved by every model operation (wp calculus), lifted to all runs by induction + vm_compute correspondence'),
    'C13': ('Machine-checked proof (Coq) over M1: the command mapping (Continue/Wait/value/Stop/UnsuccessfulResult/Kill -> next state with exact arguments) and '
            'the resume forwarding as equations; one iteration of the stepping loop from ANY quiet world (symbolic execution of the model on a world of '
            'variables): the step run is exactly the one the RUNNING state names with its arguments and the state entered is exactly the one the command '
            'denotes; and, by induction on the chain and on the list of resume values, for EVERY program made of commands and every output specification the '
            'whole run (construct, loop callback, resume + loop callback ...) executes exactly the steps of a reference interpreter of the commands and ends '
            'in the denoted state. Restore half: round trip of the CREATED/RUNNING/WAITING payload (proved for C08). Tied to the code by ~500 real chains per '
            'quick run, each also restored from a Bundle taken at every state entry.',
            'DESIGN.md section 4 C13', COMMON_NOTE + 'Chain theorems are for quiet worlds (no pause/kill requests, no listener scripts, no injected fault) and steps without awaits/outputs; the interplay with pause/kill is C04-C06. The restore half on the implementation is checked by the oracle.',
            'Coq proof: symbolic execution (wp calculus + computation) of one loop iteration, induction over chains and resume lists + vm_compute correspondence'),
    'C07': ('Machine-checked proof (Coq) over the model of Process/WorkChain persistence (Persist/ProcSave.v: save_instance_state / load_instance_state / recreate_from '
            'key by key on top of the Savable model): for every savable process record, load(save p) is defined and equals p (traceback dropped), saving the loaded '
            'process yields the same bundle (idempotence, also through any identity medium and for a second generation), every observable accessor is preserved, a '
            'paused process is restored paused; the member and key tables are proved equal to those re-extracted from /repo on every run. Tied to the code by '
            'snapshots of real processes and workchains at every state entry and schedule point (240 cases quick) under deepcopy, pickle and YAML and 7 loader configurations.',
            'DESIGN.md section 4 C07', COMMON_NOTE + 'PARTIAL: deepcopy, pickle and YAML are a Section variable with the hypothesis medium = id (tested per snapshot); the stepper round trip is a hypothesis here and a theorem of C08.',
            'Coq proof: load . save = id and save . load . save = save on the process record + facts tables by reflexivity + vm_compute correspondence'),
    'C08': ('Machine-checked proof (Coq) over the outline-stepper model (Outline/StepperPersist.v on top of M2): every stepper reachable from the initial one is consistent '
            'with its outline; recreate(save_stepper s) = s for consistent steppers; the RUNNING/WAITING/CREATED payload round-trips; and for EVERY well-formed outline, '
            'user step/predicate functions, user state and EVERY function assigning a number of consecutive restores to each step boundary, the run with restores equals '
            'the uninterrupted run (trace, ctx, result). Foreign continuations / steps are rejected. Tied to the code by ~3.6k real restore experiments per quick run '
            '(Bundle -> deepcopy|pickle -> unbundle in a fresh loop, 1-3 times, every subset of <= 3 crash points among the first 8 boundaries).',
            'DESIGN.md section 4 C08', COMMON_NOTE + 'Hypotheses: well-formed outline, functions bound under their own name, bundle codec = identity.',
            'Coq proof: consistency invariant + save/recreate round trip + induction on executed steps for arbitrary restore schedules + vm_compute correspondence'),
    'C10': ('Machine-checked proof (Coq) over the barrier model (Outline/Barrier.v: ctx, awaitables of the step, the Waiting state\'s awaiting map, done-callbacks, FIFO ready '
            'queue; events Complete k outcome / Tick): for every program, every number of awaited items, every completion order and placement between callbacks, a step '
            'that starts after a wait finds every awaited future completed with a value and ctx[key] equal to it; while any item is pending no step starts; the first '
            'failing completion ends the chain EXCEPTED with that exception and no later step starts; once all completed and the queue drained the next step has started; '
            'no exception escapes a completion callback. Tied to the code by ~4.3k real WorkChain runs per quick run with plain futures and launched children.',
            'DESIGN.md section 4 C10', COMMON_NOTE + 'No pause/kill events in this model (C06\'s subject); futures are not cancelled (outside the quantifier).',
            'Coq proof: one invariant carried by induction over the event list + vm_compute correspondence'),
    'C16': ('Machine-checked proof (Coq) over a layer around M1 (Comms/Rpc.v): message dispatch is a pure function mapping each intent to exactly the documented call with '
            'the message text (status synchronous, unknown intent an error scheduling nothing, foreign broadcast subjects ignored); the world after the scheduled rpc '
            'callback equals the world after the direct control call at that point and the reply is the call\'s result with nested futures unwrapped (via C20); a whole '
            'remote run equals the M1 run of the computed direct schedule; the announcements are exactly state_changed.<from>.<to> for the consecutive entered states, '
            'once each, in order; a tolerated broadcast failure changes nothing else; both subscriptions are removed exactly once iff closed. Tied to the code by twin runs '
            '(real RemoteProcessThreadController / RemoteProcessController over LoopCommunicator vs direct calls) on ~3.3k cases per quick run.',
            'DESIGN.md section 4 C16', COMMON_NOTE + 'PARTIAL: single loop thread and a synchronous in-process communicator; thread and broker interleavings cannot be exhibited.',
            'Coq proof: pure dispatch, rpc callback = direct call (equality of worlds), announcements by induction over the trace + vm_compute correspondence'),
    'C17': ('Machine-checked proof (Coq) over the launcher model (Comms/Launcher.v on the abstract (pid, tag) map of C14): a rejected task (unknown type, persist or continue '
            'without persister) replies TaskRejected and leaves persister and process set unchanged; create/launch/continue functional specifications (persists iff asked, '
            'pid for create/nowait else the outcome, continue loads exactly the requested checkpoint); class resolution goes through the configured loader with precedence; '
            'create(persist); continue == launch(persist) on reply, events and final map under coherent loaders (and the hypothesis is shown necessary); history theorems '
            'by induction over task lists. Tied to the code by ~1.5k real ProcessLauncher histories per quick run over no / in-memory / pickle persisters and 3x3 loaders.',
            'DESIGN.md section 4 C17', COMMON_NOTE + 'PARTIAL: the communicator path is not modelled; histories are sequential (loop drained after every reply); processes are abstracted by run_to_end (Section variable).',
            'Coq proof: functional specs of the launcher over the abstract snapshot map, induction over task histories + vm_compute correspondence'),
    'C18': ('Machine-checked proof (Coq) over the context model (Comms/Ctx.v: every task carries its own copy of the process stack, _process_scope frames, call_soon, launch, '
            'nested execute, hook dispatch of transitions, control calls direct or deferred): for every table of processes, every schedule and fuel, whenever user code of '
            'process p of any kind (step, continuation, output hook, scheduled callback, life-cycle hook) executes, current() = p; the stack of a task is always the inherited '
            'stack plus its open scopes, scope entries/exits are well bracketed and restore exactly the entry stack, a step of one task touches no other task\'s stack, a '
            'spawned task inherits its creator\'s stack. Tied to the code by ~900 real multi-process runs per quick run with current() sampled in every function and hook.',
            'DESIGN.md section 4 C18', COMMON_NOTE + 'PARTIAL: CPython contextvars copy-on-task-creation is a hypothesis; the schedule is an input (nothing is proved about which schedules asyncio produces).',
            'Coq proof: stack = inherited ++ open scopes invariant over all schedules + vm_compute correspondence'),

    'C04': ('Machine-checked proof (Coq) over M1: kill() requested between any two loop callbacks of ANY run (any program, listener scripts, schedule; no bound) '
            'returns a result and never raises (Life/LifeBook.v: an invariant over all model operations, re-entrant listeners included) - also when a '
            'life-cycle hook raises, for any injected fault (Life/LifeKillTotal.v on LifeEsc); in EVERY run the '
            'bookkeeping of pending requests is never stale (Life/LifePtr.v): _killing / _pausing, when set, is the armed interrupt action, which exists, is '
            'still pending and of the right kind, and an action is armed only while a step is in flight - so between steps nothing is pending and the '
            'configuration in which kill() keeps answering with a dead future is unreachable; a kill armed during a step survives every later request and '
            'every event other than the stepping task\'s own callback (Life/LifeArmed.v: pause, play, resume, further kills, fail, listeners reacting to them, '
            'cancellation, late callbacks, completions leave _killing at the same armed, pending kill action); a kill() between steps of any reachable live '
            'process is carried out at once (Life/LifeKill.v); on every reachable world on which a kill is pending the tail of step() carries it out however '
            'execute() came back - next state, interruption or exception - and leaves the process terminated, KILLED or EXCEPTED (Life/LifeCarry.v, with any '
            'injected fault); by symbolic execution '
            'of the model on every quiet world: between steps the process is KILLED when kill() returns True, the text is recorded, the future raises '
            'KilledError with it and the process is closed; while a step is in flight a pending kill action is armed as the interrupt action and returned; a '
            'killed (terminated) process is never revived (C01). The races named in the property (kill/pause/play inside one step, pause then kill in a wait, '
            'future cancellation) are evaluated on the model. Tied to the code by ~2.6k real runs per quick run: every sequence of <= 3 requests at every '
            'callback boundary, inside steps and from listeners, each closed by a probing kill.',
            'DESIGN.md section 4 C04', COMMON_NOTE + 'The chain "armed -> survives every other event (LifeArmed) -> the suspended stepping task is woken (LifeWake) -> the end of the step carries it out on every reachable world (LifeCarry)" is proved link by link over all runs; what is not a single theorem is their composition into "every run in which kill() was requested ends terminated" (a liveness statement: a step blocked in its own await of a future nobody completes never ends), and the LifeCarry/LifeEsc links exclude an outside cancellation of the future. One known finding (KNOWN_FINDINGS.txt): D3b future cancelled while a synchronous chain completes (D8, kill issued by a listener during the end-of-step transition, was repaired: cc71384).',
            'Coq proof: never-raises invariant over all runs (wp calculus) + symbolic execution of kill on quiet worlds + vm_compute correspondence'),
    'C05': ('Machine-checked proof (Coq) over M1, for EVERY run (any program, listener scripts, schedule of pause/play/resume/kill/fail/late callbacks/ticks; no '
            'bound): every step function or continuation that starts and every sample taken by code inside a step (also after an await) sees the process not '
            'paused; pause() and play() never raise; between loop callbacks a process whose step is in flight is not paused (a pause takes effect at a step '
            'boundary); a pending pause is always the armed, still pending pause action of a step in flight (Life/LifePtr.v); while the process reports paused no step is in flight, no interrupt action is armed and neither a pause nor a kill is pending (Life/LifePaused.v). By symbolic execution on every quiet world: pause() between steps pauses at once with the message as status and the previous status '
            'remembered; play() un-pauses and restores exactly that status. The uninterrupted reference run of command programs is the reference interpreter '
            '(C13). Tied to the code by ~2.5k real runs per quick run: every selection of <= 3 pause/play/resume requests per loop iteration at every boundary, '
            'compared step by step with the uninterrupted run.',
            'DESIGN.md section 4 C05', COMMON_NOTE + 'PARTIAL: transparency (same steps, outputs, result as the uninterrupted run for every placement) is proved for the uninterrupted run itself and checked on implementation + model for the generated placements; it is not a theorem over all placements.',
            'Coq proof: trace-flag + stepping/paused invariant over all runs (wp calculus) + symbolic execution of pause/play + vm_compute correspondence'),
    'C06': ('Machine-checked proof (Coq) over M1. For EVERY run (any program, listener scripts with re-entrant control calls, callbacks, any schedule of any '
            'length; hooks that do not raise) a wake-up is never lost (Life/LifeWake.v, invariant W): a suspended stepping task either has its wake-up in the '
            'loop\'s ready queue or is parked on exactly the current pending waiting future / the current pause future of a live process / an environment '
            'future nobody completed - so once the wait has been resumed, interrupted or its state left, and once play() has been called, however these are '
            'interleaved, the task is going to run. Per operation: resume(v) stores exactly v; the first resume wins; a resume arriving after an interruption that execute() has not '
            'dealt with is kept in a fresh waiting future (the race of the property); the stored value is forwarded as the only argument of the continuation; from '
            'every quiet world a wait holding a wake-up continues with exactly that value, and resume + one loop callback on a parked process runs the whole '
            'following chain of the reference interpreter. The interleavings named in the property (pause;resume in one iteration, pause;play then resume, repeated '
            'pause/play pairs) are evaluated on the model. Tied to the code by ~2.4k real runs per quick run: all orders of <= 3 events from {resume v, resume w, '
            'resume(), pause, play} at every boundary.',
            'DESIGN.md section 4 C06', COMMON_NOTE + 'PARTIAL: the all-run theorem is a safety statement (the wake-up is queued); that the continuation then runs with the first resume value is proved per operation on quiet worlds and checked for <= 3 events per schedule; the awaited-futures half is C10 (no pause there) plus the implementation oracle.',
            'Coq proof: equations + symbolic execution of the wake-up path on quiet worlds + vm_compute correspondence'),

    'C02': ('Machine-checked proof (Coq) over M1. For EVERY run (any program, listener scripts with re-entrant control calls - kill from a listener, pause inside a '
            'transition -, callbacks, any schedule of control requests / cancellations / late callbacks / completions of awaited futures, of any length; hooks that '
            'do not raise) and at every point between two environment events (Life/LifeAgree.v, an invariant proved compositionally over all model operations): '
            'FINISHED <-> the future holds the outputs, EXCEPTED e <-> the future raises e, KILLED m <-> the future raises KilledError with the text of m, each with '
            'the process closed, its hooks released, exactly one terminal notification of that kind sent to the listeners and the registered cleanup run exactly '
            'once after it; live <-> the future is pending (or was cancelled by its owner), not closed, no terminal notification, no cleanup; and '
            '(Life/LifeWake.v: every suspended stepping task is going to be woken) once the process has terminated and the loop has nothing left to run, '
            'step_until_terminated() has returned unless the task failed or the step is still blocked in the program\'s own await of a future nobody completed. By symbolic '
            'execution on every quiet world additionally: each terminating operation (result, unsuccessful result, exception, Kill command, kill between steps) '
            'produces exactly the documented outcome and the stepping loop returns on a terminated process; the outcome never changes afterwards (C01). Tied to '
            'the code by ~2.9k real runs per quick run in which all eight accessors, the listener and cleanup counters and the stepping task are sampled after '
            'every event and callback (kill while paused, inside a step, from a listener, fail, raising late callbacks).',
            'DESIGN.md section 4 C02', COMMON_NOTE + 'The return of step_until_terminated() is now closed over every run: Life/LifeEsc.v proves that the stepping task never fails (C02_stepping_task_never_fails, C02_stepping_task_returns_for_sure), for schedules that do not cancel the process future from outside (that interplay is the recorded finding D3b of C04); the remaining exclusions are the model\'s explicit fuel and a step blocked in the program\'s own await of a future nobody completes.',
            'Coq proof: invariant over all runs (compositional Hoare triples in wp form) + symbolic execution of every terminating operation + C01 finality + vm_compute correspondence'),
    'C03': ('Machine-checked proof (Coq) over M1 with one injected fault. OVER EVERY RUN (Life/LifeEsc.v; any program, listener scripts with re-entrant control calls, '
            'scheduled callbacks, ANY fault = any hook name x any occurrence index x any exception, any schedule of any length that does not cancel the process '
            'future from outside): no exception ever reaches the event loop - no callback or done-callback reports a loop error and the stepping task never fails '
            '(C03_nothing_reaches_the_loop) - and the process is never left between states: between any two events no transition is under way, the failure bypass '
            'is not armed, closed => terminated, a live process has a pending future, an armed interrupt action is pending (C03_never_half_transitioned); and '
            '(Life/LifeExc.v, C03_fault_ends_excepted_every_run) for a fault in any of the 14 life-cycle hooks run by transitions, at every point between two '
            'events: once the fault has fired the state is EXCEPTED with EXACTLY the injected exception, the future raises it and the process is closed (also '
            'when the failing hook was on_terminated / on_close of a FINISHED or KILLED state already entered) - the transition in which it fired was '
            'completed to EXCEPTED before the enclosing operation returned and nothing afterwards changes that. The proof '
            'tracks the one-shot fault: an operation called with a legal target fails only by firing it, the second transition (to EXCEPTED, exit phase skipped) '
            'then cannot fail, and the targets computed by steps ARE legal (invariant tying the program counter of a suspended step to the state label). '
            'Additionally, by symbolic execution on EVERY world in which the fault is armed (whatever the occurrence '
            'count): for the step function and for each life-cycle hook of the transitions RUNNING->RUNNING, ->WAITING, ->FINISHED (incl. on_finished, on_terminated, '
            'on_close) and of a kill between steps, the enclosing operation returns normally, the process is EXCEPTED with exactly that exception, its future raises '
            'it, it is closed and stepping has ended; a raising call_soon callback fails the process the same way and nothing reaches the loop; an exception raised '
            'by a listener never leaves fire_event (for arbitrary re-entrant listeners); a fault during construction propagates to the caller. Tied to the code by a '
            'complete fault enumeration: every hook x every occurrence x 6 scenarios, failing steps (also with a cancelled future), callbacks, listeners.',
            'DESIGN.md section 4 C03', COMMON_NOTE + 'PARTIAL: faults are raised before the hook calls its super() implementation; pause/play hook faults are checked by the oracle only; "ends EXCEPTED with exactly that exception" is proved per operation from quiet worlds (and on the four runs of the non-vacuity example), the all-run theorems are the containment half (nothing reaches the loop, never half-transitioned) and exclude an outside cancellation of the future (finding D3b).',
            'Coq proof: invariant over all runs with a one-shot fault (Hoare triples in wp form, result-sensitive at the transition level) + symbolic execution (wp calculus + computation) of the model with an armed fault, hook by hook + vm_compute correspondence'),
}

NOT_YET = 'check under construction in this build session (model/theorems not committed yet); see DESIGN.md section 4'


def main():
    checks, na = [], []
    for p in props:
        i = p['id']
        if i in CLAIMS:
            text, ref, note, tech = CLAIMS[i]
            checks.append({
                'property_id': i,
                'quick_cmd': './check %s --tier quick' % i,
                'thorough_cmd': './check %s --tier thorough' % i,
                'evidence_file': '/verif/evidence/%s.json' % i,
                'replay_cmd_template': './check %s --replay {path}' % i,
                'engine': 'coq-model+correspondence',
                'level_claimed': {'category': 'proof', 'text': text, 'design_ref': ref},
                'level_note': note,
                'technique': tech,
            })
        else:
            na.append({'property_id': i, 'reason': NOT_YET})
    m = {
        'version': 1,
        'setup_cmd': './setup.sh',
        'hooks': {
            'guard': 'PLUMPY_VERIF',
            'enable': 'no source hooks are needed: the harness subclasses Process/WorkChain, registers public callbacks and drives the asyncio loop from outside',
            'baseline_off_cmd': 'cd /repo && /venv/bin/python -m pytest -ra -q -p no:cacheprovider --timeout=900 --continue-on-collection-errors',
            'source_commits': [],
            'add_only': True,
        },
        'engines': [{
            'name': 'coq-model+correspondence', 'path': '/verif/check', 'serves_properties': sorted(CLAIMS),
            'kind_free_text': 'Coq 8.16.1 theorems over hand-written Gallina models (coq/), tied to /repo on every run by vm_compute correspondence on generated cases + regenerated facts tables',
        }],
        'checks': checks,
        'not_applicable': na,
        'notes': 'see DESIGN.md; KNOWN_FINDINGS.txt lists fixed and open findings',
    }
    json.dump(m, open(os.path.join(ROOT, 'MANIFEST.json'), 'w'), indent=1)
    try:
        import jsonschema
        jsonschema.validate(m, json.load(open(os.path.join(ROOT, 'schemas', 'MANIFEST.schema.json'))))
        print('MANIFEST.json valid: %d checks, %d not claimed' % (len(checks), len(na)))
    except ImportError:
        print('written (jsonschema not available)')


if __name__ == '__main__':
    main()
