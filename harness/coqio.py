"""Python -> Gallina term printing, cases-file writer and parallel coqc runner."""
import os
import re
import subprocess
import time
from concurrent.futures import ThreadPoolExecutor

ROOT = os.path.dirname(os.path.dirname(os.path.abspath(__file__)))
COQ = os.path.join(ROOT, 'coq')
BUILD = os.path.join(ROOT, 'build')
QDIRS = ['Base', 'Outline', 'Ports', 'Persist', 'Futures', 'Life', 'Comms', 'Gen', 'Corr', 'Props']


def qflags():
    out = []
    for d in QDIRS:
        out += ['-Q', os.path.join(COQ, d), 'Plumpy']
    return out


# ---------------------------------------------------------------- term printers
def c_str(s):
    assert isinstance(s, str), s
    for ch in s:
        assert 32 <= ord(ch) < 127, 'non printable char in string literal'
    return '"' + s.replace('"', '""') + '"'


def c_bool(b):
    return 'true' if b else 'false'


def c_nat(n):
    assert 0 <= n < 5000
    return '%d' % n


def c_Z(z):
    return '(%d)%%Z' % z


def c_list(items):
    return '[' + '; '.join(items) + ']'


def c_opt(x, f=lambda t: t):
    return 'None' if x is None else '(Some %s)' % f(x)


def c_pair(a, b):
    return '(%s, %s)' % (a, b)


def c_val(v):
    """JSON-able Python value -> Base/Val.v val.  Tuples are encoded as {'__tuple__': [...]},
    frozen dicts as {'__frozen__': {...}} by the harness."""
    if v is None:
        return 'VNone'
    if v is True or v is False:
        return '(VBool %s)' % c_bool(v)
    if isinstance(v, int):
        return '(VInt %s)' % c_Z(v)
    if isinstance(v, str):
        return '(VStr %s)' % c_str(v)
    if isinstance(v, tuple):
        return '(VTup %s)' % c_list([c_val(x) for x in v])
    if isinstance(v, list):
        return '(VList %s)' % c_list([c_val(x) for x in v])
    if isinstance(v, dict):
        if set(v.keys()) == {'__tuple__'}:
            return '(VTup %s)' % c_list([c_val(x) for x in v['__tuple__']])
        if set(v.keys()) == {'__frozen__'}:
            return '(VFrozen %s)' % c_list([c_pair(c_str(k), c_val(x)) for k, x in v['__frozen__'].items()])
        return '(VDict %s)' % c_list([c_pair(c_str(k), c_val(x)) for k, x in v.items()])
    raise TypeError('cannot print %r as a val' % (v,))


EXN = {
    'InvalidStateError': 'EInvalidState', 'RuntimeError': 'ERuntime', 'AssertionError': 'EAssert',
    'EventError': 'EEventError', 'ClosedError': 'EClosed', 'ValueError': 'EValue', 'TypeError': 'EType',
    'IndexError': 'EIndex', 'KeyError': 'EKey', 'AttributeError': 'EAttribute',
    'CancelledError': 'ECancelled', 'TaskRejected': 'ERejected',
}


def c_exn(e):
    """e: ['user', tag] | ['killed', txt] | ['py', TypeName]"""
    kind = e[0]
    if kind == 'user':
        return '(EUser %s)' % c_str(e[1])
    if kind == 'killed':
        return '(EKilled %s)' % c_str(e[1])
    if kind == 'py':
        return EXN[e[1]]
    raise ValueError(e)


def canon_exception(exc):
    """Map a Python exception to the small enum (message text is never compared)."""
    import plumpy
    from plumpy.base import state_machine
    name = type(exc).__name__
    if name == 'UserError':
        return ['user', str(exc.args[0])]
    if isinstance(exc, plumpy.KilledError):
        return ['killed', str(exc.args[0]) if exc.args else '']
    if isinstance(exc, (plumpy.InvalidStateError, state_machine.InvalidStateError)) or name == 'InvalidStateError':
        return ['py', 'InvalidStateError']
    for base in type(exc).__mro__:
        if base.__name__ in EXN:
            return ['py', base.__name__]
    return ['py', 'RuntimeError'] if isinstance(exc, RuntimeError) else ['other', name]


# ---------------------------------------------------------------- cases files
def _compile(path, timeout):
    t0 = time.time()
    try:
        p = subprocess.run(['coqc'] + qflags() + [path], capture_output=True, text=True, timeout=timeout)
        return path, p.returncode, p.stdout, p.stderr, time.time() - t0
    except subprocess.TimeoutExpired:
        return path, 124, '', 'timeout', time.time() - t0


_RESULT = re.compile(r'=\s*\[(.*?)\]\s*:\s*list nat', re.S)


def run_cases(prop, corr_module, case_type, mismatch_fn, case_terms, shard=300, timeout=600, jobs=16):
    """Write the generated cases as Gallina terms, evaluate [mismatch_fn] on them inside Coq
    (vm_compute) and return (list of failing global indices, errors).  A shard that fails to
    compile is reported in errors."""
    d = os.path.join(BUILD, 'cases', prop)
    os.makedirs(d, exist_ok=True)
    for f in os.listdir(d):
        os.remove(os.path.join(d, f))
    paths = []
    for k in range(0, len(case_terms), shard):
        chunk = case_terms[k:k + shard]
        name = '%s_cases_%04d' % (prop, k // shard)
        path = os.path.join(d, name + '.v')
        with open(path, 'w') as fh:
            fh.write('From Coq Require Import List ZArith String.\nFrom Plumpy Require Import Val %s.\n' % corr_module)
            fh.write('Import ListNotations.\nOpen Scope string_scope.\n')
            fh.write('Definition cases : list %s := [\n' % case_type)
            fh.write(';\n'.join(chunk))
            fh.write('\n].\nEval vm_compute in (%s cases).\n' % mismatch_fn)
        paths.append((k, path))
    failing, errors = [], []
    with ThreadPoolExecutor(max_workers=jobs) as ex:
        results = list(ex.map(lambda kp: (kp[0],) + _compile(kp[1], timeout), paths))
    for k, path, rc, out, err, dt in results:
        m = _RESULT.search(out)
        if rc != 0 or not m:
            errors.append({'file': path, 'rc': rc, 'stderr': err[-2000:], 'stdout': out[-500:]})
            continue
        body = m.group(1).strip()
        if body:
            for tok in body.replace('\n', ' ').split(';'):
                tok = tok.strip().replace('%nat', '')
                failing.append(k + int(tok))
    return sorted(failing), errors


def eval_terms(prop, corr_module, terms, timeout=300):
    """Evaluate a few terms with vm_compute and return coqc's raw output (diagnosis only)."""
    d = os.path.join(BUILD, 'cases', prop)
    os.makedirs(d, exist_ok=True)
    path = os.path.join(d, '%s_diag.v' % prop)
    with open(path, 'w') as fh:
        fh.write('From Coq Require Import List ZArith String.\nFrom Plumpy Require Import Val %s.\n' % corr_module)
        fh.write('Import ListNotations.\nOpen Scope string_scope.\n')
        for t in terms:
            fh.write('Eval vm_compute in (%s).\n' % t)
    _, rc, out, err, _ = _compile(path, timeout)
    return (out + err).strip()
