"""Module-level Process / WorkChain classes (loadable by the default object loader, picklable)."""
import plumpy
from plumpy import WorkChain, Process, while_, if_, return_


class CounterChain(WorkChain):
    """Appends to mutable members of the context at every step; finishes after LIMIT steps."""
    LIMIT = 6

    @classmethod
    def define(cls, spec):
        super().define(spec)
        spec.input('start', default=0, required=False)
        spec.outputs.dynamic = True
        spec.outline(cls.wc_init, while_(cls.not_done)(cls.wc_step), cls.wc_finish)

    def wc_init(self):
        self.ctx.l = [self.inputs.start]
        self.ctx.n = 0
        self.ctx.d = {'k': []}

    def not_done(self):
        return self.ctx.n < self.LIMIT

    def wc_step(self):
        self.ctx.n += 1
        self.ctx.l.append(self.ctx.n)
        self.ctx.d['k'].append(self.ctx.n * 10)

    def wc_finish(self):
        self.out('total', sum(self.ctx.l))
