"""Module-level Process / WorkChain classes (loadable by the default object loader, picklable)."""
import plumpy
from plumpy import WorkChain, Process, while_, if_, return_


class CounterChain(WorkChain):
    """Appends to mutable members of the context at every step; finishes after LIMIT steps."""
    LIMIT = 6

    @classmethod
    def define(cls, spec):
        super().define(spec)
        spec.input('start', default=0, required=False)
        spec.outputs.dynamic = True
        spec.outline(cls.wc_init, while_(cls.not_done)(cls.wc_step), cls.wc_finish)

    def wc_init(self):
        self.ctx.l = [self.inputs.start]
        self.ctx.n = 0
        self.ctx.d = {'k': []}
        self.ctx.view = self.ctx.d['k']          # one list reachable by two paths: a snapshot must keep it one object

    def not_done(self):
        return self.ctx.n < self.LIMIT

    def wc_step(self):
        self.ctx.n += 1
        self.ctx.l.append(self.ctx.n)
        self.ctx.d['k'].append(self.ctx.n * 10)

    def wc_finish(self):
        self.out('total', sum(self.ctx.l))


class PrefixLoader(plumpy.DefaultObjectLoader):
    """A custom object loader with its own identifier scheme: 'X|' + the default identifier."""

    def load_object(self, identifier):
        if not identifier.startswith('X|'):
            raise ValueError("identifier `%s` is not in this loader's scheme" % identifier)
        return super().load_object(identifier[2:])

    def identify_object(self, obj):
        return 'X|%s:%s' % (obj.__module__, obj.__name__)
