"""Shared by the life-cycle properties (C01-C06, C13): run a scripted process under the controlled scheduler,
Gallina printers for configs / schedules / observations, generators of programs and schedules."""
import itertools
import json
import logging
import warnings

import coqio
import portgen

logging.disable(logging.CRITICAL)      # plumpy logs every swallowed exception; the harness provokes thousands of them
from coqio import c_str, c_bool, c_list, c_opt, c_nat, c_val, c_exn, c_pair

CORR_MODULE = 'Mon PortModel Model Run Corr_Life'
CASE_TYPE = 'Life_case'
MODEL_FN = 'life_model'
CORR_FILE = 'Corr/Corr_Life.v'
LABELS = {'created': 'LCreated', 'running': 'LRunning', 'waiting': 'LWaiting', 'finished': 'LFinished',
          'excepted': 'LExcepted', 'killed': 'LKilled'}
TERMINAL = ('finished', 'excepted', 'killed')


# ------------------------------------------------------------------ printers
def c_ctl(c):
    k = c[0]
    if k == 'pause':
        return '(CPause %s)' % c_opt(c[1], c_str)
    if k == 'play':
        return 'CPlay'
    if k == 'kill':
        return '(CKill %s)' % c_opt(c[1], c_str)
    if k == 'resume':
        return '(CResume %s)' % ('(Some %s)' % c_val(c[1]) if len(c) > 1 else 'None')
    if k == 'fail':
        return '(CFail (EUser %s))' % c_str(c[1])
    if k == 'raise':
        return '(CRaise (EUser %s))' % c_str(c[1])
    raise ValueError(c)


def c_cret(r):
    k = r[0]
    if k == 'bool':
        return '(CrBool %s)' % c_bool(r[1])
    if k == 'action':
        return '(CrAction %s)' % c_nat(r[1])
    if k == 'none':
        return 'CrNone'
    if k == 'raised':
        return '(CrRaised %s)' % c_exn(r[1])
    raise ValueError(r)


def c_kwargs(d):
    return c_list([c_pair(c_str(k), c_val(v)) for k, v in d.items()])


def c_action(a):
    k = a[0]
    if k == 'out':
        return '(AOut %s %s)' % (c_str(a[1]), c_val(a[2]))
    if k == 'yield':
        return 'AYield'
    if k == 'await':
        return '(AAwaitExt %s)' % c_nat(a[1])
    if k == 'ctl':
        return '(ACtl %s)' % c_ctl(a[1])
    if k == 'call_soon':
        return '(ACallSoon %s)' % c_nat(a[1])
    if k == 'observe':
        return 'AObserve'
    if k == 'status':
        return '(AStatus %s)' % c_opt(a[1], c_str)
    raise ValueError(a)


def c_sret(r):
    k = r[0]
    if k == 'continue':
        return '(RContinue %s %s %s)' % (c_str(r[1]), c_list([c_val(v) for v in r[2]]), c_kwargs(r[3]))
    if k == 'wait':
        return '(RWait %s %s %s)' % (c_opt(r[1], c_str), c_opt(r[2], c_str), c_val(r[3]))
    if k == 'value':
        return '(RValue %s)' % c_val(r[1])
    if k == 'unsuccessful':
        return '(RUnsuccessful %s)' % c_val(r[1])
    if k == 'stop':
        return '(RStop %s %s)' % (c_val(r[1]), c_bool(r[2]))
    if k == 'kill':
        return '(RKill %s)' % ('None' if r[1] is None else '(Some %s)' % c_opt(r[1][0], c_str))
    if k == 'raise':
        return '(RRaise (EUser %s))' % c_str(r[1])
    raise ValueError(r)


def c_wake(w):
    if w[0] == 'val':
        return '(WkVal %s)' % c_val(w[1])
    return '(WkExn (EUser %s))' % c_str(w[1])


def c_cb(s):
    if s[0] == 'ok':
        return 'CbOk'
    if s[0] == 'raise':
        return '(CbRaise (EUser %s))' % c_str(s[1])
    return '(CbCtl %s)' % c_ctl(s[1])


DEFAULT_OSPEC = '(PNs (mk_nattrs true None DNone None true true None) PNil)'


def c_config(case):
    prog = c_list([c_pair(c_str(n), '(mk_script %s %s)' % (c_list([c_action(a) for a in s['actions']]), c_sret(s['ret'])))
                   for n, s in case['prog'].items()])
    cbs = c_list([c_cb(s) for s in case.get('callbacks', [])])
    ls = c_list(['(mk_lscript %s %s %s)' % (c_str(e), c_nat(o), c_ctl(c)) for e, o, c in case.get('listeners', [])])
    f = case.get('fault')
    fault = 'None' if not f else '(Some (%s, %s, EUser %s))' % (c_str(f[0]), c_nat(f[1]), c_str(f[2]))
    ospec = DEFAULT_OSPEC if case.get('ospec') is None else portgen.c_port(case['ospec'])
    return '(mk_config %s %s %s %s %s)' % (prog, cbs, ls, fault, ospec)


def c_env(e):
    k = e[0]
    if k == 'tick':
        return 'ETick'
    if k == 'ctl':
        return '(ECtl %s)' % c_ctl(e[1])
    if k == 'cancel':
        return 'ECancelFuture'
    if k == 'late':
        return '(ELate %s)' % c_nat(e[1])
    if k == 'ext':
        return '(EExtDone %s %s)' % (c_nat(e[1]), c_wake(e[2]))
    if k == 'drain':
        return '(EDrain %s)' % c_nat(e[1])
    raise ValueError(e)


def c_event(e):
    k = e[0]
    if k == 'entered':
        return '(EvEntered %s %s)' % (c_opt(e[1], lambda x: LABELS[x]), LABELS[e[2]])
    if k == 'hook':
        return '(EvHook %s)' % c_str(e[1])
    if k == 'listener':
        return '(EvListener %s)' % c_str(e[1])
    if k == 'step':
        return '(EvStep %s %s %s %s)' % (c_str(e[1]), c_list([c_val(v) for v in e[2]]), c_kwargs(e[3]), c_bool(e[4]))
    if k == 'output':
        return '(EvOutput %s %s %s)' % (c_str(e[1]), c_val(e[2]), c_bool(e[3]))
    if k == 'observe':
        return '(EvObserve %s %s)' % (c_bool(e[1]), c_opt(e[2], c_str))
    if k == 'ctl':
        return '(EvCtl %s %s)' % (c_ctl(e[1]), c_cret(e[2]))
    if k == 'cleanup':
        return '(EvCleanup %s)' % c_nat(e[1])
    if k == 'loop_error':
        return '(EvLoopError %s)' % c_exn(e[1])
    if k == 'callback':
        return '(EvCallback %s)' % c_nat(e[1])
    raise ValueError(e)


def c_afut(a):
    if a[0] == 'pending':
        return 'AfPending'
    if a[0] == 'cancelled':
        return 'AfCancelled'
    if a[0] == 'val':
        return '(AfVal %s)' % c_bool(bool(a[1]))
    return '(AfExn %s)' % c_exn(a[1])


def c_pfut(f):
    if f[0] == 'pending':
        return 'PfPending'
    if f[0] == 'cancelled':
        return 'PfCancelled'
    if f[0] == 'result':
        return '(PfResult %s)' % c_kwargs(f[1])
    return '(PfExn %s)' % c_exn(f[1])


def to_coq(case, obs):
    if obs['final'] is None:
        final = 'None'
    else:
        f = obs['final']
        final = '(Some (mk_final %s %s %s %s %s %s %s %s %s))' % (
            LABELS[f['state']], c_pfut(f['future']), c_bool(f['paused']), c_opt(f['status'], c_str),
            {'pending': 'T0Pending', 'done': 'T0Done', 'failed': 'T0Failed'}[f['t0']],
            c_list([c_afut(a) for a in f['actions']]), c_bool(f['killing']), c_bool(f['closed']), c_nat(f['ready']))
    return '(mk_life %s %s %s %s)' % (c_config(case), c_list([c_env(e) for e in obs.get('realized', case['events'])]),
                                      c_list([c_event(e) for e in obs['trace']]), final)


# ------------------------------------------------------------------ running the implementation
def fut_status(f):
    if not f.done():
        return ['pending']
    if f.cancelled():
        return ['cancelled']
    e = f.exception()
    if e is not None:
        return ['exn', coqio.canon_exception(e)]
    return ['val', f.result()]


def run_case(case, klass=None, sample=None):
    """Run the scripted process of `case` under the controlled scheduler.  Returns {'trace', 'final', 'samples'}."""
    warnings.simplefilter('ignore')
    import plumpy
    import sched
    import scripted
    from plumpy import futures as pf
    sc = sched.Sched()
    trace, actions = [], []
    side = []
    scripted.CURRENT.update(cfg=case, trace=trace, actions=actions, side=side)
    orig_init = pf.CancellableAction.__init__

    def tracking_init(self, *a, **kw):
        orig_init(self, *a, **kw)
        actions.append(self)
    pf.CancellableAction.__init__ = tracking_init
    samples = []
    try:
        klass = klass or scripted.fresh_process_class()
        try:
            proc = klass(loop=sc.loop)
        except Exception as e:
            return {'trace': trace, 'final': None, 'samples': [], 'constructor_raised': coqio.canon_exception(e)}
        proc.add_process_listener(scripted.ScriptedListener(case, trace, actions))
        # three registered cleanups: the first one fails (a lost connection, say) — the others must still run, each exactly once;
        # only the middle one is an event of the model's trace, the other two are counted on the side
        extra = {'failing-first': 0, 'last': 0}

        def failing_first():
            extra['failing-first'] += 1
            raise scripted.UserError('cleanup failed')

        def last():
            extra['last'] += 1
        proc.add_cleanup(failing_first)
        proc.add_cleanup(lambda: trace.append(['cleanup', 0]))
        proc.add_cleanup(last)
        side.append(['extra_cleanups', extra])
        t0 = sc.loop.create_task(proc.step_until_terminated())

        def flush():
            for e in sc.new_failures():
                trace.append(['loop_error', coqio.canon_exception(e)])

        def take_sample(tag):
            samples.append(observe(proc, t0, sc, actions, tag, len(trace)))
        take_sample('start')
        realized = []
        queue = list(case['events'])
        resume_values = list(case.get('auto_resumes', []))
        issued = [0]
        while queue:
            ev = queue.pop(0)
            k = ev[0]
            if k == 'auto':
                # deterministic driver (DESIGN C05): play if paused, drain, resume a quiescent wait with the next value
                for _ in range(ev[1]):
                    if proc.paused:
                        queue.insert(0, ['ctl', ['play']])
                        break
                    if sc.ready():
                        queue.insert(0, ['drain', 30])
                        break
                    if proc.state.value == 'waiting' and resume_values and wait_pending(trace, issued):
                        issued[0] += 1
                        queue.insert(0, ['ctl', resume_values.pop(0)])
                        break
                else:
                    continue
                if ev[1] > 1:
                    queue.insert(1, ['auto', ev[1] - 1])
                continue
            if k == 'resume*':
                if not sc.ready() and not proc.paused and proc.state.value == 'waiting' and resume_values and wait_pending(trace, issued):
                    issued[0] += 1
                    queue.insert(0, ['ctl', resume_values.pop(0)])
                continue
            if k == 'resume!':
                # an explicit resume request with the value the driver would deliver, whatever else is pending
                if proc.state.value == 'waiting' and resume_values and wait_pending(trace, issued):
                    issued[0] += 1
                    queue.insert(0, ['ctl', resume_values.pop(0)])
                continue
            if k == 'tick*':
                # a tick of the driven run: a quiescent, playing, waiting process is first resumed with the next value
                if not sc.ready() and not proc.paused and proc.state.value == 'waiting' and resume_values and wait_pending(trace, issued):
                    issued[0] += 1
                    queue.insert(0, ['tick'])
                    queue.insert(0, ['ctl', resume_values.pop(0)])
                    continue
                ev = ['tick']
                k = 'tick'
            realized.append(ev)
            if k == 'tick':
                sc.tick()
            elif k == 'ctl':
                scripted.observed_ctl(proc, ev[1], trace, actions)
            elif k == 'cancel':
                proc.future().cancel()
            elif k == 'late':
                proc.call_soon(proc._sc_callback(ev[1]))
            elif k == 'ext':
                f = proc._sc_future(ev[1])
                if not f.done():
                    if ev[2][0] == 'val':
                        f.set_result(portgen.decode(ev[2][1]))
                    else:
                        f.set_exception(scripted.UserError(ev[2][1]))
            elif k == 'drain':
                for _ in range(ev[1]):
                    if not sc.tick():
                        break
                    flush()
                    take_sample('drain-tick')
            flush()
            take_sample(k)
        final = observe(proc, t0, sc, actions, 'final', len(trace))
        for f in proc._sc_ext.values():
            if f.done() and not f.cancelled():
                f.exception()
        return {'trace': trace, 'final': final, 'samples': samples, 'proc': proc if sample == 'keep' else None, 'realized': realized, 'side': side}
    finally:
        pf.CancellableAction.__init__ = orig_init
        sc.close()


def wait_pending(trace, issued):
    """the driver resumes each wait once: has the current wait (the n-th entry into WAITING) not been resumed by it yet?"""
    return sum(1 for e in trace if e[0] == 'entered' and e[2] == 'waiting') > issued[0]


def observe(proc, t0, sc, actions, tag, pos):
    fut = proc.future()
    if not fut.done():
        fs = ['pending']
    elif fut.cancelled():
        fs = ['cancelled']
    elif fut.exception() is not None:
        fs = ['exn', coqio.canon_exception(fut.exception())]
    else:
        fs = ['result', portgen.encode(dict(fut.result()))]
    if not t0.done():
        ts = 'pending'
    elif t0.cancelled() or t0.exception() is not None:
        ts = 'failed'
    else:
        ts = 'done'
    acts = []
    for a in actions:
        s = fut_status(a)
        acts.append(s)
    o = {'tag': tag, 'pos': pos, 'state': proc.state.value, 'future': fs, 'paused': proc.paused, 'status': proc.status, 't0': ts,
         'actions': acts, 'killing': proc.is_killing, 'closed': proc._closed, 'ready': len(sc.ready())}
    # the public accessors (C02)
    acc = {}
    for name in ('result', 'successful', 'killed_msg', 'exception', 'killed', 'has_terminated'):
        try:
            v = getattr(proc, name)()
            if isinstance(v, BaseException):
                v = ['exn', coqio.canon_exception(v)]
            elif isinstance(v, dict) and 'intent' in v:
                v = ['msg', v.get('message')]
            acc[name] = ['ok', portgen.encode(v)]
        except Exception as e:
            acc[name] = ['raised', coqio.canon_exception(e)]
    o['accessors'] = acc
    return o


# ------------------------------------------------------------------ building blocks for generators
def script(actions=(), ret=('value', 5)):
    return {'actions': [list(a) for a in actions], 'ret': list(ret)}


def base_programs():
    """Small programs covering the step commands (name -> prog)."""
    P = {}
    P['sync3'] = {'run': script(ret=('continue', 's1', [1], {})), 's1': script([('out', 'a', 1)], ('continue', 's2', [], {})),
                  's2': script(ret=('value', 7))}
    P['async'] = {'run': script([('yield',), ('observe',), ('yield',)], ('continue', 's1', [], {})), 's1': script([('yield',)], ('value', 3))}
    P['wait'] = {'run': script(ret=('wait', 's1', 'waiting for it', None)), 's1': script([('observe',)], ('value', 1))}
    P['wait2'] = {'run': script(ret=('wait', 's1', None, {'d': 1})), 's1': script(ret=('wait', 's2', 'again', None)),
                  's2': script(ret=('continue', 's3', [], {})), 's3': script(ret=('value', 'end'))}
    P['output'] = {'run': script([('out', 'x', 1), ('yield',), ('out', 'n.y', 'a')], ('value', None))}
    P['raise'] = {'run': script([('yield',)], ('continue', 's1', [], {})), 's1': script(ret=('raise', 'boom'))}
    P['unsucc'] = {'run': script(ret=('unsuccessful', 3))}
    P['killcmd'] = {'run': script([('yield',)], ('kill', ['bye']))}
    P['ext'] = {'run': script([('await', 0)], ('continue', 's1', [], {})), 's1': script([('await', 1), ('observe',)], ('value', 2))}
    P['callsoon'] = {'run': script([('call_soon', 0), ('yield',)], ('continue', 's1', [], {})), 's1': script([('yield',)], ('value', 0))}
    return P


CTLS = [['pause', 'p'], ['pause', None], ['play'], ['kill', 'k'], ['kill', None], ['resume'], ['resume', 42], ['fail', 'f']]


def place(base_ticks, events_at, tick=('tick',)):
    """events_at: list of (boundary index, event); boundary i = after i ticks.  Returns the schedule with a final drain."""
    out = []
    by = {}
    for i, e in events_at:
        by.setdefault(i, []).append(e)
    for i in range(base_ticks + 1):
        for e in by.get(i, []):
            out.append(e)
        if i < base_ticks:
            out.append(list(tick))
    return out


def count_ticks(case_prog, extra=None, limit=40, driven=False):
    """Number of callbacks the event-free run takes (measured on the implementation); driven: with the waits resumed by the driver."""
    if driven:
        obs = run_case(dict(extra or {}, prog=case_prog, events=[['tick*']] * limit))
        last = 0
        for i, e in enumerate(x for x in obs['realized'] if x[0] == 'tick'):
            pass
        # ticks that actually ran a callback: count samples whose ready count or trace position changed
        n, prev = 0, None
        ticks = [s for s, e in zip(obs['samples'][1:], obs['realized']) if e[0] == 'tick']
        for j, s in enumerate(ticks):
            key = (s['pos'], s['ready'], s['state'], s['t0'])
            if key != prev:
                n = j + 1
            prev = key
        return n
    case = dict(extra or {}, prog=case_prog, events=[['drain', limit]])
    obs = run_case(case)
    return sum(1 for s in obs['samples'] if s['tag'] == 'drain-tick')


def distribution(cases, obs):
    d = {'events': {}, 'final_states': {}, 'with_loop_error': 0, 'ctl_raised': 0, 'constructor_raised': 0, 'max_trace': 0}
    for c, o in zip(cases, obs):
        for e in c['events']:
            key = e[0] if e[0] != 'ctl' else 'ctl_' + e[1][0]
            d['events'][key] = d['events'].get(key, 0) + 1
        if o['final'] is None:
            d['constructor_raised'] += 1
            continue
        d['final_states'][o['final']['state']] = d['final_states'].get(o['final']['state'], 0) + 1
        d['with_loop_error'] += any(e[0] == 'loop_error' for e in o['trace'])
        d['ctl_raised'] += any(e[0] == 'ctl' and e[2][0] == 'raised' for e in o['trace'])
        d['max_trace'] = max(d['max_trace'], len(o['trace']))
    return d


def strip_obs(o):
    return {k: v for k, v in o.items() if k != 'proc'}


def place_on(skeleton, events_at):
    """events_at: list of (position in the skeleton, event): the event is performed before skeleton[position]."""
    by = {}
    for i, e in events_at:
        by.setdefault(i, []).append(e)
    out = []
    for i in range(len(skeleton) + 1):
        out += by.get(i, [])
        if i < len(skeleton):
            out.append(list(skeleton[i]))
    return out


def pause_carried_out_after_play(trace):
    """D29: a listener of the transition that a deferred pause action performs withdrew that pause — play() answered True, or
    kill() armed a kill action in its place (the pause action future is cancelled either way) — and right after it the pause
    hooks ran all the same.  The hooks belong to a deferred action iff no pause() call was made at that point of the trace (a direct
    pause() is recorded with the position at which it was made, which is where its hooks start).  Returns the index or None."""
    direct = {e[3] for e in trace if e[0] == 'ctl' and e[1][0] == 'pause'}
    for j in range(1, len(trace)):
        if trace[j] == ['hook', 'on_pausing'] and j not in direct:
            e = trace[j - 1]
            if e[0] == 'ctl' and ((e[1] == ['play'] and e[2] == ['bool', True]) or (e[1][0] == 'kill' and e[2][0] == 'action')):
                return j
    return None
