"""C07 — module-level scripted Process / WorkChain / listener classes (loadable by the object loaders, picklable,
YAML-able).  Behaviour is data: scripted.CURRENT['cfg'] (the case).  A snapshot hook is called at every state entry."""
import plumpy
from plumpy import WorkChain, ToContext, if_, while_, return_, process_states

import portgen
import scripted

HOOK = {'snap': None, 'futures': {}, 'occ': {}}


def _snap(proc, tag):
    if HOOK['snap'] is not None and not proc.__dict__.get('_sc_loading') and not proc.__dict__.get('_c07_loading'):
        HOOK['snap'](proc, tag)


class C07Listener(plumpy.ProcessListener):
    """A listener whose whole state is its persisted parameters."""

    def __init__(self, **params):
        super().__init__()
        self.init(**params)


class C07Process(scripted.ScriptedProcess):
    """Plain process: step functions run, s1..s8 interpret cfg['prog'] (see scripted.ScriptedMixin._interp)."""

    @classmethod
    def define(cls, spec):
        super().define(spec)
        spec.input('a', default=5, required=False)
        spec.input('ns.b', default='x', required=False)
        spec.inputs.dynamic = True
        spec.outputs.dynamic = True

    def on_entered(self, from_state):
        super().on_entered(from_state)
        _snap(self, 'entered')

    async def _interp(self, name, args, kwargs):
        st = (self._sc_cfg.get('status') or {}).get(name)
        if st is not None:
            self.set_status(st)          # cfg['status']: step name -> status message set when the step starts
        return await super()._interp(name, args, kwargs)


class C07Chain(WorkChain):
    """Work chain whose steps w1..w6 and predicates p1..p3 interpret cfg['wsteps'] / cfg['preds']."""

    @classmethod
    def define(cls, spec):
        super().define(spec)
        spec.input('a', default=5, required=False)
        spec.input('ns.b', default='x', required=False)
        spec.inputs.dynamic = True
        spec.outputs.dynamic = True

    def load_instance_state(self, saved_state, load_context):
        self.__dict__['_c07_loading'] = True
        try:
            super().load_instance_state(saved_state, load_context)
        finally:
            self.__dict__['_c07_loading'] = False

    def on_entered(self, from_state):
        super().on_entered(from_state)
        _snap(self, 'entered')

    def _w(self, name):
        cfg = scripted.CURRENT['cfg']
        script = cfg.get('wsteps', {}).get(name) or {'actions': [], 'ret': ['none']}
        for a in script['actions']:
            k = a[0]
            if k == 'ctx':
                self.ctx[a[1]] = portgen.decode(a[2])
            elif k == 'ctxapp':
                self.ctx.setdefault(a[1], []).append(portgen.decode(a[2]))
            elif k == 'out':
                self.out(a[1], portgen.decode(a[2]))
            elif k == 'ctl':
                scripted.do_ctl(self, a[1])
            elif k == 'status':
                self.set_status(a[1])
            else:
                raise ValueError(a)
        r = script['ret']
        if r[0] == 'none':
            return None
        if r[0] == 'code':
            return r[1]
        if r[0] == 'wait':
            return process_states.Wait(self._do_step, r[1], None)
        if r[0] == 'await':
            return ToContext(**{r[1]: ext_future(self.loop, r[2])})
        if r[0] == 'raise':
            raise scripted.UserError(r[1])
        raise ValueError(r)

    def _p(self, name):
        cfg = scripted.CURRENT['cfg']
        n = HOOK['occ'].get(name, 0)
        HOOK['occ'][name] = n + 1
        stream = cfg.get('preds', {}).get(name, [])
        return stream[n] if n < len(stream) else False


def ext_future(loop, k):
    if k not in HOOK['futures']:
        HOOK['futures'][k] = loop.create_future()
    return HOOK['futures'][k]


def _mk_w(name):
    def step(self):
        return self._w(name)
    step.__name__ = name
    return step


def _mk_p(name):
    def pred(self):
        return self._p(name)
    pred.__name__ = name
    return pred


for _i in range(1, 7):
    setattr(C07Chain, 'w%d' % _i, _mk_w('w%d' % _i))
for _i in range(1, 4):
    setattr(C07Chain, 'p%d' % _i, _mk_p('p%d' % _i))


class C07Linear(C07Chain):
    @classmethod
    def define(cls, spec):
        super().define(spec)
        spec.outline(cls.w1, cls.w2, cls.w3)


class C07Single(C07Chain):
    @classmethod
    def define(cls, spec):
        super().define(spec)
        spec.outline(cls.w1)


class C07Branch(C07Chain):
    @classmethod
    def define(cls, spec):
        super().define(spec)
        spec.outline(cls.w1, if_(cls.p1)(cls.w2, cls.w3).elif_(cls.p2)(cls.w4).else_(cls.w5), cls.w6)


class C07Loop(C07Chain):
    @classmethod
    def define(cls, spec):
        super().define(spec)
        spec.outline(cls.w1, while_(cls.p1)(cls.w2, if_(cls.p2)(cls.w3)), cls.w4)


class C07Return(C07Chain):
    @classmethod
    def define(cls, spec):
        super().define(spec)
        spec.outline(cls.w1, if_(cls.p1)(cls.w2, return_(3)), while_(cls.p2)(cls.w3), cls.w4)


CLASSES = {c.__name__: c for c in (C07Process, C07Linear, C07Single, C07Branch, C07Loop, C07Return)}
