"""Generated WorkChain / Process classes of the C08 harness.

They are registered as attributes of this module so that plumpy's default object loader can load
them again from the class name recorded in a bundle (`c08_classes:WC_3`).  Everything a generated
method reads or writes lives in *persisted* process state (`self.ctx`, outputs): the scripted
streams, the stream positions, the call counters and the trace itself.  Nothing is kept on the
instance or the class, so a process recreated from a bundle in a fresh event loop carries on from
what the bundle holds and from nothing else.
"""
import json
import sys

import plumpy
from plumpy.mixins import ContextMixin

_ME = sys.modules[__name__]
_WC_CACHE = {}
_PROC_CACHE = {}


class UserError(Exception):
    pass


def done_future(loop, v):
    f = loop.create_future()
    f.set_result(v)
    return f


# ---------------------------------------------------------------- workchains
def _look(self):
    """A step consults its inputs and records what it saw in persisted state."""
    seen = [self.raw_inputs is None, 'limit' in self.inputs, self.inputs.get('limit')]
    self.ctx._seen.append(seen)


def _declare_inputs(spec):
    spec.input('limit', required=False)
    spec.input('tag', required=False)


def _wc_step_body(self, fid):
    ctx = self.ctx
    ctx._trace.append(['s', fid])
    _look(self)
    i = ctx._ri
    ctx._ri = i + 1
    rets = ctx._rets
    if i >= len(rets):
        return None
    item = rets[i]
    for k, v in item.get('out', []):
        self.out(k, v)
    for k, v in item['reg']:
        self.to_context(**{k: done_future(self.loop, v)})
    r = item['ret']
    if r[0] == 'none':
        return None
    if r[0] == 'ctx':
        return plumpy.ToContext(**{k: done_future(self.loop, v) for k, v in r[1]})
    if r[0] == 'val':
        return r[1]
    raise UserError(r[1])


def foreign_step(self):
    """A step function that is NOT an attribute of the workchain class."""
    return _wc_step_body(self, 'foreign_step')


foreign_step._c08_id = 'foreign_step'


def fid(f):
    """Identity of a function object (bound or not): 's2', 's2@sub', 'foreign_step', 'run', ..."""
    f = getattr(f, '__func__', f)
    return getattr(f, '_c08_id', f.__name__)


def _mk_step(name, ident=None):
    ident = ident or name

    def step(self):
        return _wc_step_body(self, ident)
    step.__name__ = name
    step.__qualname__ = 'Generated.' + name        # as for a method defined in a class body: not the bare name
    step._c08_id = ident
    return step


def _mk_pred(name):
    def pred(self):
        ctx = self.ctx
        ctx._trace.append(['p', name])
        i = ctx._pi
        ctx._pi = i + 1
        preds = ctx._preds
        return preds[i] if i < len(preds) else False
    pred.__name__ = name
    pred.__qualname__ = 'Generated.' + name
    return pred


def build_wc(outline, override=()):
    """The class of the outline.  With `override`, the outline is defined on (and refers to the step
    functions of) a base class and the class returned is a subclass overriding the named steps."""
    key = json.dumps([outline, sorted(override)])
    if key in _WC_CACHE:
        return _WC_CACHE[key]
    methods = {}

    def conv(t):
        k = t[0]
        if k == 'step':
            if t[1].startswith('foreign'):
                return foreign_step
            methods.setdefault(t[1], _mk_step(t[1]))
            return methods[t[1]]
        if k == 'block':
            return plumpy.workchains._Block([conv(i) for i in t[1]])
        if k == 'if':
            node = None
            for n, (p, body) in enumerate(t[1]):
                instrs = [conv(i) for i in body]
                if p is None:
                    node = node.else_(*instrs)
                    continue
                methods.setdefault(p, _mk_pred(p))
                if n == 0:
                    node = plumpy.if_(methods[p])(*instrs)
                else:
                    node = node.elif_(methods[p])(*instrs)
            return node
        if k == 'while':
            methods.setdefault(t[1], _mk_pred(t[1]))
            return plumpy.while_(methods[t[1]])(*[conv(i) for i in t[2]])
        if k == 'return':
            return plumpy.return_ if t[1] is None else plumpy.return_(t[1])
        raise ValueError(t)

    cmds = [conv(i) for i in outline[1]] if outline[0] == 'block' else [conv(outline)]

    def define(cls, spec):
        super(base, cls).define(spec)
        _declare_inputs(spec)
        spec.outputs.dynamic = True
        spec.outline(*cmds)

    ns = dict(methods)
    ns['define'] = classmethod(define)
    name = 'WC_%d' % len(_WC_CACHE)
    base = type(name, (plumpy.WorkChain,), ns)
    base.__module__ = __name__
    base.__qualname__ = name
    setattr(_ME, name, base)
    klass = base
    if override:
        sub_name = name + '_sub'
        klass = type(sub_name, (base,), {n: _mk_step(n, n + '@sub') for n in override})
        klass.__module__ = __name__
        klass.__qualname__ = sub_name
        setattr(_ME, sub_name, klass)
    klass._c08_names = sorted(set(methods) | set(override))
    _WC_CACHE[key] = klass
    return klass


def class_attrs(klass, names):
    """name -> id of the function getattr(klass, name) returns, for the names that exist."""
    out = []
    for n in names:
        f = getattr(klass, n, None)
        if f is not None:
            out.append([n, fid(f)])
    return out


def init_wc(wc, preds, rets):
    ctx = wc.ctx
    ctx._trace = []
    ctx._log = ctx._trace          # one object under two context keys: what is read back (_log) is what the steps append to (_trace)
    ctx._seen = []
    ctx._pi = 0
    ctx._ri = 0
    ctx._preds = list(preds)
    ctx._rets = [dict(r) for r in rets]


# ---------------------------------------------------------------- plain processes
def foreign_stop(*args, **kwargs):
    """A continuation that is NOT an attribute of the process."""
    return 42


foreign_stop._c08_id = 'foreign_stop'


def _untuple(v):
    if isinstance(v, dict) and set(v.keys()) == {'__tuple__'}:
        return tuple(_untuple(x) for x in v['__tuple__'])
    if isinstance(v, list):
        return [_untuple(x) for x in v]
    if isinstance(v, dict):
        return {k: _untuple(x) for k, x in v.items()}
    return v


def _mk_proc_step(name):
    def step(self, *args, **kwargs):
        ctx = self.ctx
        prog = ctx._prog
        c = ctx._counts.get(name, 0)
        ctx._counts[name] = c + 1
        ctx._trace.append([name, list(args), [[k, v] for k, v in kwargs.items()]])
        _look(self)
        variants = prog[name]
        if not variants:
            return None
        v = variants[min(c, len(variants) - 1)]
        for k, val in v['set']:
            setattr(ctx, k, _untuple(val))
        for k, val in v['out']:
            self.out(k, _untuple(val))
        r = v['ret']
        if r[0] == 'continue':
            fn = foreign_stop if r[1].startswith('foreign') else getattr(self, r[1])
            return plumpy.Continue(fn, *[_untuple(a) for a in r[2]], **{k: _untuple(x) for k, x in r[3]})
        if r[0] == 'wait':
            fn = None if r[1] is None else (foreign_stop if r[1].startswith('foreign') else getattr(self, r[1]))
            return plumpy.Wait(fn, _untuple(r[2]), _untuple(r[3]))
        if r[0] == 'value':
            return _untuple(r[1])
        if r[0] == 'unsuccessful':
            return plumpy.UnsuccessfulResult(_untuple(r[1]))
        raise UserError(r[1])
    step.__name__ = name
    step.__qualname__ = 'Generated.' + name
    step._c08_id = name
    return step


def build_proc(names):
    """One class per set of method names; the program itself travels in ctx."""
    key = json.dumps(sorted(names))
    if key in _PROC_CACHE:
        return _PROC_CACHE[key]

    def define(cls, spec):
        super(klass, cls).define(spec)
        _declare_inputs(spec)
        spec.outputs.dynamic = True

    ns = {n: _mk_proc_step(n) for n in names}
    ns['define'] = classmethod(define)
    name = 'Proc_%d' % len(_PROC_CACHE)
    klass = type(name, (ContextMixin, plumpy.Process), ns)
    klass.__module__ = __name__
    klass.__qualname__ = name
    setattr(_ME, name, klass)
    _PROC_CACHE[key] = klass
    return klass


def init_proc(proc, prog):
    ctx = proc.ctx
    ctx._trace = []
    ctx._log = ctx._trace
    ctx._seen = []
    ctx._counts = {}
    ctx._prog = {k: [dict(v) for v in vs] for k, vs in prog}
