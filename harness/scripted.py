"""Scripted plumpy processes: the behaviour of step functions, callbacks, listeners and hooks is data (the same data is
printed as a Gallina term for the model).  Classes are module level so that they are loadable and picklable."""
import asyncio

import plumpy
from plumpy import process_states
from plumpy.base import state_machine

CURRENT = {'cfg': None, 'trace': None, 'actions': None}


class UserError(Exception):
    def __eq__(self, other):
        return type(other) is type(self) and other.args == self.args

    def __hash__(self):
        return hash(self.args)


HOOKS_SUPERCHECKED = ['on_create', 'on_run', 'on_running', 'on_exit_running', 'on_wait', 'on_waiting', 'on_exit_waiting',
                      'on_pausing', 'on_paused', 'on_playing', 'on_finish', 'on_finished', 'on_except', 'on_excepted',
                      'on_kill', 'on_killed', 'on_close']


def canon_ctl_ret(r, actions):
    if r is True or r is False:
        return ['bool', r]
    if r is None:
        return ['none']
    if isinstance(r, plumpy.futures.CancellableAction):
        return ['action', actions.index(r)]
    return ['other', repr(r)]


def do_ctl(proc, c):
    k = c[0]
    if k == 'pause':
        return proc.pause(c[1])
    if k == 'play':
        return proc.play()
    if k == 'kill':
        return proc.kill(c[1])
    if k == 'resume':
        import copy
        return proc.resume(*copy.deepcopy(c[1:]))      # the process gets its own objects, never the harness's case data
    if k == 'fail':
        return proc.fail(UserError(c[1]), None)
    if k == 'raise':
        raise UserError(c[1])
    raise ValueError(c)


def observed_ctl(proc, c, trace, actions):
    import coqio
    pos = len(trace)
    try:
        r = canon_ctl_ret(do_ctl(proc, c), actions)
    except Exception as e:
        r = ['raised', coqio.canon_exception(e)]
    trace.append(['ctl', c, r, pos])      # pos: length of the trace when the call was made
    return r


class ScriptedListener(plumpy.ProcessListener):
    def __init__(self, cfg, trace, actions):
        super().__init__()
        self._cfg, self._trace, self._actions = cfg, trace, actions
        self._occ = {}

    def _note(self, name, process):
        n = self._occ.get(name, 0)
        self._occ[name] = n + 1
        self._trace.append(['listener', name])
        for ev, occ, c in self._cfg.get('listeners', []):
            if ev == name and occ == n:
                r = observed_ctl(process, c, self._trace, self._actions)
                if c[0] == 'raise':
                    raise UserError(c[1])

    def on_process_running(self, process):
        self._note('on_process_running', process)

    def on_process_waiting(self, process):
        self._note('on_process_waiting', process)

    def on_process_paused(self, process):
        self._note('on_process_paused', process)

    def on_process_played(self, process):
        self._note('on_process_played', process)

    def on_output_emitted(self, process, output_port, value, dynamic):
        self._note('on_output_emitted', process)

    def on_process_finished(self, process, outputs):
        self._note('on_process_finished', process)

    def on_process_excepted(self, process, reason):
        self._note('on_process_excepted', process)

    def on_process_killed(self, process, msg):
        self._note('on_process_killed', process)


class ScriptedMixin:
    """Interprets CURRENT['cfg'].  Mixed into Process and WorkChain subclasses."""

    def _sc_setup(self):
        self.__dict__['_sc_cfg'] = CURRENT['cfg']
        self.__dict__['_sc_trace'] = CURRENT['trace']
        self.__dict__['_sc_actions'] = CURRENT['actions']
        self.__dict__['_sc_occ'] = {}
        self.__dict__['_sc_ext'] = {}

    # record every assignment of the state exactly where it happens
    @property
    def _state(self):
        return self.__dict__.get('_sc_state')

    @_state.setter
    def _state(self, value):
        old = self.__dict__.get('_sc_state')
        self.__dict__['_sc_state'] = value
        if value is not None and '_sc_trace' in self.__dict__ and not self.__dict__.get('_sc_loading'):
            self._sc_trace.append(['entered', old.LABEL.value if old is not None else None, value.LABEL.value])

    def _sc_hook(self, name):
        n = self._sc_occ.get(name, 0)
        self._sc_occ[name] = n + 1
        self._sc_trace.append(['hook', name])
        f = self._sc_cfg.get('fault')
        if f and f[0] == name and f[1] == n:
            raise UserError(f[2])

    def _sc_future(self, k):
        if k not in self._sc_ext:
            self._sc_ext[k] = self.loop.create_future()
        return self._sc_ext[k]

    async def _interp(self, name, args, kwargs):
        import portgen
        self._sc_trace.append(['step', name, portgen.encode(list(args)), portgen.encode(dict(kwargs)), self.paused])
        # a step may use its own arguments as scratch space: whatever it does to them must stay invisible to any checkpoint taken before
        for v in list(args) + list(kwargs.values()):
            if isinstance(v, list):
                v.append('scribbled-by-the-step')
            elif isinstance(v, dict):
                v['scribbled-by-the-step'] = True
        script = self._sc_cfg['prog'].get(name)
        if script is None:
            raise AttributeError(name)
        for a in script['actions']:
            k = a[0]
            if k == 'out':
                self.out(a[1], portgen.decode(a[2]))
            elif k == 'yield':
                await asyncio.sleep(0)
            elif k == 'await':
                await self._sc_future(a[1])
            elif k == 'ctl':
                observed_ctl(self, a[1], self._sc_trace, self._sc_actions)
            elif k == 'call_soon':
                self.call_soon(self._sc_callback(a[1]))
            elif k == 'observe':
                self._sc_trace.append(['observe', self.paused, self.status])
            elif k == 'status':
                self.set_status(a[1])
            else:
                raise ValueError(a)
        r = script['ret']
        k = r[0]
        if k == 'continue':
            return process_states.Continue(getattr(self, r[1]), *portgen.decode(r[2]), **portgen.decode(r[3]))
        if k == 'wait':
            return process_states.Wait(getattr(self, r[1]) if r[1] else None, r[2], portgen.decode(r[3]))
        if k == 'value':
            return portgen.decode(r[1])
        if k == 'unsuccessful':
            return plumpy.UnsuccessfulResult(portgen.decode(r[1]))
        if k == 'stop':
            return process_states.Stop(portgen.decode(r[1]), r[2])
        if k == 'kill':
            return process_states.Kill(None if r[1] is None else plumpy.process_comms.MessageBuilder.kill(r[1][0]))
        if k == 'raise':
            CURRENT.setdefault('side', []).append(['step_raised', name])   # side channel for the oracles, not part of the trace
            raise UserError(r[1])
        raise ValueError(r)

    def _sc_callback(self, cb):
        proc = self

        def callback():
            proc._sc_trace.append(['callback', cb])
            s = proc._sc_cfg['callbacks'][cb] if cb < len(proc._sc_cfg.get('callbacks', [])) else ['ok']
            if s[0] == 'raise':
                raise UserError(s[1])
            if s[0] == 'ctl':
                observed_ctl(proc, s[1], proc._sc_trace, proc._sc_actions)
        return callback


def _mk_hook(name):
    def hook(self, *a, **kw):
        self._sc_hook(name)
        return getattr(super(ScriptedProcess, self), name)(*a, **kw)
    hook.__name__ = name
    return hook


def _mk_step(name):
    async def step(self, *args, **kwargs):
        return await self._interp(name, args, kwargs)
    step.__name__ = name
    return step


class ScriptedProcess(ScriptedMixin, plumpy.Process):
    @classmethod
    def define(cls, spec):
        super().define(spec)
        import portgen
        tree = (CURRENT['cfg'] or {}).get('ospec')
        if tree is None:
            spec.outputs.dynamic = True
        else:
            portgen.fill_namespace(spec, 'output', tree)

    def __init__(self, *a, **kw):
        self._sc_setup()
        super().__init__(*a, **kw)

    def load_instance_state(self, saved_state, load_context):
        self._sc_setup()
        self.__dict__['_sc_loading'] = True
        try:
            super().load_instance_state(saved_state, load_context)
        finally:
            self.__dict__['_sc_loading'] = False

    def on_output_emitting(self, output_port, value):
        self._sc_hook('on_output_emitting')
        return super().on_output_emitting(output_port, value)

    def on_output_emitted(self, output_port, value, dynamic):
        import portgen
        self._sc_trace.append(['output', output_port, portgen.encode(value), dynamic])
        return super().on_output_emitted(output_port, value, dynamic)

    def on_terminated(self):
        self._sc_hook('on_terminated')
        return super().on_terminated()

    async def run(self):
        return await self._interp('run', (), {})


for _h in HOOKS_SUPERCHECKED:
    setattr(ScriptedProcess, _h, _mk_hook(_h))
for _i in range(1, 9):
    setattr(ScriptedProcess, 's%d' % _i, _mk_step('s%d' % _i))


def _mk_sync_step(name):
    def step(self, *args, **kwargs):
        # a plain (non-async) step function: the script has no awaits, so its interpreter finishes at the first send
        coro = self._interp(name, args, kwargs)
        try:
            coro.send(None)
        except StopIteration as e:
            return e.value
        coro.close()
        raise RuntimeError('a synchronous step tried to await')
    step.__name__ = name
    return step


class ScriptedSyncProcess(ScriptedProcess):
    """The same process with plain `def` step functions (for programs whose steps never await): plumpy wraps those itself."""
    run = _mk_sync_step('run')


for _i in range(1, 9):
    setattr(ScriptedSyncProcess, 's%d' % _i, _mk_sync_step('s%d' % _i))


def is_sync_program(prog):
    return all(a[0] not in ('yield', 'await') for s in prog.values() for a in s['actions'])


def fresh_process_class():
    """A new subclass per output spec (the spec is per class and out() mutates it)."""
    fresh_process_class.n += 1
    return type('ScriptedProcess_%d' % fresh_process_class.n, (ScriptedProcess,), {})


fresh_process_class.n = 0
