"""C03 — a failure in user code ends the process EXCEPTED, never half-transitioned."""
import itertools
import json

import life
from life import CORR_MODULE, CASE_TYPE, MODEL_FN, CORR_FILE, to_coq, distribution

PROP = 'C03'
SHARD = 200
RULE = ('complete fault enumeration: every life-cycle hook / user function x every occurrence index reached in the fault-free run x scenario '
        '(plain, pause/play, kill, outputs, wait/resume); listener faults; faults combined with listeners that react with control calls (sampled); one fault per run; non-trivial = the fault actually fired; distinct = distinct case')
ASSUMPTIONS = ['one injected fault per run', 'the fault of a user hook is raised before the hook calls its super() implementation']

PAUSE_PLAY_HOOKS = ('on_pausing', 'on_paused', 'on_playing')
FAULT = 'injected'


def run_impl(case):
    return life.strip_obs(life.run_case(case))


def fault_fired(case, obs):
    f = case.get('fault')
    if f:
        return sum(1 for e in obs['trace'] if e == ['hook', f[0]]) > f[1]
    return None


def oracle(case, obs):
    f = case.get('fault')
    tr = obs['trace']
    if case.get('_kind') == 'listener':
        # a listener that raises changes nothing about the process
        ref = life.strip_obs(life.run_case(dict(case, listeners=[])))
        strip = lambda t: [(e[:3] if e[0] == 'ctl' else e) for e in t if not (e[0] == 'ctl' and e[1][0] == 'raise')]
        if strip(tr) != strip(ref['trace']) or core(obs['final']) != core(ref['final']):
            return {'signature': 'listener_fault_changed_the_run', 'kind': 'listener'}
        return None
    if f and f[0] == 'on_create' and f[1] == 0:
        if obs['final'] is not None:
            return {'signature': 'construction_fault_did_not_propagate', 'kind': 'on_create'}
        return None
    if obs['final'] is None:
        return {'signature': 'constructor_raised', 'kind': str(obs.get('constructor_raised'))}
    if life.pause_carried_out_after_play(tr) is not None:
        # finding D29 (property C05): also the reason why a fault in on_pausing / on_paused is then reported to nobody
        return {'signature': 'pause_carried_out_although_withdrawn', 'kind': 'D29', 'context': scenario(case)}
    if f and obs['final'] is not None:
        # whatever the fault and whoever made the failing call: the only exceptions that may end the process or resolve a control
        # future are the ones user code raised (the injected fault, a step / callback fault, a fail() request) — never an error
        # of plumpy's own bookkeeping (AssertionError of the super-check, InvalidStateError of a future, ...)
        fin0 = obs['final']
        if fin0['state'] == 'excepted' and isinstance(fin0['future'], list) and fin0['future'][0] == 'exn' and fin0['future'][1][0] == 'py':
            return {'signature': 'excepted_with_an_internal_error', 'kind': str(fin0['future'][1][1]), 'context': scenario(case)}
        for a in fin0['actions']:
            if a[0] == 'exn' and a[1][0] == 'py':
                return {'signature': 'control_future_resolved_with_an_internal_error', 'kind': str(a[1][1]), 'context': scenario(case)}
    if f:
        fired = fault_fired(case, obs)
    else:
        fired = fired_while_live(case, obs)
    if not fired:
        return None
    point = f[0] if f else case['_kind']
    fin = obs['final']
    if any(e[0] == 'loop_error' for e in tr):
        return {'signature': 'exception_escaped_into_the_loop', 'kind': point, 'context': scenario(case)}
    if point in PAUSE_PLAY_HOOKS:
        # reported to whoever requested the pause / play; the process stays live and controllable (the schedule ends with kill)
        reported = any(e[0] == 'ctl' and e[1][0] in ('pause', 'play') and e[2] == ['raised', ['user', FAULT]] for e in tr) \
            or any(a == ['exn', ['user', FAULT]] for a in fin['actions'])
        if not reported:
            return {'signature': 'pause_play_hook_fault_not_reported', 'kind': point, 'context': scenario(case)}
        # still controllable: the closing play(); kill() of the schedule (when the schedule still has it) ended it, or something else did
        if fin['state'] not in life.TERMINAL and ['ctl', ['kill', 'end']] in case['events']:
            return {'signature': 'not_controllable_after_pause_play_fault', 'kind': fin['state'], 'context': scenario(case)}
        return None
    # everything else: EXCEPTED with exactly that exception, closed, future raising it, stepping returned
    want = ['user', FAULT if f else case['_tag']]
    if fin['state'] != 'excepted':
        return {'signature': 'fault_did_not_end_excepted', 'kind': '%s:%s' % (point, fin['state']), 'context': scenario(case)}
    acc = fin['accessors']
    if acc['exception'] != ['ok', ['exn', want]] or fin['future'] != ['exn', want]:
        return {'signature': 'excepted_with_another_exception', 'kind': point, 'context': scenario(case),
                'future': fin['future'], 'exception': acc['exception']}
    if not fin['closed']:
        return {'signature': 'excepted_but_not_closed', 'kind': point, 'context': scenario(case)}
    if fin['ready'] == 0 and fin['t0'] != 'done':
        return {'signature': 'stepping_did_not_return', 'kind': '%s:%s' % (point, fin['t0']), 'context': scenario(case)}
    # one notification per entry of EXCEPTED (two entries when a listener had already failed the process and the termination
    # hook of that EXCEPTED state is the one that raises)
    n = sum(1 for e in tr if e == ['listener', 'on_process_excepted'])
    if n != sum(1 for e in tr if e[0] == 'entered' and e[2] == 'excepted') or n < 1:
        return {'signature': 'excepted_listeners_not_told_once', 'kind': '%s:%d' % (point, n), 'context': scenario(case)}
    return None


def terminated_before_fault(case, obs):
    """the process had already terminated (by other means) when the faulty hook was called"""
    f = case['fault']
    seen, term = 0, False
    for e in obs['trace']:
        if e[0] == 'entered' and e[2] in life.TERMINAL:
            term = True
        if e == ['hook', f[0]]:
            if seen == f[1]:
                return term
            seen += 1
    return False


def fired_while_live(case, obs):
    """step / callback faults: did the faulty code run, and was the process still live then?"""
    term = False
    for e in obs['trace']:
        if e[0] == 'entered' and e[2] in life.TERMINAL:
            term = True
        if case['_kind'] == 'callback' and e[0] == 'callback':
            return not term
        if case['_kind'] == 'step' and e[0] == 'step' and e[1] == case['_fn']:
            return not term
    return False


def core(f):
    return None if f is None else {k: f[k] for k in ('state', 'future', 'paused', 'status', 't0', 'actions', 'closed')}


def scenario(case):
    return case.get('_scenario', '')


def nontrivial(case, obs):
    if case.get('_kind') == 'listener':
        return True
    if case.get('_kind') in ('step', 'callback'):
        return obs['final'] is not None and fired_while_live(case, obs)
    return bool(fault_fired(case, obs)) or (case.get('fault') and case['fault'][0] == 'on_create')


def scenarios():
    S = life.script
    P = {}
    P['plain'] = ({'run': S([('out', 'a', 1)], ('continue', 's1', [1], {})), 's1': S([('yield',)], ('wait', 's2', 'w', None)),
                   's2': S([], ('value', 7))}, [(3, ['ctl', ['resume', 1]])])
    P['pause_play'] = ({'run': S([('yield',)], ('continue', 's1', [], {})), 's1': S([('yield',)], ('value', 1))},
                       [(1, ['ctl', ['pause', 'p']]), (3, ['ctl', ['play']]), (3, ['ctl', ['pause', None]]), (4, ['ctl', ['play']])])
    P['kill'] = ({'run': S([('yield',)], ('continue', 's1', [], {})), 's1': S([('yield',), ('yield',)], ('value', 1))},
                 [(2, ['ctl', ['kill', 'k']])])
    P['kill_direct'] = ({'run': S([], ('wait', 's1', None, None)), 's1': S([], ('value', 1))}, [(0, ['ctl', ['kill', 'k']])])
    # killed while paused: before the first step, and with the stepping task parked on the pause future after a step
    P['kill_paused_created'] = ({'run': S([], ('value', 1))}, [(0, ['ctl', ['pause', None]]), (1, ['ctl', ['kill', 'k']])])
    P['kill_paused'] = ({'run': S([('yield',)], ('continue', 's1', [], {})), 's1': S([], ('value', 1))},
                        [(1, ['ctl', ['pause', 'p']]), (3, ['ctl', ['kill', 'k']])])
    P['outputs'] = ({'run': S([('out', 'a', 1), ('yield',), ('out', 'b.c', 2)], ('value', None))}, [])
    P['unsuccessful'] = ({'run': S([], ('unsuccessful', 3))}, [])
    return P


def generate(tier, rng, around=None):
    cases = []
    if tier == 'widen':
        cases += list(around or [])
    for name, (prog, evs) in scenarios().items():
        n = 8
        tail = [['drain', 30], ['ctl', ['play']], ['ctl', ['kill', 'end']], ['drain', 30]]
        base = dict(prog=prog, events=life.place(n, evs) + tail, _scenario=name)
        ref = run_impl(base)
        counts = {}
        for e in ref['trace']:
            if e[0] == 'hook':
                counts[e[1]] = counts.get(e[1], 0) + 1
        for h, c in counts.items():
            for occ in range(c + 1):
                cases.append(dict(base, fault=[h, occ, FAULT], _kind='hook'))
        # a fault in a step function / continuation
        for fn in prog:
            p2 = dict(prog)
            p2[fn] = dict(prog[fn], ret=['raise', 'stepfault'])
            cases.append(dict(base, prog=p2, _kind='step', _tag='stepfault', _fn=fn))
            # ... while the process future has been cancelled by its owner (the outcome then needs a fresh future)
            for b in range(0, 5):
                cases.append(dict(base, prog=p2, events=life.place(n, evs + [(b, ['cancel'])]) + tail,
                                  _kind='step', _tag='stepfault', _fn=fn, _scenario=name + '+cancel'))
        # a failing scheduled callback at every boundary
        for b in range(0, 6):
            cases.append(dict(base, callbacks=[['raise', 'cbfault']], events=life.place(n, evs + [(b, ['late', 0])]) + tail,
                              _kind='callback', _tag='cbfault'))
        # ... and while the process is still CREATED (paused before its first step)
        for b in range(1, 4):
            cases.append(dict(base, callbacks=[['raise', 'cbfault']],
                              events=life.place(n, [(0, ['ctl', ['pause', None]])] + evs + [(b, ['late', 0])]) + tail,
                              _kind='callback', _tag='cbfault', _scenario=name + '+created'))
        # a failing listener at every notification
        lcounts = {}
        for e in ref['trace']:
            if e[0] == 'listener':
                lcounts[e[1]] = lcounts.get(e[1], 0) + 1
        for l, c in lcounts.items():
            for occ in range(c):
                cases.append(dict(base, listeners=[[l, occ, ['raise', 'lfault']]], _kind='listener'))
        # a fault while listeners REACT to the life cycle with control calls of their own (kill / pause / play / fail made from inside a
        # notification, i.e. re-entrantly, possibly from inside the transition in which the fault fires): listener notification x
        # reaction x hook x occurrence.  This is the quantifier of the all-run theorems (LifeEsc / LifeExc); sampled per tier.
        combos = [(l, lo, rc, h, ho)
                  for l, c in sorted(lcounts.items()) for lo in range(c)
                  for rc in (['kill', 'lk'], ['pause', None], ['play'], ['fail', 'lf'], ['resume', 'L'])
                  for h, hc in sorted(counts.items()) for ho in range(hc)]
        k = {'quick': 50, 'thorough': 900}.get(tier, 120)
        if len(combos) > k:
            combos = rng.sample(combos, k)
        for (l, lo, rc, h, ho) in combos:
            cases.append(dict(base, listeners=[[l, lo, rc]], fault=[h, ho, FAULT], _kind='hook', _scenario=name + '+reacting_listener'))
    return {'cases': cases, 'exhaustive': False,
            'scope': '8 scenarios x every hook x every occurrence index (+1) of the fault-free run; every step function; failing callback at 6 boundaries; '
                     'every listener notification; sampled: fault x listener reacting with kill/pause/play/fail/resume from inside a notification'}


def shrink_candidates(case):
    ev = case['events']
    for i in range(len(ev)):
        if ev[i][0] not in ('drain',):
            yield dict(case, events=ev[:i] + ev[i + 1:])
