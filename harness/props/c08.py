"""C08 — resuming from any checkpoint reproduces the uninterrupted execution."""
import asyncio
import copy
import itertools
import json
import pickle
import warnings

import coqio
from coqio import c_str, c_bool, c_list, c_opt, c_Z, c_nat, c_pair, c_val, c_exn
import c09
import c08_classes as K

PROP = 'C08'
CORR_MODULE = 'OutlineModel StepperPersist Corr_C08'
CASE_TYPE = 'C08_case'
MODEL_FN = 'c08_model'
SHARD = 150
RULE = ('four kinds of cases: (wc) outline x predicate stream x step-return stream x crash plan, (proc) plain Process '
        'program with Continue/Wait chains x resume values x crash plan, (pay) one CREATED/RUNNING/WAITING state object saved '
        'and loaded on a new instance, (rec) recreate_stepper on a saved-state tree.  A crash plan is a set of <= 3 step '
        'boundaries among the first 8, each with 1..3 consecutive restores (Bundle -> deepcopy|pickle -> unbundle in a fresh '
        'event loop, old instance abandoned).  non-trivial = at least one restore was performed at a boundary where user code '
        'had already run and more user code ran after it (wc/proc), or the case is a load of a non-default payload / an '
        'ill-fitting tree (pay/rec); distinct = distinct case data')
ASSUMPTIONS = ['step and predicate functions read and write persisted state only (ctx, outputs): the scripted streams, their '
               'positions and the trace are kept in self.ctx',
               'awaited futures of a ToContext barrier are already completed; a WAITING state holding futures cannot be '
               'bundled (TypeError from deepcopy) and is therefore not a crash point',
               'deepcopy and pickle are the identity on the bundle domain (tested: both media are used)',
               'every step / continuation is a method of the process class defined under its own __name__ '
               '(a foreign function is rejected at load with AttributeError: modelled, outside the property)']
TRUSTED_EXTRA = ['step boundary = between two Process.step() calls driven with loop.run_until_complete(proc.step())']

MAXB = 60           # hard bound on process steps per run (the model's fuel is 300)
PID = 'c08'


# ================================================================ canonical forms
def jv(v):
    """Python value -> JSON-able canonical value (tuples tagged)."""
    if isinstance(v, tuple):
        return {'__tuple__': [jv(x) for x in v]}
    if isinstance(v, list):
        return [jv(x) for x in v]
    if isinstance(v, dict):
        return {str(k): jv(x) for k, x in v.items()}
    return v


SCLASS = {'_FunctionStepper': 'fun', '_ReturnStepper': 'ret', '_BlockStepper': 'block', '_IfStepper': 'if',
          '_WhileStepper': 'while'}


def canon_node(d):
    """Saved stepper state (dict written by Stepper.save()) -> canonical tree."""
    cls = d['!!meta']['class_name'].split(':')[1]
    out = {'cls': SCLASS[cls]}
    if '_pos' in d:
        out['pos'] = d['_pos']
    if '_fn' in d:
        out['fn'] = d['_fn']
    if 'stepper_state' in d:
        out['child'] = canon_node(d['stepper_state'])
    extra = set(d) - {'!!meta', '_pos', '_fn', 'stepper_state'}
    assert not extra, extra
    return out


def dump_live(s):
    """Structural dump of a live stepper object tree."""
    if s is None:
        return None
    name = type(s).__name__
    out = {'cls': SCLASS[name]}
    if name == '_FunctionStepper':
        out['fn'] = K.fid(s._fn)          # identity of the function object, not its __name__
    elif name == '_ReturnStepper':
        out['code'] = s._return_instruction._exit_code
    elif name == '_BlockStepper':
        out['pos'] = s._pos
        out['len'] = len(s._block)
    elif name == '_IfStepper':
        out['pos'] = s._pos
        out['len'] = len(s._if_instruction)
    elif name == '_WhileStepper':
        out['len'] = len(s._while_instruction.body)
    child = getattr(s, '_child_stepper', None)
    if child is not None:
        out['child'] = dump_live(child)
    return out


PCLASS = {'Created': 'created', 'Running': 'running', 'Waiting': 'waiting'}
CCLASS = {'Continue': 'continue', 'Wait': 'wait', 'Stop': 'stop', 'Kill': 'kill'}


def canon_cnode(d):
    out = {'cls': CCLASS[d['!!meta']['class_name'].split(':')[1]]}
    for key, name in (('args', 'args'), ('kwargs', 'kwargs'), ('continue_fn', 'continue_fn'), ('msg', 'msg'),
                      ('data', 'data'), ('result', 'result')):
        if key in d:
            out[name] = jv(list(d[key])) if key == 'args' else ([[k, jv(v)] for k, v in d[key].items()] if key == 'kwargs' else jv(d[key]))
    return out


def canon_pnode(d):
    """Saved state of a Created/Running/Waiting state object -> canonical record."""
    out = {'cls': PCLASS[d['!!meta']['class_name'].split(':')[1]]}
    if 'args' in d:
        out['args'] = jv(list(d['args']))
    if 'kwargs' in d:
        out['kwargs'] = [[k, jv(v)] for k, v in d['kwargs'].items()]
    if 'run_fn' in d:
        out['run_fn'] = d['run_fn']
    if 'command' in d:
        out['command'] = canon_cnode(d['command'])
    if 'msg' in d:
        out['msg'] = jv(d['msg'])
    if 'data' in d:
        out['data'] = jv(d['data'])
    if 'DONE_CALLBACK' in d:
        out['done_cb'] = d['DONE_CALLBACK']
    return out


# ================================================================ Gallina printers
def g_opt_key(d, key, f):
    return '(Some %s)' % f(d[key]) if key in d else 'None'


def g_kvs(l):
    return c_list([c_pair(c_str(k), c_val(v)) for k, v in l])


def g_vals(l):
    return c_list([c_val(v) for v in l])


G_SCLASS = {'fun': 'CFun', 'ret': 'CRet', 'block': 'CBlock', 'if': 'CIf', 'while': 'CWhile'}


def g_node(n):
    return '(Node %s %s %s %s)' % (G_SCLASS[n['cls']], g_opt_key(n, 'pos', c_nat), g_opt_key(n, 'fn', c_str),
                                   g_opt_key(n, 'child', g_node))


def g_dnode(n):
    code = '(Some %s)' % c_Z(n['code']) if n.get('code') is not None else 'None'
    return '(DNode %s %s %s %s %s %s)' % (G_SCLASS[n['cls']], g_opt_key(n, 'pos', c_nat), g_opt_key(n, 'fn', c_str),
                                          g_opt_key(n, 'len', c_nat), code, g_opt_key(n, 'child', g_dnode))


G_CCLASS = {'continue': 'KContinue', 'wait': 'KWait', 'stop': 'KStop', 'kill': 'KKill'}
G_PCLASS = {'created': 'KCreated', 'running': 'KRunning', 'waiting': 'KWaiting'}


def g_cnode(n):
    return '(mk_cnode %s %s %s %s %s %s %s)' % (
        G_CCLASS[n['cls']], g_opt_key(n, 'args', g_vals), g_opt_key(n, 'kwargs', g_kvs),
        g_opt_key(n, 'continue_fn', c_str), g_opt_key(n, 'msg', c_val), g_opt_key(n, 'data', c_val),
        g_opt_key(n, 'result', c_val))


def g_pnode(n):
    return '(mk_pnode %s %s %s %s %s %s %s %s)' % (
        G_PCLASS[n['cls']], g_opt_key(n, 'args', g_vals), g_opt_key(n, 'kwargs', g_kvs), g_opt_key(n, 'run_fn', c_str),
        g_opt_key(n, 'command', g_cnode), g_opt_key(n, 'msg', c_val), g_opt_key(n, 'data', c_val),
        g_opt_key(n, 'done_cb', c_str))


def g_exn_or(res, f):
    return '(inl %s)' % c_exn(res[1]) if res[0] == 'exn' else '(inr %s)' % f(res[1])


def g_sret(item):
    if item['ret'][0] == 'raise':
        ret = '(inl (EUser %s))' % c_str(item['ret'][1])
    else:
        ret = '(inr %s)' % c09.coq_rv(item['ret'])
    return '(mk_sret %s %s %s)' % (g_kvs(item.get('out', [])), g_kvs(item['reg']), ret)


def g_attrs(attrs):
    return c_list([c_pair(c_str(n), c_str(f)) for n, f in attrs])


def g_seen(l):
    return c_list(['(%s, %s, %s)' % (c_bool(a), c_bool(b), c_val(v)) for a, b, v in l])


def g_plan(plan):
    return c_list([c_pair(c_nat(k), c_nat(n)) for k, n in plan])


def g_bobs(b):
    if b == 'unsavable':
        return 'BUnsavable'
    return '(BSaved %s %s %s)' % (g_pnode(b['state']), g_opt_key(b, 'stepper', g_node), g_opt_key(b, 'live', g_dnode))


def g_wres(r):
    if r[0] == 'ok':
        return '(WResult (inr %s))' % c09.coq_rv(r[1])
    if r[0] == 'exn':
        return '(WResult (inl %s))' % c_exn(r[1])
    if r[0] == 'restore_failed':
        return '(WRestoreFailed %s %s)' % (c_nat(r[1]), c_exn(r[2]))
    return 'WFuel'


def g_attr(present, x, f):
    return '(Present %s)' % f(x) if present else 'Absent'


def g_command(c):
    k = c[0]
    if k == 'continue':
        return '(CmdContinue %s %s %s)' % (c_str(c[1]), g_vals(c[2]), g_kvs(c[3]))
    if k == 'wait':       # ['wait', present?, fn|None, msg, data]
        return '(CmdWait %s %s %s)' % (g_attr(c[1], c[2], lambda f: c_opt(f, c_str)), c_val(c[3]), c_val(c[4]))
    if k == 'stop':       # ['stop', result, present?, successful]
        return '(CmdStop %s %s)' % (c_val(c[1]), g_attr(c[2], c[3], c_bool))
    if k == 'kill':
        return '(CmdKill %s)' % c_val(c[1])
    raise ValueError(c)


def g_payload(p):
    k = p[0]
    if k == 'created':
        return '(PCreated %s %s %s)' % (c_str(p[1]), g_vals(p[2]), g_kvs(p[3]))
    if k == 'running':
        return '(PRunning %s %s %s %s)' % (c_str(p[1]), g_vals(p[2]), g_kvs(p[3]), c_opt(p[4], g_command))
    if k == 'waiting':
        return '(PWaiting %s %s %s)' % (c_opt(p[1], c_str), c_val(p[2]), c_val(p[3]))
    raise ValueError(p)


def g_pret(r):
    k = r[0]
    if k == 'continue':
        return '(QContinue %s %s %s)' % (c_str(r[1]), g_vals(r[2]), g_kvs(r[3]))
    if k == 'wait':
        return '(QWait %s %s %s)' % (c_opt(r[1], c_str), c_val(r[2]), c_val(r[3]))
    if k == 'value':
        return '(QValue %s)' % c_val(r[1])
    if k == 'unsuccessful':
        return '(QUnsuccessful %s)' % c_val(r[1])
    return '(QRaise %s)' % c_str(r[1])


def g_prog(prog):
    return c_list([c_pair(c_str(n), c_list(['(mk_variant %s %s %s)' % (g_kvs(v['set']), g_kvs(v['out']), g_pret(v['ret']))
                                           for v in vs])) for n, vs in prog])


def g_tentry(t):
    return '(%s, %s, %s)' % (c_str(t[0]), g_vals(t[1]), g_kvs(t[2]))


def g_pres(r):
    if r[0] == 'finished':
        return '(PResult (OFinished %s %s))' % (c_val(r[1]), c_bool(r[2]))
    if r[0] == 'excepted':
        return '(PResult (OExcepted %s))' % c_exn(r[1])
    if r[0] == 'restore_failed':
        return '(PRestoreFailed %s %s)' % (c_nat(r[1]), c_exn(r[2]))
    return 'PFuel'


def to_coq(case, obs):
    kind = case['kind']
    if kind == 'wc':
        o = obs['run']
        if o.get('diverged') is not None:
            # the model (M2 keeps a stepper as outline + position) does not follow a recreated stepper that holds
            # another function than its instruction's: it predicts the divergence and stops there
            k = o['diverged']
            o = dict(o, bounds=o['bounds'][:k], result=['restore_failed', k, ['user', 'C08-fnrebind']])
        calls = c_list(['(CStep %s)' % c_str(n) if k == 's' else '(CPred %s)' % c_str(n) for k, n in o['calls']])
        return '(CaseWC (mk_wc %s %s %s %s %s %s %s %s %s %s %s %s %s %s %s))' % (
            c09.coq_instr(case['outline']), c_list([c_bool(b) for b in case['preds']]),
            c_list([g_sret(r) for r in case['rets']]), g_plan(case['plan']), c_bool(obs['by_name']), g_attrs(obs['attrs']),
            c_opt(case.get('inputs'), g_kvs),
            c_list([g_bobs(b) for b in o['bounds']]), g_wres(o['result']), calls, g_kvs(o['ctx']), g_kvs(o['outs']),
            c_nat(o['pi']), c_nat(o['ri']), g_seen(o['seen']))
    if kind == 'proc':
        o = obs['run']
        return '(CaseProc (mk_pc %s %s %s %s %s %s %s %s %s %s %s %s))' % (
            g_prog(case['prog']), c_list([c_opt(None if v is None else v[0], c_val) for v in case['resume']]),
            g_plan(case['plan']), c_bool(obs['keep_kwargs']), g_attrs(obs['attrs']), c_opt(case.get('inputs'), g_kvs),
            c_list([g_pnode(b) for b in o['bounds']]), g_pres(o['result']),
            c_list([g_tentry(t) for t in o['trace']]), g_kvs(o['ctx']), g_kvs(o['outs']), g_seen(o['seen']))
    if kind == 'pay':
        return '(CasePay (mk_pay %s %s %s %s))' % (
            g_attrs(obs['attrs']), g_payload(case['payload']), g_pnode(obs['saved']),
            g_exn_or(obs['loaded'], g_payload))
    if kind == 'rec':
        return '(CaseRec (mk_rec %s %s %s %s %s))' % (c09.coq_instr(case['outline']), g_node(case['node']),
                                                      c_bool(obs['by_name']), g_attrs(obs['attrs']),
                                                      g_exn_or(obs['result'], g_dnode))
    raise ValueError(kind)


# ================================================================ running the implementation
def fresh_loop(old=None):
    if old is not None:
        old.close()
    loop = asyncio.new_event_loop()
    asyncio.set_event_loop(loop)
    return loop


def through_medium(bundle, medium):
    if medium == 'pickle':
        return pickle.loads(pickle.dumps(bundle))
    return copy.deepcopy(bundle)


def snapshot(proc, with_stepper):
    """Canonical content of a checkpoint taken now, or 'unsavable'."""
    import plumpy
    try:
        b = plumpy.Bundle(proc)
    except TypeError:
        return 'unsavable'
    out = {'state': canon_pnode(b['_state'])}
    if with_stepper:
        if 'stepper_state' in b:
            out['stepper'] = canon_node(b['stepper_state'])
        if proc._stepper is not None:
            out['live'] = dump_live(proc._stepper)
    return out


def leaf_fn(d):
    while d is not None and 'child' in d:
        d = d['child']
    return None if d is None else d.get('fn')


class Drive:
    pass


def drive(proc, loop, plan, media, with_stepper, resume=None):
    """Run `proc` one Process.step() at a time; at boundary k perform plan[k] consecutive restores."""
    import plumpy
    r = Drive()
    r.bounds, r.restored, r.failure, r.idem, r.diverged = [], [], None, None, None
    m = 0
    k = 0
    while not proc.has_terminated() and k < MAXB:
        cnt = plan.get(k, 0)
        pre = snapshot(proc, with_stepper) if cnt else None
        did = 0
        for _ in range(cnt):
            try:
                bundle = plumpy.Bundle(proc)
            except TypeError:
                break                       # no checkpoint can be taken here: the run goes on
            b2 = through_medium(bundle, media[m % len(media)])
            m += 1
            old_leaf = leaf_fn(dump_live(proc._stepper)) if with_stepper else None
            loop = fresh_loop(loop)         # the old instance and its loop are abandoned
            try:
                proc = b2.unbundle(plumpy.LoadSaveContext(loop=loop))
            except Exception as e:
                r.failure = ['restore_failed', k, coqio.canon_exception(e)]
                r.proc, r.loop = proc, loop
                return r
            did += 1
            if with_stepper and r.diverged is None and leaf_fn(dump_live(proc._stepper)) != old_leaf:
                r.diverged = k              # the live function stepper came back holding another function
        post = snapshot(proc, with_stepper)
        if did:
            r.restored.append(k)
            if pre != post and r.idem is None:
                r.idem = {'boundary': k, 'before': pre, 'after': post}
        r.bounds.append(post)
        if proc.state == plumpy.ProcessState.WAITING and resume is not None:
            v = resume[k] if k < len(resume) else None
            if v is None:
                proc.resume()
            else:
                proc.resume(K._untuple(v[0]))
        st = proc._state
        if (proc.state == plumpy.ProcessState.WAITING and not st._waiting_future.done() and not loop._ready
                and not loop._scheduled):
            r.failure = ['stuck', k]        # nothing will ever wake this wait up: the process would hang
            break
        loop.run_until_complete(proc.step())
        k += 1
    r.proc, r.loop = proc, loop
    return r


def canon_rv(v):
    if v is None:
        return ['none']
    if isinstance(v, dict):
        return ['ctx', [[k, f.result()] for k, f in v.items()]]
    return ['val', jv(v)]


def user_ctx(proc):
    return [[k, jv(v)] for k, v in proc.ctx.__dict__.items() if not k.startswith('_')]


def mk_inputs(case):
    """None (process created without inputs), {} or a non-empty mapping."""
    inp = case.get('inputs')
    return None if inp is None else {k: K._untuple(v) for k, v in inp}


def seen_of(proc):
    return [[bool(a), bool(b), jv(v)] for a, b, v in proc.ctx.__dict__.get('_seen', [[False, False, 'ctx-lost']])]


def run_wc_once(case, plan):
    loop = fresh_loop()
    klass = K.build_wc(case['outline'], case.get('override', []))
    wc = klass(inputs=mk_inputs(case), loop=loop, pid=PID)
    K.init_wc(wc, case['preds'], case['rets'])
    d = drive(wc, loop, plan, case.get('media', ['copy']), True)
    wc, loop, failure = d.proc, d.loop, d.failure
    out = {'bounds': d.bounds, 'idem': d.idem, 'restored': d.restored, 'diverged': d.diverged,
           'calls': wc.ctx.__dict__.get('_log', [['s', 'ctx-lost']]), 'ctx': user_ctx(wc),
           'outs': [[k, jv(v)] for k, v in wc.outputs.items()], 'pi': wc.ctx.__dict__.get('_pi', 0),
           'ri': wc.ctx.__dict__.get('_ri', 0), 'seen': seen_of(wc),
           'state': wc.state.value}
    if failure:
        out['result'] = failure
    elif wc.state.value == 'finished':
        out['result'] = ['ok', canon_rv(wc.result())]
    elif wc.state.value == 'excepted':
        out['result'] = ['exn', coqio.canon_exception(wc.exception())]
    else:
        out['result'] = ['fuel']
    asyncio.set_event_loop(None)
    loop.close()
    return out


def run_proc_once(case, plan):
    loop = fresh_loop()
    names = [n for n, _ in case['prog']]
    klass = K.build_proc(names)
    p = klass(inputs=mk_inputs(case), loop=loop, pid=PID)
    K.init_proc(p, case['prog'])
    d = drive(p, loop, plan, case.get('media', ['copy']), False, resume=case['resume'])
    p, loop, failure = d.proc, d.loop, d.failure
    out = {'bounds': [b['state'] for b in d.bounds], 'idem': d.idem, 'restored': d.restored,
           'trace': [[t[0], jv(t[1]), [[k, jv(v)] for k, v in t[2]]] for t in p.ctx.__dict__.get('_log', [['ctx-lost', [], []]])],
           'ctx': user_ctx(p), 'outs': [[k, jv(v)] for k, v in p.outputs.items()], 'state': p.state.value,
           'seen': seen_of(p)}
    if failure:
        out['result'] = failure
    elif p.state.value == 'finished':
        out['result'] = ['finished', jv(p.result()), bool(p.is_successful)]
    elif p.state.value == 'excepted':
        out['result'] = ['excepted', coqio.canon_exception(p.exception())]
    else:
        out['result'] = ['fuel']
    asyncio.set_event_loop(None)
    loop.close()
    return out


_KEEP = None


def keep_kwargs():
    """Does Running._action_command pass Continue's keyword arguments on?  Measured once (finding D1)."""
    global _KEEP
    if _KEEP is None:
        case = {'prog': [['run', [{'set': [], 'out': [], 'ret': ['continue', 'a', [], [['k', 1]]]}]],
                         ['a', [{'set': [], 'out': [], 'ret': ['value', 0]}]]], 'resume': []}
        o = run_proc_once(case, {})
        _KEEP = o['trace'][1][2] == [['k', 1]]
    return _KEEP


_REF = {}


def plan_dict(case):
    return {k: n for k, n in case['plan']}


_BY_NAME = None


def by_name():
    """Does _FunctionStepper.load_instance_state look its function up by the saved name (the code as it is)
    or take the function of the instruction it is recreated from (notes/C08-fnrebind.patch)?  Measured once."""
    global _BY_NAME
    if _BY_NAME is None:
        o = run_rec({'outline': ['block', [S(1), S(2)]], 'node': {'cls': 'block', 'pos': 0, 'child': {'cls': 'fun', 'fn': 's2'}}},
                    measure=True)
        _BY_NAME = o['result'][1]['child']['fn'] == 's2'
    return _BY_NAME


def wc_attrs(case):
    klass = K.build_wc(case['outline'], case.get('override', []))
    return K.class_attrs(klass, ['run', '_do_step', 'foreign_step'] + klass._c08_names)


def run_impl(case):
    warnings.simplefilter('ignore')
    kind = case['kind']
    if kind == 'wc':
        key = json.dumps([case['outline'], case['preds'], case['rets'], case.get('override', []), case.get('inputs')])
        if key not in _REF:
            _REF[key] = run_wc_once(case, {})
        return {'run': run_wc_once(case, plan_dict(case)), 'ref': _REF[key], 'by_name': by_name(), 'attrs': wc_attrs(case)}
    if kind == 'proc':
        key = json.dumps([case['prog'], case['resume'], case.get('inputs')])
        if key not in _REF:
            _REF[key] = run_proc_once(case, {})
        klass = K.build_proc([n for n, _ in case['prog']])
        return {'run': run_proc_once(case, plan_dict(case)), 'ref': _REF[key], 'keep_kwargs': keep_kwargs(),
                'attrs': K.class_attrs(klass, [n for n, _ in case['prog']] + ['foreign_stop'])}
    if kind == 'pay':
        return run_pay(case)
    if kind == 'rec':
        return run_rec(case)
    raise ValueError(kind)


# ---------------------------------------------------------------- payload cases
def mk_command(proc, c):
    import plumpy
    k = c[0]
    fn = lambda n: None if n is None else (K.foreign_stop if n.startswith('foreign') else getattr(proc, n))
    if k == 'continue':
        return plumpy.Continue(fn(c[1]), *[K._untuple(a) for a in c[2]], **{kk: K._untuple(v) for kk, v in c[3]})
    if k == 'wait':
        return plumpy.Wait(fn(c[2]), K._untuple(c[3]), K._untuple(c[4]))
    if k == 'stop':
        return plumpy.Stop(K._untuple(c[1]), c[3])
    if k == 'kill':
        return plumpy.Kill(K._untuple(c[1]))


def read_command(c):
    name = type(c).__name__
    if name == 'Continue':
        return ['continue', K.fid(c.continue_fn), jv(list(c.args)), [[k, jv(v)] for k, v in c.kwargs.items()]]
    if name == 'Wait':
        has = hasattr(c, 'continue_fn')
        f = K.fid(c.continue_fn) if has and c.continue_fn is not None else None
        return ['wait', has, f, jv(c.msg), jv(c.data)]
    if name == 'Stop':
        has = hasattr(c, 'successful')
        return ['stop', jv(c.result), has, bool(c.successful) if has else False]
    if name == 'Kill':
        return ['kill', jv(c.msg)]


def read_state(s):
    name = type(s).__name__
    if name == 'Created':
        return ['created', K.fid(s.run_fn), jv(list(s.args)), [[k, jv(v)] for k, v in s.kwargs.items()]]
    if name == 'Running':
        cmd = s._command
        return ['running', K.fid(s.run_fn), jv(list(s.args)), [[k, jv(v)] for k, v in s.kwargs.items()],
                None if cmd is None else read_command(cmd)]
    if name == 'Waiting':
        return ['waiting', None if s.done_callback is None else K.fid(s.done_callback), jv(s.msg), jv(s.data)]


def run_pay(case):
    import plumpy
    from plumpy import process_states as ps
    loop = fresh_loop()
    try:
        klass = K.build_proc(case['methods'])
        a, b = klass(loop=loop, pid=PID), klass(loop=loop, pid=PID)
        p = case['payload']
        fn = lambda n: None if n is None else (K.foreign_stop if n.startswith('foreign') else getattr(a, n))
        if p[0] == 'created':
            st = ps.Created(a, fn(p[1]), *[K._untuple(x) for x in p[2]], **{k: K._untuple(v) for k, v in p[3]})
        elif p[0] == 'running':
            st = ps.Running(a, fn(p[1]), *[K._untuple(x) for x in p[2]], **{k: K._untuple(v) for k, v in p[3]})
            if p[4] is not None:
                st._command = mk_command(a, p[4])
        else:
            st = ps.Waiting(a, fn(p[1]), K._untuple(p[2]), K._untuple(p[3]))
        saved = st.save()
        obs = {'saved': canon_pnode(saved), 'attrs': K.class_attrs(klass, list(case['methods']) + ['foreign_stop', 'nosuch'])}
        medium = through_medium(saved, case.get('medium', 'copy'))
        try:
            st2 = plumpy.Savable.load(medium, plumpy.LoadSaveContext(process=b))
            assert st2.process is b
            for attr in ('run_fn', 'done_callback'):
                f = getattr(st2, attr, None)
                if f is not None and hasattr(f, '__self__'):
                    assert f.__self__ is b, 'continuation not rebound on the new instance'
            obs['loaded'] = ['ok', read_state(st2)]
        except Exception as e:
            obs['loaded'] = ['exn', coqio.canon_exception(e)]
        return obs
    finally:
        asyncio.set_event_loop(None)
        loop.close()


# ---------------------------------------------------------------- recreate cases
def node_to_saved(n):
    cls = {v: k for k, v in SCLASS.items()}[n['cls']]
    d = {'!!meta': {'class_name': 'plumpy.workchains:%s' % cls}}
    if 'pos' in n:
        d['_pos'] = n['pos']
    if 'fn' in n:
        d['_fn'] = n['fn']
    if 'child' in n:
        d['stepper_state'] = node_to_saved(n['child'])
    return d


def run_rec(case, measure=False):
    loop = fresh_loop()
    try:
        klass = K.build_wc(case['outline'], case.get('override', []))
        wc = klass(loop=loop, pid=PID)
        extra = {} if measure else {'by_name': by_name(), 'attrs': wc_attrs(case) + K.class_attrs(klass, ['nosuch'])}
        try:
            s = klass.spec().get_outline().recreate_stepper(node_to_saved(case['node']), wc)
            return dict(extra, result=['ok', dump_live(s)])
        except Exception as e:
            return dict(extra, result=['exn', coqio.canon_exception(e)])
    finally:
        asyncio.set_event_loop(None)
        loop.close()


# ================================================================ oracle: the property itself
def closed(case):
    """Every step / continuation is the attribute of the class that carries its __name__."""
    return 'foreign' not in json.dumps(case.get('outline', case.get('prog'))) and not case.get('override')


FNREBIND = 'step_function_rebound_by_name'


def oracle(case, obs):
    kind = case['kind']
    if kind in ('wc', 'proc'):
        if kind == 'proc' and not closed(case):
            return None      # a continuation that is not a method of the process cannot be saved by name at all: by design
        # narrow signature of finding C08-fnrebind: a step function that is not the class attribute carrying its name
        sig = (lambda s: FNREBIND if (kind == 'wc' and not closed(case) and obs.get('by_name')) else s)
        run, ref = obs['run'], obs['ref']
        if run['result'][0] == 'restore_failed':
            if sig('') == FNREBIND and run['result'][2] != ['py', 'AttributeError']:
                return {'signature': 'restore_raises', 'kind': 'restore_failed', 'observed': run['result']}
            return {'signature': sig('restore_raises'), 'kind': 'restore_failed', 'observed': run['result']}
        for key in (('calls',) if kind == 'wc' else ('trace',)) + ('result', 'outs', 'ctx', 'state', 'seen') + (('pi', 'ri') if kind == 'wc' else ()):
            if run[key] != ref[key]:
                if key != 'calls' and sig('') == FNREBIND:
                    return {'signature': 'resume_differs', 'kind': key, 'expected': ref[key], 'observed': run[key]}
                return {'signature': sig('resume_differs'), 'kind': key, 'expected': ref[key], 'observed': run[key]}
        if run['bounds'] != ref['bounds']:
            return {'signature': sig('checkpoint_differs'), 'kind': 'bounds', 'expected': ref['bounds'], 'observed': run['bounds']}
        if run['idem'] is not None:
            return {'signature': sig('restore_changes_checkpoint'), 'kind': 'idem', 'observed': run['idem']}
        return None
    if kind == 'pay':
        # a payload whose functions are methods of the instance and that stores no command comes back as it was
        p = case['payload']
        names = [p[1]] if p[1] is not None else []
        if any(n.startswith('foreign') or n not in case['methods'] for n in names):
            return None        # not a method of the instance: by design
        if p[0] == 'running' and p[4] is not None:
            return None        # Running._command is never set by plumpy itself: latent, reported in the notes
        want = ['ok', p if p[0] != 'running' else p]
        if obs['loaded'] != want:
            return {'signature': 'payload_roundtrip', 'kind': p[0], 'expected': want, 'observed': obs['loaded']}
        return None
    if kind == 'rec':
        if case.get('valid'):
            # a tree saved from a live stepper of this outline must be recreated as that stepper
            if obs['result'] != ['ok', case['expect_live']]:
                return {'signature': 'stepper_roundtrip', 'kind': 'rec', 'expected': case['expect_live'], 'observed': obs['result']}
        return None


def nontrivial(case, obs):
    kind = case['kind']
    if kind == 'wc':
        run = obs['run']
        n = len(run['calls'])
        return any(0 < k for k in run['restored']) and n > 0 and len(run['bounds']) > max(run['restored'] or [0]) + 1
    if kind == 'proc':
        run = obs['run']
        return any(1 < k for k in run['restored']) and len(run['bounds']) > max(run['restored'] or [0]) + 1
    if kind == 'pay':
        p = case['payload']
        return bool(p[2]) or bool(p[3]) or (p[0] == 'running' and p[4] is not None)
    return not case.get('valid')


def distribution(cases, obs):
    d = {'wc': 0, 'proc': 0, 'pay': 0, 'rec': 0, 'restores_total': 0, 'restores_chain3': 0, 'crash_points_3': 0,
         'unsavable_boundaries': 0, 'restore_failed': 0, 'with_while': 0, 'with_if': 0, 'with_return': 0,
         'finished': 0, 'excepted': 0, 'pickle': 0, 'max_boundaries': 0, 'foreign': 0, 'kwargs_in_continue': 0,
         'inputs_none': 0, 'inputs_empty': 0, 'inputs_nonempty': 0, 'inputs_read_after_restore': 0}
    for c, o in zip(cases, obs):
        d[c['kind']] += 1
        if c['kind'] in ('wc', 'proc'):
            run = o['run']
            d['restores_total'] += sum(n for k, n in c['plan'] if k in run['restored'])
            d['restores_chain3'] += sum(1 for k, n in c['plan'] if n >= 3 and k in run['restored'])
            d['crash_points_3'] += len(run['restored']) >= 3
            d['unsavable_boundaries'] += sum(1 for b in run['bounds'] if b == 'unsavable')
            d['restore_failed'] += run['result'][0] == 'restore_failed'
            d['finished'] += run['state'] == 'finished'
            d['excepted'] += run['state'] == 'excepted'
            d['pickle'] += 'pickle' in c.get('media', [])
            d['max_boundaries'] = max(d['max_boundaries'], len(run['bounds']))
            d['foreign'] += not closed(c)
            inp = c.get('inputs')
            d['inputs_none' if inp is None else ('inputs_nonempty' if inp else 'inputs_empty')] += 1
            d['inputs_read_after_restore'] += bool(run['restored']) and len(run['seen']) > 0 and run['state'] != 'created'
            s = json.dumps(c.get('outline', c.get('prog')))
            d['with_while'] += '"while"' in s
            d['with_if'] += '"if"' in s
            d['with_return'] += '"return"' in s
            d['kwargs_in_continue'] += c['kind'] == 'proc' and any(v['ret'][0] == 'continue' and v['ret'][3] for _, vs in c['prog'] for v in vs)
    return d


# ================================================================ generators
def S(n):
    return ['step', 's%d' % n]


RETS = {
    'none': {'reg': [], 'ret': ['none']},
    'ctx': {'reg': [], 'ret': ['ctx', [['a', 1]]]},
    'reg': {'reg': [['b', 2]], 'ret': ['none']},
    'both': {'reg': [['a', 3]], 'ret': ['ctx', [['a', 4], ['c', 'x']]]},
    'val': {'reg': [], 'ret': ['val', 5]},
    'boom': {'reg': [], 'ret': ['raise', 'boom']},
    'out': {'out': [['o1', 7]], 'reg': [], 'ret': ['none']},
    'out2': {'out': [['o2', [1, 2]], ['o1', 'z']], 'reg': [['d', 0]], 'ret': ['none']},
}

WC_PROGRAMS = [
    # (outline, predicate stream, step-return stream)
    (['block', [S(1), S(2), S(3)]], [], []),
    (['block', [S(1), S(2), S(3), S(4), S(5), S(6), S(7)]], [], ['out', 'none', 'ctx', 'none', 'out2', 'reg']),
    (S(1), [], ['out']),
    (['block', [S(1), ['if', [['p1', [S(2), S(3)]]]], S(4)]], [True], ['none', 'ctx', 'out']),
    (['block', [S(1), ['if', [['p1', [S(2), S(3)]]]], S(4)]], [False], ['out2']),
    (['block', [S(1), ['if', [['p1', [S(2)]], ['p2', [S(3), S(4)]], [None, [S(5)]]]], S(6)]], [False, True], ['none', 'both', 'none', 'out']),
    (['block', [S(1), ['if', [['p1', [S(2)]], ['p2', [S(3), S(4)]], [None, [S(5), S(6)]]]], S(7)]], [False, False], ['reg', 'none', 'out']),
    (['block', [['while', 'p1', [S(1), S(2)]], S(3)]], [True, True, False], ['none', 'out', 'ctx', 'none', 'out2']),
    (['while', 'p1', [S(1)]], [True, True, True, False], ['out', 'none', 'reg']),
    (['block', [S(1), ['while', 'p1', [S(2), ['if', [['p2', [S(3), S(4)]], [None, [S(5)]]]]]], S(6)]],
     [True, True, True, False, False], ['none', 'out', 'ctx', 'none', 'none', 'out2']),
    (['block', [S(1), ['while', 'p1', [['while', 'p2', [S(2)]], S(3)]], S(4)]], [True, True, False, True, False, False], ['out']),
    (['block', [S(1), ['if', [['p1', [S(2), ['return', 3], S(3)]]]], S(4)]], [True], ['out', 'ctx']),
    (['block', [S(1), ['while', 'p1', [S(2), ['if', [['p2', [['return', None]]]]], S(3)]], S(4)]], [True, False, True, True], ['none', 'out']),
    (['block', [S(1), S(2), S(3), S(4)]], [], ['none', 'val', 'none']),
    (['block', [S(1), S(2), S(3), S(4)]], [], ['out', 'none', 'boom']),
    (['block', [S(1), ['if', [['p1', [['if', [['p2', [['while', 'p3', [S(2)]]]]]], S(3)]]]], S(4)]],
     [True, True, True, True, False], ['ctx', 'out', 'none', 'both']),
    (['if', [['p1', [S(1), S(2)]], [None, [S(3)]]]], [True], ['out', 'ctx']),
    (['if', [['p1', [S(1), S(2)]], [None, [S(3), S(4), S(5)]]]], [False], ['out', 'ctx', 'none']),
    (['block', [S(1), ['block', [S(2), ['block', [S(3), S(4)]], S(5)]], S(6)]], [], ['none', 'out', 'none', 'ctx', 'none', 'out2']),
    (['block', [S(1), S(2), S(3)]], [], ['both', 'both', 'ctx']),
]

# step functions that are not the attribute of the class carrying their __name__ (finding C08-fnrebind):
# a module-level function; a step overridden in a subclass while the outline refers to the parent's function
FOREIGN_WC = [
    (['block', [S(1), ['step', 'foreign_step'], S(2)]], [], ['out']),
    (['block', [['while', 'p1', [['step', 'foreign_step']]], S(1)]], [True, False], []),
    (['block', [S(1), S(2), S(3)]], [], ['out'], ['s2']),
    (['block', [S(1), ['while', 'p1', [S(2), S(3)]]]], [True, True, False], [], ['s3', 's1']),
]


def V(ret, sets=(), outs=()):
    return {'set': [list(x) for x in sets], 'out': [list(x) for x in outs], 'ret': ret}


PROC_PROGRAMS = [
    # (program, resume values by boundary index: None = resume() without value, [v] = resume(v))
    ([['run', [V(['continue', 'a', [1, 2], [['k', 3]]], sets=[('x', 1)])]],
      ['a', [V(['wait', 'b', 'msg', {'d': [1]}], outs=[('o1', 5)])]],
      ['b', [V(['continue', 'c', [9], [['z', 1], ['y', [2]]]])]],
      ['c', [V(['value', 11], sets=[('x', 2), ('w', 'done')])]]], [None, None, None, ['rv3']]),
    ([['run', [V(['continue', 'a', [], []])]],
      ['a', [V(['continue', 'a', [1], [['n', 1]]], sets=[('i', 1)]), V(['continue', 'a', [2], []], sets=[('i', 2)]),
             V(['wait', 'a', None, None]), V(['value', {'__tuple__': [1, 'x']}], outs=[('o', 1)])]]], [None] * 5),
    ([['run', [V(['wait', 'a', 'first', 1])]],
      ['a', [V(['wait', 'b', 'second', {'__tuple__': [1, 2]}], sets=[('got', 'a')])]],
      ['b', [V(['wait', 'a', 'third', [1, {'q': None}]]), V(['unsuccessful', 3])]]], [None, None, [5], ['v'], None, [[1, 2]], None, [0]]),
    ([['run', [V(['continue', 'a', [{'__tuple__': [1, 2]}, 'x'], [['kw', {'a': 1}]]])]],
      ['a', [V(['raise', 'boom'], sets=[('x', 1)], outs=[('o', 2)])]]], []),
    ([['run', [V(['value', 3], outs=[('o1', 1), ('o2', 'two')])]]], []),
    ([['run', [V(['wait', None, 'nocb', None])]]], [None, None, ['x']]),
    ([['run', [V(['continue', 'a', [0], []])]],
      ['a', [V(['continue', 'b', [1], [['k', 'v']]], outs=[('oa', 1)])]],
      ['b', [V(['continue', 'a', [2], []], sets=[('n', 1)]), V(['continue', 'c', [], [['last', True]]], sets=[('n', 2)])]],
      ['c', [V(['value', None])]]], []),
]

FOREIGN_PROC = [
    ([['run', [V(['continue', 'a', [], []])]], ['a', [V(['continue', 'foreign_stop', [1], []])]]], []),
    ([['run', [V(['wait', 'foreign_stop', 'm', 1])]]], [None, None, ['x']]),
]


# the process is created without inputs, with an empty mapping, with the optional port 'limit' set (also to a falsy
# value) — the steps record (raw_inputs is None, 'limit' in inputs, inputs.get('limit'))
INPUT_VARIANTS = [None, [], [['limit', 3]], [['limit', 0], ['tag', 'x']]]
_ROT = [0]


def next_inputs():
    _ROT[0] += 1
    return INPUT_VARIANTS[_ROT[0] % len(INPUT_VARIANTS)]


def subsets(nb, maxsize):
    pts = list(range(min(8, nb)))
    for r in range(0, maxsize + 1):
        for c in itertools.combinations(pts, r):
            yield list(c)


def n_boundaries(case):
    """Number of boundaries of the uninterrupted run."""
    o = run_impl(dict(case, plan=[]))
    return len(o['ref']['bounds'])


def with_plans(base, rng, maxsize, all_counts, media_choices):
    nb = n_boundaries(dict(base, plan=[]))
    out = []
    for sub in subsets(nb, maxsize):
        if not sub:
            continue
        if all_counts and len(sub) == 1:
            count_sets = [[1], [2], [3]]
        else:
            count_sets = [[rng.choice([1, 1, 2, 3]) for _ in sub]]
        for counts in count_sets:
            c = dict(base, plan=[[k, n] for k, n in zip(sub, counts)], media=rng.choice(media_choices))
            if 'inputs' not in c:
                c['inputs'] = next_inputs()
            out.append(c)
    return out


def wc_case(prog):
    o, preds, rets = prog[:3]
    c = {'kind': 'wc', 'outline': o, 'preds': list(preds), 'rets': [RETS[r] for r in rets]}
    if len(prog) > 3:
        c['override'] = list(prog[3])
    return c


def proc_case(prog):
    p, resume = prog
    return {'kind': 'proc', 'prog': p, 'resume': resume}


PAY_VALUES = [None, 1, 'msg', [1, 'a'], {'d': [1, {'e': None}]}, {'__tuple__': [1, 2]}, True]


def payload_cases():
    methods = ['run', 'a', 'b']
    out = []
    argss = [[], [1], [{'__tuple__': [1, 2]}, 'x', None]]
    kws = [[], [['k', 3]], [['z', [1]], ['a', {'q': 1}]]]
    for f in ('run', 'a', 'foreign_stop'):
        for a in argss:
            for kw in kws:
                out.append(['created', f, a, kw])
                out.append(['running', f, a, kw, None])
    for cb in (None, 'a', 'b', 'foreign_stop'):
        for msg in (None, 'text', 5):
            for data in PAY_VALUES:
                out.append(['waiting', cb, msg, data])
    cmds = [['continue', 'a', [1, 2], [['k', 1]]], ['continue', 'b', [], []], ['continue', 'foreign_stop', [1], []],
            ['wait', True, 'a', 'm', {'d': 1}], ['wait', True, None, None, None], ['stop', 5, True, True],
            ['stop', None, True, False], ['kill', 'bye'], ['kill', None]]
    for c in cmds:
        out.append(['running', 'a', [1], [['k', 2]], c])
    cases = []
    for i, p in enumerate(out):
        cases.append({'kind': 'pay', 'methods': methods, 'payload': p, 'medium': 'pickle' if i % 2 else 'copy'})
    # a name that exists on the saving class but not on the loading one cannot happen with one class; a method
    # list without 'b' covers "name does not exist on the new instance"
    return cases


def live_trees(outline, preds, rets):
    """(saved tree, live dump) of the stepper at every savable boundary of the uninterrupted run."""
    o = run_impl({'kind': 'wc', 'outline': outline, 'preds': preds, 'rets': rets, 'plan': []})
    return [(b['stepper'], b['live']) for b in o['ref']['bounds'] if b != 'unsavable' and 'stepper' in b]


def mutate_tree(t):
    """Single-site mutations of a saved tree: the ill-fitting trees recreate_stepper may be handed."""
    def paths(n, pre=()):
        yield pre
        if 'child' in n:
            yield from paths(n['child'], pre + ('child',))

    def at(n, path, f):
        n = copy.deepcopy(n)
        cur = n
        for p in path:
            cur = cur[p]
        f(cur)
        return n

    for path in paths(t):
        sub = t
        for p in path:
            sub = sub[p]
        if 'pos' in sub:
            yield at(t, path, lambda n: n.__setitem__('pos', n['pos'] + 1))
            yield at(t, path, lambda n: n.__setitem__('pos', n['pos'] + 5))
            if sub['pos'] > 0:
                yield at(t, path, lambda n: n.__setitem__('pos', n['pos'] - 1))
            yield at(t, path, lambda n: n.pop('pos'))
        if 'child' in sub:
            yield at(t, path, lambda n: n.pop('child'))
        if 'fn' in sub:
            yield at(t, path, lambda n: n.__setitem__('fn', 'nosuch'))
            yield at(t, path, lambda n: n.__setitem__('fn', 's1'))
            yield at(t, path, lambda n: n.pop('fn'))
        else:
            yield at(t, path, lambda n: n.__setitem__('child', {'cls': 'fun', 'fn': 's1'}))
        yield at(t, path, lambda n: n.__setitem__('cls', 'while' if n['cls'] != 'while' else 'block'))


def recreate_cases(programs, limit):
    cases, seen = [], set()
    for o, preds, rets in programs:
        rl = [RETS[r] for r in rets]
        for tree, live in live_trees(o, list(preds), rl):
            key = json.dumps([o, tree])
            if key in seen:
                continue
            seen.add(key)
            cases.append({'kind': 'rec', 'outline': o, 'node': tree, 'valid': True, 'expect_live': live})
            for m in mutate_tree(tree):
                k2 = json.dumps([o, m])
                if k2 not in seen and len(cases) < limit:
                    seen.add(k2)
                    cases.append({'kind': 'rec', 'outline': o, 'node': m})
    return cases


def small_outlines(max_size):
    for size in range(1, max_size + 1):
        for shape in c09.shapes(size, 3):
            yield c09.name_outline(c09.norm(['block', shape]), c09.Namer())


def generate(tier, rng, around=None):
    cases = []
    _ROT[0] = 0
    thorough = tier == 'thorough'
    media_choices = [['copy'], ['pickle'], ['copy', 'pickle'], ['pickle', 'copy']]
    if tier == 'widen':
        for c in (around or []):
            cases.append(c)
            if c['kind'] in ('wc', 'proc'):
                cases += with_plans({k: v for k, v in c.items() if k not in ('plan', 'media')}, rng, 2, True, media_choices)
        n_rand = 150
    else:
        n_rand = 250 if thorough else 40
    # 1. curated programs x every subset of <= 3 crash points among the first 8 boundaries
    for prog in WC_PROGRAMS:
        cases += with_plans(wc_case(prog), rng, 3 if thorough else 2, True, media_choices)
    for prog in PROC_PROGRAMS:
        cases += with_plans(proc_case(prog), rng, 3, True, media_choices)
    if not thorough and tier != 'widen':
        # quick: the size-3 subsets for a third of the workchain programs
        for prog in WC_PROGRAMS[::3]:
            base = wc_case(prog)
            cases += [c for c in with_plans(base, rng, 3, False, media_choices) if len(c['plan']) == 3]
    for prog in FOREIGN_WC:
        cases += with_plans(wc_case(prog), rng, 1, False, media_choices)
    for prog in FOREIGN_PROC:
        cases += with_plans(proc_case(prog), rng, 1, False, media_choices)
    # 2. bounded-exhaustive: every outline shape with <= N nodes x predicate streams x one restore at every boundary
    max_size = 4 if thorough else 3
    if tier != 'widen':
        for o in small_outlines(max_size):
            npred = json.dumps(o).count('"p')
            for preds in itertools.product([True, False], repeat=min(3, npred + c09.count(o, 'while'))):
                base = {'kind': 'wc', 'outline': o, 'preds': list(preds), 'rets': [RETS['out'], RETS['ctx']]}
                cases += with_plans(base, rng, 1 if c09.count(o, 'step') + npred > 3 else 2, False, media_choices)
    # 3. random outlines (depth <= 3) and streams, random plans
    for _ in range(n_rand):
        o = c09.rand_outline(rng, rng.randint(1, 3), c09.Namer())
        preds = [rng.random() < 0.6 for _ in range(rng.randint(0, 8))]
        rets = [RETS[rng.choice(list(RETS))] if rng.random() < 0.5 else RETS['none'] for _ in range(rng.randint(0, 6))]
        base = {'kind': 'wc', 'outline': o, 'preds': preds, 'rets': rets}
        nb = n_boundaries(dict(base, plan=[]))
        for _ in range(6 if thorough else 3):
            pts = sorted(rng.sample(range(min(8, nb)), min(rng.randint(1, 3), min(8, nb))))
            cases.append(dict(base, plan=[[k, rng.randint(1, 3)] for k in pts], media=rng.choice(media_choices),
                              inputs=next_inputs()))
    # 4. state payloads and recreate_stepper on saved trees
    if tier != 'widen':
        cases += payload_cases()
        cases += recreate_cases(WC_PROGRAMS, 1500 if thorough else 500)
    return {'cases': cases, 'exhaustive': tier != 'widen',
            'scope': 'all outline shapes with <= %d instruction nodes (depth <= 3) x all predicate streams (<= 3) x a restore at '
                     'every boundary; %d curated workchain and %d process programs x every subset of <= %d crash points among the '
                     'first 8 boundaries' % (max_size, len(WC_PROGRAMS), len(PROC_PROGRAMS), 3)}


def shrink_candidates(case):
    if case['kind'] in ('wc', 'proc'):
        plan = case['plan']
        for i in range(len(plan)):
            yield dict(case, plan=plan[:i] + plan[i + 1:])
        for i in range(len(plan)):
            if plan[i][1] > 1:
                yield dict(case, plan=plan[:i] + [[plan[i][0], plan[i][1] - 1]] + plan[i + 1:])
        if case.get('media') != ['copy']:
            yield dict(case, media=['copy'])
    if case['kind'] == 'wc':
        for c in c09.shrink_candidates({'outline': case['outline'], 'preds': case['preds'], 'rets': case['rets']}):
            yield dict(case, outline=c['outline'], preds=c['preds'], rets=c['rets'])
    if case['kind'] == 'proc':
        for i in range(len(case['resume'])):
            yield dict(case, resume=case['resume'][:i] + case['resume'][i + 1:])
