"""C04 — a kill request is never lost and no live process is unkillable."""
import itertools
import json

import life
from life import CORR_MODULE, CASE_TYPE, MODEL_FN, CORR_FILE, to_coq, distribution

PROP = 'C04'
SHARD = 200
RULE = ('program (sync/async steps, waits, failing step, kill inside a step) x every sequence of <= 3 requests from {kill, pause, play, resume} at callback '
        'boundaries, inside steps and from listeners, + cancellation of the process future; every schedule ends with completing awaited futures, a probing '
        'kill and a drain; non-trivial = a kill was accepted while a step was in flight, or another request preceded/followed it; distinct = distinct case')
ASSUMPTIONS = ['life-cycle hooks and listeners do not raise', 'an in-flight step eventually yields (awaited futures are completed at the end of every schedule)']
CANCEL_TEXT = 'Killed by future being cancelled'


_RESTORED = []


def restored_cancel_probe():
    """Implementation-only probe (no model term; the model has no checkpoints), once per run: cancelling the future of a process
    RESTORED from a checkpoint kills it like kill() — inside its waiting step, and before it has been stepped at all."""
    if _RESTORED:
        return _RESTORED[0]
    import plumpy
    import scripted
    import sched
    out = []
    case = {'prog': {'run': life.script([], ('wait', 's1', 'w', None)), 's1': life.script([], ('value', 1))}, 'events': []}
    for stepped_before_cancel in (True, False):
        sc = sched.Sched()
        sc2 = None
        try:
            scripted.CURRENT.update(cfg=case, trace=[], actions=[])
            proc = scripted.ScriptedProcess(loop=sc.loop)
            sc.loop.create_task(proc.step_until_terminated())
            for _ in range(10):
                if not sc.tick():
                    break
            b = plumpy.Bundle(proc)
            sc2 = sched.Sched()
            scripted.CURRENT.update(cfg=case, trace=[], actions=[])
            p2 = b.unbundle(plumpy.LoadSaveContext(loop=sc2.loop))
            sc2.loop.create_task(p2.step_until_terminated())
            if stepped_before_cancel:
                for _ in range(10):
                    if not sc2.tick():
                        break
            state_before = p2.state.value
            p2.future().cancel()
            for _ in range(20):
                if not sc2.tick():
                    break
            out.append([stepped_before_cancel, state_before, p2.state.value])
        except Exception as e:  # noqa: BLE001
            out.append([stepped_before_cancel, 'probe-error', repr(e)[:200]])
        finally:
            sc.close()
            if sc2 is not None:
                sc2.close()
    _RESTORED.append(out)
    return out


def run_impl(case):
    obs = life.strip_obs(life.run_case(case))
    obs['restored_cancel'] = restored_cancel_probe()
    return obs


def _oracle(case, obs):
    for stepped, before, after in obs.get('restored_cancel', []):
        if after != 'killed':
            return {'signature': 'cancelling_the_future_of_a_restored_process_does_not_kill_it', 'kind': '%s -> %s' % (before, after),
                    'stepped_before_cancel': stepped}
    if obs['final'] is None:
        return None
    tr = obs['trace']
    fin = obs['final']
    # state at the time of each event, reconstructed from the trace
    cur = None
    accepted = []          # accepted kills: (index in trace, text, ret)
    step_failed = False
    for i, e in enumerate(tr):
        if e[0] == 'entered':
            cur = e[2]
        if e[0] == 'ctl' and e[1][0] == 'kill':
            before = [x for x in tr[:e[3]] if x[0] == 'entered']
            live = (before[-1][2] if before else None) not in life.TERMINAL
            if live and e[2][0] == 'raised':
                return {'signature': 'kill_raised', 'kind': e[2][1][1] if len(e[2][1]) > 1 else '', 'context': ctx(case, tr, i)}
            if live and e[2] == ['bool', False]:
                return {'signature': 'kill_refused_on_live_process', 'kind': cur, 'context': ctx(case, tr, i)}
            if live and e[2][0] in ('bool', 'action'):
                accepted.append((i, e[1][1], e[2]))
            if e[2] == ['bool', True] and live:
                # a synchronous True means the process is KILLED on return
                nxt = [x for x in tr[:i] if x[0] == 'entered']
                if not nxt or nxt[-1][2] != 'killed':
                    return {'signature': 'kill_returned_true_but_not_killed', 'kind': nxt[-1][2] if nxt else '', 'context': ctx(case, tr, i)}
    cancelled = any(e[0] == 'cancel' for e in case['events'])
    for e in tr:
        if e[0] == 'ctl' and e[1][0] in ('pause', 'play') and e[2][0] == 'raised':
            pass   # C05's subject
    failing_step = any(s['ret'][0] == 'raise' for s in case['prog'].values())
    if accepted or cancelled_live(case, obs):
        if fin['state'] not in life.TERMINAL:
            return {'signature': 'kill_lost_process_still_live', 'kind': fin['state'], 'context': ctx(case, tr, accepted[0][0] if accepted else 0)}
        if fin['state'] == 'finished':
            return {'signature': 'kill_lost_process_finished', 'kind': 'finished', 'context': ctx(case, tr, accepted[0][0] if accepted else 0)}
        if fin['state'] == 'killed' and any(x[0] == 'step_raised' for x in obs.get('side', [])):
            return {'signature': 'failing_step_ended_killed', 'kind': 'killed', 'context': ctx(case, tr, accepted[0][0] if accepted else 0)}
        if fin['state'] == 'excepted' and not failing_step:
            return {'signature': 'kill_ended_excepted', 'kind': str(fin['future']), 'context': ctx(case, tr, accepted[0][0] if accepted else 0)}
        if fin['state'] == 'killed':
            txt = fin['accessors']['killed_msg']
            got = txt[1][1] if txt[0] == 'ok' and isinstance(txt[1], list) else None
            wanted = [a[1] for a in accepted] + ([CANCEL_TEXT] if cancelled else []) + [c[1] for c in kills_in_program(case)]
            if got not in wanted and not (got is None and None in wanted):
                return {'signature': 'kill_text_not_recorded', 'kind': '%r not in %r' % (got, wanted), 'context': 'text'}
        # the returned futures: True exactly when the process ended KILLED
        for i, text, ret in accepted:
            if ret[0] == 'action':
                a = fin['actions'][ret[1]]
                want = ['val', True] if fin['state'] == 'killed' else None
                if fin['state'] == 'killed' and a != ['val', True]:
                    return {'signature': 'kill_future_not_true_although_killed', 'kind': str(a), 'context': ctx(case, tr, i)}
                if fin['state'] != 'killed' and a == ['val', True]:
                    return {'signature': 'kill_future_true_although_not_killed', 'kind': fin['state'], 'context': ctx(case, tr, i)}
    # every schedule ends with a probing kill + drain: nothing may still be live
    if fin['state'] not in life.TERMINAL:
        return {'signature': 'unkillable_live_process', 'kind': fin['state'], 'context': ctx(case, tr, len(tr) - 1)}
    return None


def oracle(case, obs):
    """The property check, with the failure classified by what triggered it (signatures of the known findings)."""
    f = _oracle(case, obs)
    if f is None:
        return None
    tr = obs['trace']
    # D8: a kill issued by a listener while step() makes a transition is armed as an interrupt action, which step()'s
    # `finally` cancels
    for i, e in enumerate(tr):
        if e[0] == 'ctl' and e[1] == ['kill', 'L'] and e[2][0] == 'action' and i > 0 and tr[i - 1][0] == 'listener' \
                and tr[i - 1][1] in ('on_process_running', 'on_process_waiting', 'on_process_paused'):
            f['class'] = f['signature']
            f['signature'] = 'kill_from_listener_during_step_transition'
            return f
    # D3b: the future is cancelled, the done-callback that kills runs one callback later and the in-flight step completes first
    if f['signature'] == 'kill_ended_excepted' and any(e[0] == 'cancel' for e in case['events']) \
            and obs['final']['future'] == ['exn', ['py', 'InvalidStateError']] \
            and not any(e[0] == 'ctl' and e[1][0] == 'kill' and e[2][0] == 'action' for e in tr):
        f['class'] = f['signature']
        f['signature'] = 'future_cancelled_but_step_completes_before_the_kill_callback'
    return f


def cancelled_live(case, obs):
    """the user cancelled the process future while the process was live"""
    for s, e in zip(obs['samples'][1:], case['events']):
        if e[0] == 'cancel':
            return s['future'] == ['cancelled']
    return False


def kills_in_program(case):
    out = []
    for s in case['prog'].values():
        for a in s['actions']:
            if a[0] == 'ctl' and a[1][0] == 'kill':
                out.append(a[1])
    for l in case.get('listeners', []):
        if l[2][0] == 'kill':
            out.append(l[2])
    return out


def ctx(case, tr, i):
    """what other requests surround the kill: the class of the finding"""
    kinds = []
    for e in tr:
        if e[0] == 'ctl' and e[1][0] in ('pause', 'play', 'resume', 'kill'):
            kinds.append(e[1][0])
    src = 'listener' if case.get('listeners') else ('instep' if kills_in_program(case) else 'env')
    return src + ':' + '>'.join(kinds[:4])


def nontrivial(case, obs):
    return any(e[0] == 'ctl' and e[1][0] == 'kill' and e[2][0] == 'action' for e in obs['trace']) or \
        sum(1 for e in case['events'] if e[0] in ('ctl', 'cancel')) >= 3


REQS = [['ctl', ['kill', 'k']], ['ctl', ['pause', 'p']], ['ctl', ['play']], ['ctl', ['resume', 9]]]


def programs():
    S = life.script
    P = {}
    P['sync'] = {'run': S([], ('continue', 's1', [], {})), 's1': S([], ('value', 1))}
    P['async'] = {'run': S([('yield',), ('yield',)], ('continue', 's1', [], {})), 's1': S([('yield',)], ('value', 1))}
    P['wait'] = {'run': S([], ('wait', 's1', 'w', None)), 's1': S([('yield',)], ('value', 1))}
    P['ext'] = {'run': S([('await', 0)], ('value', 2))}
    P['failing'] = {'run': S([('yield',), ('yield',)], ('raise', 'boom'))}
    P['kill_pause_in_step'] = {'run': S([('yield',), ('ctl', ['kill', 'inside']), ('ctl', ['pause', 'after']), ('yield',)], ('value', 1))}
    P['pause_kill_in_wait'] = {'run': S([], ('wait', 's1', None, None)), 's1': S([], ('value', 1))}
    return P


def generate(tier, rng, around=None):
    cases = []
    if tier == 'widen':
        cases += list(around or [])
    tail = [['ext', 0, ['val', 1]], ['drain', 30], ['ctl', ['kill', 'probe']], ['ctl', ['play']], ['drain', 30]]
    progs = programs()
    variants = [{}, {'listeners': [['on_process_running', 0, ['kill', 'L']]]}, {'listeners': [['on_process_waiting', 0, ['kill', 'L']]]},
                {'listeners': [['on_process_running', 1, ['kill', 'L']]]}, {'listeners': [['on_process_paused', 0, ['kill', 'L']]]}]
    for name, prog in progs.items():
        for vi, extra in enumerate(variants):
            n = min(life.count_ticks(prog, extra) + 1, 5)
            singles = [(b, e) for b in range(n + 1) for e in REQS + [['cancel']]]
            cases.append(dict(extra, prog=prog, events=life.place(n, []) + tail, _prog=name))
            for b, e in singles:
                cases.append(dict(extra, prog=prog, events=life.place(n, [(b, e)]) + tail, _prog=name))
            if vi and tier == 'quick':
                continue
            # sequences of 2 and 3 requests, at least one kill
            combos = []
            for k in (2, 3):
                for bs in itertools.combinations_with_replacement(range(n + 1), k):
                    for es in itertools.product(range(len(REQS)), repeat=k):
                        if 0 in es:
                            combos.append(list(zip(bs, [REQS[i] for i in es])))
            lim = {'quick': 260, 'thorough': 4000, 'widen': 1200}[tier]
            for c in (combos if len(combos) <= lim else rng.sample(combos, lim)):
                cases.append(dict(extra, prog=prog, events=life.place(n, c) + tail, _prog=name))
    # the schedules without a listener, once more with a listener that reacts to some notification with a control call of its own
    # (play / pause / kill / fail, made re-entrantly from inside the transition or the pause that notifies it): sampled
    pool = [c for c in cases if not c.get('listeners') and '_corpus' not in c]
    kl = {'quick': 200, 'thorough': 5000, 'widen': 500}[tier]
    for c in (pool if len(pool) <= kl else rng.sample(pool, kl)):
        l = rng.choice(['on_process_running', 'on_process_waiting', 'on_process_paused', 'on_process_played', 'on_process_killed'])
        rc = rng.choice([['play'], ['pause', None], ['kill', 'lk'], ['fail', 'lf']])
        cases.append(dict(c, listeners=[[l, rng.choice([0, 1]), rc]]))
    return {'cases': cases, 'exhaustive': False,
            'scope': '7 programs x 5 listener variants x every single request/cancel at every boundary; all sequences of 2-3 requests containing a kill (sampled); '
                     'sampled: listeners reacting to any notification with play / pause / kill / fail'}


def shrink_candidates(case):
    ev = case['events']
    for i in range(len(ev) - 5):
        yield dict(case, events=ev[:i] + ev[i + 1:])
    if case.get('listeners'):
        yield dict(case, listeners=[])
