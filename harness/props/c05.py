"""C05 — pause/play is transparent: nothing runs while paused, no step lost or repeated."""
import itertools
import json

import life
from life import CORR_MODULE, CASE_TYPE, MODEL_FN, CORR_FILE, to_coq, distribution, script as S

PROP = 'C05'
SHARD = 200
RULE = ('program (sync chain, async steps with 1-3 awaits, waits, outputs, status messages) x every sequence of <= 2 (quick) / 3 (thorough) requests from '
        '{pause with/without message, play} placed at every callback boundary, completed by the deterministic driver (play if paused, drain, resume a '
        'quiescent wait with the next value); compared with the same program run without requests; non-trivial = at least one pause took effect '
        '(the process reported paused) or a pending pause was cancelled by play; plus (sampled) a listener that reacts to a notification with play() of its own, '
        'combined with a request from outside; distinct = distinct (program, schedule)')
ASSUMPTIONS = ['programs do not call control methods on themselves; the environment (and, in one family, a listener calling play()) does', 'life-cycle hooks and listeners do not raise',
               'waits are resumed by the deterministic driver rule once the process is quiescent in WAITING']


def programs():
    P = {}
    P['sync3'] = ({'run': S([('status', 'st-run')], ('continue', 's1', [1], {'k': 2})), 's1': S([('out', 'a', 1)], ('continue', 's2', [], {})),
                   's2': S([('observe',)], ('value', 7))}, [])
    P['async'] = ({'run': S([('yield',), ('observe',), ('yield',)], ('continue', 's1', [], {})),
                   's1': S([('status', 'in-s1'), ('yield',), ('out', 'o', 2)], ('continue', 's2', [], {})), 's2': S([('yield',)], ('value', 3))}, [])
    P['wait'] = ({'run': S([('status', 'before-wait')], ('wait', 's1', 'waiting for it', None)), 's1': S([('observe',)], ('continue', 's2', [5], {})),
                  's2': S([], ('value', 1))}, [['resume', 42]])
    P['wait2'] = ({'run': S([('yield',)], ('wait', 's1', None, {'d': 1})), 's1': S([('out', 'x', 1)], ('wait', 's2', 'again', None)),
                   's2': S([('yield',), ('observe',)], ('value', 'end'))}, [['resume'], ['resume', 'v']])
    P['output'] = ({'run': S([('out', 'x', 1), ('yield',), ('out', 'n.y', 'a'), ('yield',), ('out', 'z', None)], ('unsuccessful', 4))}, [])
    P['last'] = ({'run': S([('yield',)], ('value', 0))}, [])
    return P


def run_impl(case):
    return life.strip_obs(life.run_case(case))


def reference(case):
    key = json.dumps([case['prog'], case.get('auto_resumes')], sort_keys=True)
    if case.get('explicit'):
        # the schedule names its own resumes: the uninterrupted run is the same schedule without the pause / play requests
        key = json.dumps([case['prog'], case['events']], sort_keys=True)
        if key not in _REF:
            ev = [e for e in case['events'] if not (e[0] == 'ctl' and e[1][0] in ('pause', 'play'))]
            _REF[key] = life.strip_obs(life.run_case(dict(case, events=ev, listeners=[])))
        return _REF[key]
    if key not in _REF:
        ref_case = dict(case, events=[['auto', 40]], listeners=[])
        _REF[key] = life.strip_obs(life.run_case(ref_case))
    return _REF[key]


_REF = {}


def visible(trace):
    """executed steps with their arguments and emitted outputs, in order"""
    return [e[:4] for e in trace if e[0] in ('step', 'output')]


def oracle(case, obs):
    if obs['final'] is None:
        return {'signature': 'constructor_raised', 'kind': ''}
    tr = obs['trace']
    for e in tr:
        if e[0] == 'ctl' and e[1][0] in ('pause', 'play') and e[2][0] == 'raised':
            return {'signature': '%s_raised' % e[1][0], 'kind': str(e[2][1]), 'context': context(case)}
    if life.pause_carried_out_after_play(tr) is not None:
        return {'signature': 'pause_carried_out_although_withdrawn', 'kind': 'D29', 'context': context(case)}
    for e in tr:
        if e[0] == 'step' and e[4]:
            return {'signature': 'step_started_while_paused', 'kind': e[1], 'context': context(case)}
        if e[0] == 'observe' and e[1]:
            return {'signature': 'user_code_ran_while_paused', 'kind': 'observe', 'context': context(case)}
    # play always leaves the process un-paused (sampled right after every environment play request)
    samples = obs['samples']
    evs = obs.get('realized', case['events'])
    # samples: 'start', then one per event (plus drain-ticks); align by walking
    idx = 0
    per_event = []
    for s in samples[1:]:
        if s['tag'] == 'drain-tick':
            continue
        per_event.append(s)
    prev = samples[0]
    before_pause_status = None
    for ev, s in zip(evs, per_event):
        if ev[0] == 'ctl' and ev[1][0] == 'play':
            if s['paused']:
                return {'signature': 'paused_after_play', 'kind': s['state'], 'context': context(case)}
        prev = s
    f = obs['final']
    # transparency: same steps, outputs, result as the uninterrupted run
    ref = reference(case)
    if visible(tr) != visible(ref['trace']):
        a, b = visible(tr), visible(ref['trace'])
        kind = 'lost' if len(a) < len(b) and a == b[:len(a)] else ('repeated_or_extra' if len(a) > len(b) else 'different')
        return {'signature': 'steps_differ_from_uninterrupted_run', 'kind': kind, 'context': context(case), 'got': a[-3:], 'want': b[-3:]}
    if f['state'] != ref['final']['state'] or f['accessors'].get('result') != ref['final']['accessors'].get('result') \
            or f['future'] != ref['final']['future']:
        return {'signature': 'result_differs_from_uninterrupted_run', 'kind': '%s:%s' % (ref['final']['state'], f['state']), 'context': context(case)}
    # status: what user code observes / what is left at the end equals the uninterrupted run's
    obs_status = [e[2] for e in tr if e[0] == 'observe']
    ref_status = [e[2] for e in ref['trace'] if e[0] == 'observe']
    if obs_status != ref_status or (f['status'] != ref['final']['status']):
        return {'signature': 'status_not_restored', 'kind': '%r:%r' % (ref['final']['status'], f['status']), 'context': context(case)}
    return None


def context(case):
    evs = [e[1][0] if e[0] == 'ctl' else 'resume' for e in case['events'] if e[0] in ('ctl', 'resume!')]
    return '>'.join(evs)


def nontrivial(case, obs):
    if obs['final'] is None:
        return False
    return any(e == ['listener', 'on_process_paused'] for e in obs['trace']) or \
        any(e[0] == 'ctl' and e[1][0] == 'pause' and e[2][0] == 'action' for e in obs['trace'])


EVENTS = [['ctl', ['pause', 'p-msg']], ['ctl', ['pause', None]], ['ctl', ['play']], ['resume!']]


def generate(tier, rng, around=None):
    cases = []
    if tier == 'widen':
        cases += list(around or [])
    for name, (prog, resumes) in programs().items():
        base = {'prog': prog, 'auto_resumes': resumes, '_prog': name}
        n = life.count_ticks(prog, {'auto_resumes': resumes}, driven=True) + 1
        # the driven run: before every tick a quiescent wait is resumed; requests are placed before the resume, or between the
        # resume and the tick (same loop iteration as the wake-up)
        skeleton = [x for _ in range(n) for x in (['resume*'], ['tick'])]
        positions = [p for p in range(len(skeleton) + 1) if resumes or p % 2 == 0]
        singles = [(b, e) for b in positions for e in (EVENTS if resumes else EVENTS[:3])]
        cases.append(dict(base, events=[['auto', 40]]))
        for b, e in singles:
            cases.append(dict(base, events=life.place_on(skeleton, [(b, e)]) + [['auto', 40]]))
        pairs = list(itertools.combinations_with_replacement(range(len(singles)), 2))
        pairs += [(j, i) for i, j in pairs if singles[i][0] == singles[j][0] and i != j]     # both orders at one boundary
        k = {'quick': 220, 'thorough': 100000, 'widen': 1500}[tier]
        for i, j in (pairs if len(pairs) <= k else rng.sample(pairs, k)):
            cases.append(dict(base, events=life.place_on(skeleton, [singles[i], singles[j]]) + [['auto', 40]]))
        # several requests inside one loop iteration: every ordered selection of <= 3 distinct requests at one boundary
        gap = [['ctl', ['pause', 'p-msg']], ['ctl', ['play']]] + ([['resume!']] if resumes else [])
        for b in positions:
            for r in (2, 3):
                for seq in itertools.permutations(gap, r):
                    cases.append(dict(base, events=life.place_on(skeleton, [(b, e) for e in seq]) + [['auto', 40]]))
            if tier != 'quick':
                for seq in itertools.product(gap, repeat=4):
                    cases.append(dict(base, events=life.place_on(skeleton, [(b, e) for e in seq]) + [['auto', 40]]))
        # pause earlier, then play and pause again inside one loop iteration (and the other orders)
        trip = [(a, b, c) for a in range(len(singles)) for b in range(len(singles)) for c in range(len(singles))
                if singles[a][0] <= singles[b][0] == singles[c][0] and b != c]
        kt = {'quick': 160, 'thorough': 6000, 'widen': 1500}[tier]
        for t in (trip if len(trip) <= kt else rng.sample(trip, kt)):
            cases.append(dict(base, events=life.place_on(skeleton, [singles[x] for x in t]) + [['auto', 40]]))
    # a listener that reacts to a notification with play() of its own (re-entrantly: from inside the transition or the pause that
    # notifies it), combined with one or two requests from outside — the quantifier of the all-run theorems (listener scripts);
    # play() from anywhere only withdraws or ends a pause, so the run must still equal the uninterrupted one
    for name, (prog, resumes) in programs().items():
        base = {'prog': prog, 'auto_resumes': resumes, '_prog': name + '+listener'}
        n = life.count_ticks(prog, {'auto_resumes': resumes}, driven=True) + 1
        skeleton = [x for _ in range(n) for x in (['resume*'], ['tick'])]
        positions = [p for p in range(len(skeleton) + 1) if resumes or p % 2 == 0]
        lref = run_impl(dict(base, events=life.place_on(skeleton, [(positions[min(2, len(positions) - 1)], EVENTS[0])]) + [['auto', 40]]))
        lcounts = {}
        for e in lref['trace']:
            if e[0] == 'listener':
                lcounts[e[1]] = lcounts.get(e[1], 0) + 1
        combos = [(l, o, b, e) for l, c in sorted(lcounts.items()) for o in range(c + 1) for b in positions for e in EVENTS[:2]]
        kl = {'quick': 60, 'thorough': 2500, 'widen': 300}[tier]
        for (l, o, b, e) in (combos if len(combos) <= kl else rng.sample(combos, kl)):
            cases.append(dict(base, listeners=[[l, o, ['play']]], events=life.place_on(skeleton, [(b, e)]) + [['auto', 40]]))
    # several wake-ups for one wait (only the first counts) interleaved with a pause in the same gap between two callbacks
    wprog = programs()['wait'][0]
    R1, R2, PA, PL = ['ctl', ['resume', 1]], ['ctl', ['resume', 2]], ['ctl', ['pause', None]], ['ctl', ['play']]
    for nt in (1, 2):
        for seq in ([PA, R1, R2], [R1, PA, R2], [R1, R2, PA], [PA, R1, PL, R2], [PA, PL, R1, R2], [PA, R1, R2, PL], [PA, R1, ['tick'], R2]):
            cases.append({'prog': wprog, 'auto_resumes': [], 'explicit': True, '_prog': 'wait+two-resumes',
                          'events': [['tick']] * nt + seq + [['drain', 30], PL, ['drain', 30]]})
    return {'cases': cases, 'exhaustive': False,
            'scope': '6 programs x every single pause/play request at every callback boundary and between a wake-up and the next callback; '
                     'pairs and triples (two requests in one loop iteration) sampled in the quick tier'}


def shrink_candidates(case):
    ev = case['events']
    for i in range(len(ev)):
        if ev[i][0] not in ('drain', 'auto'):
            yield dict(case, events=ev[:i] + ev[i + 1:])
