"""C20 — future adapters deliver result, error or cancellation exactly once."""
import asyncio
import concurrent.futures
import itertools
import json
import warnings

import coqio
from coqio import c_str, c_bool, c_list, c_opt, c_nat, c_val, c_exn

PROP = 'C20'
CORR_MODULE = 'Adapters Corr_C20'
CASE_TYPE = 'C20_case'
MODEL_FN = 'c20_model'
SHARD = 400
RULE = ('adapter x nesting depth x terminal outcome x completion order (all permutations up to depth 4), action op sequences up to length 4; '
        'real concurrent.futures / asyncio futures; non-trivial = depth >= 2 or a non-value outcome or >= 2 action ops; distinct = distinct case')
ASSUMPTIONS = ['single thread: levels are completed by the harness thread, loop callbacks drained after each event',
               'the consumer does not cancel the adapter future itself']
TRUSTED_EXTRA = ['no theorem speaks about completion from a second OS thread (memory-model level races)']


class UserError(Exception):
    pass


def c_term(t):
    if t[0] == 'val':
        return '(TVal %s)' % c_val(t[1])
    if t[0] == 'exn':
        return '(TExn %s)' % c_exn(t[1])
    return 'TCancel'


def c_coro(f):
    return '(inr %s)' % c_val(f[1]) if f[0] == 'val' else '(inl %s)' % c_exn(f[1])


def c_aret(r):
    if r[0] == 'none':
        return 'ARetNone'
    if r[0] == 'bool':
        return '(ARetBool %s)' % c_bool(r[1])
    return '(ARaised %s)' % c_exn(r[1])


def to_coq(case, obs):
    k = case['kind']
    if k in ('unwrap', 'plum'):
        return '(KUnwrap %s %s %s %s)' % (c_nat(case['depth']), c_term(case['term']), c_list([c_nat(i) for i in case['order']]),
                                          c_list([c_opt(t, c_term) for t in obs['trace']]))
    if k == 'rpc':
        return '(KRpc %s %s)' % (c_term(case['term']), c_opt(obs['final'], c_term))
    if k == 'task':
        return '(KTask %s %s)' % (c_coro(case['coro']), c_term(obs['final']))
    if k == 'action':
        return '(KAction %s %s %s %s %s)' % (c_coro(case['coro']), c_list(['ARun' if o == 'run' else 'ACancel' for o in case['ops']]),
                                             c_list([c_aret(r) for r in obs['rets']]), c_opt(obs['final'], c_term), c_nat(obs['calls']))
    raise ValueError(k)


def status(f):
    """state of a (concurrent or asyncio) future as a term, None when pending"""
    if not f.done():
        return None
    if f.cancelled():
        return ['cancel']
    e = f.exception()
    if e is not None:
        return ['exn', coqio.canon_exception(e)]
    r = f.result()
    if hasattr(r, 'add_done_callback'):
        return ['val', '<a future leaked through the adapter>']
    return ['val', r]


def finish(f, term):
    if term[0] == 'val':
        f.set_result(term[1])
    elif term[0] == 'exn':
        f.set_exception(UserError(term[1][1]))
    else:
        f.cancel()


_L = []


def loop():
    if not _L:
        _L.append(asyncio.new_event_loop())
    asyncio.set_event_loop(_L[0])
    return _L[0]


def drain(lp, n=12):
    for _ in range(n):
        lp.run_until_complete(asyncio.sleep(0))


def run_impl(case):
    warnings.simplefilter('ignore')
    import plumpy
    from plumpy import futures, communications
    kind = case['kind']
    lp = loop()
    if kind == 'unwrap':
        k = case['depth']
        fs = [concurrent.futures.Future() for _ in range(k)]
        u = futures.unwrap_kiwi_future(fs[0])
        sets = []
        trace = []
        for i in case['order']:
            if i < k - 1:
                fs[i].set_result(fs[i + 1])
            else:
                finish(fs[i], case['term'])
            trace.append(status(u))
        return {'trace': trace}
    if kind == 'plum':
        k = case['depth']
        fs = [lp.create_future() for _ in range(k)]
        kiwi = communications.plum_to_kiwi_future(fs[0])
        u = futures.unwrap_kiwi_future(kiwi)
        trace = []
        for i in case['order']:
            if i < k - 1:
                fs[i].set_result(fs[i + 1])
            else:
                finish(fs[i], case['term'])
            drain(lp, 2 * k + 2)
            trace.append(status(u))
        for f in fs:
            if f.done() and not f.cancelled():
                f.exception()
        return {'trace': trace}
    if kind == 'rpc':
        k = case['depth']
        proc = _proc(lp)
        fs = [lp.create_future() for _ in range(k)]
        reply = proc._schedule_rpc(lambda: fs[0])
        drain(lp)
        for i in case['order']:
            if i < k - 1:
                fs[i].set_result(fs[i + 1])
            else:
                finish(fs[i], case['term'])
            drain(lp, 4)
        drain(lp)
        for f in fs:
            if f.done() and not f.cancelled():
                f.exception()
        return {'final': status(reply)}
    if kind == 'task':
        async def coro():
            if case['coro'][0] == 'val':
                return case['coro'][1]
            if case['coro'][1] == ['py', 'CancelledError']:
                import kiwipy
                raise kiwipy.CancelledError()      # e.g. the coroutine asked an already cancelled communicator future for its result
            raise UserError(case['coro'][1][1])
        f = futures.create_task(coro, lp)
        drain(lp)
        o = {'final': status(f)}
        if f.done() and not f.cancelled() and f.exception() is not None:
            o['exc_class'] = '%s.%s' % (type(f.exception()).__module__, type(f.exception()).__name__)
        return o
    if kind == 'action':
        calls = []

        def fn(*a, **kw):
            calls.append(1)
            if case['coro'][0] == 'val':
                return case['coro'][1]
            raise UserError(case['coro'][1][1])
        act = futures.CancellableAction(fn)
        rets = []
        for op in case['ops']:
            try:
                if op == 'run':
                    act.run()
                    rets.append(['none'])
                else:
                    rets.append(['bool', act.cancel()])
            except Exception as e:
                rets.append(['raised', coqio.canon_exception(e)])
        final = status(act)
        return {'rets': rets, 'final': final, 'calls': len(calls)}
    raise ValueError(kind)


_P = []


def _proc(lp):
    import plumpy
    if not _P:
        class P(plumpy.Process):
            pass
        _P.append(P(loop=lp))
    return _P[0]


# ------------------------------------------------------------ oracle: the property, directly
def oracle(case, obs):
    kind = case['kind']
    if kind in ('unwrap', 'plum'):
        k = case['depth']
        done = set()
        for n, i in enumerate(case['order']):
            done.add(i)
            want = case['term'] if len(done) == k else None
            if obs['trace'][n] != want:
                return {'signature': 'unwrap_wrong_outcome' if want is not None or obs['trace'][n] != want else 'x',
                        'kind': kind, 'event': n, 'expected': want, 'observed': obs['trace'][n]}
        return None
    if kind == 'rpc':
        if obs['final'] != case['term']:
            if case['term'] == ['cancel'] and obs['final'] is None:
                return {'signature': 'rpc_reply_never_resolves_when_inner_future_cancelled', 'kind': 'rpc'}
            return {'signature': 'rpc_wrong_outcome', 'kind': 'rpc', 'expected': case['term'], 'observed': obs['final']}
        return None
    if kind == 'task':
        want = case['coro'] if case['coro'][0] == 'val' else ['exn', case['coro'][1]]
        if obs['final'] != list(want):
            return {'signature': 'create_task_wrong_outcome', 'kind': 'task', 'expected': want, 'observed': obs['final']}
        if case['coro'][1] == ['py', 'CancelledError'] and not str(obs.get('exc_class', '')).startswith('concurrent.futures'):
            # the coroutine's own exception object, not a look-alike of another class
            return {'signature': 'create_task_replaced_the_exception', 'kind': 'task', 'observed': obs.get('exc_class')}
        return None
    if kind == 'action':
        state, calls, rets = 'pending', 0, []
        for op in case['ops']:
            if op == 'run':
                if state == 'pending':
                    calls += 1
                    state = 'done'
                    rets.append(['none'])
                else:
                    rets.append(['raised', ['py', 'InvalidStateError']])
            else:
                if state == 'pending':
                    state = 'cancelled'
                    rets.append(['bool', True])
                else:
                    rets.append(['bool', False])
        final = None if state == 'pending' else (['cancel'] if state == 'cancelled' else
                                                  (case['coro'] if case['coro'][0] == 'val' else ['exn', case['coro'][1]]))
        if obs['calls'] != calls or obs['calls'] > 1:
            return {'signature': 'action_called_wrong_number_of_times', 'kind': 'action', 'expected': calls, 'observed': obs['calls']}
        if obs['rets'] != rets or obs['final'] != (list(final) if final else None):
            return {'signature': 'action_wrong_report', 'kind': 'action', 'expected': [rets, final], 'observed': [obs['rets'], obs['final']]}
        return None


def nontrivial(case, obs):
    if case['kind'] == 'action':
        return len(case['ops']) >= 2
    if case['kind'] == 'task':
        return case['coro'][0] != 'val'
    return case['depth'] >= 2 or case['term'][0] != 'val'


def distribution(cases, obs):
    d = {}
    for c in cases:
        d[c['kind']] = d.get(c['kind'], 0) + 1
        if 'term' in c:
            key = 'terminal_' + c['term'][0]
            d[key] = d.get(key, 0) + 1
        if 'depth' in c:
            key = 'depth_%d' % c['depth']
            d[key] = d.get(key, 0) + 1
    return d


TERMS = [['val', 5], ['val', 'done'], ['val', None], ['exn', ['user', 'boom']], ['cancel']]


def generate(tier, rng, around=None):
    cases = []
    if tier == 'widen':
        cases += list(around or [])
    maxd = {'quick': 4, 'thorough': 5, 'widen': 4}[tier]
    for kind in ('unwrap', 'plum', 'rpc'):
        for k in range(1, maxd + 1):
            for order in itertools.permutations(range(k)):
                if kind != 'unwrap' and k >= 4 and tier == 'quick' and rng.random() < 0.5:
                    continue
                for t in TERMS:
                    cases.append({'kind': kind, 'depth': k, 'term': t, 'order': list(order)})
    for coro in (['val', 1], ['val', None], ['exn', ['user', 'x']], ['val', 'a']):
        cases.append({'kind': 'task', 'coro': coro})
        for n in range(0, 5 if tier != 'thorough' else 6):
            for ops in itertools.product(['run', 'cancel'], repeat=n):
                cases.append({'kind': 'action', 'coro': coro, 'ops': list(ops)})
    # a coroutine that fails with exactly the communicator's CancelledError (it asked a cancelled reply for its result): the task
    # future ends with THAT exception, it is not cancelled and not left pending
    cases.append({'kind': 'task', 'coro': ['exn', ['py', 'CancelledError']]})
    return {'cases': cases, 'exhaustive': True,
            'scope': 'every depth <= %d x every completion order x 5 terminal outcomes for 3 adapters; every run/cancel sequence of length <= 4' % maxd}


def shrink_candidates(case):
    if case['kind'] == 'action':
        for i in range(len(case['ops'])):
            yield dict(case, ops=case['ops'][:i] + case['ops'][i + 1:])
    elif 'depth' in case and case['depth'] > 1:
        k = case['depth'] - 1
        yield dict(case, depth=k, order=[i for i in case['order'] if i < k])
