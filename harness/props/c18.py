"""C18 — Process.current() is the process whose code is running.

A case is a table of scripted process definitions (steps with awaits, children via launch / nested execute(),
call_soon callbacks, control calls), the root processes, environment events placed between loop callbacks and a
list of choices saying WHICH ready callback the controlled scheduler runs next.  Real plumpy.Process subclasses
interpret the scripts; Process.current() is sampled inside every generated function, hook and callback and after
every await.  The chronological log (samples interleaved with the schedule markers) is what the Coq model
(coq/Comms/Ctx.v) has to reproduce when it replays the schedule the real run followed."""
import asyncio
import contextlib
import contextvars
import json
import warnings

import coqio
from coqio import c_list, c_nat, c_opt

PROP = 'C18'
CORR_MODULE = 'Ctx Corr_C18'
CASE_TYPE = 'C18_case'
MODEL_FN = 'c18_model'
SHARD = 120
RULE = ('case = table of <= 6 scripted processes (1-3 steps each, awaits, out(), call_soon callbacks, children via launch and '
        'nested execute(), control calls kill/pause/play/resume from steps, callbacks and from outside) x environment events '
        'between loop callbacks x choice of the ready callback to run next; non-trivial = code of >= 2 processes sampled '
        'Process.current() inside a scope and the loop switched tasks >= 3 times, or a child ran with a non-empty inherited '
        'stack; distinct = distinct case')
ASSUMPTIONS = ['single event-loop thread; every asyncio Task owns a copy of its creator\'s context (CPython contextvars, not verified)',
               'hooks, steps and callbacks of the generated processes do nothing but sample, await sleep(0), out(), call_soon, '
               'launch/execute children and issue control calls',
               'kill and pause/play requests are not mixed on one process; processes that Wait are not paused; nested children are '
               'neither paused nor made to Wait (known life-cycle findings D9/D16/D17/D22 live there; not this property)']
TRUSTED_EXTRA = ['the schedule is an INPUT of the model taken from the real run (which task ran, where nested loops returned): '
                 'the model is not asked to predict asyncio\'s FIFO order, the theorems quantify over every schedule',
                 'nest_asyncio re-entrancy is modelled as "the suspended caller stays on the call stack while other tasks run"']

HOOKS = {
    'on_create': 'HCreate', 'on_run': 'HRun', 'on_running': 'HRunning', 'on_exit_running': 'HExitRunning',
    'on_wait': 'HWait', 'on_waiting': 'HWaiting', 'on_exit_waiting': 'HExitWaiting', 'on_finish': 'HFinish',
    'on_finished': 'HFinished', 'on_kill': 'HKill', 'on_killed': 'HKilled', 'on_except': 'HExcept',
    'on_excepted': 'HExcepted', 'on_terminated': 'HTerminated', 'on_close': 'HClose', 'on_pausing': 'HPausing',
    'on_paused': 'HPaused', 'on_playing': 'HPlaying',
}
SCOPED = {'step': 'KStep', 'cont': 'KCont', 'emitting': 'KOutEmitting', 'emitted': 'KOutEmitted', 'callback': 'KCallback'}
CTL = {'kill': 'CKill', 'resume': 'CResume', 'pause': 'CPause', 'play': 'CPlay'}
TICK_LIMIT = 600


# ------------------------------------------------------------------ Python -> Gallina
def c_kind(k):
    return SCOPED[k] if k in SCOPED else '(KHook %s)' % HOOKS[k]


def c_action(a):
    k = a[0]
    if k == 'sample':
        return 'ASample'
    if k == 'yield':
        return 'AYield'
    if k == 'out':
        return 'AOut'
    if k == 'call_soon':
        return '(ACallSoon %d %d)' % (a[1], a[2])
    if k == 'launch':
        return '(ALaunch %d)' % a[1]
    if k == 'exec':
        return '(AExec %d)' % a[1]
    if k == 'ctl':
        return '(ACtl %d %s)' % (a[1], CTL[a[2]])
    if k == 'raise':
        return 'ARaise'
    raise ValueError(a)


def c_eact(a):
    k = a[0]
    if k == 'start':
        return '(EStart %d)' % a[1]
    if k == 'ctl':
        return '(ECtl %d %s)' % (a[1], CTL[a[2]])
    if k == 'call_soon':
        return '(ECallSoon %d %d)' % (a[1], a[2])
    raise ValueError(a)


def c_def(d):
    steps = c_list(['(%s, %s)' % (c_list([c_action(a) for a in body]), 'LkWait' if lk == 'wait' else 'LkContinue')
                    for body, lk in d['steps']])
    cbs = c_list([c_list([c_action(a) for a in body]) for body in d.get('cbs', [])])
    return '(mk_pdef %s %s)' % (steps, cbs)


def model_log(obs):
    """the part of the log the model has to reproduce (probe / spawn / nest entries are oracle-only)"""
    return [e for e in obs['log'] if e[0] in ('obs', 'run', 'ret', 'ext', 'enter', 'exit')]


def to_coq(case, obs):
    sched, log = [], []
    for e in model_log(obs):
        if e[0] == 'run':
            sched.append('(SRun %d)' % e[1])
            log.append('(ORun %d)' % e[1])
        elif e[0] == 'ret':
            sched.append('SRet')
            log.append('ORet')
        elif e[0] == 'ext':
            sched.append('(SExt %s)' % c_list([c_eact(a) for a in obs['exts'][e[1]]]))
            log.append('OExt')
        elif e[0] == 'enter':
            log.append('(OEnter %d %d %s)' % (e[1], e[2], c_list(['%d' % x for x in e[3]])))
        elif e[0] == 'exit':
            log.append('(OExit %d %d %s)' % (e[1], e[2], c_list(['%d' % x for x in e[3]])))
        else:
            log.append('(OCode %d %s %s)' % (e[1], c_kind(e[2]), c_opt(e[3], lambda n: '%d' % n)))
    return '(mk_c18 %s %s %s %s)' % (c_list([c_def(d) for d in case['defs']]), c_list(sched), c_nat(4000), c_list(log))


# ------------------------------------------------------------------ the real thing
class UserError(Exception):
    pass


class HarnessError(Exception):
    pass


ENV = [None]
_CLS = {}


def _cur():
    import plumpy
    c = plumpy.Process.current()
    return None if c is None else c.pid


def _stack():
    from plumpy import processes
    return [p.pid for p in processes.PROCESS_STACK.get()]


def _classes():
    """Process subclasses whose behaviour is the data in ENV[0] (built once, after plumpy is importable)."""
    if _CLS:
        return _CLS
    import plumpy
    from plumpy import process_states

    class Base(plumpy.Process):
        @classmethod
        def define(cls, spec):
            super().define(spec)
            spec.outputs.dynamic = True

        def __init__(self, *a, **kw):
            super().__init__(*a, **kw)
            ENV[0].procs[self._pid] = self

        # observe the anchor itself: the whole stack just before the scope is entered and just after it was left
        @contextlib.contextmanager
        def _process_scope(self):
            env = ENV[0]
            before = _stack()
            try:
                with super()._process_scope():
                    env.log.append(['enter', env.cur_tid, self._pid, before])
                    yield
            finally:
                env.log.append(['exit', env.cur_tid, self._pid, _stack()])

        # code that is NOT inside the scope but runs in the stepping task: what "other code" observes
        async def step(self):
            env = ENV[0]
            env.log.append(['probe', self.pid, 'before', _cur()])
            try:
                await super().step()
            finally:
                env.log.append(['probe', self.pid, 'after', _cur()])

        def on_output_emitting(self, output_port, value):
            ENV[0].log.append(['obs', self.pid, 'emitting', _cur()])
            return super().on_output_emitting(output_port, value)

        def on_output_emitted(self, output_port, value, dynamic):
            ENV[0].log.append(['obs', self.pid, 'emitted', _cur()])
            return super().on_output_emitted(output_port, value, dynamic)

        def _c18_ret(self, k):
            steps = ENV[0].case['defs'][self.pid]['steps']
            if k + 1 < len(steps):
                fn = getattr(self, 's%d' % (k + 1))
                if steps[k][1] == 'wait':
                    return process_states.Wait(fn)
                return process_states.Continue(fn)
            return k

    def mk_hook(name):
        def hook(self, *a, **kw):
            ENV[0].log.append(['obs', self._pid, name, _cur()])
            return getattr(super(Base, self), name)(*a, **kw)
        hook.__name__ = name
        return hook

    for h in HOOKS:
        setattr(Base, h, mk_hook(h))

    def mk_async(k):
        async def fn(self):
            env = ENV[0]
            steps = env.case['defs'][self.pid]['steps']
            if k < len(steps):
                await env.interp_async(self, 'step' if k == 0 else 'cont', steps[k][0])
            return self._c18_ret(k)
        fn.__name__ = 'run' if k == 0 else 's%d' % k
        return fn

    def mk_sync(k):
        def fn(self):
            env = ENV[0]
            steps = env.case['defs'][self.pid]['steps']
            if k < len(steps):
                env.interp_sync(self, 'step' if k == 0 else 'cont', steps[k][0])
            return self._c18_ret(k)
        fn.__name__ = 'run' if k == 0 else 's%d' % k
        return fn

    ns_a = {('run' if k == 0 else 's%d' % k): mk_async(k) for k in range(8)}
    ns_s = {('run' if k == 0 else 's%d' % k): mk_sync(k) for k in range(8)}
    _CLS['async'] = type('C18Async', (Base,), ns_a)
    _CLS['sync'] = type('C18Sync', (Base,), ns_s)
    return _CLS


def has_yield(body):
    return any(a[0] == 'yield' for a in body)


class Env:
    def __init__(self, case):
        import nest_asyncio

        class Loop(asyncio.SelectorEventLoop):
            pass

        self.case = case
        self.log = []
        self.procs = {}
        self.errors = []
        self.exts = []
        self.ntasks = 0
        self.cur_tid = None
        self.loop = Loop()
        nest_asyncio.apply(self.loop)
        orig = Loop._run_once

        def guarded(lp):
            if not lp._ready and not lp._scheduled:
                raise HarnessError('nested loop has nothing left to run')
            return orig(lp)
        Loop._run_once = guarded
        env = self

        class LTask(asyncio.tasks._PyTask):
            def _Task__step(self, exc=None):
                env.log.append(['run', self.c18_tid])
                prev, env.cur_tid = env.cur_tid, self.c18_tid
                try:
                    return super()._Task__step(exc)
                finally:
                    env.cur_tid = prev

        def factory(loop, coro, **kw):
            t = LTask.__new__(LTask)
            t.c18_tid = env.ntasks
            env.ntasks += 1
            env.log.append(['spawn', t.c18_tid, _cur()])
            t.__init__(coro, loop=loop, **kw)
            return t
        self.loop.set_task_factory(factory)
        self.loop.set_exception_handler(self._on_error)
        asyncio.set_event_loop(self.loop)

    def _on_error(self, loop, context):
        if 'never retrieved' in context.get('message', ''):
            return
        self.errors.append('%s %r' % (context.get('message'), context.get('exception')))

    def cls_for(self, p):
        d = self.case['defs'][p]
        sync = self.case.get('sync') and not any(has_yield(b) for b, _ in d['steps'])
        return _classes()['sync' if sync else 'async']

    # ---- the scripts
    def do_action(self, proc, kind, a):
        k = a[0]
        if k == 'sample':
            self.log.append(['obs', proc.pid, kind, _cur()])
        elif k == 'out':
            proc.out('x', 1)
        elif k == 'call_soon':
            target = self.procs.get(a[1])
            if target is not None:
                target.call_soon(self.callback(target, a[2]))
        elif k == 'launch':
            proc.launch(self.cls_for(a[1]), pid=a[1])
        elif k == 'exec':
            child = self.cls_for(a[1])(pid=a[1], loop=proc.loop)
            self.log.append(['nest'])
            try:
                child.execute()
            except HarnessError as e:
                self.errors.append(repr(e))
            except Exception:
                pass
            self.log.append(['ret'])
        elif k == 'ctl':
            self.ctl(a[1], a[2])
        elif k == 'raise':
            raise UserError('boom')
        else:
            raise HarnessError('unknown action %r' % (a,))

    def ctl(self, q, op):
        target = self.procs.get(q)
        if target is None:
            return
        try:
            getattr(target, op)()
        except HarnessError as e:
            self.errors.append(repr(e))
        except Exception:
            pass

    def interp_sync(self, proc, kind, body):
        for a in body:
            self.do_action(proc, kind, a)

    async def interp_async(self, proc, kind, body):
        for a in body:
            if a[0] == 'yield':
                await asyncio.sleep(0)
            else:
                self.do_action(proc, kind, a)

    def callback(self, target, cb):
        cbs = self.case['defs'][target.pid].get('cbs', [])
        body = cbs[cb] if cb < len(cbs) else []
        env = self
        if self.case.get('sync') and not has_yield(body):
            def fn():
                env.interp_sync(target, 'callback', body)
        else:
            async def fn():
                await env.interp_async(target, 'callback', body)
        return fn

    # ---- the environment
    def ext(self, acts):
        self.log.append(['ext', len(self.exts)])
        self.exts.append(acts)
        self.cur_tid = self.ntasks
        self.ntasks += 1           # the model gives the environment's code a task id of its own

        def go():
            for a in acts:
                if a[0] == 'start':
                    p = self.cls_for(a[1])(pid=a[1], loop=self.loop)
                    self.loop.create_task(p.step_until_terminated())
                elif a[0] == 'ctl':
                    self.ctl(a[1], a[2])
                elif a[0] == 'call_soon' and a[1] in self.procs:
                    self.procs[a[1]].call_soon(self.callback(self.procs[a[1]], a[2]))
        asyncio._set_running_loop(self.loop)
        try:
            contextvars.Context().run(go)
        finally:
            asyncio._set_running_loop(None)

    def tick(self, choice):
        ready = self.loop._ready
        live = [i for i, h in enumerate(ready) if not h._cancelled]
        if not live:
            ready.clear()
            return False
        i = live[choice % len(live)]
        h = ready[i]
        del ready[i]
        asyncio._set_running_loop(self.loop)
        try:
            h._run()
        finally:
            asyncio._set_running_loop(None)
        return True

    def close(self):
        self.loop.set_exception_handler(lambda l, c: None)
        try:
            for t in asyncio.all_tasks(self.loop):
                t.cancel()
            for _ in range(200):
                if not self.tick(0):
                    break
        except Exception:
            pass
        asyncio.set_event_loop(None)
        try:
            self.loop.close()
        except Exception:
            pass


def run_impl(case):
    warnings.simplefilter('ignore')
    import plumpy  # noqa: F401
    env = Env(case)
    ENV[0] = env
    env_samples = []
    try:
        env.ext([['start', r] for r in case['roots']])
        pending = sorted(case.get('ext', []), key=lambda e: e[0])
        choices = case.get('choices', [])
        ticks = 0
        while ticks < TICK_LIMIT:
            while pending and pending[0][0] <= ticks:
                env.ext(pending.pop(0)[1])
                env_samples.append(_cur())
            if not env.tick(choices[ticks] if ticks < len(choices) else 0):
                if pending:
                    env.ext(pending.pop(0)[1])
                    continue
                break
            env_samples.append(_cur())
            ticks += 1
        else:
            env.errors.append('tick limit reached')
        log = [list(e) for e in env.log]
        return {'log': log, 'exts': env.exts, 'env': env_samples, 'errors': list(env.errors), 'ticks': ticks}
    finally:
        env.close()
        ENV[0] = None


# ------------------------------------------------------------------ oracle: the property, directly on the real log
def oracle(case, obs):
    if obs['errors']:
        return {'signature': 'harness_error', 'kind': 'harness', 'errors': obs['errors'][:3]}
    # (1) code of process p sees current() == p
    hook_fail = None
    for n, e in enumerate(obs['log']):
        if e[0] != 'obs':
            continue
        _, who, kind, cur = e
        if cur != who:
            if kind in SCOPED:
                return {'signature': 'current_is_not_the_running_process_in_' + kind, 'kind': kind, 'at': n,
                        'who': who, 'current': cur}
            if hook_fail is None:
                hook_fail = {'signature': 'lifecycle_hook_runs_outside_process_scope', 'kind': 'hook', 'hook': kind, 'at': n,
                             'who': who, 'current': cur}
    # (2) once that code returned or yielded, other code observes the previous value:
    #     the environment never sees a process; around every step the stepping task sees what it saw when created
    for v in obs['env']:
        if v is not None:
            return {'signature': 'process_stack_leaks_into_the_environment', 'kind': 'restore', 'current': v}
    # every scope exit restores exactly the stack its entry found (per task, well bracketed)
    opened = {}
    for n, e in enumerate(obs['log']):
        if e[0] == 'enter':
            opened.setdefault(e[1], []).append((e[2], e[3]))
        elif e[0] == 'exit':
            st = opened.get(e[1], [])
            if not st or st[-1] != (e[2], e[3]):
                return {'signature': 'scope_exit_does_not_restore_the_entry_stack', 'kind': 'restore', 'at': n, 'who': e[2],
                        'stack_after': e[3], 'entry': list(st[-1]) if st else None}
            st.pop()
    base, cur_task, nest = {}, None, []
    for n, e in enumerate(obs['log']):
        if e[0] == 'spawn':
            base[e[1]] = e[2]
        elif e[0] == 'run':
            cur_task = e[1]
        elif e[0] == 'nest':
            nest.append(cur_task)
        elif e[0] == 'ret':
            cur_task = nest.pop() if nest else None
        elif e[0] == 'ext':
            cur_task = None
        elif e[0] == 'probe':
            if cur_task is None or cur_task not in base:
                return {'signature': 'harness_error', 'kind': 'harness', 'errors': ['probe outside a task at %d' % n]}
            if e[3] != base[cur_task]:
                return {'signature': 'previous_value_not_restored_' + e[2] + '_step', 'kind': 'restore', 'at': n,
                        'who': e[1], 'current': e[3], 'expected': base[cur_task]}
    return hook_fail


def _switches(obs):
    runs = [e[1] for e in obs['log'] if e[0] == 'run']
    return sum(1 for a, b in zip(runs, runs[1:]) if a != b)


def nontrivial(case, obs):
    scoped = {e[1] for e in obs['log'] if e[0] == 'obs' and e[2] in SCOPED}
    inherited = any(e[0] == 'spawn' and e[2] is not None for e in obs['log'])
    return (len(scoped) >= 2 and _switches(obs) >= 3) or inherited


def distribution(cases, obs):
    d = {'processes': {}, 'actions': {}, 'samples_by_kind': {}, 'task_switches': {}, 'nested_exec_returns': 0,
         'non_fifo_cases': 0, 'env_events': 0, 'sync_functions_cases': 0}
    for c, o in zip(cases, obs):
        n = len(c['defs'])
        d['processes'][str(n)] = d['processes'].get(str(n), 0) + 1
        for df in c['defs']:
            for body in [b for b, _ in df['steps']] + df.get('cbs', []):
                for a in body:
                    key = a[0] + ('_' + a[2] if a[0] == 'ctl' else '')
                    d['actions'][key] = d['actions'].get(key, 0) + 1
        for e in o['log']:
            if e[0] == 'obs':
                k = e[2] if e[2] in SCOPED else 'hook'
                d['samples_by_kind'][k] = d['samples_by_kind'].get(k, 0) + 1
            elif e[0] == 'ret':
                d['nested_exec_returns'] += 1
        sw = _switches(o)
        key = '0-2' if sw < 3 else '3-9' if sw < 10 else '10+'
        d['task_switches'][key] = d['task_switches'].get(key, 0) + 1
        if any(c.get('choices', [])):
            d['non_fifo_cases'] += 1
        if c.get('sync'):
            d['sync_functions_cases'] += 1
        d['env_events'] += len(c.get('ext', []))
    return d


# ------------------------------------------------------------------ generators
S, Y, O = ['sample'], ['yield'], ['out']


def mkdef(steps, cbs=None):
    return {'steps': [[b, lk] for b, lk in steps], 'cbs': cbs or []}


def small_bodies():
    return [[S], [S, Y, S], [S, Y, S, Y, S], [S, O, Y, S], [Y, S, O]]


def gen_systematic(tier):
    cases = []
    bodies = small_bodies()
    # A: two / three roots with async steps, every combination of small bodies, FIFO and two other orders
    for b0 in bodies:
        for b1 in bodies:
            for ch in ([], [1, 0, 1, 1, 0, 1], [0, 1, 1, 0, 0, 1, 1]):
                cases.append({'defs': [mkdef([(b0, 'continue')]), mkdef([(b1, 'continue'), ([S, Y, S], 'continue')])],
                              'roots': [0, 1], 'choices': ch})
    for b0 in bodies[:3]:
        for b1 in bodies[1:4]:
            cases.append({'defs': [mkdef([(b0, 'continue')]), mkdef([(b1, 'continue')]), mkdef([([S, Y, O, S], 'continue')])],
                          'roots': [0, 1, 2], 'choices': [2, 0, 1, 1, 0, 2, 0]})
    # B: a child launched / executed at every position of the parent's step, next to a second root
    parent = [S, Y, S, Y, S]
    for how in ('launch', 'exec'):
        for pos in range(len(parent) + 1):
            for cb in bodies[:4]:
                for ch in ([], [1, 1, 0, 2, 0, 1]):
                    body = parent[:pos] + [[how, 2], S] + parent[pos:]
                    cases.append({'defs': [mkdef([(body, 'continue'), ([S], 'continue')]), mkdef([([S, Y, S, Y, S], 'continue')]),
                                           mkdef([(cb, 'continue'), ([S, O], 'continue')])],
                                  'roots': [0, 1], 'choices': ch})
    # grandchildren: exec inside launch, launch inside exec, exec inside exec
    for h1 in ('launch', 'exec'):
        for h2 in ('launch', 'exec'):
            for ch in ([], [1, 0, 2, 1]):
                cases.append({'defs': [mkdef([([S, [h1, 1], S, Y, S], 'continue')]),
                                       mkdef([([S, Y, [h2, 2], S, Y, S], 'continue')]),
                                       mkdef([([S, Y, S, O], 'continue')]),
                                       mkdef([([S, Y, S, Y, S], 'continue')])],
                              'roots': [0, 3], 'choices': ch})
    # C: call_soon to self / the other root / the parent, sync and async callbacks, callbacks that yield
    for cbody in ([S], [S, Y, S], [S, O], [S, ['call_soon', 0, 1], Y, S]):
        for tgt in (0, 1):
            for pos in (0, 1, 3):
                for sync in (False, True):
                    body = [S, Y, S]
                    body = body[:pos] + [['call_soon', tgt, 0]] + body[pos:]
                    cases.append({'defs': [mkdef([([S, Y, S], 'continue')], [cbody, [S]]),
                                           mkdef([(body, 'continue'), ([S], 'continue')], [cbody, [S]])],
                                  'roots': [0, 1], 'sync': sync})
    for cbody in ([S], [S, Y, S]):
        for how in ('launch', 'exec'):
            cases.append({'defs': [mkdef([([S, [how, 1], S, Y, S], 'continue')], [cbody]),
                                   mkdef([([S, ['call_soon', 0, 0], Y, S, ['call_soon', 1, 0], S], 'continue')], [cbody])],
                          'roots': [0]})
    # D: control calls.  kill from outside at every callback boundary; kill of a fresh child by its parent; of a
    #    sibling; of oneself from a callback; wait / resume; pause / play; a raising callback
    prog = [mkdef([([S, Y, S, Y, S], 'continue'), ([S], 'continue')]), mkdef([([S, Y, S], 'continue')])]
    for at in range(0, 7):
        for tgt in (0, 1):
            cases.append({'defs': prog, 'roots': [0, 1], 'ext': [[at, [['ctl', tgt, 'kill']]]]})
            cases.append({'defs': prog, 'roots': [0, 1], 'ext': [[at, [['ctl', tgt, 'pause']]], [at + 2, [['ctl', tgt, 'play']]]]})
    for how in ('launch', 'exec'):
        for pos in (0, 1):
            body = [S, [how, 1]] + [Y] * pos + [['ctl', 1, 'kill'], S, Y, S]
            cases.append({'defs': [mkdef([(body, 'continue')]), mkdef([([S, Y, S], 'continue'), ([S], 'continue')])], 'roots': [0]})
    cases.append({'defs': [mkdef([([S, Y, ['ctl', 1, 'kill'], S, Y, S], 'continue')]), mkdef([([S, Y, S, Y, S], 'continue')])],
                  'roots': [0, 1]})
    cases.append({'defs': [mkdef([([S, ['call_soon', 0, 0], Y, S, Y, S], 'continue')], [[S, ['ctl', 0, 'kill'], S]])], 'roots': [0]})
    cases.append({'defs': [mkdef([([S, ['ctl', 0, 'kill'], S, Y, S], 'continue'), ([S], 'continue')])], 'roots': [0]})
    for at in range(0, 6):
        cases.append({'defs': [mkdef([([S, Y, S], 'wait'), ([S, O], 'continue')]), mkdef([([S, Y, S, Y, S], 'continue')])],
                      'roots': [0, 1], 'ext': [[at, [['ctl', 0, 'resume']]], [at + 3, [['ctl', 0, 'resume']]]]})
        cases.append({'defs': [mkdef([([S], 'wait'), ([S, O], 'continue')]),
                               mkdef([([S, Y, S, Y, ['ctl', 0, 'resume'], S], 'continue')])],
                      'roots': [0, 1], 'ext': [[at, [['ctl', 0, 'kill']]]]})
    for rb in ([S, ['raise']], [S, Y, S, ['raise'], S]):
        for at in (0, 1, 2):
            cases.append({'defs': [mkdef([([S, Y, S, Y, S], 'continue'), ([S], 'continue')], [rb]), mkdef([([S, Y, S], 'continue')])],
                          'roots': [0, 1], 'ext': [[at, [['call_soon', 0, 0]]]]})
    cases.append({'defs': [mkdef([([S, Y, S, ['raise'], S], 'continue'), ([S], 'continue')]), mkdef([([S, Y, S], 'continue')])],
                  'roots': [0, 1]})
    return cases


class Gen:
    """random programs: a tree of processes (every definition is instantiated at most once, every callback
    is scheduled at most once; call_soon targets are the process itself, an ancestor or a root, which exist)"""

    def __init__(self, rng, big):
        self.rng = rng
        self.big = big
        self.defs = []
        self.flags = []       # per def: {'exec': nested somewhere below an execute(), 'waits': has a Wait link, 'anc': ancestors}
        self.budget = rng.randint(0, 4 if big else 3)
        self.cbdepth = 0
        self.roots = []

    def alloc(self, anc, execd):
        self.defs.append({'steps': [], 'cbs': []})
        self.flags.append({'exec': execd, 'waits': False, 'anc': anc})
        return len(self.defs) - 1

    def fill(self, p):
        rng = self.rng
        nsteps = rng.choice([1, 1, 2, 2, 3])
        for k in range(nsteps):
            body = self.body(p, rng.randint(1, 6 if self.big else 5), True)
            lk = 'continue'
            if not self.flags[p]['exec'] and k + 1 < nsteps and rng.random() < 0.2:
                lk = 'wait'
                self.flags[p]['waits'] = True
            self.defs[p]['steps'].append([body, lk])

    def body(self, p, n, in_step):
        rng = self.rng
        out = [S] if rng.random() < 0.8 else []
        for _ in range(n):
            r = rng.random()
            if r < 0.30:
                out += [Y, S]
            elif r < 0.40:
                out += [O]
            elif r < 0.52:
                tgt = rng.choice([p] + self.flags[p]['anc'] + self.roots)
                tcbs = self.defs[tgt]['cbs']
                if self.cbdepth < 2 and len(tcbs) < 4:
                    idx = len(tcbs)
                    tcbs.append([])
                    self.cbdepth += 1
                    cb_body = self.body(tgt, rng.randint(1, 3), False)
                    if rng.random() < 0.12:
                        cb_body.append(['raise'])
                    self.cbdepth -= 1
                    tcbs[idx] = cb_body
                    out += [['call_soon', tgt, idx]]
            elif r < 0.66 and in_step and self.budget > 0:
                self.budget -= 1
                how = rng.choice(['launch', 'exec'])
                c = self.alloc(self.flags[p]['anc'] + [p], how == 'exec' or self.flags[p]['exec'])
                self.fill(c)
                out += [[how, c], S]
            elif r < 0.76:
                out += [['ctl', -1, 'x']]          # target chosen once the whole tree exists
            elif r < 0.80 and in_step:
                out += [['raise']]
                break
            else:
                out += [S]
        return out

    def case(self):
        rng = self.rng
        for _ in range(rng.choice([1, 2, 2, 2, 3])):
            self.roots.append(self.alloc([], False))
        for r in list(self.roots):
            self.fill(r)
        n = len(self.defs)
        # control calls: kill and pause/play never on the same process; pause only where it cannot block a nested loop
        killable = [p for p in range(n) if rng.random() < 0.6]
        pausable = [p for p in range(n) if p not in killable and not self.flags[p]['exec'] and not self.flags[p]['waits']]
        waiters = [p for p in range(n) if self.flags[p]['waits']]

        def pick():
            opts = [(q, 'kill') for q in killable] + [(q, 'resume') for q in waiters] * 2
            opts += [(q, 'pause') for q in pausable] + [(q, 'play') for q in pausable]
            return rng.choice(opts) if opts else None

        for d in self.defs:
            for body in [b for b, _ in d['steps']] + d['cbs']:
                for i in range(len(body)):
                    if body[i][0] == 'ctl' and body[i][1] == -1:
                        c = pick()
                        body[i] = S if c is None else ['ctl', c[0], c[1]]
        ext = []
        for _ in range(rng.choice([0, 0, 1, 2, 3])):
            c = pick()
            if c is not None:
                ext.append([rng.randint(0, 12), [['ctl', c[0], c[1]]]])
        for q in waiters:
            if rng.random() < 0.7:
                ext.append([rng.randint(2, 14), [['ctl', q, 'resume']]])
        for q in pausable:
            if rng.random() < 0.5:
                ext.append([rng.randint(8, 20), [['ctl', q, 'play']]])
        ext.sort(key=lambda e: e[0])
        choices = [] if rng.random() < 0.4 else [rng.randint(0, 3) for _ in range(40)]
        return {'defs': self.defs, 'roots': self.roots, 'ext': ext, 'choices': choices, 'sync': rng.random() < 0.3}


def gen_all_orders(tier):
    """small programs under EVERY choice of the ready callback for the first 6 callbacks (then FIFO)"""
    import itertools
    progs = [
        # two roots, the first launches a child and schedules a callback on the second
        {'defs': [mkdef([([S, ['launch', 2], S, Y, ['call_soon', 1, 0], S], 'continue'), ([S], 'continue')]),
                  mkdef([([S, Y, S, Y, S], 'continue')], [[S, Y, S]]),
                  mkdef([([S, Y, O, S], 'continue')])], 'roots': [0, 1]},
        # a nested execute() next to a concurrently stepping root and a callback
        {'defs': [mkdef([([S, ['call_soon', 0, 0], Y, ['exec', 2], S], 'continue')], [[S, Y, S]]),
                  mkdef([([S, Y, S, Y, S], 'continue'), ([S], 'continue')]),
                  mkdef([([S, Y, S], 'continue')])], 'roots': [0, 1]},
        # three roots, one killed from a sibling's step
        {'defs': [mkdef([([S, Y, S, Y, S], 'continue')]), mkdef([([S, Y, ['ctl', 0, 'kill'], S], 'continue')]),
                  mkdef([([S, Y, S], 'continue'), ([S, O], 'continue')])], 'roots': [0, 1, 2]},
    ]
    width = 3 if tier == 'thorough' else 2
    cases = []
    for p in (progs if tier != 'quick' else progs[:2]):
        for ch in itertools.product(range(width), repeat=6):
            cases.append(dict(p, choices=list(ch)))
    return cases


def generate(tier, rng, around=None):
    cases = gen_systematic(tier) + gen_all_orders(tier)
    nrand = {'quick': 500, 'thorough': 6000, 'widen': 1500}[tier]
    if tier == 'widen':
        # the diverging cases again plus a larger random volume; their reductions are NOT added here: a reduction may
        # leave the generator's envelope (e.g. a nested child that waits), shrinking proper is done by the driver
        cases += list(around or [])
    for i in range(nrand):
        cases.append(Gen(rng, big=(tier != 'quick' and i % 2 == 0)).case())
    if tier == 'thorough':
        # every systematic case again under several non-FIFO orders
        for c in gen_systematic(tier):
            for _ in range(2):
                cases.append(dict(c, choices=[rng.randint(0, 3) for _ in range(30)]))
    return {'cases': cases, 'exhaustive': False,
            'scope': 'systematic families (2-3 roots x 5 step shapes x 3 orders; child launched/executed at every position; '
                     'grandchildren; call_soon targets x positions x sync/async; control calls at every callback boundary); '
                     '%s small programs under every choice among the first %d ready callbacks for the first 6 loop callbacks; '
                     '+ %d random process trees' % ((3, 3, nrand) if tier == 'thorough' else (2, 2, nrand))}


def shrink_candidates(case):
    c = json.loads(json.dumps({k: v for k, v in case.items() if not k.startswith('_')}))
    if c.get('choices'):
        yield dict(c, choices=[])
    if c.get('sync'):
        yield dict(c, sync=False)
    for i in range(len(c.get('ext', []))):
        yield dict(c, ext=c['ext'][:i] + c['ext'][i + 1:])
    if len(c['roots']) > 1:
        for r in c['roots']:
            yield dict(c, roots=[x for x in c['roots'] if x != r])
    for p, d in enumerate(c['defs']):
        if len(d['steps']) > 1:
            d2 = dict(d, steps=d['steps'][:-1])
            yield dict(c, defs=c['defs'][:p] + [d2] + c['defs'][p + 1:])
        for si, (body, lk) in enumerate(d['steps']):
            for ai in range(len(body)):
                nb = body[:ai] + body[ai + 1:]
                d2 = dict(d, steps=d['steps'][:si] + [[nb, lk]] + d['steps'][si + 1:])
                yield dict(c, defs=c['defs'][:p] + [d2] + c['defs'][p + 1:])
        for ci, body in enumerate(d.get('cbs', [])):
            for ai in range(len(body)):
                nb = body[:ai] + body[ai + 1:]
                d2 = dict(d, cbs=d['cbs'][:ci] + [nb] + d['cbs'][ci + 1:])
                yield dict(c, defs=c['defs'][:p] + [d2] + c['defs'][p + 1:])
